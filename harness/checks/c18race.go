package checks

// C18 / C09: calls racing DB.Close (wp51, after the hunt of wp40).
//
// One trial = open a DB on the recording memory storage (preloaded keys in many small tables, random small
// options; plain, switched with SetReadOnly, or reopened with Options.ReadOnly), start N clients that hammer ONE kind
// of call (get, has, put, delete, writesmall, writelarge, iter, snap, tx, tx-nodiscard, compactfull, compactpart,
// sizeof, prop, stats, setro, close2, mixed), call Close at a random moment, wait for everybody under a watchdog.
//
// Oracle, per result of a call that raced Close: it completed normally with a correct answer (values carry their
// key, iterators are ordered and complete, sizes / table lists are not those of an empty DB), or it returned a
// closed-class error (ErrClosed, ErrSnapshotReleased, ErrIterReleased, "transaction already closed"); a write on a
// read-only DB returned ErrReadOnly or ErrClosed, never nil; never an internal error ("leveldb/table: reader
// released"), never a panic (recover() around every client call), never a hang (watchdog, goroutine dump).  A call
// issued after Close returned gets a closed-class error.  Afterwards every method of DB, of a snapshot and of a
// transaction held across Close returns a closed-class error, the storage has not been touched since Close returned
// (the recording storage counts), and a reopen shows every preloaded key (when no client wrote).
//
// Contract: no iterator is held across the CALL of Close.  An iterator whose creation ended before Close was
// called is used and released before the closer calls Close (the closer waits for them) or released unused; iterators
// whose creation overlapped or followed the call of Close are used.
//
// Widening (build tag verif, yield points x.*): x.stats (DB.Stats between db.ok() and the cache calls) and x.read.ok
// (SizeOf / GetProperty between db.ok() and taking the version) wait for a Close that is about to start to finish; x.write.ok (Put/Delete/Write between db.ok() and the select on the write
// lock) and x.otx.register (OpenTransaction before it registers db.tr) wait until Close has reached x.close.lock
// (between close(closeC) / its look at db.tr and the acquisition of the write lock), where Close itself pauses for a
// moment; x.close.closed and x.eh.close (compactionError's closeC arm before the give-back) are plain yields.

import (
	"bytes"
	"fmt"
	"os"
	"runtime"
	"runtime/debug"
	"strings"
	"sync"
	"sync/atomic"
	"time"

	"github.com/syndtr/goleveldb/leveldb"
	"github.com/syndtr/goleveldb/leveldb/iterator"
	"github.com/syndtr/goleveldb/leveldb/opt"
	"github.com/syndtr/goleveldb/leveldb/util"

	"verif/harness/rng"
	"verif/harness/stor"
)

type clrCfg struct {
	Kind      string `json:"kind"`
	Mode      string `json:"mode"` // plain | setro | openro
	Seed      uint64 `json:"seed"`
	Clients   int    `json:"clients"`
	CloseAtUs int    `json:"close_after_us"`
	Procs     int    `json:"gomaxprocs"`
	Widen     bool   `json:"yield_points_widen"`
}

type clrFinding struct {
	sig, msg string
}

type clrTrial struct {
	cfg   clrCfg
	db    *leveldb.DB
	st    *stor.Stor
	o     *opt.Options
	nkeys int

	closeSoon   atomic.Bool // the closer is about to call Close
	closeCalled atomic.Bool // set immediately before the call of Close
	closeDone   atomic.Bool // Close (the call that closed the DB) has returned
	atLock      atomic.Bool // Close has reached x.close.lock
	stop        atomic.Bool
	roSet       atomic.Bool // a SetReadOnly returned nil
	itersInUse  atomic.Int64
	calls       atomic.Int64
	raced       atomic.Int64 // calls that overlapped Close
	lateOps     atomic.Int64 // storage operations after Close returned
	lateOp      atomic.Value // first of them (string)

	hasTables       bool // SizeOf(everything) > 0 before the clients started
	readOnlyClients bool // no client writes: the contents are the preloaded keys

	mu       sync.Mutex
	findings []clrFinding
	leaked   []*leveldb.Transaction // transactions whose Commit returned ErrClosed, taken as final
	panicked bool
}

func (tr *clrTrial) report(sig, msg string) {
	tr.mu.Lock()
	if len(tr.findings) < 8 {
		tr.findings = append(tr.findings, clrFinding{sig, msg})
	}
	tr.mu.Unlock()
}

// the trial the yield points act on (trials run one after the other: VerifYield is global)
var clrCur atomic.Pointer[clrTrial]

func clrWait(cond func() bool, limit time.Duration) {
	dl := time.Now().Add(limit)
	for !cond() && time.Now().Before(dl) {
		time.Sleep(20 * time.Microsecond)
	}
}

func clrYield(p string) {
	tr := clrCur.Load()
	if tr == nil || !tr.cfg.Widen || len(p) < 2 || p[:2] != "x." {
		return
	}
	switch p {
	case "x.stats", "x.read.ok":
		// passed db.ok(): let a Close that is about to start run to completion first
		if tr.closeSoon.Load() && !tr.closeDone.Load() {
			clrWait(tr.closeDone.Load, 30*time.Millisecond)
		}
	case "x.write.ok":
		// passed db.ok(): reach the select on the write lock only when Close is past close(closeC)
		if tr.cfg.Mode != "plain" && tr.closeSoon.Load() && !tr.atLock.Load() {
			clrWait(tr.atLock.Load, 5*time.Millisecond)
			time.Sleep(100 * time.Microsecond)
		}
	case "x.otx.register":
		// holds the write lock, not yet registered: let Close look at db.tr first
		if tr.closeSoon.Load() && !tr.atLock.Load() {
			clrWait(tr.atLock.Load, 5*time.Millisecond)
		}
	case "x.close.lock":
		tr.atLock.Store(true)
		time.Sleep(400 * time.Microsecond)
	case "x.close.closed", "x.eh.close":
		runtime.Gosched()
	}
}

const (
	clrNormal = iota
	clrClosed
	clrOdd
)

func clrClassify(err error) int {
	switch err {
	case nil, leveldb.ErrNotFound, leveldb.ErrReadOnly:
		return clrNormal
	case leveldb.ErrClosed, leveldb.ErrSnapshotReleased, leveldb.ErrIterReleased:
		return clrClosed
	}
	if err.Error() == "leveldb: transaction already closed" {
		return clrClosed
	}
	return clrOdd
}

// call runs one API call, classifies its result and applies the oracle; it returns true when the result is a
// closed-class error (the client stops).
func (tr *clrTrial) call(what string, write bool, f func() error) bool {
	pre := tr.closeDone.Load()
	preCalled := tr.closeCalled.Load()
	preRO := tr.cfg.Mode != "plain" || tr.roSet.Load()
	err := f()
	tr.calls.Add(1)
	if !preCalled && tr.closeCalled.Load() {
		tr.raced.Add(1)
	}
	cl := clrClassify(err)
	name := clrName(what)
	if cl == clrOdd {
		if strings.Contains(err.Error(), "reader released") {
			tr.report(name+":close-race:internal-error:reader-released", fmt.Sprintf("%s racing Close returned the table reader's internal error %q instead of ErrClosed", what, err))
		} else {
			tr.report(name+":close-race:odd-error", fmt.Sprintf("%s racing Close returned %q", what, err))
		}
	}
	if pre && cl != clrClosed {
		tr.report(name+":after-close:not-a-closed-error", fmt.Sprintf("%s called after Close had returned: %v", what, err))
	}
	if err == leveldb.ErrReadOnly && !(tr.cfg.Mode != "plain" || tr.cfg.Kind == "setro" || tr.cfg.Kind == "mixed") {
		tr.report(name+":close-race:odd-error", fmt.Sprintf("%s returned ErrReadOnly on a DB nobody switched to read-only", what))
	}
	if write && preRO && err == nil {
		tr.report(name+":readonly-close-race:write-accepted", fmt.Sprintf("%s returned nil on a read-only DB (mode %s) while Close was running: it should return ErrReadOnly or ErrClosed", what, tr.cfg.Mode))
	}
	return cl == clrClosed
}

// clrName maps "DB.Get" to "get", "Transaction.Put" to "tx.put", …: the head of the signature.
func clrName(what string) string {
	w := strings.ToLower(what)
	w = strings.TrimPrefix(w, "db.")
	w = strings.Replace(w, "transaction.", "tx.", 1)
	w = strings.Replace(w, "snapshot.", "snapshot.", 1)
	if i := strings.IndexAny(w, "( "); i >= 0 {
		w = w[:i]
	}
	return w
}

func clrKey(i int) []byte { return []byte(fmt.Sprintf("k%05d", i)) }

func clrValue(k []byte, r *rng.R) []byte {
	n := 30 + r.Intn(90)
	v := make([]byte, 0, n+len(k)+4)
	v = append(v, "v-"...)
	v = append(v, k...)
	v = append(v, '-')
	for len(v) < cap(v) {
		v = append(v, byte('a'+r.Intn(26)))
	}
	return v
}

func (tr *clrTrial) checkKV(what string, k, v []byte) {
	if !bytes.HasPrefix(v, append(append([]byte("v-"), k...), '-')) {
		tr.report(clrName(what)+":close-race:wrong-value", fmt.Sprintf("%s: key %q value %.40q", what, k, v))
	}
}

func clrOptions(r *rng.R, kind string) *opt.Options {
	o := &opt.Options{
		WriteBuffer:                  r.Pick(4096, 8192, 16384),
		BlockSize:                    r.Pick(256, 512, 1024),
		CompactionTableSize:          r.Pick(2048, 4096, 8192),
		OpenFilesCacheCapacity:       r.Pick(1, 2, 3, 4, 1, 2, -1, 0),
		BlockCacheCapacity:           r.Pick(512, 1024, 4096, 512, -1),
		CompactionL0Trigger:          2,
		DisableLargeBatchTransaction: r.Bool(),
	}
	if r.Chance(1, 4) || (kind == "iter" && r.Bool()) {
		o.DisableBlockCache = true
	}
	if r.Chance(1, 4) {
		o.DisableBufferPool = true
	}
	if r.Chance(1, 3) {
		o.BlockCacheEvictRemoved = true
	}
	if r.Chance(1, 3) {
		o.IteratorSamplingRate = 64
	}
	if r.Chance(1, 3) {
		// pause ≥ slowdown ≥ trigger (a pause trigger at or below the compaction trigger livelocks the writer: configuration, not a defect)
		o.WriteL0SlowdownTrigger = 2 + r.Intn(2)
		o.WriteL0PauseTrigger = 3 + r.Intn(2)
	}
	if r.Chance(1, 3) {
		o.Compression = opt.NoCompression
	}
	if r.Chance(1, 4) {
		o.NoSync = true
	}
	if r.Chance(1, 5) {
		o.NoWriteMerge = true
	}
	if r.Chance(1, 4) {
		o.DisableSeeksCompaction = true
	}
	if r.Chance(1, 5) {
		o.MaxManifestFileSize = 512
	}
	return o
}

// clrNewTrial opens and preloads the DB and brings it into the mode of the trial.
func clrNewTrial(cfg clrCfg, r *rng.R) (*clrTrial, error) {
	tr := &clrTrial{cfg: cfg}
	tr.o = clrOptions(r, cfg.Kind)
	tr.st = stor.New()
	tr.st.KeepOps(false)
	db, err := leveldb.Open(tr.st, tr.o)
	if err != nil {
		return nil, fmt.Errorf("open: %v", err)
	}
	tr.nkeys = 120 + r.Intn(280)
	b := new(leveldb.Batch)
	for i := 0; i < tr.nkeys; i++ {
		k := clrKey(i)
		b.Put(k, clrValue(k, r))
		if b.Len() >= 16 || i == tr.nkeys-1 {
			if err := db.Write(b, nil); err != nil {
				return nil, fmt.Errorf("preload: %v", err)
			}
			b.Reset()
		}
	}
	switch r.Intn(3) {
	case 0:
		if err := db.CompactRange(util.Range{}); err != nil {
			return nil, fmt.Errorf("preload compact: %v", err)
		}
	case 1:
		for i := 0; i < tr.nkeys/2; i++ {
			k := clrKey(r.Intn(tr.nkeys))
			if err := db.Put(k, clrValue(k, r), nil); err != nil {
				return nil, fmt.Errorf("preload overwrite: %v", err)
			}
		}
	}
	switch cfg.Mode {
	case "setro":
		if err := db.SetReadOnly(); err != nil {
			return nil, fmt.Errorf("SetReadOnly: %v", err)
		}
	case "openro":
		if err := db.Close(); err != nil {
			return nil, fmt.Errorf("close before the read-only reopen: %v", err)
		}
		o2 := *tr.o
		o2.ReadOnly = true
		if db, err = leveldb.Open(tr.st, &o2); err != nil {
			return nil, fmt.Errorf("reopen read-only: %v", err)
		}
	}
	tr.db = db
	if sz, err := db.SizeOf([]util.Range{{Start: []byte("a"), Limit: []byte("z")}}); err == nil && len(sz) == 1 && sz[0] > 0 {
		tr.hasTables = true
	}
	return tr, nil
}

// ---- the calls --------------------------------------------------------------------------------------

type clrOp func(tr *clrTrial, r *rng.R) (closed bool)

var clrProps = []string{
	"leveldb.num-files-at-level0", "leveldb.num-files-at-level1", "leveldb.num-files-at-level2", "leveldb.num-files-at-level9",
	"leveldb.stats", "leveldb.iostats", "leveldb.writedelay", "leveldb.sstables", "leveldb.blockpool",
	"leveldb.cachedblock", "leveldb.openedtables", "leveldb.alivesnaps", "leveldb.aliveiters", "leveldb.compcount",
}

type clrReader interface {
	Get(key []byte, ro *opt.ReadOptions) ([]byte, error)
	Has(key []byte, ro *opt.ReadOptions) (bool, error)
}

func clrRO(r *rng.R) *opt.ReadOptions {
	switch r.Intn(3) {
	case 0:
		return nil
	case 1:
		return &opt.ReadOptions{DontFillCache: true}
	}
	return &opt.ReadOptions{}
}

func clrRange(tr *clrTrial, r *rng.R) *util.Range {
	switch r.Intn(3) {
	case 0:
		return nil
	case 1:
		a := r.Intn(tr.nkeys)
		return &util.Range{Start: clrKey(a), Limit: clrKey(a + 1 + r.Intn(50))}
	}
	return &util.Range{Start: clrKey(r.Intn(tr.nkeys))}
}

func clrGetOn(tr *clrTrial, r *rng.R, what string, rd clrReader, exact bool) bool {
	i := r.Intn(tr.nkeys + 5)
	k := clrKey(i)
	return tr.call(what, false, func() error {
		v, err := rd.Get(k, clrRO(r))
		if err == nil {
			tr.checkKV(what, k, v)
		} else if v != nil {
			tr.report(clrName(what)+":close-race:value-with-error", fmt.Sprintf("%s: %.30q with %v", what, v, err))
		}
		if exact && err == leveldb.ErrNotFound && i < tr.nkeys {
			tr.report(clrName(what)+":close-race:made-up-answer:not-found", fmt.Sprintf("%s(%q) racing Close: not found, but the key is stored and nobody writes", what, k))
		}
		return err
	})
}

func clrHasOn(tr *clrTrial, r *rng.R, what string, rd clrReader, exact bool) bool {
	i := r.Intn(tr.nkeys + 5)
	k := clrKey(i)
	return tr.call(what, false, func() error {
		ok, err := rd.Has(k, clrRO(r))
		if err != nil && ok {
			tr.report(clrName(what)+":close-race:value-with-error", fmt.Sprintf("%s: true with %v", what, err))
		}
		if exact && err == nil && ok != (i < tr.nkeys) {
			tr.report(clrName(what)+":close-race:made-up-answer:has", fmt.Sprintf("%s(%q) racing Close: %v, nobody writes", what, k, ok))
		}
		return err
	})
}

// clrIterate makes an iterator and, if the contract allows, uses it.  exact: the iterator ranges over the whole DB
// state (not a transaction's), and nobody writes.
func clrIterate(tr *clrTrial, r *rng.R, what string, exact bool, mk func(*util.Range, *opt.ReadOptions) iterator.Iterator) bool {
	pre := tr.closeDone.Load()
	before := tr.closeCalled.Load()
	rg := clrRange(tr, r)
	full := r.Chance(1, 3)
	if full {
		rg = nil
	}
	it := mk(rg, clrRO(r))
	after := tr.closeCalled.Load()
	tag := ""
	switch {
	case before:
		tag = "[iterator created after Close was called] "
	case after:
		tag = "[iterator whose creation overlapped the call of Close] "
		tr.raced.Add(1)
	default:
		// made before Close was called: it must be released before Close is called
		tr.itersInUse.Add(1)
		if tr.closeSoon.Load() {
			tr.itersInUse.Add(-1)
			it.Release()
			return false
		}
		defer tr.itersInUse.Add(-1)
	}
	defer it.Release()
	what = tag + what
	name := clrName(strings.TrimPrefix(what, tag))
	var prev []byte
	n := 0
	step := func() {
		tr.checkKV(what, it.Key(), it.Value())
		prev = append(prev[:0], it.Key()...)
		n++
	}
	if full {
		for ok := it.First(); ok; ok = it.Next() {
			if prev != nil && bytes.Compare(prev, it.Key()) >= 0 {
				tr.report(name+":close-race:wrong-order", fmt.Sprintf("%s: %q then %q", what, prev, it.Key()))
			}
			step()
		}
	} else {
		moves := 1 + r.Intn(6)
		switch r.Intn(3) {
		case 0:
			for ok, i := it.First(), 0; ok && i < moves; ok, i = it.Next(), i+1 {
				step()
			}
		case 1:
			for ok, i := it.Seek(clrKey(r.Intn(tr.nkeys))), 0; ok && i < moves; ok, i = it.Next(), i+1 {
				if prev != nil && bytes.Compare(prev, it.Key()) >= 0 {
					tr.report(name+":close-race:wrong-order", fmt.Sprintf("%s: %q then %q", what, prev, it.Key()))
				}
				step()
			}
		default:
			for ok, i := it.Last(), 0; ok && i < moves; ok, i = it.Prev(), i+1 {
				if prev != nil && bytes.Compare(prev, it.Key()) <= 0 {
					tr.report(name+":close-race:wrong-order", fmt.Sprintf("%s backward: %q then %q", what, prev, it.Key()))
				}
				step()
			}
		}
	}
	err := it.Error()
	tr.calls.Add(1)
	cl := clrClassify(err)
	if cl == clrOdd {
		if strings.Contains(err.Error(), "reader released") {
			tr.report(name+":close-race:internal-error:reader-released", fmt.Sprintf("%s: Error() = %q instead of ErrClosed", what, err))
		} else if strings.Contains(err.Error(), "corruption on index-block") {
			// the recycled index block of a reader released by force, read as garbage
			tr.report(name+":close-race:internal-error:index-block-corruption", fmt.Sprintf("%s: Error() = %q on an undamaged table", what, err))
		} else {
			tr.report(name+":close-race:odd-error", fmt.Sprintf("%s: Error() = %q", what, err))
		}
	}
	if pre && cl != clrClosed {
		tr.report(name+":after-close:not-a-closed-error", fmt.Sprintf("%s made after Close had returned: Error() = %v after %d entries", what, err, n))
	}
	if full && exact && err == nil && n != tr.nkeys {
		tr.report(name+":close-race:made-up-answer:short-scan", fmt.Sprintf("%s: a full scan ended after %d of %d keys with a nil error", what, n, tr.nkeys))
	}
	return cl == clrClosed
}

func clrOpGet(tr *clrTrial, r *rng.R) bool {
	return clrGetOn(tr, r, "DB.Get", tr.db, tr.readOnlyClients)
}
func clrOpHas(tr *clrTrial, r *rng.R) bool {
	return clrHasOn(tr, r, "DB.Has", tr.db, tr.readOnlyClients)
}

func clrOpPut(tr *clrTrial, r *rng.R) bool {
	k := clrKey(r.Intn(tr.nkeys))
	v := clrValue(k, r)
	var wo *opt.WriteOptions
	switch r.Intn(4) {
	case 0:
		wo = &opt.WriteOptions{Sync: true}
	case 1:
		wo = &opt.WriteOptions{NoWriteMerge: true}
	}
	return tr.call("DB.Put", true, func() error { return tr.db.Put(k, v, wo) })
}

func clrOpDelete(tr *clrTrial, r *rng.R) bool {
	k := clrKey(r.Intn(tr.nkeys))
	return tr.call("DB.Delete", true, func() error { return tr.db.Delete(k, nil) })
}

func clrBatch(tr *clrTrial, r *rng.R, minBytes int) *leveldb.Batch {
	b := new(leveldb.Batch)
	for sz := 0; sz < minBytes; {
		k := clrKey(r.Intn(tr.nkeys))
		if r.Chance(1, 5) {
			b.Delete(k)
			sz += len(k) + 8
		} else {
			v := clrValue(k, r)
			b.Put(k, v)
			sz += len(k) + len(v) + 8
		}
	}
	return b
}

func clrOpWriteSmall(tr *clrTrial, r *rng.R) bool {
	b := clrBatch(tr, r, 1+r.Intn(600))
	var wo *opt.WriteOptions
	if r.Chance(1, 4) {
		wo = &opt.WriteOptions{NoWriteMerge: true}
	}
	return tr.call("DB.Write(small)", true, func() error { return tr.db.Write(b, wo) })
}

func clrOpWriteLarge(tr *clrTrial, r *rng.R) bool {
	b := clrBatch(tr, r, tr.o.WriteBuffer+1+r.Intn(2000))
	return tr.call("DB.Write(large)", true, func() error { return tr.db.Write(b, nil) })
}

func clrOpIter(tr *clrTrial, r *rng.R) bool {
	return clrIterate(tr, r, "DB.NewIterator", tr.readOnlyClients, func(rg *util.Range, ro *opt.ReadOptions) iterator.Iterator { return tr.db.NewIterator(rg, ro) })
}

func clrOpSnap(tr *clrTrial, r *rng.R) bool {
	var snap *leveldb.Snapshot
	if tr.call("DB.GetSnapshot", false, func() (err error) { snap, err = tr.db.GetSnapshot(); return }) {
		if snap != nil {
			tr.report("getSnapshot:close-race:value-with-error", "GetSnapshot returned a snapshot and an error")
		}
		return true
	}
	defer func() {
		snap.Release()
		snap.Release()
		if _, err := snap.Get(clrKey(1), nil); err != leveldb.ErrSnapshotReleased {
			tr.report("snapshot.get:released:not-a-closed-error", fmt.Sprintf("Get on a released snapshot: %v", err))
		}
	}()
	closed := false
	for i, n := 0, 1+r.Intn(5); i < n && !closed; i++ {
		switch r.Intn(4) {
		case 0:
			closed = clrGetOn(tr, r, "Snapshot.Get", snap, tr.readOnlyClients)
		case 1:
			closed = clrHasOn(tr, r, "Snapshot.Has", snap, tr.readOnlyClients)
		case 2:
			closed = clrIterate(tr, r, "Snapshot.NewIterator", tr.readOnlyClients, func(rg *util.Range, ro *opt.ReadOptions) iterator.Iterator { return snap.NewIterator(rg, ro) })
		default:
			_ = snap.String()
		}
	}
	return closed
}

// clrOpTx: one transaction.  discard=false is the client that takes ErrClosed from Commit as final ("closing the DB
// discards the open transaction") and does not call Discard.
func clrTx(tr *clrTrial, r *rng.R, discard bool) bool {
	var tx *leveldb.Transaction
	if tr.call("DB.OpenTransaction", false, func() (err error) { tx, err = tr.db.OpenTransaction(); return }) {
		if tx != nil {
			tr.report("openTransaction:close-race:value-with-error", "OpenTransaction returned a transaction and an error")
		}
		return true
	}
	if tx == nil { // read-only
		return false
	}
	closed := false
	for i, n := 0, 1+r.Intn(6); i < n && !closed; i++ {
		switch r.Intn(7) {
		case 0, 1:
			k := clrKey(r.Intn(tr.nkeys))
			v := clrValue(k, r)
			closed = tr.call("Transaction.Put", false, func() error { return tx.Put(k, v, nil) })
		case 2:
			k := clrKey(r.Intn(tr.nkeys))
			closed = tr.call("Transaction.Delete", false, func() error { return tx.Delete(k, nil) })
		case 3:
			b := clrBatch(tr, r, 1+r.Intn(3000))
			closed = tr.call("Transaction.Write", false, func() error { return tx.Write(b, nil) })
		case 4:
			closed = clrGetOn(tr, r, "Transaction.Get", tx, false)
		case 5:
			closed = clrHasOn(tr, r, "Transaction.Has", tx, false)
		case 6:
			closed = clrIterate(tr, r, "Transaction.NewIterator", false, func(rg *util.Range, ro *opt.ReadOptions) iterator.Iterator { return tx.NewIterator(rg, ro) })
		}
	}
	if closed || r.Chance(2, 3) {
		if tr.call("Transaction.Commit", false, func() error { return tx.Commit() }) {
			if discard {
				tx.Discard()
			} else {
				tr.mu.Lock()
				tr.leaked = append(tr.leaked, tx)
				tr.mu.Unlock()
			}
			return true
		}
		return false
	}
	tx.Discard()
	return false
}

func clrOpTx(tr *clrTrial, r *rng.R) bool          { return clrTx(tr, r, true) }
func clrOpTxNoDiscard(tr *clrTrial, r *rng.R) bool { return clrTx(tr, r, false) }

func clrOpCompactFull(tr *clrTrial, r *rng.R) bool {
	return tr.call("DB.CompactRange(full)", false, func() error { return tr.db.CompactRange(util.Range{}) })
}

func clrOpCompactPart(tr *clrTrial, r *rng.R) bool {
	a := r.Intn(tr.nkeys)
	rg := util.Range{Start: clrKey(a), Limit: clrKey(a + 1 + r.Intn(80))}
	if r.Chance(1, 4) {
		rg.Start = nil
	}
	return tr.call("DB.CompactRange(part)", false, func() error { return tr.db.CompactRange(rg) })
}

func clrOpSizeOf(tr *clrTrial, r *rng.R) bool {
	rs := []util.Range{{Start: []byte("a"), Limit: []byte("z")}}
	for i, n := 0, r.Intn(3); i < n; i++ {
		a := r.Intn(tr.nkeys)
		rs = append(rs, util.Range{Start: clrKey(a), Limit: clrKey(a + r.Intn(200))})
	}
	return tr.call("DB.SizeOf", false, func() error {
		sz, err := tr.db.SizeOf(rs)
		if err == nil && len(sz) != len(rs) {
			tr.report("sizeOf:close-race:wrong-length", fmt.Sprintf("SizeOf of %d ranges returned %d sizes", len(rs), len(sz)))
		}
		if err != nil && sz != nil {
			tr.report("sizeOf:close-race:value-with-error", fmt.Sprintf("SizeOf: %v with %v", sz, err))
		}
		if err == nil && tr.hasTables && len(sz) > 0 && sz[0] == 0 {
			tr.report("sizeOf:close-race:made-up-answer", "SizeOf(everything) racing Close returned 0 with a nil error; it was > 0 before the clients started and the DB holds tables")
		}
		return err
	})
}

func clrOpProp(tr *clrTrial, r *rng.R) bool {
	p := clrProps[r.Intn(len(clrProps))]
	if r.Chance(1, 3) {
		p = "leveldb.sstables"
	}
	return tr.call("DB.GetProperty("+p+")", false, func() error {
		v, err := tr.db.GetProperty(p)
		if err != nil && v != "" {
			tr.report("getProperty:close-race:value-with-error", fmt.Sprintf("GetProperty(%s): %.40q with %v", p, v, err))
		}
		if err == nil && tr.hasTables && p == "leveldb.sstables" && !strings.Contains(v, ":") {
			tr.report("getProperty:close-race:made-up-answer", fmt.Sprintf("GetProperty(leveldb.sstables) racing Close listed no table with a nil error (%.60q); the DB holds tables", v))
		}
		return err
	})
}

func clrOpStats(tr *clrTrial, r *rng.R) bool {
	var st leveldb.DBStats
	return tr.call("DB.Stats", false, func() error {
		err := tr.db.Stats(&st)
		if err == nil && tr.hasTables {
			n := 0
			for _, c := range st.LevelTablesCounts {
				n += c
			}
			if n == 0 {
				tr.report("stats:close-race:made-up-answer", "Stats racing Close reported no table at any level with a nil error; the DB holds tables")
			}
		}
		return err
	})
}

func clrOpSetRO(tr *clrTrial, r *rng.R) bool {
	return tr.call("DB.SetReadOnly", false, func() error {
		err := tr.db.SetReadOnly()
		if err == nil {
			tr.roSet.Store(true)
		}
		return err
	})
}

// clrOpClose2: one more closer
func clrOpClose2(tr *clrTrial, r *rng.R) bool {
	time.Sleep(time.Duration(r.Intn(tr.cfg.CloseAtUs+200)) * time.Microsecond)
	// no iterator may be held across this call either
	tr.closeSoon.Store(true)
	clrWait(func() bool { return tr.itersInUse.Load() == 0 }, time.Second)
	tr.closeCalled.Store(true)
	err := tr.db.Close()
	if err != nil && err != leveldb.ErrClosed {
		tr.report("close:close-race:odd-error", fmt.Sprintf("a second closer: %v", err))
	}
	if err != leveldb.ErrClosed {
		tr.closeDone.Store(true) // this call was the one that closed the DB
	}
	return true
}

var clrKinds = map[string]clrOp{
	"get": clrOpGet, "has": clrOpHas, "put": clrOpPut, "delete": clrOpDelete, "writesmall": clrOpWriteSmall,
	"writelarge": clrOpWriteLarge, "iter": clrOpIter, "snap": clrOpSnap, "tx": clrOpTx, "tx-nodiscard": clrOpTxNoDiscard,
	"compactfull": clrOpCompactFull, "compactpart": clrOpCompactPart, "sizeof": clrOpSizeOf, "prop": clrOpProp,
	"stats": clrOpStats, "setro": clrOpSetRO, "close2": clrOpClose2,
}

var clrMixedNames = []string{"get", "has", "put", "delete", "writesmall", "writelarge", "iter", "snap", "tx",
	"compactfull", "compactpart", "sizeof", "prop", "stats"}

func clrOpMixed(tr *clrTrial, r *rng.R) bool {
	if r.Chance(1, 200) {
		return clrOpSetRO(tr, r)
	}
	return clrKinds[clrMixedNames[r.Intn(len(clrMixedNames))]](tr, r)
}

func init() { clrKinds["mixed"] = clrOpMixed }

// ---- one trial --------------------------------------------------------------------------------------

func clrFrame(stack string) string {
	for _, ln := range strings.Split(stack, "\n") {
		if strings.Contains(ln, "goleveldb/leveldb") && strings.HasSuffix(strings.TrimSpace(ln), ")") && !strings.Contains(ln, "verif_on.go") {
			f := strings.TrimSpace(ln)
			if i := strings.LastIndex(f, "/"); i >= 0 {
				f = f[i+1:]
			}
			if i := strings.LastIndex(f, "("); i > 0 {
				f = f[:i]
			}
			return f
		}
	}
	return "?"
}

func (tr *clrTrial) guard(who string, f func()) {
	defer func() {
		if x := recover(); x != nil {
			st := string(debug.Stack())
			tr.mu.Lock()
			tr.panicked = true
			tr.mu.Unlock()
			sig := who + ":close-race:panic:" + clrFrame(st)
			if tr.cfg.Mode != "plain" && (who == "put" || who == "delete" || who == "writesmall" || who == "writelarge") {
				sig = who + ":readonly-close-race:panic:" + clrFrame(st)
			}
			tr.report(sig, fmt.Sprintf("%s client racing Close (mode %s) panicked: %v\n%s", who, tr.cfg.Mode, x, st))
		}
	}()
	f()
}

func clrIsWriter(kind string) bool {
	switch kind {
	case "put", "delete", "writesmall", "writelarge", "tx", "tx-nodiscard", "mixed":
		return true
	}
	return false
}

// clrRunTrial runs one trial; hang=true: somebody never returned (the goroutines of this DB stay behind).
func clrRunTrial(cfg clrCfg, watchdog time.Duration) (tr *clrTrial, hang bool, err error) {
	r := rng.New(cfg.Seed)
	tr, err = clrNewTrial(cfg, r)
	if err != nil {
		return nil, false, err
	}
	tr.readOnlyClients = !clrIsWriter(cfg.Kind) || cfg.Mode != "plain"
	if cfg.Kind == "compactfull" || cfg.Kind == "compactpart" || cfg.Kind == "setro" || cfg.Kind == "close2" {
		tr.readOnlyClients = true
	}
	op := clrKinds[cfg.Kind]
	// resources held across Close
	var heldSnap *leveldb.Snapshot
	var heldTx *leveldb.Transaction
	if r.Chance(1, 3) {
		heldSnap, _ = tr.db.GetSnapshot()
	}
	if cfg.Mode == "plain" && cfg.Kind != "tx" && cfg.Kind != "tx-nodiscard" && r.Chance(1, 6) {
		if heldTx, _ = tr.db.OpenTransaction(); heldTx != nil {
			k := clrKey(3)
			_ = heldTx.Put(k, clrValue(k, r), nil)
		}
	}
	// the recording storage tells whether anything touches it after Close returned
	tr.st.SetHooks(func(op stor.Op) stor.FaultMode {
		if tr.closeDone.Load() && op.Kind != stor.OpLock && op.Kind != stor.OpUnlock {
			if tr.lateOps.Add(1) == 1 {
				buf := make([]byte, 4096)
				buf = buf[:runtime.Stack(buf, false)]
				tr.lateOp.Store(op.String() + "\n" + string(buf))
			}
		}
		return stor.NoFault
	}, nil)
	clrCur.Store(tr)
	defer clrCur.Store(nil)

	var wg sync.WaitGroup
	nc := cfg.Clients
	if cfg.Kind == "close2" {
		nc = 2
	}
	for c := 0; c < nc; c++ {
		cr := r.Fork()
		wg.Add(1)
		go func() {
			defer wg.Done()
			tr.guard(cfg.Kind, func() {
				for !tr.stop.Load() {
					if op(tr, cr) {
						return
					}
				}
			})
		}()
	}
	wg.Add(1)
	go func() {
		defer wg.Done()
		tr.guard("close", func() {
			time.Sleep(time.Duration(cfg.CloseAtUs) * time.Microsecond)
			tr.closeSoon.Store(true)
			// iterators made before the call of Close are released first
			spinUntil := time.Now().Add(150 * time.Microsecond)
			for time.Now().Before(spinUntil) {
				runtime.Gosched()
			}
			clrWait(func() bool { return tr.itersInUse.Load() == 0 }, 2*time.Second)
			tr.closeCalled.Store(true)
			err := tr.db.Close()
			if !(cfg.Kind == "close2" && err == leveldb.ErrClosed) {
				tr.closeDone.Store(true)
				if err != nil {
					tr.report("close:close-race:odd-error", fmt.Sprintf("Close returned %v", err))
				}
			}
		})
		time.Sleep(500 * time.Microsecond)
		tr.stop.Store(true)
	}()
	done := make(chan struct{})
	go func() { wg.Wait(); close(done) }()
	wd := watchdog
	select {
	case <-done:
	case <-time.After(wd):
		hang = true
	}
	if hang {
		tr.mu.Lock()
		leaked, pan := len(tr.leaked), tr.panicked
		tr.mu.Unlock()
		dump := dumpBlocked()
		switch {
		case leaked > 0 && !tr.closeDone.Load():
			tr.report("close:close-race:hang:open-transaction-not-discarded", fmt.Sprintf("Close did not return within %v: %d transaction(s) opened while Close was running are still open (Commit returned ErrClosed, the client took that as final and did not call Discard) and hold the write lock Close waits for\n%s", wd, leaked, dump))
		case pan && !tr.closeDone.Load():
			tr.report("close:close-race:hang:after-client-panic", fmt.Sprintf("Close did not return within %v after a client call panicked (mode %s): the write lock was left taken\n%s", wd, cfg.Mode, dump))
		case !tr.closeDone.Load():
			tr.report("close:close-race:hang", fmt.Sprintf("Close racing %d %s clients (mode %s) did not return within %v\n%s", nc, cfg.Kind, cfg.Mode, wd, dump))
		default:
			tr.report(cfg.Kind+":close-race:hang", fmt.Sprintf("a %s client racing Close (mode %s) did not return within %v (Close has returned)\n%s", cfg.Kind, cfg.Mode, wd, dump))
		}
		// rescue: ending the leaked transactions lets Close finish
		tr.mu.Lock()
		for _, tx := range tr.leaked {
			tx := tx
			go tx.Discard()
		}
		tr.mu.Unlock()
		select {
		case <-done:
			hang = false // nothing of this DB stays behind
		case <-time.After(2 * time.Second):
		}
		return tr, hang, nil
	}
	if !tr.closeDone.Load() {
		return tr, false, nil // Close panicked (reported)
	}
	tr.guard("postclose", func() { clrPostClose(tr, r, heldSnap, heldTx) })
	if n := tr.lateOps.Load(); n > 0 {
		first, _ := tr.lateOp.Load().(string)
		tr.report("storage:touched-after-close", fmt.Sprintf("%d storage operation(s) after Close had returned; the first: %s", n, first))
	}
	tr.guard("reopen", func() { clrReopen(tr) })
	return tr, false, nil
}

// clrPostClose: every method of the closed DB, of a snapshot and of a transaction held across Close.
func clrPostClose(tr *clrTrial, r *rng.R, heldSnap *leveldb.Snapshot, heldTx *leveldb.Transaction) {
	must := func(what string, err error) {
		if clrClassify(err) != clrClosed {
			tr.report(clrName(what)+":after-close:not-a-closed-error", fmt.Sprintf("%s on the closed DB: %v", what, err))
		}
	}
	mustIter := func(what string, it iterator.Iterator) {
		if it.First() || it.Next() || it.Last() || it.Prev() || it.Seek(clrKey(1)) || it.Key() != nil || it.Value() != nil {
			tr.report(clrName(what)+":after-close:iterator-not-empty", what)
		}
		must(what+".Error", it.Error())
		it.Release()
	}
	db := tr.db
	_, err := db.Get(clrKey(1), nil)
	must("DB.Get", err)
	_, err = db.Has(clrKey(1), nil)
	must("DB.Has", err)
	must("DB.Put", db.Put(clrKey(1), []byte("x"), nil))
	must("DB.Delete", db.Delete(clrKey(1), nil))
	must("DB.Write(small)", db.Write(clrBatch(tr, r, 10), nil))
	must("DB.Write(large)", db.Write(clrBatch(tr, r, tr.o.WriteBuffer+100), nil))
	mustIter("DB.NewIterator", db.NewIterator(nil, nil))
	_, err = db.GetSnapshot()
	must("DB.GetSnapshot", err)
	_, err = db.OpenTransaction()
	must("DB.OpenTransaction", err)
	must("DB.CompactRange", db.CompactRange(util.Range{}))
	must("DB.CompactRange(part)", db.CompactRange(util.Range{Start: clrKey(1), Limit: clrKey(9)}))
	_, err = db.SizeOf([]util.Range{{Start: clrKey(1), Limit: clrKey(100)}})
	must("DB.SizeOf", err)
	for _, p := range clrProps {
		_, err = db.GetProperty(p)
		must("DB.GetProperty("+p+")", err)
	}
	var st leveldb.DBStats
	must("DB.Stats", db.Stats(&st))
	must("DB.SetReadOnly", db.SetReadOnly())
	must("DB.Close", db.Close())
	if heldSnap != nil {
		_, err = heldSnap.Get(clrKey(1), nil)
		must("Snapshot.Get", err)
		_, err = heldSnap.Has(clrKey(1), nil)
		must("Snapshot.Has", err)
		mustIter("Snapshot.NewIterator", heldSnap.NewIterator(nil, nil))
		_ = heldSnap.String()
		heldSnap.Release()
		_, err = heldSnap.Get(clrKey(1), nil)
		must("Snapshot.Get(released)", err)
	}
	if heldTx != nil {
		_, err = heldTx.Get(clrKey(1), nil)
		must("Transaction.Get", err)
		_, err = heldTx.Has(clrKey(1), nil)
		must("Transaction.Has", err)
		must("Transaction.Put", heldTx.Put(clrKey(1), []byte("x"), nil))
		must("Transaction.Delete", heldTx.Delete(clrKey(1), nil))
		must("Transaction.Write", heldTx.Write(clrBatch(tr, r, 10), nil))
		mustIter("Transaction.NewIterator", heldTx.NewIterator(nil, nil))
		must("Transaction.Commit", heldTx.Commit())
		heldTx.Discard()
		must("Transaction.Commit(2)", heldTx.Commit())
	}
}

// clrReopen: the storage opens again, reads from end to end, and — if no client wrote — holds every preloaded key.
func clrReopen(tr *clrTrial) {
	tr.st.SetHooks(nil, nil)
	if tr.st.IsLocked() {
		tr.report("close:lock-not-released", "the storage is still locked after Close returned")
		tr.st.ForceUnlock()
	}
	db, err := leveldb.Open(tr.st, tr.o)
	if err != nil {
		tr.report("reopen:failed", fmt.Sprintf("Open after the race: %v", err))
		return
	}
	defer db.Close()
	it := db.NewIterator(nil, nil)
	n := 0
	for it.Next() {
		tr.checkKV("reopen", it.Key(), it.Value())
		n++
	}
	if err := it.Error(); err != nil {
		tr.report("reopen:scan-error", err.Error())
	}
	it.Release()
	if tr.readOnlyClients && n != tr.nkeys {
		tr.report("reopen:lost-keys", fmt.Sprintf("%d of %d preloaded keys after the race (mode %s, no client wrote)", n, tr.nkeys, tr.cfg.Mode))
	}
}

// ---- the campaign -----------------------------------------------------------------------------------

var clrKindOrder = []string{"stats", "put", "iter", "sizeof", "tx-nodiscard", "get", "prop", "delete", "writesmall", "has",
	"snap", "tx", "writelarge", "compactfull", "compactpart", "setro", "close2", "mixed"}

// clrClass names the defect class of a signature (for the coverage histogram and the hit table of wp51).
func clrClass(sig string) string {
	switch {
	case strings.Contains(sig, "stats:close-race:panic") || strings.Contains(sig, "GetStats"):
		return "D41 stats-nil-deref"
	case strings.Contains(sig, "readonly-close-race") || strings.Contains(sig, "hang:after-client-panic"):
		return "D42 readonly-write-takes-lock"
	case strings.Contains(sig, "open-transaction-not-discarded"):
		return "D43 transaction-behind-close"
	case strings.Contains(sig, "reader-released"):
		return "D44 reader-released"
	case strings.Contains(sig, "made-up-answer"):
		return "D45 made-up-answer"
	case strings.Contains(sig, "journal.(*Writer).Next"):
		return "D42 readonly-write-takes-lock"
	case strings.Contains(sig, "index-block-corruption"), strings.Contains(sig, ":close-race:panic:") && (strings.Contains(sig, "block") || strings.Contains(sig, "Iter")):
		return "D46 iterator-panic-index-block"
	case strings.Contains(sig, "hang"):
		return "hang"
	case strings.Contains(sig, "panic"):
		return "panic"
	}
	return "other"
}

// runCloseRaces is the campaign; hangsOnly: only what C09 is about (every call, and Close, returns).
func runCloseRaces(c *Ctx, budget time.Duration, hangsOnly bool) {
	if c.Hung {
		return
	}
	prevY := leveldb.VerifYield
	leveldb.VerifYield = clrYield
	defer func() { leveldb.VerifYield = prevY }()
	defer runtime.GOMAXPROCS(runtime.GOMAXPROCS(0))
	watchdog := 6 * time.Second
	if c.Thorough {
		watchdog = 20 * time.Second
	}
	start := time.Now()
	modes := []string{"plain", "setro", "openro"}
	fired := map[string]bool{} // kind/mode that already hung or panicked: do not pay for the same hang twice
	seen := map[string]int{}   // signature → how often
	stuck := 0
	trials := 0
	var waited time.Duration // spent waiting for watchdogs: not charged to the budget
	left := func() bool { return time.Since(start)-waited < budget && stuck < 3 }
	order := clrKindOrder
	if hangsOnly {
		// the hang that can be rescued (the leaked transaction is discarded afterwards) first, several times
		order = []string{"tx-nodiscard", "tx-nodiscard", "tx-nodiscard", "tx-nodiscard", "tx-nodiscard", "tx-nodiscard",
			"put", "delete", "writesmall", "writelarge", "tx", "setro", "close2", "mixed"}
	}
	if v := os.Getenv("VERIF_CLR_KINDS"); v != "" { // investigation: only these kinds
		order = strings.Split(v, ",")
	}
	for round := 0; left(); round++ {
		for _, kind := range order {
			for _, mode := range modes {
				if !left() {
					break
				}
				if (kind == "tx" || kind == "tx-nodiscard") && mode != "plain" && round%4 != 0 {
					continue // OpenTransaction on a read-only DB returns ErrReadOnly at once
				}
				if hangsOnly && !(kind == "tx-nodiscard" || kind == "tx" || kind == "mixed" || kind == "close2" || kind == "setro" ||
					((kind == "put" || kind == "delete" || kind == "writesmall" || kind == "writelarge") && mode != "plain")) {
					continue
				}
				if fired[kind+"/"+mode] {
					continue
				}
				r := c.R.Fork()
				cfg := clrCfg{Kind: kind, Mode: mode, Seed: r.U64(), Clients: 3 + r.Intn(6), CloseAtUs: r.Intn(1500),
					Procs: r.Pick(4, 16, 16, 8), Widen: !r.Chance(1, 5)}
				runtime.GOMAXPROCS(cfg.Procs)
				t0 := time.Now()
				tr, hang, err := clrRunTrial(cfg, watchdog)
				trials++
				if d := time.Since(t0); d >= watchdog {
					waited += d
				}
				if err != nil {
					c.Res.Note("close race %+v: the setup failed (%v); trial skipped", cfg, err)
					c.Res.Count("close-race", "setup-failed")
					continue
				}
				nontrivial := tr.raced.Load() > 0
				c.Res.Eval(fmt.Sprintf("close-race/%s/%s/%d", kind, mode, cfg.Seed), nontrivial)
				c.Res.Count("close-race", fmt.Sprintf("%s/%s", kind, mode))
				c.Res.CountN("close-race-calls", kind, int(tr.calls.Load()))
				c.Res.CountN("close-race-overlapping", kind, int(tr.raced.Load()))
				if trials <= 2 {
					c.Res.Sample(map[string]interface{}{"close_race": cfg, "keys": tr.nkeys, "calls": tr.calls.Load(), "calls_overlapping_close": tr.raced.Load()})
				}
				tr.mu.Lock()
				fs := append([]clrFinding(nil), tr.findings...)
				tr.mu.Unlock()
				for _, f := range fs {
					if hangsOnly && !strings.Contains(f.sig, "hang") && !strings.Contains(f.sig, "panic") {
						continue
					}
					c.Res.Count("close-race-class", clrClass(f.sig))
					c.Res.Count("close-race-signature", f.sig)
					if strings.Contains(f.sig, "hang") || strings.Contains(f.sig, "panic") {
						fired[kind+"/"+mode] = true
					}
					if strings.Contains(f.sig, "hang:after-client-panic") {
						// the write lock of this mode is lost to the first writer that panics: every other write kind ends the same way
						for _, k := range []string{"put", "delete", "writesmall", "writelarge", "mixed"} {
							fired[k+"/"+mode] = true
						}
					}
					if seen[f.sig]++; seen[f.sig] > 1 {
						continue // one replay per signature
					}
					c.Res.Violate(f.sig, f.msg, map[string]interface{}{"scenario": "calls racing Close (wp51)", "trial": cfg, "options": fmt.Sprintf("%+v", *tr.o)})
				}
				if hang {
					stuck++
				}
			}
		}
	}
	c.Res.Count("close-race", fmt.Sprintf("trials=%d0s", trials/10))
	if stuck > 0 {
		c.Res.Note("close races: %d trial(s) left goroutines behind (a call that never returned)", stuck)
		c.Hung = true
	}
}

func init() {
	// the campaign alone (validation of the check itself: `vh -prop C18RACE`)
	Registry["C18RACE"] = func(c *Ctx) {
		c.Res.Rule = "calls racing Close: one trial = one kind of call × one mode (plain / SetReadOnly / Options.ReadOnly) × random small options; non-trivial = at least one call overlapped the call of Close"
		runCloseRaces(c, time.Duration(c.Scale(14, 240))*time.Second, false)
	}
}
