package checks

// C11 / C05: a table number given back by Transaction.Discard must not name another table while blocks of the
// discarded transaction's table are still in the block cache (defect D50: tOps.remove gave the number back BEFORE it
// evicted the blocks; a table compaction running concurrently was handed the number in between and reads of its
// output were served from the discarded transaction's blocks).  Deterministic: the window is held open with an LRU
// whose Evict waits (Options.BlockCacher) and a storage wrapper that holds the compaction back at its first Open.
// Scenario by wp63 (storage-fault hunt), public API only.

import (
	"bytes"
	"fmt"
	"sync"
	"time"

	"github.com/syndtr/goleveldb/leveldb"
	"github.com/syndtr/goleveldb/leveldb/cache"
	"github.com/syndtr/goleveldb/leveldb/opt"
	"github.com/syndtr/goleveldb/leveldb/storage"
)

// c11GateStor blocks Open of table files while the gate is shut.
type c11GateStor struct {
	storage.Storage
	mu      sync.Mutex
	shut    bool
	open    chan struct{}
	blocked chan struct{} // closed when the first Open waits at the gate
	once    sync.Once
	removed chan int64 // table numbers removed
}

func (g *c11GateStor) Open(fd storage.FileDesc) (storage.Reader, error) {
	g.mu.Lock()
	shut, ch := g.shut, g.open
	g.mu.Unlock()
	if shut && fd.Type == storage.TypeTable {
		g.once.Do(func() { close(g.blocked) })
		<-ch
	}
	return g.Storage.Open(fd)
}

func (g *c11GateStor) Remove(fd storage.FileDesc) error {
	err := g.Storage.Remove(fd)
	if fd.Type == storage.TypeTable {
		select {
		case g.removed <- fd.Num:
		default:
		}
	}
	return err
}

// c11SlowLRU is an LRU whose Evict waits for permission once armed.
type c11SlowLRU struct {
	cache.Cacher
	mu      sync.Mutex
	armed   bool
	reached chan struct{}
	release chan struct{}
	once    sync.Once
}

func (c *c11SlowLRU) Evict(n *cache.Node) {
	c.mu.Lock()
	armed := c.armed
	c.mu.Unlock()
	if armed {
		c.once.Do(func() { close(c.reached) })
		<-c.release
	}
	c.Cacher.Evict(n)
}

func c11StaleCacheRace(c *Ctx) {
	const sig = "Transaction.Discard:stale-block-cache:number-reused-before-eviction"
	rp := map[string]interface{}{"how": "deterministic scenario, harness/checks/c11race.go: two overlapping level-0 tables; the table compaction is held at its first table Open; a transaction writes one table and reads it (blocks cached); Discard with an LRU whose Evict waits; the compaction is let go and its output gets the number Discard gave back; Get of every acknowledged key"}
	skip := func(what string) { c.Res.Count("stale_cache_race", "skipped:"+what) }
	gs := &c11GateStor{Storage: storage.NewMemStorage(), open: make(chan struct{}), blocked: make(chan struct{}), removed: make(chan int64, 16)}
	slow := &c11SlowLRU{reached: make(chan struct{}), release: make(chan struct{})}
	o := &opt.Options{
		WriteBuffer:         32 << 10,
		CompactionL0Trigger: 2,
		Compression:         opt.NoCompression,
		BlockCacher: opt.CacherFunc(func(capacity int) cache.Cacher {
			slow.Cacher = cache.NewLRU(capacity)
			return slow
		}),
	}
	db, err := leveldb.Open(gs, o)
	if err != nil {
		skip("open")
		return
	}
	released := false
	defer func() {
		if !released {
			close(slow.release)
		}
		db.Close()
	}()
	key := func(i int) []byte { return []byte(fmt.Sprintf("k%03d", i)) }
	flush := func() bool { // an empty transaction flushes the write buffer to a level-0 table
		tr, err := db.OpenTransaction()
		if err != nil {
			return false
		}
		tr.Discard()
		return true
	}
	for i := 0; i < 40; i++ {
		if db.Put(key(i), []byte(fmt.Sprintf("acked-1-%03d", i)), nil) != nil {
			skip("put")
			return
		}
	}
	if !flush() {
		skip("flush")
		return
	}
	for i := 0; i < 40; i++ {
		if db.Put(key(i), []byte(fmt.Sprintf("acked-2-%03d", i)), nil) != nil {
			skip("put")
			return
		}
	}
	gs.mu.Lock()
	gs.shut = true
	gs.mu.Unlock()
	tr, err := db.OpenTransaction()
	if err != nil {
		skip("opentx")
		return
	}
	select {
	case <-gs.blocked:
	case <-time.After(10 * time.Second):
		tr.Discard()
		skip("compaction-did-not-start")
		return
	}
	gs.mu.Lock()
	gs.shut = false
	gs.mu.Unlock()
	big := bytes.Repeat([]byte{'T'}, 2000)
	for i := 0; i < 20; i++ {
		if tr.Put(key(i), append([]byte(fmt.Sprintf("DISCARDED-%03d-", i)), big...), nil) != nil {
			tr.Discard()
			skip("trput")
			return
		}
	}
	for i := 0; i < 20; i++ {
		tr.Get(key(i), nil)
	}
	slow.mu.Lock()
	slow.armed = true
	slow.mu.Unlock()
	discarded := make(chan struct{})
	go func() { tr.Discard(); close(discarded) }()
	select {
	case <-slow.reached:
	case <-discarded:
	case <-time.After(10 * time.Second):
		skip("discard-did-not-evict")
		return
	}
	// The eviction is now waiting.  As found, the number had been given back BEFORE it: the compaction let go below
	// takes the number and its output is read through the stale blocks.  As repaired, the number is given back only
	// after the eviction, which we hold: the compaction gets a fresh number.
	close(gs.open)
	deadline := time.Now().Add(10 * time.Second)
	for {
		p, _ := db.GetProperty("leveldb.num-files-at-level1")
		if p != "0" && p != "" {
			break
		}
		if time.Now().After(deadline) {
			break // with the repaired order the compaction may wait for the number: judged below all the same
		}
		time.Sleep(time.Millisecond)
	}
	wrong, first := 0, ""
	for i := 0; i < 40; i++ {
		v, err := db.Get(key(i), nil)
		want := fmt.Sprintf("acked-2-%03d", i)
		if err != nil || string(v) != want {
			wrong++
			if first == "" {
				first = fmt.Sprintf("Get(%s) = %.24q, %v; acknowledged value %q", key(i), v, err, want)
			}
		}
	}
	if !released {
		released = true
		close(slow.release)
	}
	<-discarded
	c.Res.Count("stale_cache_race", fmt.Sprintf("ran wrong=%d", wrong))
	c.Res.Eval("stale-cache-race", true)
	if wrong > 0 {
		c.Res.Violate(sig, fmt.Sprintf("%d of 40 acknowledged keys read wrongly while the number of the discarded transaction's table named the compaction's output: %s", wrong, first), rp)
	}
}
