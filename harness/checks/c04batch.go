package checks

// Batch.Load / Dump / Replay against Model/Batch.lean (`dur bbody`): dumps of random batches and their mutations
// (truncation, byte flips, insertions, length varints of 2^63 and more, lengths that overflow offset+length).
// Implementation-side oracle: Load never panics; an accepted Load replays exactly what the model decodes, has that
// Len and dumps the input; a rejected Load leaves an EMPTY batch (nothing half-decoded that a later Write would put
// into the journal), and the batch stays usable.

import (
	"bytes"
	"fmt"
	"strings"

	"github.com/syndtr/goleveldb/leveldb"

	"verif/harness/gen"
	"verif/harness/rng"
)

func c04bBytes(r *rng.R, n int) []byte {
	b := make([]byte, n)
	for i := range b {
		b[i] = byte(r.Intn(256))
	}
	return b
}

type c04bRec struct {
	del      bool
	key, val []byte
}

type c04bCollect struct{ recs []c04bRec }

func (c *c04bCollect) Put(k, v []byte) {
	c.recs = append(c.recs, c04bRec{false, append([]byte{}, k...), append([]byte{}, v...)})
}
func (c *c04bCollect) Delete(k []byte) { c.recs = append(c.recs, c04bRec{true, append([]byte{}, k...), nil}) }

var c04bHuge = [][]byte{
	{0xff, 0xff, 0xff, 0xff, 0xff, 0xff, 0xff, 0xff, 0x7f},       // 2^63-1
	{0x80, 0x80, 0x80, 0x80, 0x80, 0x80, 0x80, 0x80, 0x80, 0x01}, // 2^63
	{0xff, 0xff, 0xff, 0xff, 0xff, 0xff, 0xff, 0xff, 0xff, 0x01}, // 2^64-1
	{0xfe, 0xff, 0xff, 0xff, 0xff, 0xff, 0xff, 0xff, 0xff, 0x01}, // 2^64-2
	{0xf0, 0xff, 0xff, 0xff, 0xff, 0xff, 0xff, 0xff, 0x7f},       // just below 2^63
	{0xff, 0xff, 0xff, 0xff, 0x0f},                               // 2^32-1
	{0x80, 0x80, 0x80, 0x80, 0x10},                               // 2^32
}

func c04bRandBody(r *rng.R) []byte {
	b := new(leveldb.Batch)
	n := r.Intn(6)
	for i := 0; i < n; i++ {
		k := c04bBytes(r, r.Intn(6))
		if r.Chance(1, 3) {
			b.Delete(k)
		} else {
			b.Put(k, c04bBytes(r, r.Intn(9)))
		}
	}
	return append([]byte{}, b.Dump()...)
}

func c04bMutate(r *rng.R, body []byte) ([]byte, string) {
	d := append([]byte{}, body...)
	switch r.Intn(7) {
	case 0:
		return d, "valid"
	case 1:
		if len(d) > 0 {
			d = d[:r.Intn(len(d))]
		}
		return d, "truncated"
	case 2:
		if len(d) > 0 {
			d[r.Intn(len(d))] ^= 1 << uint(r.Intn(8))
		}
		return d, "bit-flip"
	case 3:
		at := r.Intn(len(d) + 1)
		ins := c04bBytes(r, 1+r.Intn(3))
		d = append(d[:at:at], append(ins, d[at:]...)...)
		return d, "insert"
	case 4: // a record whose key length is huge, at the end
		kt := byte(r.Intn(2))
		d = append(d, kt)
		d = append(d, c04bHuge[r.Intn(len(c04bHuge))]...)
		d = append(d, c04bBytes(r, r.Intn(4))...)
		return d, "huge-key-length"
	case 5: // a value record whose value length is huge
		d = append(d, 1, 1, 'k')
		d = append(d, c04bHuge[r.Intn(len(c04bHuge))]...)
		d = append(d, c04bBytes(r, r.Intn(4))...)
		return d, "huge-value-length"
	default: // a huge length somewhere inside
		at := r.Intn(len(d) + 1)
		h := c04bHuge[r.Intn(len(c04bHuge))]
		d = append(d[:at:at], append(append([]byte{}, h...), d[at:]...)...)
		return d, "huge-inside"
	}
}

func c04BatchCodec(c *Ctx, n int) {
	for i := 0; i < n && c.TimeLeft(); i++ {
		r := c.R.Fork()
		body, kind := c04bMutate(r, c04bRandBody(r))
		orig := append([]byte{}, body...)
		b := new(leveldb.Batch)
		if r.Chance(1, 2) { // previous contents must be discarded
			b.Put([]byte("prev"), []byte("x"))
		}
		var err error
		var col c04bCollect
		panicked := ""
		func() {
			defer func() {
				if p := recover(); p != nil {
					panicked = fmt.Sprint(p)
				}
			}()
			err = b.Load(body)
			if err == nil {
				err = b.Replay(&col)
			}
		}()
		rp := map[string]interface{}{"body_hex": gen.Hex(orig), "mutation": kind}
		if panicked != "" {
			c.Res.Violate("Batch.Load:panic", fmt.Sprintf("Load/Replay of a %s body panicked: %s", kind, panicked), rp)
			return
		}
		c.Res.Count("batch_codec", fmt.Sprintf("%s accepted=%v", kind, err == nil))
		c.Res.Eval("BL/"+gen.Hex(orig), kind != "valid")
		want := "err"
		if err == nil {
			var sb strings.Builder
			fmt.Fprintf(&sb, "ok %d", len(col.recs))
			for _, rc := range col.recs {
				kt := 1
				if rc.del {
					kt = 0
				}
				fmt.Fprintf(&sb, " %d %s %s", kt, gen.Hex(rc.key), gen.Hex(rc.val))
			}
			want = sb.String()
			if b.Len() != len(col.recs) || !bytes.Equal(b.Dump(), orig) {
				c.Res.Violate("Batch.Load:accepted-but-inconsistent", fmt.Sprintf("Load accepted a %s body: Len %d, %d records replayed, Dump equals input: %v", kind, b.Len(), len(col.recs), bytes.Equal(b.Dump(), orig)), rp)
				return
			}
		} else {
			if b.Len() != 0 || len(b.Dump()) != 0 {
				c.Res.Violate("Batch.Load:rejected-leaves-half-a-batch", fmt.Sprintf("Load rejected a %s body (%v) but the batch holds %d records and %d bytes: a later Write would put bytes into the journal that its own replay rejects", kind, err, b.Len(), len(b.Dump())), rp)
				return
			}
			b.Put([]byte("after"), []byte("y"))
			var col2 c04bCollect
			if b.Replay(&col2) != nil || len(col2.recs) != 1 || b.Len() != 1 {
				c.Res.Violate("Batch.Load:rejected-batch-unusable", "after a rejected Load a Put does not give a one-record batch", rp)
				return
			}
		}
		crLeanMu.Lock()
		c.Lean("dur bbody "+gen.Hex(orig), want)
		crLeanMu.Unlock()
	}
}
