package checks

import (
	"math/rand"

	"verif/harness/wp"
)

// wpSink wires a work-package generator (verif/harness/wp/…) to the check context.
func wpSink(c *Ctx) *wp.Sink {
	return &wp.Sink{
		Emit:     c.Lean,
		Eval:     c.Res.Eval,
		Count:    c.Res.Count,
		Sample:   c.Res.Sample,
		Violate:  c.Res.Violate,
		Note:     c.Res.Note,
		TimeLeft: func() bool { return c.TimeLeft() && !c.Hung },
	}
}

// mathRand derives a math/rand generator from the seeded stream, so that VERIF_SEED determines everything.
func mathRand(c *Ctx) *rand.Rand { return rand.New(rand.NewSource(int64(c.R.U64() >> 1))) }
