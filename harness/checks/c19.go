package checks

import (
	"bytes"
	"encoding/json"
	"fmt"
	"os"
	"runtime"
	"sort"
	"strings"
	"sync"
	"sync/atomic"
	"time"

	"github.com/syndtr/goleveldb/leveldb"
	"github.com/syndtr/goleveldb/leveldb/opt"
	"github.com/syndtr/goleveldb/leveldb/storage"
	"github.com/syndtr/goleveldb/leveldb/util"

	"verif/harness/gen"
	"verif/harness/rng"
	"verif/harness/stor"
)

func init() { Registry["C19"] = runC19 }

// c19Hist is a replayable random history: everything derives from Seed.
type c19Hist struct {
	Opts gen.Opts `json:"opts"`
	Seed uint64   `json:"history_seed"`
	N    int      `json:"ops"`
}

type c19Damage struct {
	Table  int64 `json:"table"`
	Offset int   `json:"offset"`
	Block  int64 `json:"block_start"`
	Old    byte  `json:"old"`
	New    byte  `json:"new"`
}

type c19Case struct {
	Hist     *c19Hist    `json:"history"`
	Manifest string      `json:"manifest_variant"` // deleted | current-cleared | truncated | garbage
	Cut      int         `json:"truncate_at,omitempty"`
	VarSeed  uint64      `json:"variant_seed"`
	Damage   []c19Damage `json:"damaged_blocks,omitempty"`
	How      string      `json:"how"`
	Class    string      `json:"damage_class,omitempty"`   // part C (c19meta.go): metaindex-damage | footer-handle
	Footer   string      `json:"footer_rewrite,omitempty"` // part C: what the footer of the table in damaged_blocks was rewritten to
	lean     *c19Lean    // set when the case also goes to the Lean model (c19lean.go)
}

const c19How = "replay: open stor.Stor with history.opts, run c19Run(history) (ops derive from history_seed), settle (VerifWaitIdle until storage holds exactly the live files), Close; apply the manifest variant and the listed byte flips to the files; leveldb.Recover(stor, opts)"

// c19DB is a settled, closed DB with everything the oracles need.
type c19DB struct {
	st      *stor.Stor
	o       *opt.Options
	m       kvmap                      // logical contents at Close
	hist    map[string]map[string]bool // every value ever written per key
	ever    map[string]bool            // every key ever written or deleted
	tables  []leveldb.VerifTable
	mem     []leveldb.VerifEntry // entries still only in the journal
	stats   map[string]int
	mfd     storage.FileDesc
	levels  int
	deleted int
}

// c19Build runs the history and settles the DB; ok is false when the case has to be skipped.
func c19Build(c *Ctx, h *c19Hist) (d *c19DB, skip string) {
	r := rng.New(h.Seed)
	o := h.Opts.Options()
	d = &c19DB{st: stor.New(), o: o, m: kvmap{}, hist: map[string]map[string]bool{}, ever: map[string]bool{}, stats: map[string]int{}}
	d.st.KeepOps(false)
	d.st.ListOrder = int(h.Seed % 3) // Storage.List promises no order
	var db *leveldb.DB
	open := func() bool {
		err, hung := crCall(crWdTimeout, func() (err error) { db, err = leveldb.Open(d.st, o); return })
		return err == nil && !hung
	}
	if !open() {
		return nil, "open-failed"
	}
	univ := gen.Universe(r, 20+r.Intn(50), 1+r.Intn(7))
	nval := 0
	val := func() []byte {
		nval++
		return []byte(fmt.Sprintf("%d-%s", nval, strings.Repeat(string(rune('a'+r.Intn(26))), r.Intn(2*h.Opts.BlockSize+1))))
	}
	put := func(b *leveldb.Batch, k, v []byte) {
		b.Put(k, v)
	}
	apply := func(ops [][3][]byte) { // k, v, del?
		for _, op := range ops {
			k := string(op[0])
			d.ever[k] = true
			if op[2] != nil {
				delete(d.m, k)
				d.deleted++
			} else {
				d.m[k] = string(op[1])
				if d.hist[k] == nil {
					d.hist[k] = map[string]bool{}
				}
				d.hist[k][string(op[1])] = true
			}
		}
	}
	for i := 0; i < h.N; i++ {
		x := r.Intn(100)
		var err error
		var hung bool
		switch {
		case x < 55:
			k, v := gen.KeyFrom(r, univ), val()
			err, hung = crCall(crWdTimeout, func() error { return db.Put(k, v, nil) })
			if err == nil && !hung {
				apply([][3][]byte{{k, v, nil}})
			}
			d.stats["put"]++
		case x < 75:
			k := gen.KeyFrom(r, univ)
			err, hung = crCall(crWdTimeout, func() error { return db.Delete(k, nil) })
			if err == nil && !hung {
				apply([][3][]byte{{k, nil, {1}}})
			}
			d.stats["delete"]++
		case x < 88:
			b := new(leveldb.Batch)
			var ops [][3][]byte
			n := 1 + r.Intn(8)
			if x >= 86 { // larger than the write buffer: the transaction path (unless disabled)
				n = 4 + h.Opts.WriteBuffer/(h.Opts.BlockSize+20)
			}
			for j := 0; j < n; j++ {
				k := gen.KeyFrom(r, univ)
				if r.Chance(1, 4) {
					b.Delete(k)
					ops = append(ops, [3][]byte{k, nil, {1}})
				} else {
					v := val()
					put(b, k, v)
					ops = append(ops, [3][]byte{k, v, nil})
				}
			}
			err, hung = crCall(crWdTimeout, func() error { return db.Write(b, nil) })
			if err == nil && !hung {
				apply(ops)
			}
			d.stats["write"]++
		case x < 92:
			err, hung = crCall(crWdTimeout, func() error { return db.CompactRange(util.Range{}) })
			d.stats["compact"]++
		case x < 94:
			err, hung = crCall(crWdTimeout, db.Close)
			if err == nil && !hung && !open() {
				return nil, "reopen-failed"
			}
			d.stats["reopen"]++
		default:
			err, hung = crCall(crWdTimeout, func() error { return leveldb.VerifWaitIdle(db) })
		}
		if err != nil || hung {
			go db.Close()
			return nil, "history-call-failed" // C01/C09 territory
		}
	}
	// a third of the histories end quietly: 1-3 rounds of Close/Open with at most two small writes in between.  An
	// Open that flushes the replayed journal and idle reopens leave a journal whose number lies ABOVE every table
	// number (by 2, 3, ...), which Recover has to reserve although it rebuilds the counter from the tables.
	if r.Chance(1, 3) {
		rounds := 1 + r.Intn(3)
		for q := 0; q < rounds; q++ {
			if err, hung := crCall(crWdTimeout, db.Close); err != nil || hung || !open() {
				return nil, "reopen-failed"
			}
			d.stats["quiet-reopen"]++
			for w := r.Intn(3); w > 0; w-- {
				k, v := gen.KeyFrom(r, univ), val()
				if err, hung := crCall(crWdTimeout, func() error { return db.Put(k, v, nil) }); err != nil || hung {
					go db.Close()
					return nil, "history-call-failed"
				}
				apply([][3][]byte{{k, v, nil}})
			}
		}
	}
	// (reads can trigger seek compactions, so the comparison with the plain map comes before settling)
	got, err := crDumpDB(db)
	if err != nil || len(got) != len(d.m) {
		crCall(crWdTimeout, db.Close)
		return nil, "pre-check-mismatch" // the DB already disagrees with the plain map: C01's business
	}
	for k, v := range d.m {
		if got[k] != v {
			crCall(crWdTimeout, db.Close)
			return nil, "pre-check-mismatch"
		}
	}
	// settle: storage must hold exactly the live files (no obsolete table that Recover would resurrect)
	settled := false
	for try := 0; try < 4 && !settled; try++ {
		if err, hung := crCall(crWdTimeout, func() error { return leveldb.VerifWaitIdle(db) }); err != nil || hung {
			go db.Close()
			return nil, "settle-failed"
		}
		for poll := 0; poll < 100 && !settled; poll++ {
			settled = c19FilesExact(db, d.st)
			if !settled {
				time.Sleep(5 * time.Millisecond)
			}
		}
		if !settled && os.Getenv("VERIF_C19_DEBUG") != "" {
			s := leveldb.VerifDump(db)
			var live []int64
			for _, l := range s.Version.Levels {
				for _, t := range l {
					live = append(live, t.Num)
				}
			}
			fmt.Fprintf(os.Stderr, "unsettled try %d: files %v live tables %v journal %d frozen %v manifest %d\n", try, d.st.Files(), live, s.JournalNum, s.HasFrozen, s.ManifestNum)
		}
		if !settled { // e.g. a double-referenced table that only a reopen sweeps: reopen and try again
			if err, hung := crCall(crWdTimeout, db.Close); err != nil || hung || !open() {
				return nil, "settle-reopen-failed"
			}
			// the reopen flushed the journal; a few small writes so that the newest data lives in a journal only
			for j, n := 0, r.Intn(6); j < n; j++ {
				k := gen.KeyFrom(r, univ)
				if r.Chance(1, 3) {
					if err, hung := crCall(crWdTimeout, func() error { return db.Delete(k, nil) }); err != nil || hung {
						return nil, "history-call-failed"
					}
					apply([][3][]byte{{k, nil, {1}}})
				} else {
					nval++
					v := []byte(fmt.Sprintf("%d-tail", nval))
					if err, hung := crCall(crWdTimeout, func() error { return db.Put(k, v, nil) }); err != nil || hung {
						return nil, "history-call-failed"
					}
					apply([][3][]byte{{k, v, nil}})
				}
			}
		}
	}
	if !settled {
		crCall(crWdTimeout, db.Close)
		return nil, "unsettled"
	}
	dump := leveldb.VerifDump(db)
	for lvl, l := range dump.Version.Levels {
		if len(l) > 0 {
			d.levels = lvl + 1
		}
		d.tables = append(d.tables, l...)
	}
	d.mem = append(dump.Mem, dump.Frozen...)
	d.mfd = storage.FileDesc{Type: storage.TypeManifest, Num: dump.ManifestNum}
	if err, hung := crCall(crWdTimeout, db.Close); err != nil || hung {
		return nil, "close-failed"
	}
	return d, ""
}

func c19FilesExact(db *leveldb.DB, st *stor.Stor) bool {
	s := leveldb.VerifDump(db)
	if s.Version == nil || s.HasFrozen {
		return false
	}
	need := map[storage.FileDesc]bool{
		{Type: storage.TypeJournal, Num: s.JournalNum}:   true,
		{Type: storage.TypeManifest, Num: s.ManifestNum}: true,
	}
	for _, l := range s.Version.Levels {
		for _, t := range l {
			need[storage.FileDesc{Type: storage.TypeTable, Num: t.Num}] = true
		}
	}
	fds := st.Files()
	if len(fds) != len(need) {
		return false
	}
	for _, fd := range fds {
		if !need[fd] {
			return false
		}
	}
	return true
}

// c19ApplyManifest applies one of the four manifest variants to an image.
func c19ApplyManifest(img *stor.Stor, d *c19DB, cs *c19Case, r *rng.R) {
	mb, _ := img.FileBytes(d.mfd)
	switch cs.Manifest {
	case "deleted":
		img.DeleteFile(d.mfd)
	case "current-cleared":
		img.ClearMeta()
	case "truncated":
		cs.Cut = r.Intn(len(mb) + 1)
		img.PutFile(d.mfd, mb[:cs.Cut])
	case "garbage":
		img.PutFile(d.mfd, r.Bytes(len(mb)))
	}
}

var c19Variants = []string{"deleted", "current-cleared", "truncated", "garbage"}

type c19Ver struct {
	seq   uint64
	del   bool
	val   string
	lost  bool
	where string
}

func runC19(c *Ctx) {
	if !crIsWorker() {
		crIsolated(c, nil)
		return
	}
	defer crWorkerCheckpoint(c)()
	c.Res.Rule = "settled DBs from random histories (150-400 puts/deletes/batches/large batches/CompactRange/reopen over 20-70 keys incl. the empty key and 0x00/0xff runs; tiny buffers so that several levels exist; the last writes stay in the journal; five comparers; bloom filter on/off; snappy on/off), closed once storage holds exactly the live files. Part A: manifest deleted / CURRENT cleared / manifest truncated at a random offset / manifest replaced by garbage, then leveldb.Recover: must succeed, full scan and every Get equal the plain map, then the DB is used (writes, CompactRange, Close) and reopened with Open with the expected contents. Part B: additionally 1-3 data blocks of live tables get one byte flipped (block boundaries from table.Reader.OffsetOf): Recover must succeed; every returned pair was written for that key at some time; every key whose newest version (value or tombstone, anywhere in the DB) lies outside the damaged blocks is returned with exactly that version; Get agrees with the scan. Part C (every history, alternating): one byte of the metaindex block of one, two or all live tables altered — nothing may be lost (oracle of part A); or the footer of one live table rewritten under an intact magic so that a block handle lies outside the file (offset / length just beyond or far beyond the end, 2^62, 2^63, 2^64-1, an overflowing varint; no lengths between 2^27 and 2^48) — that table counts as damaged as a whole (oracle of part B), Recover must not panic and the DB it returns must scan and Get without error. One evaluation = one recovered image; non-trivial = the DB had >= 2 tables and deletions (part B: at least one entry was in a damaged block); distinct by (history seed, variant, damage). Before those, on the real file storage: a process dies inside fileStorage.SetMeta (directory copied at a hooked system call of the second OpenFile), RecoverFile or OpenFile on the copy, synced writes, Close, OpenFile: every key written before and after must be readable."
	once := &crSigOnce{}
	c19StrictJournal(c, c.Scale(8, 100))
	c19StrictReaderOnly(c, c.Scale(8, 100))
	c19FileStorageRecover(c, c.Scale(16, 300))
	if len(c.Res.Violations) == 0 {
		c19FileStorageLegacyNames(c, c.Scale(6, 100))
	}
	if len(c.Res.Violations) > 0 {
		return
	}
	c19LeanLeft = int64(c.Scale(300, 3000))
	n := c.Scale(4000, 120000)
	par := runtime.GOMAXPROCS(0)
	if par > 16 {
		par = 16
	}
	sem := make(chan struct{}, par)
	var wg sync.WaitGroup
	for i := 0; i < n; i++ {
		r := c.R.Fork()
		if !c.TimeLeft() {
			break
		}
		sem <- struct{}{}
		wg.Add(1)
		go func(i int, r *rng.R) {
			defer wg.Done()
			defer func() { <-sem }()
			c.Guard("recover:harness", i, func() { c19One(c, once, r, i) })
		}(i, r)
	}
	wg.Wait()
}

func c19One(c *Ctx, once *crSigOnce, r *rng.R, i int) {
	o := gen.RandOpts(r)
	o.Cmp = gen.CmpIDs[i%len(gen.CmpIDs)]
	o.WriteBuffer = 512 << uint(r.Intn(4))
	o.TableSize = 512 << uint(r.Intn(3))
	o.BlockSize = 64 << uint(r.Intn(3))
	o.MaxManifest = 0
	o.OpenFiles = 20 + r.Intn(40)
	h := &c19Hist{Opts: o, Seed: r.U64(), N: 150 + r.Intn(251)}
	d, skip := c19Build(c, h)
	if d == nil {
		c.Res.Count("skipped", skip)
		return
	}
	c.Res.Count("comparer", o.Cmp)
	c.Res.Count("filter", fmt.Sprintf("bits=%d", o.FilterBits))
	c.Res.Count("compression", fmt.Sprintf("%d", o.Compression))
	c.Res.Count("levels", fmt.Sprintf("%d", d.levels))
	c.Res.Count("tables", c14BucketSafe(len(d.tables)))
	c.Res.Count("journal_entries", c14BucketSafe(len(d.mem)))
	rich := len(d.tables) >= 2 && d.deleted > 0
	if i < 2 {
		c.Res.Sample(map[string]interface{}{"history": h, "tables": len(d.tables), "levels": d.levels, "entries_only_in_journal": len(d.mem), "live_keys": len(d.m), "ops": d.stats})
	}
	// ---- part A: manifest variants -------------------------------------------------------------
	variants := []string{c19Variants[r.Intn(4)]}
	if c.Thorough {
		variants = c19Variants
	}
	for _, v := range variants {
		cs := &c19Case{Hist: h, Manifest: v, VarSeed: r.U64(), How: c19How}
		vr := rng.New(cs.VarSeed)
		img := d.st.Clone()
		c19ApplyManifest(img, d, cs, vr)
		c.Res.Count("variant", "A:"+v)
		c.Res.Eval(fmt.Sprintf("A/%d/%s/%d", h.Seed, v, cs.Cut), rich)
		if c19WantLean() {
			cs.lean = &c19Lean{pristine: img.Clone()}
		}
		c19Recover(c, once, d, img, cs, nil, vr)
	}
	// ---- part B: damaged data blocks --------------------------------------------------------------
	if len(d.tables) == 0 {
		return
	}
	cs := &c19Case{Hist: h, Manifest: c19Variants[r.Intn(4)], VarSeed: r.U64(), How: c19How}
	vr := rng.New(cs.VarSeed)
	img := d.st.Clone()
	c19ApplyManifest(img, d, cs, vr)
	vers, tis, ok := c19Collect(c, d, img, h)
	if !ok {
		return
	}
	nd := 1 + vr.Intn(3)
	lostEntries := 0
	origByte := map[string]byte{}
	for j := 0; j < nd; j++ {
		ti := tis[vr.Intn(len(tis))]
		bi := vr.Intn(len(ti.starts))
		lo, hi := ti.starts[bi], ti.starts[bi]+16
		if bi+1 < len(ti.starts) {
			hi = ti.starts[bi+1]
		}
		off := int(lo) + vr.Intn(int(hi-lo))
		dm := c19Damage{Table: ti.fd.Num, Offset: off, Block: lo, Old: ti.data[off]}
		crFlipByte(vr, ti.data, off)
		// a second flip of the same byte must not restore the original (the block would be intact again while the
		// oracles count it as lost)
		ok0 := fmt.Sprintf("%d/%d", ti.fd.Num, off)
		if o0, seen := origByte[ok0]; !seen {
			origByte[ok0] = dm.Old
		} else {
			for ti.data[off] == o0 {
				crFlipByte(vr, ti.data, off)
			}
		}
		dm.New = ti.data[off]
		cs.Damage = append(cs.Damage, dm)
		for k, v := range ti.vs {
			if v != nil && ti.blockOf[k] == lo && !v.lost {
				v.lost = true
				lostEntries++
			}
		}
		img.PutFile(ti.fd, ti.data)
	}
	c.Res.Count("variant", "B:"+cs.Manifest)
	c.Res.Count("damaged_blocks", fmt.Sprintf("%d", nd))
	c.Res.Eval(fmt.Sprintf("B/%d/%v", h.Seed, cs.Damage), lostEntries > 0)
	if c19WantLean() {
		cs.lean = &c19Lean{pristine: img.Clone(), surv: map[int64][]leveldb.VerifEntry{}}
		for _, dm := range cs.Damage {
			for _, ti := range tis {
				if ti.fd.Num != dm.Table {
					continue
				}
				keep := []leveldb.VerifEntry{}
				for k, e := range ti.ents {
					if ti.vs[k] != nil && !ti.vs[k].lost {
						keep = append(keep, e)
					}
				}
				cs.lean.surv[ti.fd.Num] = keep
			}
		}
	}
	c19Recover(c, once, d, img, cs, vers, vr)
	// ---- part C: damaged metaindex block, footer handle beyond the file (c19meta.go) ----------------
	c19PartC(c, once, d, h, r, i)
}

// c19TInfo: a live table of the image with its entries, their versions and data-block starts.
type c19TInfo struct {
	fd      storage.FileDesc
	data    []byte
	ents    []leveldb.VerifEntry
	vs      []*c19Ver
	blockOf []int64
	starts  []int64
}

// c19Collect lists all versions per key, from the tables of the image and the journal entries.
func c19Collect(c *Ctx, d *c19DB, img *stor.Stor, h *c19Hist) (vers map[string][]*c19Ver, tis []*c19TInfo, ok bool) {
	vers = map[string][]*c19Ver{}
	addVer := func(e leveldb.VerifEntry, where string) *c19Ver {
		u, seq, kt, err := leveldb.VerifParseInternalKey(e.IKey)
		if err != nil {
			return nil
		}
		v := &c19Ver{seq: seq, del: kt == 0, val: string(e.Value), where: where}
		vers[string(u)] = append(vers[string(u)], v)
		return v
	}
	for _, e := range d.mem {
		addVer(e, "journal")
	}
	for _, t := range d.tables {
		fd := storage.FileDesc{Type: storage.TypeTable, Num: t.Num}
		data, _ := img.FileBytes(fd)
		ents, blockOf, starts, err := crTableBlocks(data, fd, d.o)
		if err != nil {
			c.Res.Count("skipped", "table-unreadable-before-damage")
			c.Res.Note("table %d of history %d unreadable before damage: %v", t.Num, h.Seed, err)
			return nil, nil, false
		}
		ti := &c19TInfo{fd: fd, data: data, ents: ents, blockOf: blockOf, starts: starts}
		for _, e := range ents {
			ti.vs = append(ti.vs, addVer(e, crFdName(fd)))
		}
		tis = append(tis, ti)
	}
	return vers, tis, true
}

func c14BucketSafe(n int) string {
	switch {
	case n == 0:
		return "0"
	case n < 4:
		return "1-3"
	case n < 10:
		return "4-9"
	case n < 30:
		return "10-29"
	}
	return "30+"
}

// c19Recover runs Recover on the image and evaluates the oracles; vers == nil means part A (exact).
// c19AfterCrashInRecover: what a user does after Recover died: Open; if Open refuses, Recover again.  Either way the
// settled contents must be there (part A: nothing is damaged).
func c19AfterCrashInRecover(d *c19DB, ci *stor.Stor, openFirst bool) (sig, msg string) {
	same := func(db *leveldb.DB) string {
		got, err := crDumpDB(db)
		if err != nil {
			return "scan: " + err.Error()
		}
		for k, v := range d.m {
			if g, ok := got[k]; !ok || g != v {
				return fmt.Sprintf("key %x = %.20q (present=%v), the settled DB had %.20q; %d of %d keys returned", k, g, ok, v, len(got), len(d.m))
			}
		}
		for k := range got {
			if _, ok := d.m[k]; !ok {
				return fmt.Sprintf("key %x returned, the settled DB did not have it", k)
			}
		}
		return ""
	}
	var db *leveldb.DB
	var err error
	var hung bool
	if openFirst {
		// the old manifest was missing or unreachable, so an Open that succeeds runs on the manifest Recover wrote:
		// it must then be complete (an Open on a stale but readable manifest would be the user's mistake, not Recover's)
		err, hung = crCall(crWdTimeout, func() (err error) { db, err = leveldb.Open(ci.Clone(), d.o); return })
		if hung {
			return "open-hang", "Open of the image did not return"
		}
		if err == nil {
			diff := same(db)
			crCall(crWdTimeout, db.Close)
			if diff != "" {
				return "open-succeeds-with-data-lost", "Open succeeded but " + diff
			}
		}
	}
	// what the user does after Recover died: Recover again
	err, hung = crCall(crWdTimeout, func() (err error) { db, err = leveldb.Recover(ci, d.o); return })
	if hung || err != nil {
		return "second-recover-fails", fmt.Sprintf("a second Recover on the image failed: err=%v hung=%v", err, hung)
	}
	diff := same(db)
	crCall(crWdTimeout, db.Close)
	if diff != "" {
		return "second-recover-loses-data", "a second Recover on the image returned: " + diff
	}
	return "", ""
}

// inRecoverTable: the calling goroutine is inside leveldb's recoverTable.
func inRecoverTable() bool {
	buf := make([]byte, 16<<10)
	buf = buf[:runtime.Stack(buf, false)]
	return bytes.Contains(buf, []byte(".recoverTable"))
}

func c19Recover(c *Ctx, once *crSigOnce, d *c19DB, img *stor.Stor, cs *c19Case, vers map[string][]*c19Ver, r *rng.R) {
	part := "A"
	if vers != nil {
		part = "B"
	}
	if cs.Class != "" {
		part = "C-" + cs.Class
	}
	// D19: a damaged table is rebuilt with the caller's comparer and filter instead of the internal ones;
	// whether Recover went through that rebuild path is read off the storage operations.
	rebuilt := func() bool { // a rebuilt table is written to a temporary file and renamed over the damaged one
		for _, op := range img.Ops() {
			if op.Kind == stor.OpRename || (op.Kind == stor.OpCreate && op.Fd.Type == storage.TypeTemp) {
				return true
			}
		}
		return false
	}
	d19 := func(oracle string) string {
		if cs.Class != "" {
			return "recover:" + cs.Class + ":" + oracle
		}
		if vers != nil && rebuilt() {
			return "recoverTable:user-comparer-filter:" + oracle
		}
		if vers != nil {
			return "recover:damaged-blocks:" + oracle
		}
		return "recover:manifest-" + cs.Manifest + ":" + oracle
	}
	var db *leveldb.DB
	// a quarter of the cases: one read of a table file fails during Recover (a transient I/O error, not damage).
	// Recover may give up with that error — then a second, undisturbed Recover has to succeed — or cope; either way
	// the oracles below apply to what it finally returns.
	var readFault, fired int32
	if r.Chance(1, 4) {
		nth := int32(1 + r.Intn(24))
		readFault = nth
		var seen int32
		img.SetHooks(func(op stor.Op) stor.FaultMode {
			// only reads made by Recover's own table scan/rebuild: the DB it returns already runs background
			// compactions, whose reads must not be disturbed (that would be a fault during normal operation, C08)
			if op.Kind == stor.OpRead && op.Fd.Type == storage.TypeTable && inRecoverTable() && atomic.AddInt32(&seen, 1) == nth {
				atomic.StoreInt32(&fired, 1)
				return stor.FailNoEffect
			}
			return stor.NoFault
		}, nil)
	}
	// an eighth of the undamaged cases: the process dies inside Recover.  Crash images are taken before mutating
	// storage operations made from inside Recover's own rebuild; each must afterwards either open with everything
	// or refuse to open and be recoverable with everything (checked below, once Recover itself is through).
	var crashImgs []*stor.Stor
	crashScenario := false
	if vers == nil && readFault == 0 && r.Chance(1, 8) {
		crashScenario = true
		every := 1 + r.Intn(3)
		var nmut int
		img.SetHooks(nil, func(s *stor.Stor, op stor.Op) {
			if !op.Kind.Mutating() || !inRecoverTable() {
				return
			}
			nmut++
			if nmut%every == 0 && len(crashImgs) < 12 {
				// the process dies, not the machine: what has been written stays (the settled DB was closed
				// without syncing its last journal)
				crashImgs = append(crashImgs, s.ImageLocked(nil))
			}
		})
	}
	// a third of the cases that go to the Lean model: the operations of recoverTable are recorded and crash images
	// are taken between them (process exit and machine crash), for Model/RecoverOps.lean (c19lean.go)
	leanOps := false
	if cs.lean != nil && readFault == 0 && !crashScenario && r.Chance(1, 3) {
		leanOps = true
		cs.lean.ops = []string{}
		img.SetHooks(nil, cs.lean.hook(1+r.Intn(2)))
	}
	err, hung := crCall(crWdTimeout, func() (err error) { db, err = leveldb.Recover(img, d.o); return })
	if leanOps {
		img.SetHooks(nil, nil)
		if err != nil || hung {
			cs.lean.ops, cs.lean.crashes = nil, nil
		} else {
			cs.lean.evalCrashes(d.o)
			c.Res.CountN("lean", part+":crash-images", len(cs.lean.crashes))
			if cs.lean.irregular {
				c.Res.Count("lean", part+":journal-flushed-in-pieces")
			}
		}
	}
	if crashImgs != nil {
		img.SetHooks(nil, nil)
		c.Res.CountN("crash_in_recover", "images", len(crashImgs))
		for i, ci := range crashImgs {
			if sig, msg := c19AfterCrashInRecover(d, ci, cs.Manifest == "deleted" || cs.Manifest == "current-cleared"); sig != "" {
				csig := "recover:crash-inside-Recover:" + sig
				if cs.Class != "" {
					csig = d19("crash-inside-Recover:" + sig)
				}
				once.report(c, csig, fmt.Sprintf("image %d of %d taken inside Recover: %s", i, len(crashImgs), msg), cs)
				break
			}
		}
	}
	if readFault > 0 {
		img.SetHooks(nil, nil)
		c.Res.Count("read_fault", fmt.Sprintf("fired=%v recover-error=%v", atomic.LoadInt32(&fired) == 1, err != nil))
		if _, isPanic := err.(*crPanicErr); err != nil && !hung && !isPanic && atomic.LoadInt32(&fired) == 1 {
			err, hung = crCall(crWdTimeout, func() (err error) { db, err = leveldb.Recover(img, d.o); return })
		}
	}
	if vers != nil {
		c.Res.Count("B_rebuild", fmt.Sprintf("table-rebuilt=%v", rebuilt()))
	}
	if hung {
		once.report(c, d19("hang"), "Recover did not return within 20 s:\n"+blockedSummary(crGoroutines()), cs)
		return
	}
	if pe, ok := err.(*crPanicErr); ok {
		once.report(c, d19("recover-panic:"+crPanicSite(pe.Stack)), fmt.Sprintf("Recover panicked: %v\n%s", pe.Val, pe.Stack), cs)
		c.Res.Count("outcome", part+":recover-panic")
		return
	}
	if err != nil {
		cls := "recover-error"
		if strings.Contains(err.Error(), "increasing order") {
			cls = "recover-error:keys-not-increasing"
		}
		once.report(c, d19(cls), fmt.Sprintf("Recover failed (cmp %s, filter bits %d): %v", cs.Hist.Opts.Cmp, cs.Hist.Opts.FilterBits, err), cs)
		c.Res.Count("outcome", part+":recover-error")
		return
	}
	closed := false
	defer func() {
		if !closed {
			crCall(crWdTimeout, db.Close)
		}
	}()
	var got kvmap
	err, hung = crCall(crWdTimeout, func() (err error) { got, err = crDumpDB(db); return })
	if hung {
		once.report(c, d19("scan-hang"), "scan after Recover did not return", cs)
		return
	}
	if pe, ok := err.(*crPanicErr); ok {
		once.report(c, d19("scan-panic:"+crPanicSite(pe.Stack)), fmt.Sprintf("scan after Recover panicked: %v\n%s", pe.Val, pe.Stack), cs)
		c.Res.Count("outcome", part+":scan-panic")
		return
	}
	if err != nil {
		once.report(c, d19("scan-error"), fmt.Sprintf("scan after Recover failed: %v", err), cs)
		return
	}
	if cs.lean != nil && cs.lean.crashes != nil {
		// Go-side oracle for the crash images taken for the model: a second Recover returns what the uninterrupted
		// one returned, and — the old manifest being unreachable — an Open that succeeds returns the same
		want := strings.Replace(crDigest(got), " ", ":", 1)
		for _, cr := range cs.lean.crashes {
			if cr.again != want {
				once.report(c, "recover:crash-inside-Recover:second-recover-differs", fmt.Sprintf("crash after %d storage operations of Recover (%s): a second Recover returns %s, the uninterrupted one %s; recoverTable's operations: %v, openDB's: %v", cr.k, cr.how, cr.again, want, cs.lean.ops, cs.lean.ops3), cs)
				break
			}
			if (cs.Manifest == "deleted" || cs.Manifest == "current-cleared") && strings.HasPrefix(cr.open, "ok:") && cr.open != "ok:"+want {
				once.report(c, "recover:crash-inside-Recover:open-succeeds-with-data-lost", fmt.Sprintf("crash after %d storage operations of Recover (%s): Open succeeds with %s, Recover returns %s", cr.k, cr.how, cr.open, want), cs)
				break
			}
		}
	}
	if cs.lean != nil {
		if f := os.Getenv("VERIF_C19_DUMP"); f != "" {
			c19DebugDump(f, cs, got)
		}
		if c19EmitRebuild(c, cs.lean, d.o, cs.Hist.Opts.Cmp, "ok "+crDigest(got)) {
			c.Res.Count("lean", part+":images")
		}
		cs.lean = nil
	}
	// expected contents
	if vers == nil {
		for k, v := range d.m {
			if g, ok := got[k]; !ok || g != v {
				once.report(c, d19("contents-differ"), fmt.Sprintf("after Recover key %x = %.24q (present=%v), the settled DB had %.24q", k, g, ok, v), cs)
				c.Res.Count("outcome", part+":contents-differ")
				return
			}
		}
		for k, g := range got {
			if _, ok := d.m[k]; !ok {
				once.report(c, d19("contents-differ"), fmt.Sprintf("after Recover key %x = %.24q is returned, the settled DB did not have it (ever written: %v)", k, g, d.ever[k]), cs)
				c.Res.Count("outcome", part+":contents-differ")
				return
			}
		}
	} else {
		kept, resurrected, hidden := 0, 0, 0
		for k, g := range got {
			if !d.hist[k][g] {
				once.report(c, d19("invented-pair"), fmt.Sprintf("after Recover key %x = %.24q was never written", k, g), cs)
				c.Res.Count("outcome", "B:invented")
				return
			}
		}
		keys := make([]string, 0, len(vers))
		for k := range vers {
			keys = append(keys, k)
		}
		sort.Strings(keys)
		for _, k := range keys {
			var newest *c19Ver
			for _, v := range vers[k] {
				if newest == nil || v.seq > newest.seq {
					newest = v
				}
			}
			g, ok := got[k]
			if newest.lost { // an older version or nothing may come back (never an invented value: checked above)
				if ok {
					resurrected++
				} else {
					hidden++
				}
				continue
			}
			kept++
			switch {
			case newest.del && ok:
				once.report(c, d19("undamaged-tombstone-ignored"), fmt.Sprintf("key %x: newest version is a deletion (seq %d in %s, undamaged) but Recover returns %.24q", k, newest.seq, newest.where, g), cs)
				c.Res.Count("outcome", "B:undamaged-not-returned")
				return
			case !newest.del && (!ok || g != newest.val):
				once.report(c, d19("undamaged-entry-not-returned"), fmt.Sprintf("key %x: newest version %.24q (seq %d in %s) sits in an undamaged block but Recover returns %.24q (present=%v)", k, newest.val, newest.seq, newest.where, g, ok), cs)
				c.Res.Count("outcome", "B:undamaged-not-returned")
				return
			}
		}
		c.Res.CountN("B_keys", "newest-undamaged-returned", kept)
		c.Res.CountN("B_keys", "newest-damaged:some-version-returned", resurrected)
		c.Res.CountN("B_keys", "newest-damaged:absent", hidden)
	}
	// Get must agree with the scan (a rebuilt filter or index must not hide keys)
	keys := map[string]bool{}
	for k := range d.ever {
		keys[k] = true
	}
	for k := range got {
		keys[k] = true
	}
	for k := range keys {
		var v []byte
		gerr, hung := crCall(crWdTimeout, func() (err error) { v, err = db.Get([]byte(k), nil); return })
		if hung {
			once.report(c, d19("get-hang"), "Get after Recover did not return", cs)
			return
		}
		if pe, ok := gerr.(*crPanicErr); ok {
			once.report(c, d19("get-panic:"+crPanicSite(pe.Stack)), fmt.Sprintf("Get(%x) after Recover panicked: %v\n%s", k, pe.Val, pe.Stack), cs)
			c.Res.Count("outcome", part+":get-panic")
			return
		}
		g, ok := got[k]
		switch {
		case gerr == nil && (!ok || g != string(v)):
			once.report(c, d19("get-vs-scan"), fmt.Sprintf("Get(%x) = %.24q but the scan has %.24q (present=%v)", k, v, g, ok), cs)
			return
		case gerr == leveldb.ErrNotFound && ok:
			once.report(c, d19("get-hides-key"), fmt.Sprintf("Get(%x) not found but the scan returns %.24q (filter bits %d)", k, g, cs.Hist.Opts.FilterBits), cs)
			c.Res.Count("outcome", part+":get-hides-key")
			return
		case gerr != nil && gerr != leveldb.ErrNotFound:
			once.report(c, d19("get-error"), fmt.Sprintf("Get(%x) after Recover: %v", k, gerr), cs)
			return
		}
	}
	// the recovered DB is an ordinary DB: use it, close it, reopen it with Open
	want := got.clone()
	uerr, hung := crCall(crWdTimeout, func() error {
		for j := 0; j < 12; j++ {
			k := fmt.Sprintf("zz-after-%d", r.Intn(8))
			if r.Chance(1, 4) {
				if err := db.Delete([]byte(k), nil); err != nil {
					return err
				}
				delete(want, k)
			} else {
				v := fmt.Sprintf("w%d-%s", j, strings.Repeat("x", r.Intn(200)))
				if err := db.Put([]byte(k), []byte(v), nil); err != nil {
					return err
				}
				want[k] = v
			}
		}
		if err := db.CompactRange(util.Range{}); err != nil {
			return err
		}
		return db.Close()
	})
	closed = !hung
	if hung {
		once.report(c, d19("use-after-recover:hang"), "a call on the recovered DB did not return within 20 s:\n"+blockedSummary(crGoroutines()), cs)
		return
	}
	if pe, ok := uerr.(*crPanicErr); ok {
		once.report(c, d19("use-after-recover:panic:"+crPanicSite(pe.Stack)), fmt.Sprintf("using the recovered DB panicked: %v\n%s", pe.Val, pe.Stack), cs)
		c.Res.Count("outcome", part+":use-panic")
		closed = false
		return
	}
	if uerr != nil {
		once.report(c, d19("use-after-recover:error"), fmt.Sprintf("writes / CompactRange / Close on the recovered DB: %v", uerr), cs)
		c.Res.Count("outcome", part+":use-error")
		return
	}
	var db2 *leveldb.DB
	err, hung = crCall(crWdTimeout, func() (err error) { db2, err = leveldb.Open(img, d.o); return })
	if hung || err != nil {
		once.report(c, d19("open-after-recover"), fmt.Sprintf("Open after Recover + use + Close: err=%v hung=%v", err, hung), cs)
		return
	}
	got2, err := func() (m kvmap, err error) {
		e, _ := crCall(crWdTimeout, func() (err error) { m, err = crDumpDB(db2); return })
		return m, e
	}()
	crCall(crWdTimeout, db2.Close)
	if err != nil {
		cls := "open-after-recover:scan-error"
		if pe, ok := err.(*crPanicErr); ok {
			cls = "open-after-recover:scan-panic:" + crPanicSite(pe.Stack)
		}
		once.report(c, d19(cls), fmt.Sprintf("scan after reopen: %v", err), cs)
		return
	}
	if len(got2) != len(want) {
		once.report(c, d19("open-after-recover:contents"), fmt.Sprintf("after reopen %d keys, expected %d", len(got2), len(want)), cs)
		return
	}
	for k, v := range want {
		if got2[k] != v {
			once.report(c, d19("open-after-recover:contents"), fmt.Sprintf("after reopen key %x = %.24q, expected %.24q", k, got2[k], v), cs)
			return
		}
	}
	c.Res.Count("outcome", part+":ok")
}

var c19DumpMu sync.Mutex

// c19DebugDump appends one JSON line per image that goes to the model (VERIF_C19_DUMP=<file>, for investigation).
func c19DebugDump(file string, cs *c19Case, got kvmap) {
	c19DumpMu.Lock()
	defer c19DumpMu.Unlock()
	f, err := os.OpenFile(file, os.O_APPEND|os.O_CREATE|os.O_WRONLY, 0o644)
	if err != nil {
		return
	}
	defer f.Close()
	keys := map[string]int{}
	for k, v := range got {
		keys[fmt.Sprintf("%x", k)] = len(v)
	}
	var jn []int64
	for _, fd := range cs.lean.pristine.Files() {
		if fd.Type == storage.TypeJournal {
			jn = append(jn, fd.Num)
		}
	}
	b, _ := json.Marshal(map[string]interface{}{"case": cs, "journals": jn, "got": keys, "digest": crDigest(got)})
	f.Write(append(b, '\n'))
}
