package checks

// Shared machinery of the crash / fault checks (C04, C08, C11, C19): marker-key workloads whose
// recovered contents identify the subset of batches that survived, watchdogs, crash-image cases with
// nested crashes, table/image readers and the `dur` line protocol for the Lean model of recovery.

import (
	"bytes"
	"encoding/hex"
	"fmt"
	"hash/crc32"
	"runtime"
	"runtime/debug"
	"sort"
	"strings"
	"sync"
	"sync/atomic"
	"time"

	"github.com/syndtr/goleveldb/leveldb"
	lerrors "github.com/syndtr/goleveldb/leveldb/errors"
	"github.com/syndtr/goleveldb/leveldb/opt"
	"github.com/syndtr/goleveldb/leveldb/storage"
	"github.com/syndtr/goleveldb/leveldb/table"
	"github.com/syndtr/goleveldb/leveldb/util"

	"verif/harness/gen"
	"verif/harness/rng"
	"verif/harness/stor"
)

// ---- watchdogs -------------------------------------------------------------------------------

const crWdTimeout = 20 * time.Second

// callW runs f under a watchdog: hung is true when f did not return within d (f keeps running).
func crCall(d time.Duration, f func() error) (err error, hung bool) {
	ch := make(chan error, 1)
	go func() { ch <- crNoPanic(f) }()
	t := time.NewTimer(d)
	defer t.Stop()
	select {
	case e := <-ch:
		return e, false
	case <-t.C:
		return nil, true
	}
}

// callWP is callW for runs whose storage hooks do slow work (image checks inside the hook): the call
// counts as hung only when it neither returned nor the progress counter moved for d.
func crCallP(d time.Duration, progress *int64, f func() error) (err error, hung bool) {
	ch := make(chan error, 1)
	go func() { ch <- crNoPanic(f) }()
	last := atomic.LoadInt64(progress)
	lastMove := time.Now()
	tk := time.NewTicker(250 * time.Millisecond)
	defer tk.Stop()
	for {
		select {
		case e := <-ch:
			return e, false
		case <-tk.C:
			if p := atomic.LoadInt64(progress); p != last {
				last, lastMove = p, time.Now()
			} else if time.Since(lastMove) > d {
				return nil, true
			}
		}
	}
}

// crPanicErr is what a watched call returns when it panicked (no property allows a crash).
type crPanicErr struct {
	Val   interface{}
	Stack string
}

func (p *crPanicErr) Error() string { return fmt.Sprintf("PANIC: %v", p.Val) }

func crNoPanic(f func() error) (err error) {
	defer func() {
		if p := recover(); p != nil {
			err = &crPanicErr{p, string(debug.Stack())}
		}
	}()
	return f()
}

// crPanicSite names the innermost goleveldb frame of a panic stack (stable part of a signature).
func crPanicSite(stack string) string {
	for _, l := range strings.Split(stack, "\n") {
		if strings.HasPrefix(l, "github.com/syndtr/goleveldb/leveldb") {
			l = strings.TrimPrefix(l, "github.com/syndtr/goleveldb/")
			if i := strings.LastIndexByte(l, '('); i > 0 {
				l = l[:i]
			}
			return l
		}
	}
	return "unknown"
}

func crGoroutines() string {
	buf := make([]byte, 4<<20)
	buf = buf[:runtime.Stack(buf, true)]
	return string(buf)
}

// dumpMentioning keeps the goroutines of a dump whose stack mentions all of the given substrings.
func crDumpMentions(dump string, subs ...string) bool {
	for _, g := range strings.Split(dump, "\n\n") {
		ok := true
		for _, s := range subs {
			if !strings.Contains(g, s) {
				ok = false
				break
			}
		}
		if ok {
			return true
		}
	}
	return false
}

// ---- marker workloads --------------------------------------------------------------------------

type crOp struct {
	K   string `json:"k"`
	V   string `json:"v,omitempty"`
	Del bool   `json:"del,omitempty"`
}

// crBatch is one atomic unit of a workload: a plain batch, a batch larger than the write buffer
// (routed through a transaction by DB.Write), or an explicit transaction that is committed or
// discarded.  Its first op puts the head marker m%06d and its last op the tail marker t%06d, so the
// set of surviving batches can be read off the recovered contents and partial application shows.
type crBatch struct {
	ID      int    `json:"id"`
	Kind    string `json:"kind"` // write | big | tx | txdiscard
	Sync    bool   `json:"sync,omitempty"`
	Ops     []crOp `json:"ops"`
	Compact bool   `json:"compact,omitempty"` // CompactRange after it
	Chunks  int    `json:"chunks,omitempty"`  // tx: the body is written with this many Transaction.Write calls
}

type crSpec struct {
	Config     string   `json:"config"`
	Opts       gen.Opts `json:"opts"`
	Seed       uint64   `json:"workload_seed"`
	N          int      `json:"batches"`
	Settle     bool     `json:"settle"` // wait for background work after every batch (reproducible op order)
	BigPct     int      `json:"big_pct"`
	TxPct      int      `json:"tx_pct"`
	DiscardPct int      `json:"discard_pct"` // of the transactions
	CompactPct int      `json:"compact_pct"`
	Keys       int      `json:"keys"`
	KeyLen     int      `json:"key_len,omitempty"` // pad the k.. keys to this length (long imin/imax in manifest records)
	// BigManifest: flush-only layout (no table compaction, no write stalls) so that the manifest grows past
	// 32 KiB without rotation and its records straddle journal block boundaries; see options().
	BigManifest bool `json:"big_manifest,omitempty"`
}

// options is the option set of a workload: Opts plus what gen.Opts cannot express.
func (s *crSpec) options() *opt.Options {
	o := s.Opts.Options()
	if s.BigManifest {
		o.CompactionL0Trigger = 1 << 20
		o.WriteL0SlowdownTrigger = 1 << 20
		o.WriteL0PauseTrigger = 1 << 20
		o.DisableSeeksCompaction = true
		o.MaxManifestFileSize = 0 // default (64 MiB): no rotation
	}
	return o
}

func crHeadKey(id int) string { return fmt.Sprintf("m%06d", id) }
func crTailKey(id int) string { return fmt.Sprintf("t%06d", id) }

func (s *crSpec) gen() []*crBatch {
	r := rng.New(s.Seed)
	keys := s.Keys
	if keys == 0 {
		keys = 30
	}
	var out []*crBatch
	for i := 0; i < s.N; i++ {
		b := &crBatch{ID: i, Kind: "write", Sync: r.Intn(3) == 0}
		x := r.Intn(100)
		switch {
		case x < s.BigPct:
			b.Kind = "big"
		case x < s.BigPct+s.TxPct:
			b.Kind = "tx"
			if r.Intn(100) < s.DiscardPct {
				b.Kind = "txdiscard"
			}
		}
		b.Compact = r.Intn(100) < s.CompactPct
		b.Ops = append(b.Ops, crOp{K: crHeadKey(i), V: "1"})
		n := r.Intn(5)
		vsz := func() int { return r.Intn(120) }
		switch b.Kind {
		case "big":
			n = 6
			wb := s.Opts.WriteBuffer
			vsz = func() int { return wb/4 + r.Intn(wb/2+1) }
		case "tx", "txdiscard":
			n = 1 + r.Intn(40)
			big := r.Intn(2) == 0
			vsz = func() int {
				if big {
					return r.Intn(300)
				}
				return r.Intn(60)
			}
			b.Chunks = 1 + r.Intn(3)
		}
		if s.BigManifest && b.Kind == "write" {
			b.Sync = true // every frozen journal then holds acknowledged batches
			n = 1 + r.Intn(4)
			vsz = func() int { return r.Intn(20) }
		}
		for j := 0; j < n; j++ {
			k := fmt.Sprintf("k%02d", r.Intn(keys))
			if s.KeyLen > len(k) {
				k += strings.Repeat("x", s.KeyLen-len(k))
			}
			if r.Intn(4) == 0 {
				b.Ops = append(b.Ops, crOp{K: k, Del: true})
			} else {
				b.Ops = append(b.Ops, crOp{K: k, V: fmt.Sprintf("%d-%s", i, strings.Repeat("v", vsz()))})
			}
		}
		b.Ops = append(b.Ops, crOp{K: crTailKey(i), V: "1"})
		out = append(out, b)
	}
	return out
}

func (b *crBatch) batch(from, to int) *leveldb.Batch {
	lb := new(leveldb.Batch)
	for _, op := range b.Ops[from:to] {
		if op.Del {
			lb.Delete([]byte(op.K))
		} else {
			lb.Put([]byte(op.K), []byte(op.V))
		}
	}
	return lb
}

func crApplyBatches(bs []*crBatch, present func(id int) bool) kvmap {
	m := kvmap{}
	for _, b := range bs {
		if !present(b.ID) {
			continue
		}
		for _, op := range b.Ops {
			if op.Del {
				delete(m, op.K)
			} else {
				m[op.K] = op.V
			}
		}
	}
	return m
}

// dumpDB reads everything through an iterator.
func crDumpDB(db *leveldb.DB) (kvmap, error) {
	m := kvmap{}
	it := db.NewIterator(nil, nil)
	for it.Next() {
		m[string(it.Key())] = string(it.Value())
	}
	err := it.Error()
	it.Release()
	return m, err
}

// markers reads which batches are (head) present and which show only one of their two markers.
func crMarkers(got kvmap) (present map[int]bool, partial []int) {
	present = map[int]bool{}
	tails := map[int]bool{}
	for k := range got {
		var id int
		if len(k) == 7 && k[0] == 'm' {
			if n, _ := fmt.Sscanf(k[1:], "%d", &id); n == 1 {
				present[id] = true
			}
		} else if len(k) == 7 && k[0] == 't' {
			if n, _ := fmt.Sscanf(k[1:], "%d", &id); n == 1 {
				tails[id] = true
			}
		}
	}
	for id := range present {
		if !tails[id] {
			partial = append(partial, id)
		}
	}
	for id := range tails {
		if !present[id] {
			partial = append(partial, id)
		}
	}
	sort.Ints(partial)
	return
}

func crSortedIDs(m map[int]bool) []int {
	var ks []int
	for k := range m {
		ks = append(ks, k)
	}
	sort.Ints(ks)
	return ks
}

// subsetOracle is the oracle shared by the crash and fault checks: the contents must be what exactly
// the batches whose marker is present produce, applied in issue order; allowed(id) says whether batch
// id may be present at all, must lists the ids that have to be.  It returns the failing oracle's name.
func crSubsetOracle(bs []*crBatch, got kvmap, allowed func(id int) bool, must []int) (oracle, msg string, present map[int]bool) {
	present, partial := crMarkers(got)
	for _, id := range crSortedIDs(present) {
		if !allowed(id) {
			return "never-issued-present", fmt.Sprintf("batch %d is present although it was never issued (or was discarded)", id), present
		}
	}
	if len(partial) > 0 {
		return "batch-partial", fmt.Sprintf("batches %v show one of their two markers only: applied partially", partial), present
	}
	for _, id := range must {
		if !present[id] {
			return "acked-missing", fmt.Sprintf("acknowledged batch %d (kind %s, sync %v) is missing", id, bs[id].Kind, bs[id].Sync), present
		}
	}
	want := crApplyBatches(bs, func(id int) bool { return present[id] })
	for k, v := range want {
		g, ok := got[k]
		if !ok {
			return "contents-mismatch", fmt.Sprintf("key %q missing; the present batches %s produce %.24q", k, crIDRanges(crSortedIDs(present)), v), present
		}
		if g != v {
			return "contents-mismatch", fmt.Sprintf("key %q = %.24q; the present batches %s produce %.24q", k, g, crIDRanges(crSortedIDs(present)), v), present
		}
	}
	for k, g := range got {
		if _, ok := want[k]; !ok {
			return "contents-mismatch", fmt.Sprintf("key %q = %.24q returned; the present batches %s leave it absent", k, g, crIDRanges(crSortedIDs(present))), present
		}
	}
	return "", "", present
}

func crIDRanges(ids []int) string {
	var sb strings.Builder
	sb.WriteByte('[')
	for i := 0; i < len(ids); {
		j := i
		for j+1 < len(ids) && ids[j+1] == ids[j]+1 {
			j++
		}
		if sb.Len() > 1 {
			sb.WriteByte(' ')
		}
		if j > i {
			fmt.Fprintf(&sb, "%d-%d", ids[i], ids[j])
		} else {
			fmt.Fprintf(&sb, "%d", ids[i])
		}
		i = j + 1
	}
	sb.WriteByte(']')
	return sb.String()
}

// ---- images ------------------------------------------------------------------------------------

func crErrClass(err error) string {
	if err == nil {
		return "ok"
	}
	if ce, ok := err.(*lerrors.ErrCorrupted); ok {
		if _, ok := ce.Err.(*lerrors.ErrMissingFiles); ok {
			return "missing-files"
		}
		return "corrupted"
	}
	if lerrors.IsCorrupted(err) {
		return "corrupted"
	}
	return "other"
}

func crFdName(fd storage.FileDesc) string { return fmt.Sprintf("%s-%d", stor.FtName(fd.Type), fd.Num) }

// imageHex renders an image for a replay file (nil when it is too large to be useful).
func crImageHex(s *stor.Stor) map[string]interface{} {
	if s == nil || s.TotalBytes() > 2<<20 {
		return nil
	}
	files := map[string]string{}
	for _, fd := range s.Files() {
		b, _ := s.FileBytes(fd)
		files[crFdName(fd)] = hex.EncodeToString(b)
	}
	out := map[string]interface{}{"files": files}
	if m, ok := s.Meta(); ok {
		out["current"] = crFdName(m)
	} else {
		out["current"] = "none"
	}
	return out
}

// crShadow tracks length and synced length per file from the operations seen by a Before hook (valid for
// fault-free runs), so that the tail policy drawn by stor.ImageLocked can be reported.
type crShadow map[storage.FileDesc]*[2]int

func crShadowOf(s *stor.Stor) crShadow {
	sh := crShadow{}
	for _, fd := range s.Files() {
		b, _ := s.FileBytes(fd)
		sh[fd] = &[2]int{len(b), len(b)}
	}
	return sh
}

func (sh crShadow) apply(op stor.Op) {
	switch op.Kind {
	case stor.OpCreate:
		sh[op.Fd] = &[2]int{0, 0}
	case stor.OpWrite:
		if f := sh[op.Fd]; f != nil {
			f[0] += op.N
		}
	case stor.OpSync:
		if f := sh[op.Fd]; f != nil {
			f[1] = f[0]
		}
	case stor.OpRemove:
		delete(sh, op.Fd)
	}
}

// takeImage materialises an image for the given seed and repairs one inadmissible effect of
// stor.ImageLocked: a file without any unsynced tail (everything fsynced) must come back exactly as it
// is - the zeros/garbage that the cut+zeros / cut+garbage policies append to such a file could
// retroactively complete a torn record that an earlier recovery already treated as absent (seen with
// nested crashes: a manifest record cut one 0x00 byte short, "healed" by zeros appended one level deeper).
func (sh crShadow) takeImage(s *stor.Stor, seed uint64) *stor.Stor {
	img := s.ImageLocked(rng.New(seed))
	for fd, f := range sh {
		if f[0] == f[1] && fd.Type != storage.TypeTable {
			if b, ok := img.FileBytes(fd); ok && len(b) > f[0] {
				img.PutFile(fd, b[:f[0]])
			}
		}
	}
	return img
}

// takeImageCut is takeImage with the named manifest cut at byte cut (full = its current bytes).
func (sh crShadow) takeImageCut(s *stor.Stor, seed uint64, mfd storage.FileDesc, cut int) *stor.Stor {
	img := sh.takeImage(s, seed)
	if full, ok := s.ImageLocked(nil).FileBytes(mfd); ok && cut <= len(full) {
		img.PutFile(mfd, full[:cut])
	}
	return img
}

// currentManifest is the manifest with the largest number (the one being written).
func (sh crShadow) currentManifest() (fd storage.FileDesc, length, synced int, ok bool) {
	for f, l := range sh {
		if f.Type == storage.TypeManifest && (!ok || f.Num > fd.Num) {
			fd, length, synced, ok = f, l[0], l[1], true
		}
	}
	return
}

var crTailNames = [...]string{"lost", "kept", "cut", "cut+zeros", "cut+garbage"}

// policies replays the draws of stor.imageLocked for the given seed and returns, per file with a
// non-empty unsynced tail, the policy that applies.
func (sh crShadow) policies(seed uint64) (out []string, unsyncedBytes int) {
	r := rng.New(seed)
	fds := make([]storage.FileDesc, 0, len(sh))
	for fd := range sh {
		fds = append(fds, fd)
	}
	sort.Slice(fds, func(i, j int) bool {
		if fds[i].Type != fds[j].Type {
			return fds[i].Type < fds[j].Type
		}
		return fds[i].Num < fds[j].Num
	})
	for _, fd := range fds {
		f := sh[fd]
		tail := f[0] - f[1]
		pol := r.Intn(5)
		if tail > 0 {
			r.Intn(tail + 1)
			out = append(out, stor.FtName(fd.Type)+"/"+crTailNames[pol])
			unsyncedBytes += tail
		}
		switch stor.TailPolicy(pol) {
		case stor.TailCutZeros:
			if fd.Type != storage.TypeTable {
				r.Intn(64)
			}
		case stor.TailCutGarbage:
			if fd.Type != storage.TypeTable {
				r.Bytes(r.Intn(40))
			}
		}
	}
	return
}

// ---- reading tables of an image ----------------------------------------------------------------

func crTableReaderOpts(o *opt.Options, strict bool) *opt.Options {
	ro := &opt.Options{Comparer: leveldb.VerifIComparer(o.GetComparer()), Filter: o.Filter}
	if strict {
		ro.Strict = opt.StrictAll
	} else {
		ro.Strict = opt.DefaultStrict &^ opt.StrictReader
	}
	return ro
}

// readTable lists the entries of a table file held in memory. strict: stop with an error at the first
// damaged block; otherwise damaged blocks are skipped (as Recover does).
func crReadTable(data []byte, fd storage.FileDesc, o *opt.Options, strict bool) (ents []leveldb.VerifEntry, err error) {
	defer func() {
		if p := recover(); p != nil {
			err = fmt.Errorf("table reader panic: %v", p)
		}
	}()
	tr, err := table.NewReader(bytes.NewReader(data), int64(len(data)), fd, nil, nil, crTableReaderOpts(o, strict))
	if err != nil {
		return nil, err
	}
	defer tr.Release()
	it := tr.NewIterator(nil, nil)
	for it.Next() {
		ents = append(ents, leveldb.VerifEntry{IKey: append([]byte{}, it.Key()...), Value: append([]byte{}, it.Value()...)})
	}
	err = it.Error()
	it.Release()
	if !strict && err != nil && lerrors.IsCorrupted(err) && len(ents) > 0 {
		err = nil
	}
	return ents, err
}

// tableBlocks returns, for a readable table, the start offsets of its data blocks (ascending), the end
// of the data area, and for each entry the start offset of the block that holds it.
func crTableBlocks(data []byte, fd storage.FileDesc, o *opt.Options) (ents []leveldb.VerifEntry, blockOf []int64, starts []int64, err error) {
	ents, err = crReadTable(data, fd, o, true)
	if err != nil {
		return
	}
	tr, err := table.NewReader(bytes.NewReader(data), int64(len(data)), fd, nil, nil, crTableReaderOpts(o, true))
	if err != nil {
		return
	}
	defer tr.Release()
	seen := map[int64]bool{}
	for _, e := range ents {
		off, e2 := tr.OffsetOf(e.IKey)
		if e2 != nil {
			err = e2
			return
		}
		blockOf = append(blockOf, off)
		if !seen[off] {
			seen[off] = true
			starts = append(starts, off)
		}
	}
	sort.Slice(starts, func(i, j int) bool { return starts[i] < starts[j] })
	return
}

// ---- Lean `dur` protocol -----------------------------------------------------------------------

var crLeanMu sync.Mutex

var crCastagnoli = crc32.MakeTable(crc32.Castagnoli)

// contentsDigest is "<nlive> <crc32c>" over the lines hex(k)=hex(v)\n sorted bytewise by raw key.
func crDigest(m kvmap) string {
	ks := make([]string, 0, len(m))
	for k := range m {
		ks = append(ks, k)
	}
	sort.Strings(ks)
	h := crc32.New(crCastagnoli)
	for _, k := range ks {
		fmt.Fprintf(h, "%s=%s\n", gen.Hex([]byte(k)), gen.Hex([]byte(m[k])))
	}
	return fmt.Sprintf("%d %08x", len(ks), h.Sum32())
}

// emitDur writes one image and the outcome of the real recovery for the Lean model of recovery.
func crEmitDur(c *Ctx, img *stor.Stor, o *opt.Options, cmpID string, outcome string) bool {
	fds := img.Files()
	for _, fd := range fds {
		if b, _ := img.FileBytes(fd); len(b) > 400<<10 {
			return false
		}
	}
	var lines []string
	lines = append(lines, "dur reset "+cmpID)
	if m, ok := img.Meta(); ok {
		lines = append(lines, fmt.Sprintf("dur current %d", m.Num))
	} else {
		lines = append(lines, "dur current none")
	}
	for _, fd := range fds {
		b, _ := img.FileBytes(fd)
		switch fd.Type {
		case storage.TypeManifest:
			lines = append(lines, fmt.Sprintf("dur file m %d %s", fd.Num, gen.Hex(b)))
		case storage.TypeJournal:
			lines = append(lines, fmt.Sprintf("dur file j %d %s", fd.Num, gen.Hex(b)))
		case storage.TypeTable:
			ents, err := crReadTable(b, fd, o, true)
			if err != nil {
				lines = append(lines, fmt.Sprintf("dur tablebad %d", fd.Num))
				break
			}
			var sb strings.Builder
			fmt.Fprintf(&sb, "dur table %d %d", fd.Num, len(ents))
			for _, e := range ents {
				sb.WriteByte(' ')
				sb.WriteString(gen.Hex(e.IKey))
				sb.WriteByte(' ')
				sb.WriteString(gen.Hex(e.Value))
			}
			if sb.Len() > 900<<10 {
				return false
			}
			lines = append(lines, sb.String())
		}
	}
	crLeanMu.Lock()
	for _, l := range lines {
		c.Lean(l, "ok")
	}
	c.Lean("dur recover", outcome)
	crLeanMu.Unlock()
	return true
}

// ---- crash-image engine (C04, C11) -------------------------------------------------------------

type crPoint struct {
	OpSeq   int    `json:"op_seq"` // index of the storage operation before which the crash happens
	Op      string `json:"op"`
	ImgSeed uint64 `json:"image_seed"` // rng.New(seed) is handed to stor.ImageLocked
	// ManifestCut > 0: afterwards the current manifest is cut at this byte (inside its unsynced tail)
	ManifestCut int    `json:"manifest_cut,omitempty"`
	Manifest    string `json:"manifest,omitempty"`
}

type crImgCase struct {
	img    *stor.Stor
	issued int
	acked  []int // must be present
	path   []crPoint
	// tornStraddle: the manifest was cut inside an unsynced record after a 32 KiB block boundary that the
	// record straddles (only the record's first journal chunk survives)
	tornStraddle bool
}

type crashEnv struct {
	c         *Ctx
	sigPref   string // "" for C04, "tx:" for C11
	spec      *crSpec
	batches   []*crBatch
	o         *opt.Options
	maxDepth  int    // nested crash levels below the first image
	nestProb  [2]int // chance (num, den) that an op of a recovery yields a nested image
	usable    int    // 1 in n images gets the usability part
	leanLeft  *int64
	leanEvery int
	stopped   int32
	progress  int64
	nimg      int64
}

func (e *crashEnv) allowed(ic *crImgCase) func(id int) bool {
	return func(id int) bool {
		return id >= 0 && id < ic.issued && id < len(e.batches) && e.batches[id].Kind != "txdiscard"
	}
}

func (e *crashEnv) replay(ic *crImgCase, pristine *stor.Stor, extra map[string]interface{}) map[string]interface{} {
	rp := map[string]interface{}{
		"workload": e.spec, "crash_path": ic.path, "issued_before_crash": ic.issued, "acked_before_crash": crIDRanges(ic.acked),
		"how": "run the workload (crSpec.gen with workload_seed) on stor.Stor with these options; in the Before hook of storage op op_seq take stor.ImageLocked(rng.New(image_seed)) and cut files that had no unsynced tail back to their length (crShadow.takeImage); reopen the image (nested entries: repeat during that reopen); the image bytes below make the case self-contained",
	}
	if im := crImageHex(pristine); im != nil {
		rp["image"] = im
	}
	for k, v := range extra {
		rp[k] = v
	}
	return rp
}

func (e *crashEnv) violate(oracle, msg string, ic *crImgCase, pristine *stor.Stor) {
	last := ic.path[len(ic.path)-1]
	sig := e.sigPref + "crash-image:" + oracle
	if ic.tornStraddle && (oracle == "acked-missing" || oracle == "contents-mismatch" || strings.HasPrefix(oracle, "reopen-error")) {
		// session.recover decodes the surviving first chunk of the torn record into its re-used record: the
		// scalars (journal number, sequence number) stick although the record is skipped
		sig = "session.recover:torn-manifest-record-keeps-scalars:" + oracle
		cut := last.ManifestCut
		if cut < 0 {
			cut = -cut
		}
		msg = fmt.Sprintf("manifest %s ends at byte %d inside an unsynced record that straddles a 32 KiB block boundary (its first chunk is complete): %s", last.Manifest, cut, msg)
	}
	e.c.Res.Violate(sig, fmt.Sprintf("config %s, crash before storage op #%d (%s), depth %d: %s", e.spec.Config, last.OpSeq, last.Op, len(ic.path), msg), e.replay(ic, pristine, nil))
	e.c.Res.Count("outcome", "violation:"+oracle)
}

// check reopens one image and evaluates the C04 oracles on it; r drives the nested images.
func (e *crashEnv) check(ic *crImgCase, r *rng.R) {
	c := e.c
	depth := len(ic.path)
	atomic.AddInt64(&e.nimg, 1)
	pristine := ic.img
	work := pristine.Clone()
	var nested []*crImgCase
	if depth <= e.maxDepth {
		sh := crShadowOf(work)
		nr := r.Fork()
		maxNested := 4
		if depth > 1 {
			maxNested = 2
		}
		work.SetHooks(nil, func(s *stor.Stor, op stor.Op) {
			atomic.AddInt64(&e.progress, 1)
			if len(nested) < maxNested && nr.Chance(e.nestProb[0], e.nestProb[1]) {
				seed := nr.U64()
				pols, _ := sh.policies(seed)
				for _, p := range pols {
					c.Res.Count("tail_policy", p)
				}
				nested = append(nested, &crImgCase{img: sh.takeImage(s, seed), issued: ic.issued, acked: ic.acked,
					path: append(append([]crPoint(nil), ic.path...), crPoint{OpSeq: op.Seq, Op: "recovery:" + string(op.Kind) + "/" + crFdName(op.Fd), ImgSeed: seed})})
				c.Res.Count("crash_op", "recovery:"+string(op.Kind)+"/"+stor.FtName(op.Fd.Type))
			}
			sh.apply(op)
		})
	}
	var db *leveldb.DB
	err, hung := crCallP(crWdTimeout, &e.progress, func() (err error) { db, err = leveldb.Open(work, e.o); return })
	work.SetHooks(nil, nil)
	nontrivial := ic.issued > 0
	c.Res.Eval(fmt.Sprintf("%s/%d/%v", e.spec.Config, e.spec.Seed, ic.path), nontrivial)
	c.Res.Count("depth", fmt.Sprintf("%d", depth))
	if hung {
		c.Res.Violate(e.sigPref+"crash-image:reopen:hang", "Open of a crash image did not return within 20 s:\n"+blockedSummary(crGoroutines()), e.replay(ic, pristine, nil))
		atomic.StoreInt32(&e.stopped, 1)
		c.Hung = true
		return
	}
	wantLean := depth == 1 && e.leanLeft != nil && r.Intn(e.leanEvery) == 0 && atomic.AddInt64(e.leanLeft, -1) >= 0
	if err != nil {
		e.violate("reopen-error:"+crErrClass(err), fmt.Sprintf("Open failed: %v", err), ic, pristine)
		if wantLean {
			crEmitDur(c, pristine, e.o, e.spec.Opts.Cmp, "err "+crErrClass(err))
		}
		return
	}
	closed := false
	defer func() {
		if !closed {
			crCall(crWdTimeout, db.Close)
		}
	}()
	got, derr := crDumpDB(db)
	if derr != nil {
		e.violate("read-error", fmt.Sprintf("iterating the reopened DB failed: %v", derr), ic, pristine)
		return
	}
	if wantLean {
		if crEmitDur(c, pristine, e.o, e.spec.Opts.Cmp, "ok "+crDigest(got)) {
			c.Res.Count("lean", "images")
		}
	}
	full := got.clone()
	for k := range got {
		if strings.HasPrefix(k, "zz-") { // probe writes of the harness itself
			delete(got, k)
		}
	}
	oracle, msg, present := crSubsetOracle(e.batches, got, e.allowed(ic), ic.acked)
	if oracle != "" {
		e.violate(oracle, msg, ic, pristine)
		return
	}
	// classes of what the crash did
	lost := 0
	for id := 0; id < ic.issued; id++ {
		if !present[id] && e.batches[id].Kind != "txdiscard" {
			lost++
		}
	}
	switch {
	case lost == 0:
		c.Res.Count("outcome", "all-issued-present")
	case lost == 1:
		c.Res.Count("outcome", "last-batch-lost-or-one-lost")
	default:
		c.Res.Count("outcome", "several-unsynced-batches-lost")
	}
	// in-flight unit at the crash: all or nothing was already checked; record which
	if ic.issued > 0 && ic.issued <= len(e.batches) {
		b := e.batches[ic.issued-1]
		inAck := false
		for _, id := range ic.acked {
			if id == b.ID {
				inAck = true
			}
		}
		if !inAck && b.Kind != "txdiscard" {
			c.Res.Count("inflight", fmt.Sprintf("%s:present=%v", b.Kind, present[b.ID]))
		}
	}
	// usability: the reopened DB takes writes, compacts, closes and reopens with the same contents
	if e.usable > 0 && r.Intn(e.usable) == 0 {
		if oracle, msg := e.usability(db, work, full, &closed); oracle != "" {
			e.violate(oracle, msg, ic, pristine)
			return
		}
		c.Res.Count("outcome", "usability-checked")
	}
	if !closed {
		crCall(crWdTimeout, db.Close)
		closed = true
	}
	for _, n := range nested {
		if atomic.LoadInt32(&e.stopped) != 0 {
			return
		}
		e.check(n, r)
	}
}

func (e *crashEnv) usability(db *leveldb.DB, work *stor.Stor, got kvmap, closed *bool) (string, string) {
	wo := &opt.WriteOptions{Sync: true}
	var oracle, msg string
	err, hung := crCallP(crWdTimeout, &e.progress, func() error {
		if err := db.Put([]byte("zz-after"), []byte("x"), wo); err != nil {
			oracle, msg = "usable:put-error", fmt.Sprintf("Put after recovery: %v", err)
			return nil
		}
		lb := new(leveldb.Batch)
		lb.Put([]byte("zz-after2"), []byte(strings.Repeat("y", 300)))
		lb.Delete([]byte("zz-after"))
		if err := db.Write(lb, nil); err != nil {
			oracle, msg = "usable:write-error", fmt.Sprintf("Write after recovery: %v", err)
			return nil
		}
		if v, err := db.Get([]byte("zz-after2"), nil); err != nil || len(v) != 300 {
			oracle, msg = "usable:get", fmt.Sprintf("Get after recovery: %v len %d", err, len(v))
			return nil
		}
		if err := db.CompactRange(util.Range{}); err != nil {
			oracle, msg = "usable:compact-error", fmt.Sprintf("CompactRange after recovery: %v", err)
			return nil
		}
		if err := db.Close(); err != nil {
			oracle, msg = "usable:close-error", fmt.Sprintf("Close after recovery: %v", err)
		}
		*closed = true
		return nil
	})
	_ = err
	if hung {
		return "usable:hang", "a call on the recovered DB did not return within 20 s:\n" + blockedSummary(crGoroutines())
	}
	if oracle != "" {
		return oracle, msg
	}
	if work.IsLocked() {
		return "usable:still-locked", "storage lock not released by Close"
	}
	var db2 *leveldb.DB
	err, hung = crCallP(crWdTimeout, &e.progress, func() (err error) { db2, err = leveldb.Open(work, e.o); return })
	if hung {
		return "usable:reopen:hang", "second reopen did not return within 20 s"
	}
	if err != nil {
		return "usable:reopen-error:" + crErrClass(err), fmt.Sprintf("reopen after recovery, writes, compaction and clean close: %v", err)
	}
	defer crCall(crWdTimeout, db2.Close)
	got2, err := crDumpDB(db2)
	if err != nil {
		return "usable:read-error", err.Error()
	}
	want := got.clone()
	want["zz-after2"] = strings.Repeat("y", 300)
	if len(got2) != len(want) {
		return "usable:contents-after-reopen", fmt.Sprintf("after clean close and reopen %d keys, expected %d", len(got2), len(want))
	}
	for k, v := range want {
		if got2[k] != v {
			return "usable:contents-after-reopen", fmt.Sprintf("after clean close and reopen key %q = %.24q, expected %.24q", k, got2[k], v)
		}
	}
	return "", ""
}

// crashRun executes one workload on a fresh DB and, from the Before hook of every `every`-th mutating
// storage operation after Open returned, takes and checks crash images.
type crashRun struct {
	env     *crashEnv
	every   int
	maxImgs int // 1..maxImgs images per crash point
	issued  int64
	mu      sync.Mutex
	acked   []int
	// optional: concurrent-writer probe while a transaction is open (C11)
	probeBlocked bool
}

// crBirthImage: an image taken inside the very first Open holds no acknowledged write; the DB must open (empty)
// and be usable.
func crBirthImage(img *stor.Stor, o *opt.Options) (sig, msg string) {
	var db *leveldb.DB
	err, hung := crCall(crWdTimeout, func() (err error) { db, err = leveldb.Open(img, o); return })
	if hung {
		return "open-hang", "Open did not return"
	}
	if err != nil {
		return "open-refused", fmt.Sprintf("Open fails: %v", err)
	}
	got, derr := crDumpDB(db)
	if derr != nil || len(got) != 0 {
		crCall(crWdTimeout, db.Close)
		return "not-empty", fmt.Sprintf("scan: %d pairs, err=%v", len(got), derr)
	}
	if err := db.Put([]byte("birth"), []byte("x"), &opt.WriteOptions{Sync: true}); err != nil {
		crCall(crWdTimeout, db.Close)
		return "put-error", err.Error()
	}
	if _, h := crCall(crWdTimeout, db.Close); h {
		return "close-hang", "Close did not return"
	}
	err, hung = crCall(crWdTimeout, func() (err error) { db, err = leveldb.Open(img, o); return })
	if hung || err != nil {
		return "reopen", fmt.Sprintf("reopen after use: err=%v hung=%v", err, hung)
	}
	v, gerr := db.Get([]byte("birth"), nil)
	crCall(crWdTimeout, db.Close)
	if gerr != nil || string(v) != "x" {
		return "lost-write", fmt.Sprintf("Get after reopen: %q, %v", v, gerr)
	}
	return "", ""
}

func (cr *crashRun) run(r *rng.R) {
	e := cr.env
	c := e.c
	st := stor.New()
	st.KeepOps(false)
	st.ListOrder = r.Intn(3) // Storage.List promises no order; images inherit it
	var db *leveldb.DB
	// the creation window: a crash before any mutating operation of the very first Open
	var birth []*stor.Stor
	var birthOps []string
	br := r.Fork()
	st.SetHooks(nil, func(s *stor.Stor, op stor.Op) {
		if op.Kind.Mutating() && len(birth) < 16 {
			birth = append(birth, s.ImageLocked(br))
			birthOps = append(birthOps, string(op.Kind)+"/"+crFdName(op.Fd))
		}
	})
	err, hung := crCall(crWdTimeout, func() (err error) { db, err = leveldb.Open(st, e.o); return })
	st.SetHooks(nil, nil)
	if hung || err != nil {
		c.Res.Violate(e.sigPref+"workload:open", fmt.Sprintf("creating the DB: err=%v hung=%v", err, hung), e.spec)
		return
	}
	for i, img := range birth {
		if sig, msg := crBirthImage(img, e.o); sig != "" {
			c.Res.Violate(e.sigPref+"open:creation-window:"+sig, fmt.Sprintf("crash during the creation of the DB, before storage op #%d (%s): %s", i+1, birthOps[i], msg), map[string]interface{}{"spec": e.spec, "image": crImageHex(img)})
			break
		}
		atomic.AddInt64(&e.nimg, 1)
		c.Res.Eval(fmt.Sprintf("%s/%d/birth/%d", e.spec.Config, e.spec.Seed, i), true)
		c.Res.CountN("crash_op", "creation:"+birthOps[i], 1)
	}
	ir := r.Fork()
	cr2 := r.Fork()
	sh := crShadowOf(st)
	nmut := 0
	hook := func(s *stor.Stor, op stor.Op) {
		atomic.AddInt64(&e.progress, 1)
		defer sh.apply(op)
		nmut++
		if e.spec.BigManifest {
			cr.bigManifestPoint(s, op, sh, ir, cr2, nmut)
			return
		}
		if nmut%cr.every != 0 || atomic.LoadInt32(&e.stopped) != 0 || !c.TimeLeft() {
			return
		}
		n := 1 + ir.Intn(cr.maxImgs)
		cr.mu.Lock()
		acked := append([]int(nil), cr.acked...)
		cr.mu.Unlock()
		issued := int(atomic.LoadInt64(&cr.issued))
		opName := string(op.Kind) + "/" + crFdName(op.Fd)
		c.Res.CountN("crash_op", string(op.Kind)+"/"+stor.FtName(op.Fd.Type), n)
		for i := 0; i < n; i++ {
			seed := ir.U64()
			pols, unsynced := sh.policies(seed)
			for _, p := range pols {
				c.Res.Count("tail_policy", p)
			}
			if unsynced == 0 {
				c.Res.Count("tail_policy", "nothing-unsynced")
			}
			ic := &crImgCase{img: sh.takeImage(s, seed), issued: issued, acked: acked, path: []crPoint{{OpSeq: op.Seq, Op: opName, ImgSeed: seed}}}
			e.check(ic, cr2)
			atomic.AddInt64(&e.progress, 1)
		}
	}
	st.SetHooks(nil, hook)
	fail := func(call string, err error, hung bool, id int) {
		if hung {
			c.Res.Violate(e.sigPref+"workload:"+call+":hang", fmt.Sprintf("batch %d: %s did not return within 20 s (no faults injected):\n%s", id, call, blockedSummary(crGoroutines())), e.spec)
			c.Hung = true
		} else {
			c.Res.Violate(e.sigPref+"workload:"+call+":error", fmt.Sprintf("batch %d: %s failed without any injected fault: %v", id, call, err), e.spec)
		}
		atomic.StoreInt32(&e.stopped, 1)
	}
	ack := func(id int) { cr.mu.Lock(); cr.acked = append(cr.acked, id); cr.mu.Unlock() }
	w := func(f func() error) (error, bool) { return crCallP(crWdTimeout, &e.progress, f) }
	for _, b := range e.batches {
		if atomic.LoadInt32(&e.stopped) != 0 {
			break
		}
		c.Res.Count("unit", b.Kind)
		switch b.Kind {
		case "write", "big":
			lb := b.batch(0, len(b.Ops))
			atomic.StoreInt64(&cr.issued, int64(b.ID+1))
			if err, hung := w(func() error { return db.Write(lb, &opt.WriteOptions{Sync: b.Sync}) }); err != nil || hung {
				fail("Write", err, hung, b.ID)
				continue
			}
			if b.Sync {
				ack(b.ID)
			}
		case "tx", "txdiscard":
			var tr *leveldb.Transaction
			if err, hung := w(func() (err error) { tr, err = db.OpenTransaction(); return }); err != nil || hung {
				fail("OpenTransaction", err, hung, b.ID)
				continue
			}
			var blocked chan error
			if cr.probeBlocked {
				// another writer must block while the transaction is open, and proceed afterwards
				blocked = make(chan error, 1)
				go func() { blocked <- db.Put([]byte("zz-probe"), []byte("p"), nil) }()
			}
			nch := b.Chunks
			if nch < 1 {
				nch = 1
			}
			per := (len(b.Ops) + nch - 1) / nch
			bad := false
			for from := 0; from < len(b.Ops) && !bad; from += per {
				to := from + per
				if to > len(b.Ops) {
					to = len(b.Ops)
				}
				lb := b.batch(from, to)
				if err, hung := w(func() error { return tr.Write(lb, nil) }); err != nil || hung {
					fail("Transaction.Write", err, hung, b.ID)
					bad = true
				}
			}
			if bad {
				continue
			}
			if blocked != nil {
				select {
				case <-blocked:
					c.Res.Violate(e.sigPref+"OpenTransaction:writer-not-blocked", fmt.Sprintf("batch %d: a concurrent Put returned while the transaction was still open", b.ID), e.spec)
					blocked = nil
				default:
					c.Res.Count("tx", "writer-blocked-while-open")
				}
			}
			if b.Kind == "tx" {
				atomic.StoreInt64(&cr.issued, int64(b.ID+1))
				if err, hung := w(tr.Commit); err != nil || hung {
					fail("Transaction.Commit", err, hung, b.ID)
					continue
				}
				ack(b.ID)
			} else {
				if _, hung := w(func() error { tr.Discard(); return nil }); hung {
					fail("Transaction.Discard", nil, true, b.ID)
					continue
				}
				atomic.StoreInt64(&cr.issued, int64(b.ID+1))
			}
			if blocked != nil {
				if err, hung := w(func() error { return <-blocked }); err != nil || hung {
					fail("Put-after-transaction", err, hung, b.ID)
					continue
				}
				c.Res.Count("tx", "writer-proceeded-after-close")
			}
		}
		if b.Compact {
			if err, hung := w(func() error { return db.CompactRange(util.Range{}) }); err != nil || hung {
				fail("CompactRange", err, hung, b.ID)
				continue
			}
			c.Res.Count("unit", "compact-range")
		}
		if e.spec.Settle {
			w(func() error { return leveldb.VerifWaitIdle(db) })
		}
	}
	if atomic.LoadInt32(&e.stopped) == 0 || !c.Hung {
		if err, hung := w(db.Close); hung {
			fail("Close", err, true, -1)
		}
	}
	st.SetHooks(nil, nil)
}

const crJournalBlock = 32768

// bigManifestPoint is the sampling rule of the bigmanifest configuration: sparse elsewhere, but at every
// mutating operation while the manifest's length is within 400 bytes of a 32 KiB multiple several images
// are taken whose manifest is cut at an arbitrary byte of its unsynced tail.
func (cr *crashRun) bigManifestPoint(s *stor.Stor, op stor.Op, sh crShadow, ir, cr2 *rng.R, nmut int) {
	e := cr.env
	c := e.c
	if atomic.LoadInt32(&e.stopped) != 0 || !c.TimeLeft() {
		return
	}
	mfd, length, synced, ok := sh.currentManifest()
	d := length % crJournalBlock
	window := ok && length >= crJournalBlock-400 && (d < 400 || d > crJournalBlock-400)
	if !window && nmut%60 != 0 {
		return
	}
	n := 1
	if window {
		n = 8
		c.Res.Count("bigmanifest", "crash-points-in-window")
	}
	cr.mu.Lock()
	acked := append([]int(nil), cr.acked...)
	cr.mu.Unlock()
	issued := int(atomic.LoadInt64(&cr.issued))
	opName := string(op.Kind) + "/" + crFdName(op.Fd)
	c.Res.CountN("crash_op", string(op.Kind)+"/"+stor.FtName(op.Fd.Type), n)
	for i := 0; i < n; i++ {
		seed := ir.U64()
		pt := crPoint{OpSeq: op.Seq, Op: opName, ImgSeed: seed}
		var img *stor.Stor
		torn := false
		if window && length > synced {
			cut := synced + 1 + ir.Intn(length-synced)
			if i == 0 && (synced/crJournalBlock) != (length/crJournalBlock) { // one cut surely behind the boundary
				b := (length / crJournalBlock) * crJournalBlock
				if length > b+1 {
					cut = b + 1 + ir.Intn(length-b-1)
				}
			}
			pt.ManifestCut, pt.Manifest = cut, crFdName(mfd)
			img = sh.takeImageCut(s, seed, mfd, cut)
			if ib, ok := img.FileBytes(mfd); ok {
				torn = crEndsInsideMultiChunkRecord(ib)
			}
			if torn {
				c.Res.Count("bigmanifest", "images-ending-after-the-first-chunk-of-a-straddling-record")
			} else {
				c.Res.Count("bigmanifest", "images-cut-elsewhere-in-tail")
			}
			c.Res.Count("tail_policy", "manifest/cut(forced)")
		} else {
			img = sh.takeImage(s, seed)
			if ib, ok2 := img.FileBytes(mfd); ok && ok2 {
				torn = crEndsInsideMultiChunkRecord(ib)
				pt.Manifest = crFdName(mfd)
				pt.ManifestCut = -len(ib) // not forced: length the image's tail policy left (negative: informational)
			}
		}
		ic := &crImgCase{img: img, issued: issued, acked: acked, path: []crPoint{pt}, tornStraddle: torn}
		e.check(ic, cr2)
		atomic.AddInt64(&e.progress, 1)
	}
}

// crEndsInsideMultiChunkRecord parses the journal framing of a manifest image (headers only) and says
// whether the data ends after at least one complete first/middle chunk of a record whose last chunk is
// missing, cut or unreadable - the shape that makes session.recover decode a partial record.
func crEndsInsideMultiChunkRecord(data []byte) bool {
	open := false
	for i := 0; i < len(data); {
		left := crJournalBlock - i%crJournalBlock
		if left < 7 {
			i += left
			continue
		}
		if i+7 > len(data) {
			return open
		}
		n := int(data[i+4]) | int(data[i+5])<<8
		t := data[i+6]
		if t == 0 && n == 0 { // zero padding / preallocated zeros
			return open
		}
		if t < 1 || t > 4 || 7+n > left || i+7+n > len(data) {
			return open
		}
		switch t {
		case 1:
			open = false
		case 2:
			open = true
		case 4:
			open = false
		}
		i += 7 + n
	}
	return open
}
