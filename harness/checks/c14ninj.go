package checks

// memdb under a lawful comparer that is NOT injective on bytes (ASCII letters compared without case; leading '0'
// characters ignored): keys of different bytes and different LENGTHS can be equal.  memdb is not a multi-map: a Put of
// an equal key replaces the pair, and the node must describe the key bytes that were appended (defect D56: the old key
// length was kept, Get lost the key, iterators yielded pairs never stored, Size drifted).  The Lean model assumes
// comparers with "equal ⇒ same bytes" (LawfulUCmp.eq_of), so this part has an implementation-side oracle only: a map
// from the canonical form of a key to the last pair put under it.

import (
	"bytes"
	"fmt"
	"sort"
	"strings"

	"github.com/syndtr/goleveldb/leveldb/memdb"

	"verif/harness/gen"
	"verif/harness/rng"
)

type c14FoldCmp struct{}

func c14Canon(k []byte) string {
	s := strings.ToLower(string(k))
	return strings.TrimLeft(s, "0")
}
func (c14FoldCmp) Compare(a, b []byte) int           { return strings.Compare(c14Canon(a), c14Canon(b)) }
func (c14FoldCmp) Name() string                      { return "verif.fold" }
func (c14FoldCmp) Separator(dst, a, b []byte) []byte { return nil }
func (c14FoldCmp) Successor(dst, b []byte) []byte    { return nil }

func c14NonInjective(c *Ctx, n int) {
	alphabet := []byte("0aAbB7")
	for i := 0; i < n && c.TimeLeft(); i++ {
		r := c.R.Fork()
		seed := r.U64()
		rr := rng.New(seed)
		db := memdb.New(c14FoldCmp{}, 64)
		type pair struct{ k, v []byte }
		m := map[string]pair{}
		var trace []string
		key := func() []byte {
			k := make([]byte, rr.Intn(5))
			for j := range k {
				k[j] = alphabet[rr.Intn(len(alphabet))]
			}
			return k
		}
		fail := func(sig, msg string) {
			if len(trace) > 40 {
				trace = trace[len(trace)-40:]
			}
			c.Res.Violate("memdb.non-injective-comparer:"+sig, msg, map[string]interface{}{"seed": seed, "last_ops": trace, "comparer": "ASCII case folded, leading '0' ignored"})
		}
		nops := 50 + rr.Intn(250)
		for op := 0; op < nops; op++ {
			k := key()
			switch x := rr.Intn(10); {
			case x < 5:
				v := []byte(fmt.Sprintf("%d-%s", op, strings.Repeat("v", rr.Intn(6))))
				trace = append(trace, fmt.Sprintf("put %q %q", k, v))
				if err := db.Put(k, v); err != nil {
					fail("put-error", err.Error())
					return
				}
				m[c14Canon(k)] = pair{append([]byte{}, k...), v}
			case x < 7:
				trace = append(trace, fmt.Sprintf("del %q", k))
				err := db.Delete(k)
				_, had := m[c14Canon(k)]
				if had != (err == nil) || (err != nil && err != memdb.ErrNotFound) {
					fail("delete", fmt.Sprintf("Delete(%q) = %v, an equal key was stored: %v", k, err, had))
					return
				}
				delete(m, c14Canon(k))
			default:
				trace = append(trace, fmt.Sprintf("get %q", k))
				v, err := db.Get(k)
				p, had := m[c14Canon(k)]
				if had != (err == nil) || (had && !bytes.Equal(v, p.v)) {
					fail("get", fmt.Sprintf("Get(%q) = %q, %v; the pair last put under an equal key: %q=%q (stored: %v)", k, v, err, p.k, p.v, had))
					return
				}
			}
			// the whole table after every operation
			var want []pair
			size := 0
			for _, p := range m {
				want = append(want, p)
				size += len(p.k) + len(p.v)
			}
			sort.Slice(want, func(a, b int) bool { return c14Canon(want[a].k) < c14Canon(want[b].k) })
			it := db.NewIterator(nil)
			j := 0
			for it.Next() {
				if j >= len(want) || !bytes.Equal(it.Key(), want[j].k) || !bytes.Equal(it.Value(), want[j].v) {
					fail("scan", fmt.Sprintf("after %d operations the iterator yields %q=%q at position %d, which was never stored there (expected %d pairs)", op+1, it.Key(), it.Value(), j, len(want)))
					it.Release()
					return
				}
				j++
			}
			it.Release()
			if j != len(want) || db.Len() != len(want) || db.Size() != size {
				fail("len-size", fmt.Sprintf("after %d operations: %d pairs iterated, Len %d, Size %d; expected %d pairs of %d bytes", op+1, j, db.Len(), db.Size(), len(want), size))
				return
			}
		}
		c.Res.Eval(fmt.Sprintf("NI/%d", seed), true)
		c.Res.CountN("non_injective_comparer", "ops", nops)
	}
	_ = gen.Hex
}
