// Package checks holds one entry point per property.  Each check generates its cases from the
// seeded stream, runs the real goleveldb code (built from /repo with -tags verif), evaluates the
// property oracle directly on the implementation, and — where a Lean model exists — writes the
// operations and the implementation's answers as line files that bin/vcheck pipes through gldriver.
package checks

import (
	"bufio"
	"fmt"
	"os"
	"path/filepath"
	"runtime/debug"
	"time"

	"verif/harness/rep"
	"verif/harness/rng"
)

type Ctx struct {
	Prop     string
	Seed     uint64
	Thorough bool
	OutDir   string
	Budget   time.Duration // soft wall-clock budget for the generated part
	R        *rng.R
	Res      *rep.Result
	Start    time.Time
	Hung     bool // a call never returned: the process state is no longer trustworthy, stop generating

	ops, exp *bufio.Writer
	fo, fe   *os.File
}

func NewCtx(prop string, seed uint64, thorough bool, outDir string) *Ctx {
	c := &Ctx{Prop: prop, Seed: seed, Thorough: thorough, OutDir: outDir, R: rng.New(seed), Res: rep.New(prop, outDir), Start: time.Now()}
	c.Budget = 60 * time.Second
	if thorough {
		c.Budget = 12 * time.Minute
	}
	if v := os.Getenv("VERIF_BUDGET_S"); v != "" {
		var n int
		fmt.Sscanf(v, "%d", &n)
		if n > 0 {
			c.Budget = time.Duration(n) * time.Second
		}
	}
	return c
}

// Scale picks the quick or the thorough count.
func (c *Ctx) Scale(quick, thorough int) int {
	if c.Thorough {
		return thorough
	}
	return quick
}

func (c *Ctx) TimeLeft() bool { return time.Since(c.Start) < c.Budget }

// Lean emits one line for gldriver and the answer the implementation gave.
func (c *Ctx) Lean(op, expect string) {
	if c.ops == nil {
		var err error
		c.fo, err = os.Create(filepath.Join(c.OutDir, "ops.txt"))
		if err != nil {
			panic(err)
		}
		c.fe, err = os.Create(filepath.Join(c.OutDir, "expect.txt"))
		if err != nil {
			panic(err)
		}
		c.ops, c.exp = bufio.NewWriterSize(c.fo, 1<<20), bufio.NewWriterSize(c.fe, 1<<20)
		c.Res.LeanOps, c.Res.LeanExpect = filepath.Join(c.OutDir, "ops.txt"), filepath.Join(c.OutDir, "expect.txt")
	}
	c.ops.WriteString(op)
	c.ops.WriteByte('\n')
	c.exp.WriteString(expect)
	c.exp.WriteByte('\n')
	c.Res.LeanCases++
}

func (c *Ctx) Finish() {
	if c.ops != nil {
		c.ops.Flush()
		c.exp.Flush()
		c.fo.Close()
		c.fe.Close()
	}
	if err := c.Res.Write(); err != nil {
		fmt.Fprintln(os.Stderr, "write result:", err)
	}
}

// Guard runs f and converts a panic into a violation (no property allows a crash).
func (c *Ctx) Guard(sig string, replay interface{}, f func()) (panicked bool) {
	defer func() {
		if p := recover(); p != nil {
			panicked = true
			c.Res.Violate(sig+":panic", fmt.Sprintf("panic: %v\n%s", p, debug.Stack()), replay)
		}
	}()
	f()
	return false
}

type Func func(c *Ctx)

var Registry = map[string]Func{}
