module verif/harness

go 1.21

require (
	github.com/golang/snappy v0.0.4
	github.com/syndtr/goleveldb v0.0.0
)

replace github.com/syndtr/goleveldb => /repo
