import GoLevel.Driver.Key
/-! `gldriver`: reads one operation per line on stdin, answers one line per operation on stdout.
The first token selects the layer.  Core-only (must link). -/
open GoLevel GoLevel.Driver

def dispatch (line : String) : String :=
  let toks := (line.splitOn " ").filter (· ≠ "")
  let r : Option String := match toks with
    | "key" :: rest => handleKey rest
    | _ => none
  r.getD "bad-op"

partial def loop (h : IO.FS.Stream) (out : IO.FS.Stream) : IO Unit := do
  let line ← h.getLine
  if line.isEmpty then return ()
  let l := line.trimAscii.toString
  out.putStrLn (dispatch l)
  loop h out

def main : IO Unit := do
  let out ← IO.getStdout
  loop (← IO.getStdin) out
  out.flush
