import GoLevel.Driver.Key
import GoLevel.Driver.Iter
import GoLevel.Driver.Journal
import GoLevel.Driver.Bloom
import GoLevel.Driver.LSM
import GoLevel.Driver.Table
import GoLevel.Driver.Conc
import GoLevel.Driver.WriteProto
import GoLevel.Driver.Mem
import GoLevel.Driver.Life
import GoLevel.Driver.Cache
import GoLevel.Driver.RefLoop
import GoLevel.Driver.Durable
import GoLevel.Driver.FSMeta
/-! `gldriver`: reads one operation per line on stdin, answers one line per operation on stdout.
The first token selects the layer.  Core-only (must link). -/
open GoLevel GoLevel.Driver

structure DState where
  it : ItState := .none
  lsm : LsmState := {}
  conc : ConcState := {}
  wp : WpState := initWp
  mem : MemState := {}
  cache : CacheSt := {}
  ref : RefSt := {}
  dur : DurState := {}

def dispatch (st : DState) (line : String) : DState × String :=
  let toks := (line.splitOn " ").filter (· ≠ "")
  match toks with
  | "key" :: rest => (st, (handleKey rest).getD "bad-op")
  | "jrn" :: rest => (st, (handleJrn rest).getD "bad-op")
  | "tbl" :: rest => (st, (handleTbl rest).getD "bad-op")
  | "bloom" :: rest => (st, (handleBloom rest).getD "bad-op")
  | "lsm" :: rest =>
    match handleLsm st.lsm rest with
    | some (l', out) => ({ st with lsm := l' }, out)
    | none => (st, "bad-op")
  | "conc" :: rest =>
    match handleConc st.conc rest with
    | some (c', out) => ({ st with conc := c' }, out)
    | none => (st, "bad-op")
  | "wp" :: rest =>
    match handleWp st.wp rest with
    | some (wp', out) => ({ st with wp := wp' }, out)
    | none => (st, "bad-op")
  | "life" :: rest => (st, (handleLife rest).getD "bad-op")
  | "fsm" :: rest => (st, (handleFsm rest).getD "bad-op")
  | "mem" :: rest =>
    match handleMem st.mem rest with
    | some (m', out) => ({ st with mem := m' }, out)
    | none => (st, "bad-op")
  | "cache" :: rest =>
    match handleCache st.cache rest with
    | some (c', out) => ({ st with cache := c' }, out)
    | none => (st, "bad-op")
  | "ref" :: rest =>
    match handleRef st.ref rest with
    | some (r', out) => ({ st with ref := r' }, out)
    | none => (st, "bad-op")
  | "dur" :: rest =>
    match handleDur st.dur rest with
    | some (d', out) => ({ st with dur := d' }, out)
    | none => (st, "bad-op")
  | "it" :: rest =>
    match handleIt st.it rest with
    | some (it', out) => ({ st with it := it' }, out)
    | none => (st, "bad-op")
  | _ => (st, "bad-op")

partial def loop (h : IO.FS.Stream) (out : IO.FS.Stream) (st : DState) : IO Unit := do
  let line ← h.getLine
  if line.isEmpty then return ()
  let l := line.trimAscii.toString
  let (st', r) := dispatch st l
  out.putStrLn r
  loop h out st'

def main : IO Unit := do
  let out ← IO.getStdout
  loop (← IO.getStdin) out {}
  out.flush
