/-!
# The specification cursor (property C02)

A cursor over a list `xs` (assumed strictly sorted by the caller).  Its position is before the first
element (`soi`), on element `i` (`at i`), or after the last (`eoi`).  The five moves are those of the
`iterator.Iterator` contract (`leveldb/iterator/iter.go`):

* `First`/`Last` go to the first/last element (on an empty list they leave the cursor at `eoi`/`soi`),
* `Seek` goes to the first element satisfying a monotone "is ≥ the sought key" test, `eoi` if none,
* `Next` at `soi` is `First`, at `eoi` it stays; `Prev` at `eoi` is `Last`, at `soi` it stays,
* the result of every move is the element under the cursor (`none` when off either end).

Generic in the element type; the order enters only through the test handed to `seek`.  Core Lean only.
-/
namespace GoLevel

inductive Pos
  | soi
  | at (i : Nat)
  | eoi
deriving DecidableEq, Repr

/-- the five calls of `iterator.IteratorSeeker`; `κ` is the type of sought keys -/
inductive Call (κ : Type)
  | first
  | last
  | seek (k : κ)
  | next
  | prev
deriving Repr

namespace Cursor
variable {α κ : Type}

/-- element under the cursor (`Key()`/`Value()`); `none` = invalid -/
def get (xs : List α) : Pos → Option α
  | .at i => xs[i]?
  | _ => none

def first (xs : List α) : Pos := if xs.isEmpty then .eoi else .at 0

def last (xs : List α) : Pos := if xs.isEmpty then .soi else .at (xs.length - 1)

/-- `ge x` = "`x` is not below the sought key" -/
def seek (xs : List α) (ge : α → Bool) : Pos :=
  match xs.findIdx? ge with
  | some i => .at i
  | none => .eoi

def next (xs : List α) : Pos → Pos
  | .soi => first xs
  | .at i => if i + 1 < xs.length then .at (i + 1) else .eoi
  | .eoi => .eoi

def prev (xs : List α) : Pos → Pos
  | .eoi => last xs
  | .at i => if i = 0 then .soi else .at (i - 1)
  | .soi => .soi

/-- one call; `ge k x` = "`x ≥ k`" -/
def step (xs : List α) (ge : κ → α → Bool) : Call κ → Pos → Pos
  | .first, _ => first xs
  | .last, _ => last xs
  | .seek k, _ => seek xs (ge k)
  | .next, p => next xs p
  | .prev, p => prev xs p

/-- what the caller observes after each call of a sequence, starting from `p` -/
def run (xs : List α) (ge : κ → α → Bool) : Pos → List (Call κ) → List (Option α)
  | _, [] => []
  | p, cl :: cs => let p' := step xs ge cl p; get xs p' :: run xs ge p' cs

/-- a position that `get` can serve -/
def wf (xs : List α) : Pos → Prop
  | .at i => i < xs.length
  | _ => True

end Cursor
end GoLevel
