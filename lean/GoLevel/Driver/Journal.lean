import GoLevel.Model.Journal
/-!
Line-protocol handler for the journal layer (property C12).

```
jrn enc <op>…                       writer machine + functional encoder
jrn dec <flags> <op>… | <mut>…      reader on a (possibly damaged) stream
jrn sweep <flags> <op>… | <from> <to> <step>     reader on every truncation `from, from+step, … ≤ to`
```
* `<op>`  : `n` = `Next`, `w<len>:<seed>` = `Write(gen len seed)`, `f` = `Flush`, `c` = `Close`
* `gen len seed` : byte `k` is `(seed + 31*k + 17*(k/256)) % 256`
* `<flags>`: comma separated `<strict><checksum>` pairs, e.g. `11,10,01,00`
* `<mut>` : `t<n>` truncate to `n` bytes, `z<n>` append `n` zero bytes, `g<n>:<seed>` append `gen n seed`,
  `x<pos>:<mask>` xor the byte at `pos` with `mask`, `s<pos>:<val>` set the byte at `pos`,
  `r<pos>:<cnt>:<val>` set the `cnt` bytes from `pos` on to `val` (positions beyond the end: no-op),
  applied left to right
* digest of a byte string: `<len>:<crc32c hex>:<first ≤16 bytes hex>:<last ≤16 bytes hex>`
* answer of `enc`: `<digest out> lens=<out length after each op, comma separated> <digest encode(recordsOf ops)>`
* answer of `dec`: for each flag pair `ev=<events> fin=<eof|corrupt>` joined by ` ; `; an event is
  `R<len>:<crc32c hex>` (record delivered) or `D<n>:<class>` (`Drop` call; class `z` zero header,
  `t` invalid type, `o` length overflow, `c` checksum mismatch, `p` orphan chunk, `m` missing chunk part)
* answer of `sweep`: `<number of offsets> <crc32c hex of the concatenated dec answers, each followed by '\n'>`
-/
namespace GoLevel.Driver
open GoLevel GoLevel.Journal

def genBytes (len seed : Nat) : Bytes :=
  (List.range len).map fun k => ((seed + 31 * k + 17 * (k / 256)) % 256).toUInt8

def hex32 (x : UInt32) : String := toHex (le32 x.toNat).reverse

def digest (bs : Bytes) : String :=
  let n := bs.length
  s!"{n}:{hex32 (CRC.crc32c bs)}:{toHexField (bs.take 16)}:{toHexField (bs.drop (n - 16))}"

/-- `a:b` → two naturals -/
def pair? (s : String) : Option (Nat × Nat) :=
  match s.splitOn ":" with
  | [a, b] => do let a ← a.toNat?; let b ← b.toNat?; pure (a, b)
  | _ => none

/-- `a:b:c` → three naturals -/
def triple? (s : String) : Option (Nat × Nat × Nat) :=
  match s.splitOn ":" with
  | [a, b, c] => do let a ← a.toNat?; let b ← b.toNat?; let c ← c.toNat?; pure (a, b, c)
  | _ => none

def parseOp (s : String) : Option Op :=
  if s = "n" then some .next
  else if s = "f" then some .flush
  else if s = "c" then some .close
  else if s.startsWith "w" then do
    let (l, sd) ← pair? (s.drop 1).toString
    pure (.write (genBytes l sd))
  else none

def applyMut (bs : Bytes) (s : String) : Option Bytes :=
  let body := (s.drop 1).toString
  if s.startsWith "t" then do let n ← body.toNat?; pure (bs.take n)
  else if s.startsWith "z" then do let n ← body.toNat?; pure (bs ++ List.replicate n 0)
  else if s.startsWith "g" then do let (n, sd) ← pair? body; pure (bs ++ genBytes n sd)
  else if s.startsWith "x" then do
    let (p, m) ← pair? body
    pure (if p < bs.length then bs.set p ((bs.getD p 0) ^^^ m.toUInt8) else bs)
  else if s.startsWith "s" then do
    let (p, v) ← pair? body
    pure (if p < bs.length then bs.set p v.toUInt8 else bs)
  else if s.startsWith "r" then do
    let (p, n, v) ← triple? body
    let k := min n (bs.length - p)
    pure (bs.take p ++ List.replicate k v.toUInt8 ++ bs.drop (p + k))
  else none

def reasonLetter : DropReason → String
  | .zeroHeader => "z" | .invalidType => "t" | .lengthOverflow => "o"
  | .checksumMismatch => "c" | .orphan => "p" | .missingPart => "m"

def eventStr : Event → String
  | .record bs => s!"R{bs.length}:{hex32 (CRC.crc32c bs)}"
  | .drop n w => s!"D{n}:{reasonLetter w}"

def resultStr (r : DecodeResult) : String :=
  let ev := if r.events.isEmpty then "-" else ",".intercalate (r.events.map eventStr)
  let fin := match r.final with | .eof => "eof" | .corrupt => "corrupt"
  s!"ev={ev} fin={fin}"

def parseFlags (s : String) : Option (List (Bool × Bool)) :=
  (s.splitOn ",").mapM fun f =>
    match f.toList with
    | [a, b] => if (a = '0' ∨ a = '1') ∧ (b = '0' ∨ b = '1') then some (a = '1', b = '1') else none
    | _ => none

def decAnswer (flags : List (Bool × Bool)) (bs : Bytes) : String :=
  " ; ".intercalate (flags.map fun (s, c) => resultStr (decode s c bs))

def splitBar (toks : List String) : List String × List String :=
  (toks.takeWhile (· ≠ "|"), (toks.dropWhile (· ≠ "|")).drop 1)

def lensAfter (ops : List Op) : List Nat :=
  (ops.foldl (fun (acc : Writer × List Nat) op => let w := acc.1.step op; (w, w.out.length :: acc.2)) ({}, [])).2.reverse

def sweepLoop (flags : List (Bool × Bool)) (bs : Bytes) (step to : Nat) : Nat → Nat → Nat → UInt32 → Nat × UInt32
  | 0, _, cnt, crc => (cnt, crc)
  | fuel+1, off, cnt, crc =>
    if off > to then (cnt, crc) else
    let line := decAnswer flags (bs.take off) ++ "\n"
    sweepLoop flags bs step to fuel (off + step) (cnt + 1) (CRC.update crc line.toUTF8.toList)

def handleJrn : List String → Option String
  | "enc" :: ops => do
      let ops ← ops.mapM parseOp
      let w := ({} : Writer).run ops
      if w.bad then pure "panic" else
      let lens := ",".intercalate ((lensAfter ops).map toString)
      pure s!"{digest w.out} lens={lens} {digest (encode (recordsOf ops))}"
  | "dec" :: flags :: rest => do
      let flags ← parseFlags flags
      let (ops, muts) := splitBar rest
      let ops ← ops.mapM parseOp
      let bs ← muts.foldlM applyMut (({} : Writer).run ops).out
      pure (decAnswer flags bs)
  | "sweep" :: flags :: rest => do
      let flags ← parseFlags flags
      let (ops, range) := splitBar rest
      let ops ← ops.mapM parseOp
      match range with
      | [a, b, c] => do
        let a ← a.toNat?; let b ← b.toNat?; let c ← c.toNat?
        if c = 0 then none else
        let bs := (({} : Writer).run ops).out
        let (cnt, crc) := sweepLoop flags bs c b (b + 1) a 0 0xFFFFFFFF
        pure s!"{cnt} {hex32 (crc ^^^ 0xFFFFFFFF)}"
      | _ => none
  | _ => none

end GoLevel.Driver
