import GoLevel.Model.Durable
import GoLevel.Model.RecoverOps
import GoLevel.Model.DurableBytes
import GoLevel.Driver.Key
import GoLevel.Driver.Journal
/-!
Line-protocol handler for the durable layer (C04/C08/C19): the driver is handed a storage image and
answers what `Dur.recover` makes of it.  Stateful:

```
dur reset <cmpId>                                   ⇒ ok      (cmpId as in `cmpById`; default strict flags)
dur cfg <failedRecordLeavesNoTrace 0|1>             ⇒ ok      (optional; `0` = the code before the D22 repair)
dur strict <manifest 0|1> <journal 0|1> <journalChecksum 0|1>   ⇒ ok      (optional)
dur current <num|none>                              ⇒ ok
dur file m <num> <hex>                              ⇒ ok      manifest file
dur file j <num> <hex>                              ⇒ ok      journal file
dur table <num> <n> (<ikey-hex> <val-hex>)*         ⇒ ok      table file, as its entries
dur tablebad <num>                                  ⇒ ok      table file present but unreadable
dur recover                                         ⇒ ok <nlive> <crc32c hex (8 digits) of "<hexk>=<hexv>\n"…>
                                                     | err <missing-files|corrupted|other>
                                                       With the default strict flags and `cfg 1` (the repaired code) the
                                                       answer is computed by `Dur.recoverBytes` (`Model/DurableBytes.lean`:
                                                       every file decoded with the real readers, then the record-level
                                                       `Dur.recoverR`) — the function `C04.crash_consistent_bytes` is
                                                       about; otherwise by the streaming `Dur.recover`.
dur recoverold                                      ⇒ the same, always by the streaming `Dur.recover`
dur rebuild                                         ⇒ ok <nlive> <crc>      what `leveldb.Recover` makes of the tables
                                                       and journals of the image (`Dur.rebuildImage`; the manifest
                                                       and `CURRENT` are not needed)
dur rebuildx                                        ⇒ ok seq=<db.seq> (<hexk>=<first 12 bytes of v, hex>)*   (debugging aid)
dur recoverx                                        ⇒ the same, followed by ` seq=<db.seq> j=<stJournalNum>
                                                       replayed=<journal nums> live=[<level>:<num>,…]` (debugging aid)
dur batch <hex>                                     ⇒ ok <seq> <n> (<kind> <key> <val>)* | err     (`Batch.decode`)
dur bbody <hex|->                                   ⇒ ok <n> (<kind> <key> <val>)* | err           (`Batch.Load`: `decodeBatch` on the records alone)
dur rec <hex>                                       ⇒ ok <canonical record> | err                 (`SessionRecord.decode`)
```
Trace validation of the write path under storage faults (C08): the recorded journal operations of every client
write are replayed through `Dur.step` (actions `wAppend/wSync/wApply/wPublish/wAck` with the recorded
outcomes); every line answers `ok` or `illegal <why>` (the machine cannot take that step):
```
dur w reset [<consumeSeqOnJournalError 0|1>]        ⇒ ok      machine := `Dur.init` (journal 2 empty), default 1
dur w put <sync 0|1> <n> (<kind> <key> <val>)*      ⇒ ok      a client `Write` starts (the writer must be idle)
dur w append <ok|fail|faileff> <hex|->              ⇒ ok      the journal `Write` of the group and its outcome; the
                                                       bytes that reached the file (one journal record = header,
                                                       batch) must decode to the machine's group: sequence number
                                                       `db.seq+1` and the records of `put`
dur w noappend                                      ⇒ ok      the call failed without a storage operation (the journal
                                                       writer's sticky error) = `append fail -`
dur w sync <ok|fail|faileff>                        ⇒ ok      the journal `Sync`
dur w ret <ok|err>                                  ⇒ ok      the call returned: `ok` = the machine applies, publishes and
                                                       acknowledges (possible only after the `Sync` of a sync
                                                       write); `err` = the machine must be idle with the group failed
dur w scan                                          ⇒ ok <nlive> <crc>   contents of the running DB (the write buffer)
dur w reopen                                        ⇒ ok <nlive> <crc>   contents after Close + Open (`recoverR` on the disk)
dur w crash                                         ⇒ ok <nlive> <crc>   contents after a crash that loses every unsynced
                                                       journal byte + Open
```
`Recover` as storage operations (C19, `Model/RecoverOps.lean`); the image lines above give the storage `Recover` starts
on — the driver turns it into an `RDisk` (every table entry becomes a one-record group, journal and manifest files
are decoded into their records, everything durable):
```
dur dmg <num>                                       ⇒ ok      table <num> has a corrupted block or key (its `dur table`
                                                       line holds what an iterator still yields)
dur strictrec <0|1>                                 ⇒ ok      `opt.StrictRecovery` (default 0)
dur rops                                            ⇒ ok <op>*   the mutating storage operations of `recoverTable` the model
                                                       predicts (`recoverTableOps codeRCfg`): `c:<f>` create, `w:<f>` write,
                                                       `s:<f>` sync, `r:<tmp>><table>` rename, `meta:<n>` SetMeta;
                                                       `<f>` = `t<n>` temp, `m<n>` manifest, `b<n>` table, `j<n>` journal
dur rops3                                           ⇒ ok <op>*   the same for `openDB` (`openOps`), without the janitor's removals
                                                       (`d:b<n>`, `d:m<n>`: their order follows `Storage.List`)
dur rcrash <k> <kept|lost>                          ⇒ ok O:<ok:<nlive>:<crc>|err> A:<nlive>:<crc>
                                                       the process (`kept`: everything written stays) or the machine
                                                       (`lost`: every unsynced byte is lost) dies after `k` operations of
                                                       `Recover`: `O` = what `Open` makes of the image (`Dur.recoverR`),
                                                       `A` = the contents after a second `Recover` (`Dur.rebuild ∘ scanIn`)
```
Hex lower case, `-` for the empty string.  The digest runs over the live pairs sorted bytewise by raw key
(whatever the comparer), key and value in lower-case hex with `-` for the empty string (`gen.Hex`).
-/
namespace GoLevel.Driver
open GoLevel GoLevel.Dur

structure DurState where
  cmpId : String := "bytewise"
  flags : StrictFlags := {}
  cfg : Cfg := {}
  img : Image := {}
  /-- write-path trace validation: configuration, machine state, the client write in progress -/
  wcfg : Cfg := {}
  wm : St × Disk := Dur.init
  wcur : Option (List Batch.Rec × Bool) := none
  /-- C19 operations model: damaged tables, `StrictRecovery` -/
  dmg : List Nat := []
  strictRec : Bool := false

/-- `Comparer.Name()` of the comparers both sides know (`harness/gen.Comparer`) -/
def cmpNameById (id : String) : Bytes :=
  (if id = "bytewise" then "leveldb.BytewiseComparator" else "verif." ++ id).toUTF8.toList

def errStr : ErrClass → String
  | .missingFiles => "missing-files" | .corrupted => "corrupted" | .other => "other"

def contentsDigest (ps0 : List (Bytes × Bytes)) : String :=
  let ps := ps0.mergeSort fun a b => bytewise.cmp a.1 b.1 != .gt
  let bytes : Bytes := ps.flatMap fun (k, v) => (toHexField k ++ "=" ++ toHexField v ++ "\n").toUTF8.toList
  hex32 (CRC.crc32c bytes)

def bit? (s : String) : Option Bool := if s = "1" then some true else if s = "0" then some false else none

def parsePairs : Nat → List String → Option (List Entry)
  | 0, [] => some []
  | n+1, k :: v :: rest => do
    let kb ← fromHex k; let ik ← parseIKey kb; let vb ← fromHex v
    let es ← parsePairs n rest
    pure (⟨ik, vb⟩ :: es)
  | _, _ => none

def optNatStr : Option Nat → String | some n => toString n | none => "-"

def recordStr (r : Manifest.SessionRecord) : String :=
  let cp := r.compPtrs.map fun (l, k) => s!"{l}:{toHexField k}"
  let dl := r.deleted.map fun (l, n) => s!"{l}:{n}"
  let ad := r.added.map fun t => s!"{t.level}:{t.num}:{t.size}:{toHexField t.imin}:{toHexField t.imax}"
  s!"cmp={match r.comparer with | some c => toHexField c | none => "nil"} j={optNatStr r.journalNum} " ++
  s!"pj={optNatStr r.prevJournalNum} nf={optNatStr r.nextFileNum} seq={optNatStr r.seqNum} " ++
  s!"cp=[{",".intercalate cp}] del=[{",".intercalate dl}] add=[{",".intercalate ad}]"

def parseRecs : Nat → List String → Option (List Batch.Rec)
  | 0, [] => some []
  | n+1, kd :: k :: v :: rest => do
    let kd ← kd.toNat?; let kb ← fromHex k; let vb ← fromHex v
    let rs ← parseRecs n rest
    pure (⟨kd, kb, vb⟩ :: rs)
  | _, _ => none

def outcome? : String → Option Outcome
  | "ok" => some .ok | "fail" => some .failNoEffect | "faileff" => some .failEffect | _ => none

def digestLine (ps : List (Bytes × Bytes)) : String := s!"ok {ps.length} {contentsDigest ps}"

/-- one journal record as it reached the file (the journal is shorter than one block, so the chunk header is
    the same at every offset) must be the machine's next group -/
def checkRecord (s : St) (recs : List Batch.Rec) (bytes : Bytes) : Option String :=
  let d := Journal.decode true true bytes
  match d.records, d.final with
  | [payload], .eof =>
    match Batch.decode payload with
    | some (seq, rs) =>
      if seq ≠ s.seq + 1 then some s!"record-seq={seq}-machine={s.seq + 1}"
      else if rs ≠ recs then some "record-contents" else none
    | none => some "record-undecodable"
  | _, _ => some "not-one-record"

/-- take the machine through the given actions -/
def stepAll (cfg : Cfg) : St × Disk → List Act → Option (St × Disk)
  | sd, [] => some sd
  | sd, a :: as => (Dur.step cfg sd.1 sd.2 a).bind (stepAll cfg · as)

def handleW (st : DurState) : List String → Option (DurState × String)
  | ["reset"] => some ({ st with wcfg := {}, wm := Dur.init, wcur := none }, "ok")
  | ["reset", b] => do
    let b ← bit? b
    pure ({ st with wcfg := { consumeSeqOnJournalError := b }, wm := Dur.init, wcur := none }, "ok")
  | "put" :: sy :: n :: rest => do
    let sy ← bit? sy; let n ← n.toNat?
    let recs ← parseRecs n rest
    if st.wm.1.w ≠ .idle ∨ st.wcur.isSome then pure (st, "illegal writer-busy")
    else pure ({ st with wcur := some (recs, sy) }, "ok")
  | ["append", o, h] => do
    let o ← outcome? o
    let bytes ← fromHex h
    match st.wcur with
    | none => pure (st, "illegal no-put")
    | some (recs, sy) =>
      match (if bytes.isEmpty then none else checkRecord st.wm.1 recs bytes) with
      | some why => pure (st, s!"illegal {why}")
      | none =>
        if (o = .failNoEffect) ≠ bytes.isEmpty then pure (st, "illegal effect-vs-bytes") else
        match Dur.step st.wcfg st.wm.1 st.wm.2 (.wAppend recs sy o) with
        | some sd => pure ({ st with wm := sd }, "ok")
        | none => pure (st, "illegal append")
  | ["noappend"] =>
    match st.wcur with
    | none => some (st, "illegal no-put")
    | some (recs, sy) =>
      match Dur.step st.wcfg st.wm.1 st.wm.2 (.wAppend recs sy .failNoEffect) with
      | some sd => some ({ st with wm := sd }, "ok")
      | none => some (st, "illegal append")
  | ["sync", o] => do
    let o ← outcome? o
    match Dur.step st.wcfg st.wm.1 st.wm.2 (.wSync o) with
    | some sd => pure ({ st with wm := sd }, "ok")
    | none => pure (st, "illegal sync")
  | ["ret", "ok"] =>
    match stepAll st.wcfg st.wm [.wApply, .wPublish, .wAck] with
    | some sd => some ({ st with wm := sd, wcur := none }, "ok")
    | none => some (st, "illegal ack")
  | ["ret", "err"] =>
    let s := st.wm.1
    let lastFailed : Bool := match s.issued.getLast? with
      | some i => decide (i.status = .failed)
      | none => false
    if s.w = .idle ∧ lastFailed = true ∧ st.wcur.isSome = true then some ({ st with wcur := none }, "ok")
    else some (st, "illegal error-return")
  | ["scan"] =>
    let s := st.wm.1
    some (st, digestLine (contentsOf bytewise (s.mem.flatMap Grp.ents) s.seq))
  | ["reopen"] =>
    match recoverR st.wcfg st.wm.2 with
    | .ok r => some (st, digestLine (r.contents bytewise))
    | .error e => some (st, s!"err {errStr e}")
  | ["crash"] =>
    match recoverR st.wcfg (crashWith {} st.wm.2) with
    | .ok r => some (st, digestLine (r.contents bytewise))
    | .error e => some (st, s!"err {errStr e}")
  | _ => none

/-! ### `Recover` as storage operations -/

/-- a table entry as a one-record group -/
def entryGrp (e : Entry) : Grp := ⟨e.seq, [⟨e.kind, e.ukey, e.val⟩], true⟩

/-- the records of a journal file as `recoverJournal` (non-strict) delivers them -/
def journalGrps (f : StrictFlags) (bytes : Bytes) : List Grp :=
  (Journal.decode f.journal f.journalChecksum bytes).records.filterMap fun p =>
    (Batch.decode p).map fun (seq, rs) => ⟨seq, rs, false⟩

/-- the records of a manifest file; one that does not decode counts as torn -/
def manifestRecs (bytes : Bytes) : List MRec :=
  (Manifest.readRecords false bytes).1.map fun (p, _) =>
    match Manifest.SessionRecord.decode p with
    | some r => { snapshot := r.comparer.isSome, jn := r.journalNum, sq := r.seqNum, nf := r.nextFileNum.getD 0,
                  added := r.added.map (·.num), deleted := r.deleted.map (·.2) }
    | none => { torn := true }

/-- the storage `Recover` starts on: everything on it is durable; files in number order -/
def toRDisk (st : DurState) : RDisk :=
  let byNum {α : Type} (l : List (Nat × α)) : List (Nat × α) := l.mergeSort fun a b => a.1 ≤ b.1
  { disk := { current := st.img.current
              manifests := byNum (st.img.manifests.map fun (n, b) => (n, ⟨manifestRecs b, []⟩))
              journals := byNum (st.img.journals.map fun (n, b) => (n, ⟨journalGrps st.flags b, []⟩))
              tables := byNum (st.img.tables.map fun (n, t) =>
                match t with
                | some es => (n, ⟨es.map entryGrp, true, false⟩)
                | none => (n, ⟨[], true, true⟩)) }
    dmg := st.dmg }

def fkStr : FKind → String | .manifest => "m" | .journal => "j" | .table => "b"

def ropStr : ROp → String
  | .base (.create k n) => s!"c:{fkStr k}{n}"
  | .base (.writeM n _) => s!"w:m{n}"
  | .base (.writeJ n _) => s!"w:j{n}"
  | .base (.writeT n _) => s!"w:b{n}"
  | .base (.sync k n) => s!"s:{fkStr k}{n}"
  | .base (.close k n) => s!"x:{fkStr k}{n}"
  | .base (.remove k n) => s!"d:{fkStr k}{n}"
  | .base (.renameT a b) => s!"r:b{a}>{b}"
  | .base (.setMeta n) => s!"meta:{n}"
  | .createTemp k => s!"c:t{k}"
  | .writeTemp k _ => s!"w:t{k}"
  | .syncTemp k => s!"s:t{k}"
  | .renameTemp k n => s!"r:{k}>{n}"

def handleROps (st : DurState) : List String → Option (DurState × String)
  | ["dmg", n] => do
    let n ← n.toNat?
    pure ({ st with dmg := st.dmg ++ [n] }, "ok")
  | ["strictrec", b] => do
    let b ← bit? b
    pure ({ st with strictRec := b }, "ok")
  | ["rops"] =>
    let ops := recoverTableOps (codeRCfg st.strictRec) (toRDisk st)
    some (st, " ".intercalate ("ok" :: ops.map ropStr))
  | ["rops3"] =>
    let rcfg := codeRCfg st.strictRec
    let r0 := toRDisk st
    let ops := (recoverOps rcfg r0).drop (recoverTableOps rcfg r0).length
    let janitor : ROp → Bool
      | .base (.remove .table _) => true
      | .base (.remove .manifest _) => true
      | _ => false
    some (st, " ".intercalate ("ok" :: (ops.filter (!janitor ·)).map ropStr))
  | ["rcrash", k, how] => do
    let k ← k.toNat?
    let c ← cmpById st.cmpId
    let rcfg := codeRCfg st.strictRec
    let r0 := toRDisk st
    let allOps := recoverOps rcfg r0
    let r1 := r0.applyAll (allOps.take k)
    let ch ← if how = "kept" then some (rkeepAll r1) else if how = "lost" then some ({} : RCrash) else none
    let r2 := rcrash ch r1
    -- tables already replaced by their rebuilt (shorter) copies: a manifest written BEFORE Recover still records the
    -- old file size, and the table reader looks for the footer at that size
    let rebuilt := (allOps.take k).filterMap fun | .renameTemp _ n => some n | _ => none
    let newMan := allOps.findSome? fun | .base (.create .manifest n) => some n | _ => none
    let viaOld := r2.disk.current != newMan
    let o := match recoverR st.cfg r2.disk with
      | .ok rs =>
        -- a scan of the opened DB fails on a live table that still has a corrupted block, or whose size the manifest
        -- in use no longer describes
        if rs.mv.live.any (fun n => r2.dmg.contains n || (viaOld && rebuilt.contains n)) then "ok:scan-error"
        else let ps := rs.contents c; s!"ok:{ps.length}:{contentsDigest ps}"
      | .error _ => "err"
    let rb := rebuild (scanIn rcfg r2)
    let ps := contentsOf c rb.entries rb.seq
    pure (st, s!"ok O:{o} A:{ps.length}:{contentsDigest ps}")
  | _ => none

def handleDur (st : DurState) : List String → Option (DurState × String)
  | "w" :: rest => handleW st rest
  | "dmg" :: rest => handleROps st ("dmg" :: rest)
  | "strictrec" :: rest => handleROps st ("strictrec" :: rest)
  | "rops" :: rest => handleROps st ("rops" :: rest)
  | "rops3" :: rest => handleROps st ("rops3" :: rest)
  | "rcrash" :: rest => handleROps st ("rcrash" :: rest)
  | ["reset", c] => do
    let _ ← cmpById c
    pure ({ cmpId := c }, "ok")
  | ["cfg", b] => do
    let b ← bit? b
    pure ({ st with cfg := { st.cfg with failedRecordLeavesNoTrace := b } }, "ok")
  | ["strict", m, j, jc] => do
    let m ← bit? m; let j ← bit? j; let jc ← bit? jc
    pure ({ st with flags := ⟨m, j, jc⟩ }, "ok")
  | ["current", n] =>
    if n = "none" then some ({ st with img := { st.img with current := none } }, "ok")
    else do
      let n ← n.toNat?
      pure ({ st with img := { st.img with current := some n } }, "ok")
  | ["file", "m", n, h] => do
    let n ← n.toNat?; let b ← fromHex h
    pure ({ st with img := { st.img with manifests := st.img.manifests ++ [(n, b)] } }, "ok")
  | ["file", "j", n, h] => do
    let n ← n.toNat?; let b ← fromHex h
    pure ({ st with img := { st.img with journals := st.img.journals ++ [(n, b)] } }, "ok")
  | "table" :: n :: cnt :: rest => do
    let n ← n.toNat?; let cnt ← cnt.toNat?
    let es ← parsePairs cnt rest
    pure ({ st with img := { st.img with tables := st.img.tables ++ [(n, some es)] } }, "ok")
  | ["tablebad", n] => do
    let n ← n.toNat?
    pure ({ st with img := { st.img with tables := st.img.tables ++ [(n, none)] } }, "ok")
  | ["recover"] => do
    let c ← cmpById st.cmpId
    if st.flags = {} ∧ st.cfg.failedRecordLeavesNoTrace = true then
      match recoverImage st.cfg (cmpNameById st.cmpId) st.img with
      | .error e => pure (st, s!"err {errStr e}")
      | .ok r => pure (st, digestLine (r.contents c))
    else
      match recover st.cfg (cmpNameById st.cmpId) st.flags st.img with
      | .error e => pure (st, s!"err {errStr e}")
      | .ok r =>
        let ps := contents c r
        pure (st, s!"ok {ps.length} {contentsDigest ps}")
  | ["recoverold"] => do
    let c ← cmpById st.cmpId
    match recover st.cfg (cmpNameById st.cmpId) st.flags st.img with
    | .error e => pure (st, s!"err {errStr e}")
    | .ok r =>
      let ps := contents c r
      pure (st, s!"ok {ps.length} {contentsDigest ps}")
  | ["rebuild"] => do
    let c ← cmpById st.cmpId
    match rebuildImage st.flags st.img with
    | .error e => pure (st, s!"err {errStr e}")
    | .ok r =>
      let ps := contents c r
      pure (st, s!"ok {ps.length} {contentsDigest ps}")
  | ["rebuildx"] => do
    let c ← cmpById st.cmpId
    match rebuildImage st.flags st.img with
    | .error e => pure (st, s!"err {errStr e}")
    | .ok r =>
      let ps := (contents c r).mergeSort fun a b => bytewise.cmp a.1 b.1 != .gt
      pure (st, s!"ok seq={r.seq} " ++ " ".intercalate (ps.map fun (k, v) => toHexField k ++ "=" ++ toHexField (v.take 12)))
  | ["recoverx"] => do
    let c ← cmpById st.cmpId
    match recover st.cfg (cmpNameById st.cmpId) st.flags st.img with
    | .error e => pure (st, s!"err {errStr e}")
    | .ok r =>
      let ps := contents c r
      let live := r.session.live.map fun t => s!"{t.level}:{t.num}"
      pure (st, s!"ok {ps.length} {contentsDigest ps} seq={r.seq} j={r.session.journalNum} " ++
        s!"replayed={r.replayed} live=[{",".intercalate live}]")
  | ["batch", h] => do
    let b ← fromHex h
    match Batch.decode b with
    | none => pure (st, "err")
    | some (seq, rs) =>
      let body := rs.map fun r => s!" {r.kind} {toHexField r.key} {toHexField r.val}"
      pure (st, s!"ok {seq} {rs.length}{String.join body}")
  | ["bbody", h] => do
    -- `Batch.Load(body)` = `decodeBatch` over the records alone (what `Batch.Dump` returns; no header)
    let b ← (if h = "-" then some [] else fromHex h)
    match Batch.decodeRecs b with
    | (_, some _) => pure (st, "err")
    | (rs, none) =>
      let body := rs.map fun r => s!" {r.kind} {toHexField r.key} {toHexField r.val}"
      pure (st, s!"ok {rs.length}{String.join body}")
  | ["rec", h] => do
    let b ← fromHex h
    match Manifest.SessionRecord.decode b with
    | none => pure (st, "err")
    | some r => pure (st, s!"ok {recordStr r}")
  | _ => none

end GoLevel.Driver
