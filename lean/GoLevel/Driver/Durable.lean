import GoLevel.Model.Durable
import GoLevel.Driver.Key
import GoLevel.Driver.Journal
/-!
Line-protocol handler for the durable layer (C04/C08/C19): the driver is handed a storage image and
answers what `Dur.recover` makes of it.  Stateful:

```
dur reset <cmpId>                                   ⇒ ok      (cmpId as in `cmpById`; default strict flags)
dur cfg <failedRecordLeavesNoTrace 0|1>             ⇒ ok      (optional; `0` = the code before the D22 repair)
dur strict <manifest 0|1> <journal 0|1> <journalChecksum 0|1>   ⇒ ok      (optional)
dur current <num|none>                              ⇒ ok
dur file m <num> <hex>                              ⇒ ok      manifest file
dur file j <num> <hex>                              ⇒ ok      journal file
dur table <num> <n> (<ikey-hex> <val-hex>)*         ⇒ ok      table file, as its entries
dur tablebad <num>                                  ⇒ ok      table file present but unreadable
dur recover                                         ⇒ ok <nlive> <crc32c hex (8 digits) of "<hexk>=<hexv>\n"…>
                                                     | err <missing-files|corrupted|other>
dur recoverx                                        ⇒ the same, followed by ` seq=<db.seq> j=<stJournalNum>
                                                       replayed=<journal nums> live=[<level>:<num>,…]` (debugging aid)
dur batch <hex>                                     ⇒ ok <seq> <n> (<kind> <key> <val>)* | err     (`Batch.decode`)
dur rec <hex>                                       ⇒ ok <canonical record> | err                 (`SessionRecord.decode`)
```
Hex lower case, `-` for the empty string.  The digest runs over the live pairs in comparer order, key and
value in plain lower-case hex (empty = nothing between the separators).
-/
namespace GoLevel.Driver
open GoLevel GoLevel.Dur

structure DurState where
  cmpId : String := "bytewise"
  flags : StrictFlags := {}
  cfg : Cfg := {}
  img : Image := {}

/-- `Comparer.Name()` of the comparers both sides know (`harness/gen.Comparer`) -/
def cmpNameById (id : String) : Bytes :=
  (if id = "bytewise" then "leveldb.BytewiseComparator" else "verif." ++ id).toUTF8.toList

def errStr : ErrClass → String
  | .missingFiles => "missing-files" | .corrupted => "corrupted" | .other => "other"

def contentsDigest (ps : List (Bytes × Bytes)) : String :=
  let bytes : Bytes := ps.flatMap fun (k, v) => (toHex k ++ "=" ++ toHex v ++ "\n").toUTF8.toList
  hex32 (CRC.crc32c bytes)

def bit? (s : String) : Option Bool := if s = "1" then some true else if s = "0" then some false else none

def parsePairs : Nat → List String → Option (List Entry)
  | 0, [] => some []
  | n+1, k :: v :: rest => do
    let kb ← fromHex k; let ik ← parseIKey kb; let vb ← fromHex v
    let es ← parsePairs n rest
    pure (⟨ik, vb⟩ :: es)
  | _, _ => none

def optNatStr : Option Nat → String | some n => toString n | none => "-"

def recordStr (r : Manifest.SessionRecord) : String :=
  let cp := r.compPtrs.map fun (l, k) => s!"{l}:{toHexField k}"
  let dl := r.deleted.map fun (l, n) => s!"{l}:{n}"
  let ad := r.added.map fun t => s!"{t.level}:{t.num}:{t.size}:{toHexField t.imin}:{toHexField t.imax}"
  s!"cmp={match r.comparer with | some c => toHexField c | none => "nil"} j={optNatStr r.journalNum} " ++
  s!"pj={optNatStr r.prevJournalNum} nf={optNatStr r.nextFileNum} seq={optNatStr r.seqNum} " ++
  s!"cp=[{",".intercalate cp}] del=[{",".intercalate dl}] add=[{",".intercalate ad}]"

def handleDur (st : DurState) : List String → Option (DurState × String)
  | ["reset", c] => do
    let _ ← cmpById c
    pure ({ cmpId := c }, "ok")
  | ["cfg", b] => do
    let b ← bit? b
    pure ({ st with cfg := { st.cfg with failedRecordLeavesNoTrace := b } }, "ok")
  | ["strict", m, j, jc] => do
    let m ← bit? m; let j ← bit? j; let jc ← bit? jc
    pure ({ st with flags := ⟨m, j, jc⟩ }, "ok")
  | ["current", n] =>
    if n = "none" then some ({ st with img := { st.img with current := none } }, "ok")
    else do
      let n ← n.toNat?
      pure ({ st with img := { st.img with current := some n } }, "ok")
  | ["file", "m", n, h] => do
    let n ← n.toNat?; let b ← fromHex h
    pure ({ st with img := { st.img with manifests := st.img.manifests ++ [(n, b)] } }, "ok")
  | ["file", "j", n, h] => do
    let n ← n.toNat?; let b ← fromHex h
    pure ({ st with img := { st.img with journals := st.img.journals ++ [(n, b)] } }, "ok")
  | "table" :: n :: cnt :: rest => do
    let n ← n.toNat?; let cnt ← cnt.toNat?
    let es ← parsePairs cnt rest
    pure ({ st with img := { st.img with tables := st.img.tables ++ [(n, some es)] } }, "ok")
  | ["tablebad", n] => do
    let n ← n.toNat?
    pure ({ st with img := { st.img with tables := st.img.tables ++ [(n, none)] } }, "ok")
  | ["recover"] => do
    let c ← cmpById st.cmpId
    match recover st.cfg (cmpNameById st.cmpId) st.flags st.img with
    | .error e => pure (st, s!"err {errStr e}")
    | .ok r =>
      let ps := contents c r
      pure (st, s!"ok {ps.length} {contentsDigest ps}")
  | ["recoverx"] => do
    let c ← cmpById st.cmpId
    match recover st.cfg (cmpNameById st.cmpId) st.flags st.img with
    | .error e => pure (st, s!"err {errStr e}")
    | .ok r =>
      let ps := contents c r
      let live := r.session.live.map fun t => s!"{t.level}:{t.num}"
      pure (st, s!"ok {ps.length} {contentsDigest ps} seq={r.seq} j={r.session.journalNum} " ++
        s!"replayed={r.replayed} live=[{",".intercalate live}]")
  | ["batch", h] => do
    let b ← fromHex h
    match Batch.decode b with
    | none => pure (st, "err")
    | some (seq, rs) =>
      let body := rs.map fun r => s!" {r.kind} {toHexField r.key} {toHexField r.val}"
      pure (st, s!"ok {seq} {rs.length}{String.join body}")
  | ["rec", h] => do
    let b ← fromHex h
    match Manifest.SessionRecord.decode b with
    | none => pure (st, "err")
    | some r => pure (st, s!"ok {recordStr r}")
  | _ => none

end GoLevel.Driver
