import GoLevel.Model.Cache
import GoLevel.Model.CacheTable
/-! Line-protocol handler for the cache (C17).  Stateful.

```
cache new <capacity>                       ⇒ ok
cache get <ns> <key> <-|v<size>|n<size>>   ⇒ <h<k>:v<val>|nil> c<0|1> f[vals] d[dels] n<Nodes> s<Size>
cache rel <k>                              ⇒ ok …      (Handle.Release of the k-th handle; repeat = no-op)
cache val <k>                              ⇒ <v<val>|nil> …  (Handle.Value)
cache del <ns> <key> <0|1>                 ⇒ <true|false> …  (1 = with a delFunc; delFuncs are numbered in call order)
cache evict <ns> <key>                     ⇒ <true|false> …
cache evictns <ns> | cache evictall | cache setcap <c> | cache close <0|1>   ⇒ ok …
```
`c1` = the setFunc ran; `f[..]` the values whose `Release` ran during the call, `d[..]` the delFuncs that ran
(both ascending); values are numbered in construction order, handles in the order `Get` returned them.

Every line is ALSO answered through the hash-table model (`Model/CacheTable.lean`): each `mBucket.get` /
`mBucket.delete` the cache model performs (`Instr.bget` / `Instr.delz`) is replayed on a `CacheT.Table` with the
real `murmur32`, and the tail ends with ` t<Nodes>/<Buckets>/<GrowCount>/<ShrinkCount>` of that table
(`Cache.Nodes()` and `Cache.GetStats()` on the Go side).  If the table model and the cache model ever disagree on
a lookup (found / created / deleted) the field is `t!bad`. -/
namespace GoLevel.Driver
open GoLevel GoLevel.CacheM

structure CacheSt where
  sh : Shared := Shared.new 0
  hs : List (Nat × Nat) := []   -- outstanding handle number ↦ node id
  nh : Nat := 0
  tbl : CacheT.Table := CacheT.Table.new
  tblOk : Bool := true

/-- The table access of one instruction of the cache model, replayed on the table model; `false` when the two
models disagree on its outcome. -/
def tableStep (tb : CacheT.Table) (sh : Shared) : Instr → CacheT.Table × Bool
  | .bget k m =>
    if sh.closed then (tb, true) else
    let getOnly := match m with
      | .get .none => true
      | .get _ => false
      | _ => true
    let r := CacheT.step CacheT.cacheHash tb (.get k.1 k.2 getOnly)
    let ok := match r.2, findKey sh.nodes k with
      | .get (.found n), some _ => n.ns == k.1 && n.key == k.2
      | .get (.created n), none => !getOnly && n.ns == k.1 && n.key == k.2
      | .get .absent, none => getOnly
      | _, _ => false
    (r.1, ok)
  | .delz k =>
    if sh.closed then (tb, true) else
    let zero := match findKey sh.nodes k with
      | some n => n.ref == 0
      | none => false
    -- an absent node: the table must find that out by itself
    let r := CacheT.step CacheT.cacheHash tb (.delete k.1 k.2 (zero || (findKey sh.nodes k).isNone))
    (r.1, r.2 == .deleted zero)
  | _ => (tb, true)

/-- `runInstrs` of the cache model with the table model run alongside. -/
def runInstrsT : Nat → Shared → CacheT.Table → Bool → List Instr → List Ev →
    Option (Shared × CacheT.Table × Bool × List Ev)
  | 0, _, _, _, _, _ => none
  | _ + 1, s, tb, ok, [], evs => some (s, tb, ok, evs)
  | f + 1, s, tb, ok, i :: rest, evs =>
    let r := tableStep tb s i
    match exec s i with
    | none => none
    | some (s', push, e) => runInstrsT f s' r.1 (ok && r.2) (push ++ rest) (evs ++ e)

def showNats (l : List Nat) : String :=
  ",".intercalate ((l.mergeSort (· ≤ ·)).map toString)

def tblTail (tb : CacheT.Table) (ok : Bool) : String :=
  if ok && !tb.bug then s!" t{tb.Nodes}/{tb.Buckets}/{tb.statGrow}/{tb.statShrink}" else " t!bad"

def evTail (st : CacheSt) (evs : List Ev) : String :=
  let s := st.sh
  let c := evs.any fun e => match e with | .ctor _ _ => true | .ctorNil _ => true | _ => false
  let f := evs.filterMap fun e => match e with | .fin _ v _ => some v | _ => none
  let d := evs.filterMap fun e => match e with | .delf d _ _ => some d | _ => none
  s!" c{if c then 1 else 0} f[{showNats f}] d[{showNats d}] n{s.Nodes} s{s.Size}" ++ tblTail st.tbl st.tblOk

def parseSf (t : String) : Option SetFunc :=
  if t = "-" then some .none
  else if t.startsWith "v" then (t.drop 1).toNat?.map SetFunc.val
  else if t.startsWith "n" then (t.drop 1).toNat?.map SetFunc.nilv
  else none

def runCall (st : CacheSt) (c : Call) (res : List Ev → CacheSt → CacheSt × String) : Option (CacheSt × String) := do
  let (sh', tb', ok', evs) ← runInstrsT (callFuel st.sh) st.sh st.tbl st.tblOk (startCall c) []
  let (st', r) := res evs { st with sh := sh', tbl := tb', tblOk := ok' }
  pure (st', r ++ evTail st' evs)

def boolRes (evs : List Ev) (st : CacheSt) : CacheSt × String :=
  (st, if evs.any (fun e => e == Ev.retBool true) then "true" else "false")

def handleCache (st : CacheSt) : List String → Option (CacheSt × String)
  | ["new", c] => do
    let c ← c.toNat?
    pure ({ sh := Shared.new c }, "ok")
  | ["get", ns, k, sf] => do
    let ns ← ns.toNat?; let k ← k.toNat?; let sf ← parseSf sf
    runCall st (.get (ns, k) sf) fun evs st =>
      match evs.findSome? fun e => match e with | .handle id v => some (id, v) | _ => none with
      | some (id, v) =>
        ({ st with hs := (st.nh, id) :: st.hs, nh := st.nh + 1 },
          s!"h{st.nh}:" ++ (match v with | some v => s!"v{v}" | none => "nil"))
      | none => (st, "nil")
  | ["rel", h] => do
    let h ← h.toNat?
    match st.hs.lookup h with
    | some id =>
      runCall { st with hs := st.hs.filter fun p => p.1 != h } (.release id) fun _ st => (st, "ok")
    | none => pure (st, "ok" ++ evTail st [])
  | ["val", h] => do
    let h ← h.toNat?
    let v := (st.hs.lookup h).bind fun id => (findId st.sh.nodes id).bind (·.value)
    pure (st, (match v with | some v => s!"v{v}" | none => "nil") ++ evTail st [])
  | ["del", ns, k, w] => do
    let ns ← ns.toNat?; let k ← k.toNat?
    runCall st (.delete (ns, k) (w == "1")) boolRes
  | ["evict", ns, k] => do
    let ns ← ns.toNat?; let k ← k.toNat?
    runCall st (.evict (ns, k)) boolRes
  | ["evictns", ns] => do
    let ns ← ns.toNat?
    runCall st (.evictNS ns) fun _ st => (st, "ok")
  | ["evictall"] => runCall st .evictAll fun _ st => (st, "ok")
  | ["setcap", c] => do
    let c ← c.toNat?
    runCall st (.setCapacity c) fun _ st => (st, "ok")
  | ["close", f] => runCall st (.close (f == "1")) fun _ st => (st, "ok")
  | _ => none

end GoLevel.Driver
