import GoLevel.Model.FSMeta
/-! Line-protocol handler for `fileStorage.SetMeta` / `GetMeta` (C04, `Model/FSMeta.lean`).  Stateless.

A directory `<S>` is a blank-separated list of tokens closed by `|`:
`C=<c>` (`CURRENT`), `B=<c>` (`CURRENT.bak`), `P<n>=<c>` (`CURRENT.<n>`), `F=<fd>` (another file exists).
`<fd>` = `m<n>` | `j<n>` | `t<n>` | `x<n>` (manifest, journal, table, temp).  `<c>` = `p<fd>` (canonical pointer:
`fsGenName(fd)+"\n"`), `q<fd>` (valid but not canonical), `j<tag>` (junk), `e` (empty), `c<c>` (a cut of `<c>`).
Every file of the given directory is synced and every entry durable.

```
fsm get <ro> <S> |            ⇒ <ans> | <S'>                         GetMeta (ro = 0/1), the directory afterwards
fsm set <fd> <S> |            ⇒ <res> <labels> | <S'> | <ans> | <S''>  SetMeta, then GetMeta (read-write)
fsm at <fd> <k> <S> |         ⇒ <labels> | <S_k>                     SetMeta dies before its k-th system call
fsm fail <fd> <k> <S> |       ⇒ <res> | <S'> | <ans> | <S''>         the k-th system call of SetMeta fails; then GetMeta
fsm imgs <fd> <k> <S> |       ⇒ <S_1> | <S_2> | …                    the machine-crash images of the state of `at`
fsm gat <k> <S> |             ⇒ <labels> | <S_k> | <ans'> | <S'>         GetMeta (read-write) dies before the k-th of its
                                  state-changing system calls (k ≥ number of them: it completes); then GetMeta again
fsm gimgs <k> <S> |           ⇒ <S_1> | <S_2> | …                    the machine-crash images of the state of `gat`
```
`<ans>` = `ok:<fd>` | `err:notexist` | `err:corrupted` | `err:io`; `<res>` = `ok` | `err`; `<labels>` = the system calls
issued, `,`-separated (`-` when none): for `set`/`at` all of them, for `gat` the state-changing ones (those the
implementation reports through its hook). -/
namespace GoLevel.Driver
open GoLevel GoLevel.FSMeta

namespace FSM

def digits (cs : List Char) : Option Nat := if cs.isEmpty then none else (String.ofList cs).toNat?

def parseFD : List Char → Option FD
  | 'm' :: r => (digits r).map (⟨.manifest, ·⟩)
  | 'j' :: r => (digits r).map (⟨.journal, ·⟩)
  | 't' :: r => (digits r).map (⟨.table, ·⟩)
  | 'x' :: r => (digits r).map (⟨.temp, ·⟩)
  | _ => none

def parseC : List Char → Option Content
  | 'c' :: r => (parseC r).map .cut
  | ['e'] => some .empty
  | 'p' :: r => (parseFD r).map (.ptr · true)
  | 'q' :: r => (parseFD r).map (.ptr · false)
  | 'j' :: r => (digits r).map .junk
  | _ => none

def showFD (fd : FD) : String :=
  (match fd.ty with | .manifest => "m" | .journal => "j" | .table => "t" | .temp => "x") ++ toString fd.num

def showC : Content → String
  | .ptr fd true => "p" ++ showFD fd
  | .ptr fd false => "q" ++ showFD fd
  | .junk t => "j" ++ toString t
  | .empty => "e"
  | .cut c => "c" ++ showC c

/-- one token of a directory description -/
def addTok (acc : List (Name × Content) × List FD) (t : String) : Option (List (Name × Content) × List FD) :=
  match t.splitOn "=" with
  | [k, v] =>
    match k.toList with
    | ['C'] => (parseC v.toList).map fun c => (acc.1 ++ [(.cur, c)], acc.2)
    | ['B'] => (parseC v.toList).map fun c => (acc.1 ++ [(.bak, c)], acc.2)
    | ['F'] => (parseFD v.toList).map fun fd => (acc.1, acc.2 ++ [fd])
    | 'P' :: n => do
      let n ← digits n
      let c ← parseC v.toList
      pure (acc.1 ++ [(.pend n, c)], acc.2)
    | _ => none
  | _ => none

def mkFS (ents : List (Name × Content)) (files : List FD) : FS :=
  { inodes := ents.map fun e => ⟨e.2, e.2, false⟩,
    ddir := { ents := (List.range ents.length).zipWith (fun i e => (e.1, i)) ents, files := fun fd => files.contains fd } }

/-- `<S> |` at the head of `toks`: the file system and the rest -/
def parseS (toks : List String) : Option (FS × List String) :=
  let (st, rest) := toks.span (· ≠ "|")
  match rest with
  | "|" :: rest => do
    let (ents, files) ← st.foldlM addTok ([], [])
    pure (mkFS ents files, rest)
  | _ => none

def nameKey : Name → Nat × Nat
  | .cur => (0, 0)
  | .bak => (1, 0)
  | .pend n => (2, n)

def showName : Name → String
  | .cur => "C"
  | .bak => "B"
  | .pend n => "P" ++ toString n

def insName (x : Name × Nat) : List (Name × Nat) → List (Name × Nat)
  | [] => [x]
  | y :: r => if (nameKey x.1).1 < (nameKey y.1).1 ∨ ((nameKey x.1).1 = (nameKey y.1).1 ∧ (nameKey x.1).2 ≤ (nameKey y.1).2)
      then x :: y :: r else y :: insName x r

/-- the directory as the process sees it: `CURRENT`, `CURRENT.bak`, the pending files ascending -/
def showS (fs : FS) : String :=
  let es := fs.vdir.ents.foldr insName []
  let l := es.map fun e => showName e.1 ++ "=" ++ showC (fs.ino e.2).vol
  if l.isEmpty then "-" else " ".intercalate l

def showAns : Except Err FD → String
  | .ok fd => "ok:" ++ showFD fd
  | .error .notExist => "err:notexist"
  | .error .corrupted => "err:corrupted"
  | .error .io => "err:io"

def showLbl : Lbl → String
  | .stat => "stat" | .read => "read" | .tryRead => "tryread" | .open_ => "open" | .write => "write" | .sync => "sync" | .close => "close"
  | .rename => "rename" | .syncDir => "syncdir" | .remove => "remove" | .readDir => "readdir" | .statFile => "statfile"
  | .mk => "mk" | .rm => "rm"

def showLbls (l : List Lbl) : String := if l.isEmpty then "-" else ",".intercalate (l.map showLbl)

/-- the system calls the implementation reports through its hook (`verifStep`) -/
def hooked : Lbl → Bool
  | .readDir | .statFile | .tryRead | .mk | .rm => false
  | _ => true

def crashAt (k : Nat) : Nat → Fault := fun j => if j = k then .crash else .ok
def failAt (k : Nat) : Nat → Fault := fun j => if j = k then .fail else .ok

/-- the masks over `n` directory operations -/
def masks : Nat → List (List Bool)
  | 0 => [[]]
  | n + 1 => (masks n).flatMap fun m => [false :: m, true :: m]

def keeps : List Keep := [.lost, .kept, .empty, .cut]

/-- the fates of the dirty inodes (by index), as functions -/
def dataChoices (inodes : List Inode) : List (Nat → Keep) :=
  let dirty := (List.range inodes.length).filter fun i => (inodes.getD i default).dirty
  dirty.foldl (fun acc i => acc.flatMap fun f => keeps.map fun k => fun j => if j = i then k else f j) [fun _ => .lost]

/-- every machine-crash image of a file system, as descriptions, without repetitions -/
def images (fs : FS) : List String :=
  let all := (masks fs.log.length).flatMap fun m =>
    (dataChoices fs.inodes).map fun d => showS (fs.image ⟨fun i => m.getD i false, d⟩)
  all.eraseDups

end FSM

open FSM in
def handleFsm (toks : List String) : Option String :=
  match toks with
  | "get" :: ro :: rest => do
    let (fs, _) ← parseS rest
    let r := getMeta codeCfg (ro == "1") (W.of fs)
    pure (showAns r.1 ++ " | " ++ showS r.2.fs)
  | "set" :: fd :: rest => do
    let fd ← parseFD fd.toList
    let (fs, _) ← parseS rest
    let r := setMeta codeCfg fd (W.of fs)
    let g := getMeta codeCfg false (W.of r.2.fs)
    pure ((if r.1 == .ok () then "ok " else "err ") ++ showLbls r.2.trace ++ " | " ++ showS r.2.fs ++ " | " ++
      showAns g.1 ++ " | " ++ showS g.2.fs)
  | "at" :: fd :: k :: rest => do
    let fd ← parseFD fd.toList
    let k ← k.toNat?
    let (fs, _) ← parseS rest
    let r := setMeta codeCfg fd (W.of fs (crashAt k))
    pure (showLbls r.2.trace ++ " | " ++ showS r.2.fs)
  | "fail" :: fd :: k :: rest => do
    let fd ← parseFD fd.toList
    let k ← k.toNat?
    let (fs, _) ← parseS rest
    let r := setMeta codeCfg fd (W.of fs (failAt k))
    let g := getMeta codeCfg false (W.of r.2.fs)
    pure ((if r.1 == .ok () then "ok" else "err") ++ " | " ++ showS r.2.fs ++ " | " ++ showAns g.1 ++ " | " ++ showS g.2.fs)
  | "imgs" :: fd :: k :: rest => do
    let fd ← parseFD fd.toList
    let k ← k.toNat?
    let (fs, _) ← parseS rest
    let r := setMeta codeCfg fd (W.of fs (crashAt k))
    pure (" | ".intercalate (images r.2.fs))
  | "gat" :: k :: rest => do
    let k ← k.toNat?
    let (fs, _) ← parseS rest
    let full := getMeta codeCfg false (W.of fs)
    -- the position of the k-th hooked system call in the run without faults
    let idx := (List.range full.2.trace.length).filter fun i => hooked (full.2.trace.getD i .stat)
    let r := match idx[k]? with
      | some j => getMeta codeCfg false (W.of fs (crashAt j))
      | none => full
    let g := getMeta codeCfg false (W.of r.2.fs)
    pure (showLbls (r.2.trace.filter hooked) ++ " | " ++ showS r.2.fs ++ " | " ++ showAns g.1 ++
      " | " ++ showS g.2.fs)
  | "gimgs" :: k :: rest => do
    let k ← k.toNat?
    let (fs, _) ← parseS rest
    let full := getMeta codeCfg false (W.of fs)
    let idx := (List.range full.2.trace.length).filter fun i => hooked (full.2.trace.getD i .stat)
    let r := match idx[k]? with
      | some j => getMeta codeCfg false (W.of fs (crashAt j))
      | none => full
    pure (" | ".intercalate (images r.2.fs))
  | _ => none

end GoLevel.Driver
