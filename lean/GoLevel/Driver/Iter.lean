import GoLevel.Model.Iter
import GoLevel.Model.MergeHeap
import GoLevel.Model.IterErr
import GoLevel.Driver.Key
/-! Line-protocol handler for the iterator layer (C02).  Stateful: `it new …` installs an iterator,
the following `it first|last|next|prev|seek <key>` lines move it.

```
it new merged  <cmp> <nchild> (<n> (<ikey> <val>)*)*                       children = array iterators
it new indexed <cmp> <nchild> (<sep> <n> (<ikey> <val>)*)*                 iterator.NewIndexedIterator
it new mergedx <cmp> <nchild> (a <n> (<ikey> <val>)* | s <start|nil> <limit|nil> <n> (<ikey> <val>)*
                               | x <nblk> (<sep> <n> (<ikey> <val>)*)*)*    array / sliced memdb or table / indexed
it new dbiter  <cmp> <seq> <start|nil> <limit|nil> <n> (<ikey> <val>)*     DBIter over one sorted array
it new dblayers <cmp> <seq> <start|nil> <limit|nil> <nchild> (m <n> (<ikey> <val>)* | l <ntab> (<n> (<ikey> <val>)*)*)*
                                                                            DBIter over the merged raw iterator
it new hmerged  … | it new hmergedx …                                      same syntax as merged / mergedx, answered by
                                                                            the heap model (`Model/MergeHeap.lean`:
                                                                            `container/heap` transcribed); children may
                                                                            hold equal keys (real tie-breaking)
it new emerged  <cmp> <strict 0|1> <nchild> (a <fail> <n> (<ikey> <val>)* | x <nblk> (<sep> <fail> <n> (<ikey> <val>)*)*)*
                                                                            merged iterator over children that fail
                                                                            (`Model/IterErr.lean`); a nested indexed
                                                                            iterator has the same `strict`
it new eindexed <cmp> <strict 0|1> <nblk> (<sep> <fail> <n> (<ikey> <val>)*)*   indexed iterator over blocks that fail
it first | it last | it next | it prev | it seek <key>      ⇒  true <key> <val> | false nil nil
```
`<fail>` is `-` (never fails), `c<k>` or `i<k>`: movement number `k` (from 0) of that child / of every data
iterator made for that block fails with a corruption / an I/O error.  The answers of `emerged`/`eindexed` have
two more fields: `Error()` as `ok|corrupted|io|released` and the number of error-callback (`errf`) calls so far.
`<ikey>` is an encoded internal key; `seek` takes an internal key for merged/indexed, a user key for the
DB iterators; `start`/`limit` are user keys.
-/
namespace GoLevel.Driver
open GoLevel

inductive ItState
  | none
  | raw (c : UCmp) (m : MergedIter Node)
  | hraw (c : UCmp) (m : MergedIter Node)
  | idx (c : UCmp) (x : IndexedIter)
  | flat (c : UCmp) (d : DBIter ArrIter)
  | layers (c : UCmp) (d : DBIter (MergedIter Node))
  | eraw (c : UCmp) (m : EMerged ENode)
  | eidx (c : UCmp) (x : EIndexed)

abbrev P := StateT (List String) Option

def tok : P String := fun s => match s with | [] => .none | t :: ts => some (t, ts)
def pNat : P Nat := do let t ← tok; (t.toNat? : Option Nat)
def pHex : P Bytes := do let t ← tok; (fromHex t : Option Bytes)
def pOptHex : P (Option Bytes) := do
  let t ← tok
  if t = "nil" then pure .none else ((fromHex t).map some : Option (Option Bytes))
def pIKey : P IKey := do let b ← pHex; (parseIKey b : Option IKey)

def pOptIKey : P (Option IKey) := do
  let b ← pOptHex
  match b with
  | .none => pure .none
  | some b => ((parseIKey b).map some : Option (Option IKey))

def pRep {α : Type} (p : P α) : Nat → P (List α)
  | 0 => pure []
  | n + 1 => do let a ← p; let as ← pRep p n; pure (a :: as)

def pEntries : P (List Entry) := do
  let n ← pNat
  pRep (do let k ← pIKey; let v ← pHex; pure ⟨k, v⟩) n

def pBlocks : P (List IdxChild) := do
  let n ← pNat
  pRep (do let s ← pIKey; let es ← pEntries; pure ⟨s, es⟩) n

def pNodeX (c : UCmp) : P Node := do
  let t ← tok
  if t = "a" then do let es ← pEntries; pure (.arr (ArrIter.new c es .none .none))
  else if t = "x" then do let bs ← pBlocks; pure (.idx (IndexedIter.new bs))
  else if t = "s" then do
    let st ← pOptIKey; let lm ← pOptIKey
    let es ← pEntries; pure (.arr (ArrIter.new c es st lm))
  else failure

def pLayer (c : UCmp) (start limit : Option IKey) : P Node := do
  let t ← tok
  if t = "m" then do let es ← pEntries; pure (.arr (ArrIter.new c es start limit))
  else if t = "l" then do
    let n ← pNat
    let ts ← pRep pEntries n
    pure (.idx (levelIter c ts start limit))
  else failure

def pFail : P (Option (Nat × Err)) := do
  let t ← tok
  if t = "-" then pure .none
  else
    match t.toList with
    | 'c' :: ds => do let k ← ((String.ofList ds).toNat? : Option Nat); pure (some (k, Err.corrupted))
    | 'i' :: ds => do let k ← ((String.ofList ds).toNat? : Option Nat); pure (some (k, Err.io))
    | _ => failure

def pBool : P Bool := do
  let t ← tok
  if t = "1" then pure true else if t = "0" then pure false else failure

def pEBlocks : P (List EIdxChild) := do
  let n ← pNat
  pRep (do let s ← pIKey; let f ← pFail; let es ← pEntries; pure ⟨s, es, f⟩) n

def pENode (c : UCmp) (strict : Bool) : P ENode := do
  let t ← tok
  if t = "a" then do
    let f ← pFail
    let es ← pEntries
    pure (.arr (FailChild.new (ArrIter.new c es .none .none) f))
  else if t = "x" then do
    let bs ← pEBlocks
    pure (.idx (EIndexed.new bs strict))
  else failure

def done {α : Type} (a : α) : P α := fun s => if s.isEmpty then some (a, []) else .none

def pNew : P ItState := do
  let kind ← tok
  let c ← (do let t ← tok; (cmpById t : Option UCmp))
  if kind = "merged" then do
    let n ← pNat
    let ch ← pRep pEntries n
    done (.raw c (MergedIter.new (ch.map fun es => Node.arr (ArrIter.new c es .none .none))))
  else if kind = "hmerged" then do
    let n ← pNat
    let ch ← pRep pEntries n
    done (.hraw c (MergedIter.new (ch.map fun es => Node.arr (ArrIter.new c es .none .none))))
  else if kind = "hmergedx" then do
    let n ← pNat
    let ch ← pRep (pNodeX c) n
    done (.hraw c (MergedIter.new ch))
  else if kind = "indexed" then do
    let bs ← pBlocks
    done (.idx c (IndexedIter.new bs))
  else if kind = "mergedx" then do
    let n ← pNat
    let ch ← pRep (pNodeX c) n
    done (.raw c (MergedIter.new ch))
  else if kind = "emerged" then do
    let strict ← pBool
    let n ← pNat
    let ch ← pRep (pENode c strict) n
    done (.eraw c (EMerged.new ch strict))
  else if kind = "eindexed" then do
    let strict ← pBool
    let bs ← pEBlocks
    done (.eidx c (EIndexed.new bs strict))
  else if kind = "dbiter" then do
    let seq ← pNat
    let st ← pOptHex; let lm ← pOptHex
    let es ← pEntries
    let a := ArrIter.new c es (st.map (probe · Gen.keyMaxSeq)) (lm.map (probe · Gen.keyMaxSeq))
    done (.flat c (DBIter.new a seq (a.xs.length + 1)))
  else if kind = "dblayers" then do
    let seq ← pNat
    let st ← pOptHex; let lm ← pOptHex
    let n ← pNat
    let ch ← pRep (pLayer c (st.map (probe · Gen.keyMaxSeq)) (lm.map (probe · Gen.keyMaxSeq))) n
    done (.layers c (DBIter.new (MergedIter.new ch) seq ((ch.map Node.size).sum + 1)))
  else failure

def showEntry : Option Entry → String
  | some e => s!"true {toHexField e.key.encode} {toHexField e.val}"
  | .none => "false nil nil"

def showPair : Option (Bytes × Bytes) → String
  | some (k, v) => s!"true {toHexField k} {toHexField v}"
  | .none => "false nil nil"

def showErr : Option Err → String
  | .none => "ok"
  | some .corrupted => "corrupted"
  | some .io => "io"
  | some .released => "released"

def parseCallI : List String → Option (Call IKey)
  | ["first"] => some .first
  | ["last"] => some .last
  | ["next"] => some .next
  | ["prev"] => some .prev
  | ["seek", k] => do let b ← fromHex k; let k ← parseIKey b; pure (.seek k)
  | _ => .none

def parseCallU : List String → Option (Call Bytes)
  | ["first"] => some .first
  | ["last"] => some .last
  | ["next"] => some .next
  | ["prev"] => some .prev
  | ["seek", k] => do let b ← fromHex k; pure (.seek b)
  | _ => .none

def handleIt (st : ItState) : List String → Option (ItState × String)
  | "new" :: rest => do
    let (s, _) ← pNew rest
    pure (s, "ok")
  | args =>
    match st with
    | .none => .none
    | .raw c m => do
      let cl ← parseCallI args
      let o := MergedIter.ops (Node.ops c) c
      let m' := o.step cl m
      pure (.raw c m', showEntry (o.cur m'))
    | .hraw c m => do
      let cl ← parseCallI args
      let o := HeapMerged.ops (Node.ops c) c
      let m' := o.step cl m
      pure (.hraw c m', showEntry (o.cur m'))
    | .idx c x => do
      let cl ← parseCallI args
      let o := IndexedIter.ops c
      let x' := o.step cl x
      pure (.idx c x', showEntry (o.cur x'))
    | .eraw c m => do
      let cl ← parseCallI args
      let o := EMerged.ops (ENode.ops c) c
      let m' := o.toIterOps.step cl m
      pure (.eraw c m', s!"{showEntry (o.cur m')} {showErr (o.err m')} {m'.errf.length}")
    | .eidx c x => do
      let cl ← parseCallI args
      let o := EIndexed.ops c
      let x' := o.toIterOps.step cl x
      pure (.eidx c x', s!"{showEntry (o.cur x')} {showErr (o.err x')} {x'.errf.length}")
    | .flat c d => do
      let cl ← parseCallU args
      let d' := DBIter.step (ArrIter.ops c) c cl d
      pure (.flat c d', showPair d'.out)
    | .layers c d => do
      let cl ← parseCallU args
      let d' := DBIter.step (MergedIter.ops (Node.ops c) c) c cl d
      pure (.layers c d', showPair d'.out)

end GoLevel.Driver
