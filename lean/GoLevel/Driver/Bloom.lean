import GoLevel.Model.Bloom
/-! Line-protocol handler for the Bloom filter / `util.Hash`.
`bloom hash <seed> <hex>` → decimal `uint32`; `bloom k <bpk>` → decimal k;
`bloom gen <bpk> <hexkey>*` → hex filter; `bloom has <hexfilter> <hexkey>` → `0|1`;
`bloom hasmany <hexfilter> <hexkey>*` → one `0|1` character per key (`-` when no key). -/
namespace GoLevel.Driver
open GoLevel

def bit01 (b : Bool) : String := if b then "1" else "0"

def handleBloom : List String → Option String
  | ["hash", seed, d] => do
      let seed ← seed.toNat?; let d ← fromHex d
      if seed < 2 ^ 32 then pure (toString (hash d seed.toUInt32).toNat) else none
  | ["k", bpk] => do
      let bpk ← bpk.toNat?
      pure (toString (bloomK bpk))
  | "gen" :: bpk :: keys => do
      let bpk ← bpk.toNat?
      let keys ← keys.mapM fromHex
      if bloomGenPanics bpk keys.length && !keys.isEmpty then pure "panic"
      else pure (toHexField (bloomGenerate bpk keys))
  | ["has", f, k] => do
      let f ← fromHex f; let k ← fromHex k
      pure (bit01 (bloomContains f k))
  | "hasmany" :: f :: keys => do
      let f ← fromHex f
      let keys ← keys.mapM fromHex
      if keys.isEmpty then pure "-"
      else pure (String.join (keys.map fun k => bit01 (bloomContains f k)))
  | _ => none

end GoLevel.Driver
