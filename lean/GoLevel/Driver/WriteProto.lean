import GoLevel.Model.WriteProto
/-! Trace validator for the write-merge protocol (C10).  `wp <event>` lines, one per recorded hook event,
answer `ok` or `illegal <reason>`.

```
wp reset                        forget everything
wp call <w> <0|1>               harness: writer <w> (fresh decimal id) entered Put/Delete/Write, merge flag
wp lock <w>                     "w.lock"     <w> sent on writeLockC (logged after the send)
wp leader <w>                   "w.leader"   <w> is about to run writeLocked (after lock, or after handoff)
wp flushed <0|1>                "w.flushed"  1 = db.flush failed
wp accept <w2>                  "w.accept"   leader merged <w2> (logged before the reply on writeMergedC)
wp overflow <w2>                "w.overflow" <w2> did not fit
wp group <seq> <n> <nbatches>   "w.group"    seq = db.seq+1, n records in nbatches batches
wp applied                      "w.applied"  journal written, memdb updated
wp publish <seq>                "w.publish"  db.seq after addSeq(n): must be group seq + n - 1
wp ack                          "w.ack"      one per merged writer (logged after the send on writeAckC)
wp handoff                      "w.handoff"  logged before `writeMergedC <- false`
wp release                      "w.release"  logged before `<-writeLockC`
wp ret <w> <ok|err|closed>      harness: the call of <w> returned
wp end                          everything called has returned, no leader active
```

The validator keeps a small phase machine for the current leader (fed by the hook events, which are in the
leader's program order) and a list of *candidate* model states `ms : List WP.St`.  Every event is turned into
lists of model labels (`WP.Label`) that are run on each candidate with `WP.run`; candidates on which the run
fails are dropped; the event is illegal when the phase machine rejects it or no candidate is left.  Hence
(`Proofs/WriteProtoDriver.lean`) every candidate after an event is reached from a candidate before it by
steps of the model: a trace the validator accepts is a run of the transition system of `Model/WriteProto`.

Where the model is ahead of / behind the log:
* the merge loop is replayed at `group` (`flushOk lim`, `recvAccept`/`reply` per `accept`, `recvOverflow`
  or `mergeDone`), because only then the number of merged writers — hence a suitable `lim` — is known
  (mirror writers have size 2, `lim = 2·accepted + 1`);
* the outcome of the optional `rotateMem` after `publish` is not logged: the candidates fork into
  "result nil" and "result err"; the first `ret` of a member of the group selects;
* `w.ack` is logged after the rendezvous, so the merged writer's `ret` may come first: the model `ack` step
  of a writer is fired by its `ret` (allowed once the journal outcome is known), and `handoff`/`release`
  fire the remaining ones; `ack` lines are counted and must add up to the number of accepted writers;
* `closed`/`perErr` have no event: thread 0 of every candidate is a `closer`, thread 1 a `perErrH`; an early
  `ret <w> closed` / `ret <w> err` of a writer still selecting makes them start.
-/
namespace GoLevel.Driver.Wp
open GoLevel GoLevel.WP

/-- phase of the current leader as far as the hook events tell -/
inductive VPhase
  | free                                     -- no leader between `lock` and `release`
  | needLeader                               -- token acquired (lock / handoff), `leader` not yet seen
  | needFlushed
  | merging                                  -- in the merge loop; accepted/overflowed writers in `accs`/`ovf`
  | grouped (seq n : Nat)                    -- journal outcome unknown
  | applied (seq n : Nat)
  | unlocking                                -- `unlockWrite` entered (or about to be)
deriving DecidableEq, Repr

structure WpState where
  ms : List St := []
  /-- harness id of thread `k + 2` -/
  ids : List Nat := []
  /-- indices whose `ret` was seen -/
  retd : List Nat := []
  phase : VPhase := .free
  lead : Nat := 0
  /-- writers accepted / overflowed by the current leader (thread indices) -/
  accs : List Nat := []
  ovf : Option Nat := none
  /-- `ack` lines seen for the current leader -/
  issued : Nat := 0
  lastPub : Nat := 0
deriving Repr

inductive Ev
  | reset | call (w : Nat) (merge : Bool) | lock (w : Nat) | leader (w : Nat) | flushed (err : Bool)
  | accept (w : Nat) | overflow (w : Nat) | group (seq n nb : Nat) | applied | publish (seq : Nat)
  | ack | handoff | release | ret (w : Nat) (r : Res) | fin
deriving DecidableEq, Repr

def closerIdx : Nat := 0
def perErrIdx : Nat := 1

def initSt : St := { ws := [{ kind := .closer }, { kind := .perErrH }] }

def initWp : WpState := { ms := [initSt] }

/-- index of harness id `w` -/
def idxOf (v : WpState) (w : Nat) : Option Nat :=
  match v.ids.idxOf? w with
  | some k => some (k + 2)
  | none => none

/-- append an idle writer thread (the slot the `call` step then uses) -/
def addIdle (m : St) (merge : Bool) : St :=
  { m with ws := m.ws ++ [{ kind := .writer, merge := merge, size := 2, nrec := 1 }] }

/-- harness result against model result: `err` covers a storage error and the persistent error -/
def resMatch (h r : Res) : Bool :=
  match h, r with
  | .ok, .ok => true
  | .err, .err => true
  | .err, .perErr => true
  | .closed, .closed => true
  | _, _ => false

def pcOf (m : St) (i : Nat) : Option Pc := (m.ws[i]?).map (·.pc)

/-- the `ack` steps for every writer still waiting for one -/
def waIdx : List Thread → Nat → List Nat
  | [], _ => []
  | t :: ts, k => if t.pc == .waitAck then k :: waIdx ts (k + 1) else waIdx ts (k + 1)

def ackAll (m : St) (j : Nat) : List Label := (waIdx m.ws 0).map (fun i => Label.ack i j)

/-- replay of the merge loop -/
def mergeLabels (j : Nat) (accs : List Nat) (ovf : Option Nat) : List Label :=
  [Label.flushOk j (2 * accs.length + 1)] ++ accs.flatMap (fun i => [Label.recvAccept i j, Label.reply i j]) ++
  (match ovf with
   | some i => [Label.recvOverflow i j]
   | none => [Label.mergeDone j])

/-- run alternatives on every candidate, keep the successful ones that pass `post` -/
def advance (ms : List St) (alts : St → List (List Label)) (post : St → Bool) : List St :=
  ms.flatMap (fun m => ((alts m).filterMap (run m)).filter post)

def one (ls : List Label) : St → List (List Label) := fun _ => [ls]

/-- labels for a `ret` of thread `i` on candidate `m` -/
def retLabels (v : WpState) (i : Nat) (r : Res) (m : St) : List (List Label) :=
  match pcOf m i with
  | some (.returned _) => [[]]
  | some .waitAck =>
    match v.phase with
    | .unlocking => [[Label.ack i v.lead]]
    | .grouped _ _ => [[Label.journalFail v.lead, Label.ack i v.lead]]
    | _ => []
  | some .selecting =>
    match r with
    | .closed => [(if m.closed then [] else [Label.call closerIdx]) ++ [Label.retClosed i]]
    | .err => [(if m.perErr then [] else [Label.call perErrIdx]) ++ [Label.retPerErr i]]
    | _ => []
  | _ => []

def retPost (i : Nat) (r : Res) (m : St) : Bool :=
  match pcOf m i with
  | some (.returned r') => resMatch r r'
  | _ => false

/-- is thread `i` a writer still selecting (in every candidate), not already taken by the current leader -/
def mergeable (v : WpState) (i : Nat) : Bool :=
  v.ms.all (fun m => match m.ws[i]? with
    | some w => w.pc == .selecting && w.merge && w.kind == .writer
    | none => false) && !v.accs.contains i && v.ovf != some i

def leaderMerges (v : WpState) : Bool :=
  v.ms.all (fun m => match m.ws[v.lead]? with | some l => l.merge | none => false)

def finish (v : WpState) (ms : List St) (why : String) : Except String WpState :=
  if ms.isEmpty then .error why else .ok { v with ms := ms }

/-- the validator -/
def legalStep (v : WpState) : Ev → Except String WpState
  | .reset => .ok initWp
  | .call w mg =>
    if v.ids.contains w then .error "call: id already used" else
    let i := v.ids.length + 2
    finish { v with ids := v.ids ++ [w] } (advance (v.ms.map (addIdle · mg)) (one [Label.call i]) (fun _ => true))
      "call: internal"
  | .lock w =>
    match idxOf v w with
    | none => .error "lock: unknown writer"
    | some i =>
      if v.phase ≠ .free then .error "lock: the write lock is held by a leader" else
      finish { v with phase := .needLeader, lead := i, accs := [], ovf := none, issued := 0 }
        (advance v.ms (one [Label.lock i]) (fun _ => true)) "lock: writer is not waiting for the lock"
  | .leader w =>
    match idxOf v w with
    | none => .error "leader: unknown writer"
    | some i =>
      if v.phase ≠ .needLeader then .error "leader: no lock acquisition or hand-off precedes" else
      if v.lead ≠ i then .error "leader: this writer does not hold the lock" else
      finish { v with phase := .needFlushed }
        (v.ms.filter (fun m => m.cur == some i && pcOf m i == some (.lead .flush 0 false)))
        "leader: this writer does not hold the lock"
  | .flushed err =>
    if v.phase ≠ .needFlushed then .error "flushed: no leader at this point" else
    if err then
      finish { v with phase := .unlocking } (advance v.ms (one [Label.flushFail v.lead]) (fun _ => true))
        "flushed: internal"
    else .ok { v with phase := .merging }
  | .accept w =>
    match idxOf v w with
    | none => .error "accept: unknown writer"
    | some i =>
      if v.phase ≠ .merging ∨ v.ovf ≠ none then .error "accept: leader is not in its merge loop" else
      if !leaderMerges v then .error "accept: leader has merge disabled" else
      if !mergeable v i then .error "accept: writer is not a merge candidate" else
      .ok { v with accs := v.accs ++ [i] }
  | .overflow w =>
    match idxOf v w with
    | none => .error "overflow: unknown writer"
    | some i =>
      if v.phase ≠ .merging ∨ v.ovf ≠ none then .error "overflow: leader is not in its merge loop" else
      if !leaderMerges v then .error "overflow: leader has merge disabled" else
      if !mergeable v i then .error "overflow: writer is not a merge candidate" else
      .ok { v with ovf := some i }
  | .group seq n nb =>
    if v.phase ≠ .merging then .error "group: leader is not in its merge loop" else
    if seq ≤ v.lastPub then .error "group: sequence number not above the last published one" else
    if nb = 0 ∨ v.accs.length + 1 < nb then .error "group: batch count" else
    if n < v.accs.length + 1 ∨ n < nb then .error "group: record count" else
    finish { v with phase := .grouped seq n }
      (advance v.ms (one (mergeLabels v.lead v.accs v.ovf)) (fun _ => true)) "group: internal"
  | .applied =>
    match v.phase with
    | .grouped seq n =>
      finish { v with phase := .applied seq n }
        (advance v.ms (one [Label.journalOk v.lead, Label.apply v.lead]) (fun _ => true))
        "applied: journal outcome already known to be a failure"
    | _ => .error "applied: no group is being written"
  | .publish q =>
    match v.phase with
    | .applied seq n =>
      if q ≠ seq + n - 1 then .error "publish: sequence number is not group seq + n - 1" else
      finish { v with phase := .unlocking, lastPub := q }
        (advance v.ms (fun _ => [[Label.publish v.lead false],
                                 [Label.publish v.lead true, Label.rotateFail v.lead]]) (fun _ => true))
        "publish: internal"
    | _ => .error "publish: nothing applied"
  | .ack =>
    if v.accs.length ≤ v.issued then .error "ack: more acks than merged writers" else
    match v.phase with
    | .unlocking => .ok { v with issued := v.issued + 1 }
    | .grouped _ _ =>
      finish { v with phase := .unlocking, issued := v.issued + 1 }
        (advance v.ms (one [Label.journalFail v.lead]) (fun _ => true)) "ack: internal"
    | _ => .error "ack: journal outcome not yet known"
  | .handoff =>
    if v.issued ≠ v.accs.length then .error "handoff: not every merged writer was acked" else
    match v.ovf with
    | none => .error "handoff: no writer overflowed"
    | some i =>
      let pre : Option (List Label) := match v.phase with
        | .unlocking => some []
        | .grouped _ _ => some [Label.journalFail v.lead]
        | _ => none
      match pre with
      | none => .error "handoff: leader is not finishing"
      | some pre =>
        -- the journal-failure prefix changes no program counter but the leader's, so `ackAll m` is unaffected
        finish { v with phase := .needLeader, lead := i, accs := [], ovf := none, issued := 0 }
          (advance v.ms (fun m => [pre ++ ackAll m v.lead ++ [Label.handoff i v.lead]]) (fun _ => true))
          "handoff: internal"
  | .release =>
    if v.issued ≠ v.accs.length then .error "release: not every merged writer was acked" else
    if v.ovf ≠ none then .error "release: an overflowed writer is waiting for the lock" else
    let pre : Option (List Label) := match v.phase with
      | .unlocking => some []
      | .grouped _ _ => some [Label.journalFail v.lead]
      | _ => none
    match pre with
    | none => .error "release: leader is not finishing"
    | some pre =>
      finish { v with phase := .free, accs := [], ovf := none, issued := 0 }
        (advance v.ms (fun m => [pre ++ ackAll m v.lead ++ [Label.release v.lead]]) (fun _ => true))
        "release: internal"
  | .ret w r =>
    match idxOf v w with
    | none => .error "ret: unknown writer"
    | some i =>
      if v.retd.contains i then .error "ret: writer answered twice" else
      if v.accs.contains i && (match v.phase with | .merging => true | .applied _ _ => true | _ => false) then
        .error "ret: merged writer returned before the journal outcome" else
      if v.ovf = some i then .error "ret: overflowed writer returned before it led" else
      let phase' := match v.phase, v.ms.head? with
        | .grouped s n, some m => if pcOf m i == some .waitAck then .unlocking else .grouped s n
        | p, _ => p
      finish { v with retd := i :: v.retd, phase := phase' } (advance v.ms (retLabels v i r) (retPost i r))
        "ret: no result of this kind is due to this writer"
  | .fin =>
    if v.phase ≠ .free then .error "end: a leader is still active" else
    if v.retd.length ≠ v.ids.length then .error "end: a writer has not returned" else
    if v.ms.all (fun m => m.token) then .error "end: write lock still held" else
    .ok v

/-! ## line protocol -/

def parseRes : String → Option Res
  | "ok" => some .ok | "err" => some .err | "closed" => some .closed | _ => none

def parseBool : String → Option Bool
  | "0" => some false | "1" => some true | _ => none

def parseEv : List String → Option Ev
  | ["reset"] => some .reset
  | ["call", w, m] => do pure (.call (← w.toNat?) (← parseBool m))
  | ["lock", w] => do pure (.lock (← w.toNat?))
  | ["leader", w] => do pure (.leader (← w.toNat?))
  | ["flushed", e] => do pure (.flushed (← parseBool e))
  | ["accept", w] => do pure (.accept (← w.toNat?))
  | ["overflow", w] => do pure (.overflow (← w.toNat?))
  | ["group", s, n, nb] => do pure (.group (← s.toNat?) (← n.toNat?) (← nb.toNat?))
  | ["applied"] => some .applied
  | ["publish", s] => do pure (.publish (← s.toNat?))
  | ["ack"] => some .ack
  | ["handoff"] => some .handoff
  | ["release"] => some .release
  | ["ret", w, r] => do pure (.ret (← w.toNat?) (← parseRes r))
  | ["end"] => some .fin
  | _ => none

/-- `wp …` handler: the state is kept on `illegal`, so that the harness can report and go on -/
def handleWp (v : WpState) (args : List String) : Option (WpState × String) :=
  match parseEv args with
  | none => none
  | some e =>
    match legalStep v e with
    | .ok v' => some (v', "ok")
    | .error why => some (v, "illegal " ++ why)

end GoLevel.Driver.Wp

namespace GoLevel.Driver
export Wp (WpState initWp handleWp)
end GoLevel.Driver
