import GoLevel.Model.WriteProto
/-! Trace validator for the write-merge protocol (C10).  `wp <event>` lines, one per recorded hook event,
answer `ok` or `illegal <reason>`.

```
wp reset                        forget everything
wp call <w> <0|1> [<sync> <nrec> <put|write>]
                                harness: writer <w> (fresh decimal id) entered Put/Delete/Write, merge flag; and
                                (wp34) its effective Sync flag (`wo.Sync && !o.NoSync`), `batch.Len()`, the kind of call
wp lock <w>                     "w.lock"     <w> sent on writeLockC (logged after the send)
wp leader <w>                   "w.leader"   <w> is about to run writeLocked (after lock, or after handoff)
wp flushed <0|1>                "w.flushed"  1 = db.flush failed
wp accept <w2>                  "w.accept"   leader merged <w2> (logged before the reply on writeMergedC)
wp overflow <w2>                "w.overflow" <w2> did not fit
wp group <seq> <n> <nbatches> [<0|1>]
                                "w.group"    seq = db.seq+1, n records in nbatches batches, the `sync` local:
                                when every call carried its data, n / nbatches / sync must be the model's
                                `gn` / `batches.length` / `gsync` after the replay of the merge loop
wp applied                      "w.applied"  journal written, memdb updated
wp publish <seq>                "w.publish"  db.seq after addSeq(n): must be group seq + n - 1
wp ack                          "w.ack"      one per merged writer (logged after the send on writeAckC)
wp handoff                      "w.handoff"  logged before `writeMergedC <- false`
wp release                      "w.release"  logged before `<-writeLockC`
wp ret <w> <ok|err|closed>      harness: the call of <w> returned
wp end                          everything called has returned, no leader active
```

The validator keeps a small phase machine for the current leader (fed by the hook events, which are in the
leader's program order) and a list of *candidate* model states `ms : List WP.St`.  Every event is turned into
lists of model labels (`WP.Label`) that are run on each candidate with `WP.run`; candidates on which the run
fails are dropped; the event is illegal when the phase machine rejects it or no candidate is left.  Hence
(`Proofs/WriteProtoDriver.lean`) every candidate after an event is reached from a candidate before it by
steps of the model: a trace the validator accepts is a run of the transition system of `Model/WriteProto`.

Where the model is ahead of / behind the log:
* the merge loop is replayed at `group` (`flushOk mdbFree`, `recvAccept`/`reply` per `accept`, `recvOverflow`
  or `mergeDone`), because only then the number of merged writers — hence a suitable `mdbFree` — is known
  (mirror writers have size 2; `mdbFree = 2 + 2·accepted + 1` makes the merge limit `2·accepted + 1`);
* the outcome of the optional `rotateMem` after `publish` is not logged, and whether it runs
  (`batch.internalLen >= mdbFree`) is decided by `mdbFree`: at `group` the candidates fork into `mdbFree` as
  above (no rotation, result nil) and — only when nobody overflowed and either nobody was merged or a `Put`
  leader merged `Put`s only, the one way `batch` can grow to `mdbFree` — `mdbFree = 2 + 2·accepted`
  (rotation, which fails: result err); the first `ret` of a member of the group selects;
* `db.batchPool.Get()` always takes the oldest pooled batch (`some 0`): the contents of a pooled batch do not
  matter in the configuration the validator runs (`{}`: it is reset);
* `w.ack` is logged after the rendezvous, so the merged writer's `ret` may come first: the model `ack` step
  of a writer is fired by its `ret` (allowed once the journal outcome is known), and `handoff`/`release`
  fire the remaining ones; `ack` lines are counted and must add up to the number of accepted writers;
* `closed`/`perErr` have no event: thread 0 of every candidate is a `closer`, thread 1 a `perErrH`; an early
  `ret <w> closed` / `ret <w> err` of a writer still selecting makes them start.
-/
namespace GoLevel.Driver.Wp
open GoLevel GoLevel.WP

/-- phase of the current leader as far as the hook events tell -/
inductive VPhase
  | free                                     -- no leader between `lock` and `release`
  | needLeader                               -- token acquired (lock / handoff), `leader` not yet seen
  | needFlushed
  | merging                                  -- in the merge loop; accepted/overflowed writers in `accs`/`ovf`
  | grouped (seq n : Nat)                    -- journal outcome unknown
  | applied (seq n : Nat)
  | unlocking                                -- `unlockWrite` entered (or about to be)
deriving DecidableEq, Repr

structure WpState where
  ms : List St := []
  /-- harness id of thread `k + 2` -/
  ids : List Nat := []
  /-- indices whose `ret` was seen -/
  retd : List Nat := []
  phase : VPhase := .free
  lead : Nat := 0
  /-- writers accepted / overflowed by the current leader (thread indices) -/
  accs : List Nat := []
  ovf : Option Nat := none
  /-- `ack` lines seen for the current leader -/
  issued : Nat := 0
  lastPub : Nat := 0
  /-- every `call` so far carried its data (sync, record count, kind) -/
  exact : Bool := true
deriving Repr

inductive Ev
  | reset | call (w : Nat) (merge : Bool) (d : Option (Bool × Nat × Bool)) | lock (w : Nat) | leader (w : Nat)
  | flushed (err : Bool)
  | accept (w : Nat) | overflow (w : Nat) | group (seq n nb : Nat) (sync : Option Bool) | applied
  | publish (seq : Nat)
  | ack | handoff | release | ret (w : Nat) (r : Res) | fin
deriving DecidableEq, Repr

def closerIdx : Nat := 0
def perErrIdx : Nat := 1

def initSt : St := { ws := [{ kind := .closer }, { kind := .perErrH }] }

def initWp : WpState := { ms := [initSt] }

/-- index of harness id `w` -/
def idxOf (v : WpState) (w : Nat) : Option Nat :=
  match v.ids.idxOf? w with
  | some k => some (k + 2)
  | none => none

/-- the mirror of a writer call: size 2 whatever the real size (the merge decisions are taken from the log),
`nrec` records all named after the call -/
def mirror (w : Nat) (merge : Bool) (d : Option (Bool × Nat × Bool)) : Thread :=
  let (sync, nrec, put) := d.getD (false, 1, true)
  { kind := .writer, merge := merge, size := 2, put := put, sync := sync,
    recs := List.replicate nrec w, cb := List.replicate nrec w }

/-- append an idle writer thread (the slot the `call` step then uses) -/
def addIdle (m : St) (w : Nat) (merge : Bool) (d : Option (Bool × Nat × Bool)) : St :=
  { m with ws := m.ws ++ [mirror w merge d] }

/-- harness result against model result: `err` covers a storage error and the persistent error -/
def resMatch (h r : Res) : Bool :=
  match h, r with
  | .ok, .ok => true
  | .err, .err => true
  | .err, .perErr => true
  | .closed, .closed => true
  | _, _ => false

def pcOf (m : St) (i : Nat) : Option Pc := (m.ws[i]?).map (·.pc)

/-- the `ack` steps for every writer still waiting for one -/
def waIdx : List Thread → Nat → List Nat
  | [], _ => []
  | t :: ts, k => if t.pc == .waitAck then k :: waIdx ts (k + 1) else waIdx ts (k + 1)

def ackAll (m : St) (j : Nat) : List Label := (waIdx m.ws 0).map (fun i => Label.ack i j)

/-- replay of the merge loop with `mdbFree = free` -/
def mergeLabels (j : Nat) (free : Nat) (accs : List Nat) (ovf : Option Nat) : List Label :=
  [Label.flushOk j free] ++ accs.flatMap (fun i => [Label.recvAccept i j (some 0), Label.reply i j]) ++
  (match ovf with
   | some i => [Label.recvOverflow i j]
   | none => [Label.mergeDone j])

def isPut (m : St) (i : Nat) : Bool := match m.ws[i]? with | some w => w.put | none => false

/-- the two values of `mdbFree` that explain a log: room for one more unit than was merged (no rotation),
or — if that is possible at all — exactly the room that was used (`batch.internalLen >= mdbFree`: rotation) -/
def groupAlts (j : Nat) (accs : List Nat) (ovf : Option Nat) (m : St) : List (List Label) :=
  [mergeLabels j (2 * accs.length + 3) accs ovf] ++
  (if ovf.isNone && (accs.isEmpty || (isPut m j && accs.all (isPut m))) then
     [mergeLabels j (2 * accs.length + 2) accs ovf]
   else [])

/-- what the `w.group` hook reported against the model's leader record -/
def recOk (j n : Nat) (m : St) : Bool := match m.ws[j]? with | some l => l.gn == n | none => false
def nbOk (j nb : Nat) (m : St) : Bool := match m.ws[j]? with | some l => l.batches.length == nb | none => false
def syncOk (j : Nat) (sy : Option Bool) (m : St) : Bool :=
  match sy, m.ws[j]? with
  | none, _ => true
  | some b, some l => l.gsync == b
  | _, none => false

/-- run alternatives on every candidate, keep the successful ones that pass `post` -/
def advance (ms : List St) (alts : St → List (List Label)) (post : St → Bool) : List St :=
  ms.flatMap (fun m => ((alts m).filterMap (run m)).filter post)

def one (ls : List Label) : St → List (List Label) := fun _ => [ls]

/-- labels for a `ret` of thread `i` on candidate `m` -/
def retLabels (v : WpState) (i : Nat) (r : Res) (m : St) : List (List Label) :=
  match pcOf m i with
  | some (.returned _) => [[]]
  | some .waitAck =>
    match v.phase with
    | .unlocking => [[Label.ack i v.lead]]
    | .grouped _ _ => [[Label.journalFail v.lead, Label.ack i v.lead]]
    | _ => []
  | some .selecting =>
    match r with
    | .closed => [(if m.closed then [] else [Label.call closerIdx]) ++ [Label.retClosed i]]
    | .err => [(if m.perErr then [] else [Label.call perErrIdx]) ++ [Label.retPerErr i]]
    | _ => []
  | _ => []

def retPost (i : Nat) (r : Res) (m : St) : Bool :=
  match pcOf m i with
  | some (.returned r') => resMatch r r'
  | _ => false

/-- is thread `i` a writer still selecting (in every candidate), not already taken by the current leader -/
def mergeable (v : WpState) (i : Nat) : Bool :=
  v.ms.all (fun m => match m.ws[i]? with
    | some w => w.pc == .selecting && w.merge && w.kind == .writer
    | none => false) && !v.accs.contains i && v.ovf != some i

def leaderMerges (v : WpState) : Bool :=
  v.ms.all (fun m => match m.ws[v.lead]? with | some l => l.merge | none => false)

def finish (v : WpState) (ms : List St) (why : String) : Except String WpState :=
  if ms.isEmpty then .error why else .ok { v with ms := ms }

/-- the validator -/
def legalStep (v : WpState) : Ev → Except String WpState
  | .reset => .ok initWp
  | .call w mg d =>
    if v.ids.contains w then .error "call: id already used" else
    let i := v.ids.length + 2
    finish { v with ids := v.ids ++ [w], exact := v.exact && d.isSome }
      (advance (v.ms.map (addIdle · w mg d)) (one [Label.call i]) (fun _ => true))
      "call: internal"
  | .lock w =>
    match idxOf v w with
    | none => .error "lock: unknown writer"
    | some i =>
      if v.phase ≠ .free then .error "lock: the write lock is held by a leader" else
      finish { v with phase := .needLeader, lead := i, accs := [], ovf := none, issued := 0 }
        (advance v.ms (one [Label.lock i (some 0)]) (fun _ => true)) "lock: writer is not waiting for the lock"
  | .leader w =>
    match idxOf v w with
    | none => .error "leader: unknown writer"
    | some i =>
      if v.phase ≠ .needLeader then .error "leader: no lock acquisition or hand-off precedes" else
      if v.lead ≠ i then .error "leader: this writer does not hold the lock" else
      finish { v with phase := .needFlushed }
        (v.ms.filter (fun m => m.cur == some i && pcOf m i == some (.lead .flush 0 false)))
        "leader: this writer does not hold the lock"
  | .flushed err =>
    if v.phase ≠ .needFlushed then .error "flushed: no leader at this point" else
    if err then
      finish { v with phase := .unlocking } (advance v.ms (one [Label.flushFail v.lead]) (fun _ => true))
        "flushed: internal"
    else .ok { v with phase := .merging }
  | .accept w =>
    match idxOf v w with
    | none => .error "accept: unknown writer"
    | some i =>
      if v.phase ≠ .merging ∨ v.ovf ≠ none then .error "accept: leader is not in its merge loop" else
      if !leaderMerges v then .error "accept: leader has merge disabled" else
      if !mergeable v i then .error "accept: writer is not a merge candidate" else
      .ok { v with accs := v.accs ++ [i] }
  | .overflow w =>
    match idxOf v w with
    | none => .error "overflow: unknown writer"
    | some i =>
      if v.phase ≠ .merging ∨ v.ovf ≠ none then .error "overflow: leader is not in its merge loop" else
      if !leaderMerges v then .error "overflow: leader has merge disabled" else
      if !mergeable v i then .error "overflow: writer is not a merge candidate" else
      .ok { v with ovf := some i }
  | .group seq n nb sy =>
    if v.phase ≠ .merging then .error "group: leader is not in its merge loop" else
    if seq ≤ v.lastPub then .error "group: sequence number not above the last published one" else
    if nb = 0 ∨ v.accs.length + 1 < nb then .error "group: batch count" else
    if n < v.accs.length + 1 ∨ n < nb then .error "group: record count" else
    let alts := groupAlts v.lead v.accs v.ovf
    let all := advance v.ms alts (fun _ => true)
    let ex := v.exact
    let why :=
      if all.isEmpty then "group: internal"
      else if ex && (all.filter (recOk v.lead n)).isEmpty then
        "group: record count is not the sum of the leader's and the merged writers' records"
      else if ex && (all.filter (nbOk v.lead nb)).isEmpty then
        "group: batch count is not 1 + merged batches + the pooled batch"
      else "group: sync flag is not the leader's or a merged writer's Sync"
    finish { v with phase := .grouped seq n }
      (advance v.ms alts (fun m => (!ex || (recOk v.lead n m && nbOk v.lead nb m)) && syncOk v.lead sy m)) why
  | .applied =>
    match v.phase with
    | .grouped seq n =>
      finish { v with phase := .applied seq n }
        (advance v.ms (one [Label.journalOk v.lead, Label.apply v.lead]) (fun _ => true))
        "applied: journal outcome already known to be a failure"
    | _ => .error "applied: no group is being written"
  | .publish q =>
    match v.phase with
    | .applied seq n =>
      if q ≠ seq + n - 1 then .error "publish: sequence number is not group seq + n - 1" else
      finish { v with phase := .unlocking, lastPub := q }
        (advance v.ms (fun _ => [[Label.publish v.lead false],
                                 [Label.publish v.lead true, Label.rotateFail v.lead]]) (fun _ => true))
        "publish: internal"  -- `publish j rot` is enabled for the one `rot` the candidate's `mdbFree` implies
    | _ => .error "publish: nothing applied"
  | .ack =>
    if v.accs.length ≤ v.issued then .error "ack: more acks than merged writers" else
    match v.phase with
    | .unlocking => .ok { v with issued := v.issued + 1 }
    | .grouped _ _ =>
      finish { v with phase := .unlocking, issued := v.issued + 1 }
        (advance v.ms (one [Label.journalFail v.lead]) (fun _ => true)) "ack: internal"
    | _ => .error "ack: journal outcome not yet known"
  | .handoff =>
    if v.issued ≠ v.accs.length then .error "handoff: not every merged writer was acked" else
    match v.ovf with
    | none => .error "handoff: no writer overflowed"
    | some i =>
      let pre : Option (List Label) := match v.phase with
        | .unlocking => some []
        | .grouped _ _ => some [Label.journalFail v.lead]
        | _ => none
      match pre with
      | none => .error "handoff: leader is not finishing"
      | some pre =>
        -- the journal-failure prefix changes no program counter but the leader's, so `ackAll m` is unaffected
        finish { v with phase := .needLeader, lead := i, accs := [], ovf := none, issued := 0 }
          (advance v.ms (fun m => [pre ++ ackAll m v.lead ++ [Label.handoff i v.lead (some 0)]]) (fun _ => true))
          "handoff: internal"
  | .release =>
    if v.issued ≠ v.accs.length then .error "release: not every merged writer was acked" else
    if v.ovf ≠ none then .error "release: an overflowed writer is waiting for the lock" else
    let pre : Option (List Label) := match v.phase with
      | .unlocking => some []
      | .grouped _ _ => some [Label.journalFail v.lead]
      | _ => none
    match pre with
    | none => .error "release: leader is not finishing"
    | some pre =>
      finish { v with phase := .free, accs := [], ovf := none, issued := 0 }
        (advance v.ms (fun m => [pre ++ ackAll m v.lead ++ [Label.release v.lead]]) (fun _ => true))
        "release: internal"
  | .ret w r =>
    match idxOf v w with
    | none => .error "ret: unknown writer"
    | some i =>
      if v.retd.contains i then .error "ret: writer answered twice" else
      if v.accs.contains i && (match v.phase with | .merging => true | .applied _ _ => true | _ => false) then
        .error "ret: merged writer returned before the journal outcome" else
      if v.ovf = some i then .error "ret: overflowed writer returned before it led" else
      let phase' := match v.phase, v.ms.head? with
        | .grouped s n, some m => if pcOf m i == some .waitAck then .unlocking else .grouped s n
        | p, _ => p
      finish { v with retd := i :: v.retd, phase := phase' } (advance v.ms (retLabels v i r) (retPost i r))
        "ret: no result of this kind is due to this writer"
  | .fin =>
    if v.phase ≠ .free then .error "end: a leader is still active" else
    if v.retd.length ≠ v.ids.length then .error "end: a writer has not returned" else
    if v.ms.all (fun m => m.token) then .error "end: write lock still held" else
    .ok v

/-! ## line protocol -/

def parseRes : String → Option Res
  | "ok" => some .ok | "err" => some .err | "closed" => some .closed | _ => none

def parseBool : String → Option Bool
  | "0" => some false | "1" => some true | _ => none

/-- `put`: `DB.Put`/`DB.Delete`; `write`: `DB.Write(batch)` -/
def parseKind : String → Option Bool
  | "put" => some true | "write" => some false | _ => none

def parseEv : List String → Option Ev
  | ["reset"] => some .reset
  | ["call", w, m] => do pure (.call (← w.toNat?) (← parseBool m) none)
  | ["call", w, m, sy, n, k] => do
    pure (.call (← w.toNat?) (← parseBool m) (some (← parseBool sy, ← n.toNat?, ← parseKind k)))
  | ["lock", w] => do pure (.lock (← w.toNat?))
  | ["leader", w] => do pure (.leader (← w.toNat?))
  | ["flushed", e] => do pure (.flushed (← parseBool e))
  | ["accept", w] => do pure (.accept (← w.toNat?))
  | ["overflow", w] => do pure (.overflow (← w.toNat?))
  | ["group", s, n, nb] => do pure (.group (← s.toNat?) (← n.toNat?) (← nb.toNat?) none)
  | ["group", s, n, nb, sy] => do pure (.group (← s.toNat?) (← n.toNat?) (← nb.toNat?) (some (← parseBool sy)))
  | ["applied"] => some .applied
  | ["publish", s] => do pure (.publish (← s.toNat?))
  | ["ack"] => some .ack
  | ["handoff"] => some .handoff
  | ["release"] => some .release
  | ["ret", w, r] => do pure (.ret (← w.toNat?) (← parseRes r))
  | ["end"] => some .fin
  | _ => none

/-- `wp …` handler: the state is kept on `illegal`, so that the harness can report and go on -/
def handleWp (v : WpState) (args : List String) : Option (WpState × String) :=
  match parseEv args with
  | none => none
  | some e =>
    match legalStep v e with
    | .ok v' => some (v', "ok")
    | .error why => some (v, "illegal " ++ why)

end GoLevel.Driver.Wp

namespace GoLevel.Driver
export Wp (WpState initWp handleWp)
end GoLevel.Driver
