import GoLevel.Model.Table
import GoLevel.Model.BlockIter
import GoLevel.Model.FilterSelect
import GoLevel.Driver.Key
/-!
Line-protocol handler for tables (`tbl …`).  The model takes checksum and filter policy as parameters;
here they are instantiated with a table-driven CRC32C (masked with `Gen.crcMask`) and an executable copy of
the builtin bloom filter (driver code, not part of the proved model).

```
tbl write <blockSize> <restartInterval> <filter> <baseLg> <cmp> <k1> <v1> <k2> <v2> …   → <file hex>
tbl read  <filter> <cmp> <verify:0|1> <file hex> <op> …                                 → <res> …
     ops  f:<key> F:<key>   Find unfiltered / filtered      → ok:<k>:<v> | nf | corrupt
          k:<key> K:<key>   FindKey                         → ok:<k> | nf | corrupt
          g:<key>           Get                             → ok:<v> | nf | corrupt
          o:<key>           OffsetOf                        → ok:<n> | corrupt
          it                full forward iteration          → it:<k>=<v>,… | corrupt
          r:<start>:<limit> iteration of a range (`nil` = open end)
          e                 class of the reader's permanent error   → e:ok | e:footer | e:block
                            (`e:footer`: file too small, bad magic, undecodable or out-of-file handle — the kinds
                            "table" / "table-footer" of `table.ErrCorrupted`; `e:block`: "index-block" / "meta-block")
     (every other answer is `corrupt` when the model's `Table.openE` fails, as `r.err` answers every call)
tbl handles <filter> <cmp> <file hex>      → d:<off>:<len> … [f:<off>:<len>] m:<off>:<len> i:<off>:<len>
tbl raw <verify:0|1> <file hex> <offset> <length>                                       → ok:<payload hex> | corrupt
tbl block <restartInterval> <k1> <v1> …                                                 → <block hex>
tbl snappy <hex>                          → ok:<decoded hex> | corrupt     (`snappy.Decode`, block format)
tbl crc <hex>                                                                           → <masked crc32c>
tbl biter <cmp> <restartInterval> <block hex> [s:<start|nil>:<limit|nil>:<inclLimit 0|1>] <move> …  → <res> …
     the byte-level `blockIter` (`Model/BlockIter.lean`) over the block contents (as `readBlock` sees them); the
     optional slice is the `util.Range` / `inclLimit` handed to `newBlockIter`; `<restartInterval>` is
     informational (the reader takes the restart points from the block)
     moves F L N P S:<key>                 → <returned 0|1>:<key>=<value> | <0|1>:.  (`.` = not Valid), then
                                              `!corrupt` / `!released` / `!slice` while `Error()` is set
     (every answer is `0:.!corrupt` when the block is too short to carry its restart count)
```
`<filter>` is `none` or `bloom<bitsPerKey>`.
-/
namespace GoLevel.Driver
open GoLevel

/-! ## CRC32C (Castagnoli, reflected), as `hash/crc32` computes it -/

def crcPoly : UInt32 := 0x82F63B78

def crcEntry (i : Nat) : UInt32 := Id.run do
  let mut c : UInt32 := i.toUInt32
  for _ in [0:8] do
    c := if c &&& 1 == 1 then (c >>> 1) ^^^ crcPoly else c >>> 1
  return c

def crcTable : Array UInt32 := Array.ofFn (n := 256) (fun i => crcEntry i.val)

def crcStep (s : UInt32) (b : UInt8) : UInt32 :=
  crcTable[((s ^^^ b.toUInt32).toUInt8).toNat]! ^^^ (s >>> 8)

def crc32c (bs : Bytes) : UInt32 := (bs.foldl crcStep 0xFFFFFFFF) ^^^ 0xFFFFFFFF

/-- `util.NewCRC(bs).Value()` -/
def maskedCrc (bs : Bytes) : Nat := (Gen.crcMask (crc32c bs)).toNat

/-! ## the builtin bloom filter (`filter/bloom.go`, `util/hash.go`) -/

def hashLoop (m : UInt32) : Bytes → UInt32 → UInt32
  | a :: b :: c :: d :: rest, h =>
    let w : UInt32 := a.toUInt32 ||| (b.toUInt32 <<< 8) ||| (c.toUInt32 <<< 16) ||| (d.toUInt32 <<< 24)
    let h := (h + w) * m
    hashLoop m rest (h ^^^ (h >>> 16))
  | [a, b, c], h =>
    let h := h + (c.toUInt32 <<< 16) + (b.toUInt32 <<< 8) + a.toUInt32
    let h := h * m
    h ^^^ (h >>> Gen.hashR.toUInt32)
  | [a, b], h =>
    let h := h + (b.toUInt32 <<< 8) + a.toUInt32
    let h := h * m
    h ^^^ (h >>> Gen.hashR.toUInt32)
  | [a], h =>
    let h := (h + a.toUInt32) * m
    h ^^^ (h >>> Gen.hashR.toUInt32)
  | [], h => h

/-- `util.Hash` -/
def goHash (data : Bytes) (seed : UInt32) : UInt32 :=
  let m : UInt32 := Gen.hashM.toUInt32
  hashLoop m data (seed ^^^ (data.length.toUInt32 * m))

def bloomHash (key : Bytes) : UInt32 := goHash key Gen.bloomSeed.toUInt32

def bloomGenerate (bitsPerKey : Nat) (keys : List Bytes) : Bytes := Id.run do
  let kraw := Gen.bloomKRaw bitsPerKey % 256
  let k := if kraw < 1 then 1 else if kraw > 30 then 30 else kraw
  let nBits0 := (keys.length * bitsPerKey) % 4294967296
  let nBits1 := if nBits0 < 64 then 64 else nBits0
  let nBytes := (nBits1 + 7) / 8
  let nBits := (nBytes * 8).toUInt32
  let mut dest : Array UInt8 := Array.replicate (nBytes + 1) 0
  dest := dest.set! nBytes k.toUInt8
  for key in keys do
    let mut kh := bloomHash key
    let delta := Gen.bloomDeltaGenerate kh
    for _ in [0:k] do
      let bitpos := (kh % nBits).toNat
      dest := dest.set! (bitpos / 8) (dest[bitpos / 8]! ||| ((1 : UInt8) <<< (bitpos % 8).toUInt8))
      kh := kh + delta
  return dest.toList

def bloomContains (filter key : Bytes) : Bool := Id.run do
  let arr := filter.toArray
  if arr.size < 2 then return false
  let nBytes := arr.size - 1
  let nBits := (nBytes * 8).toUInt32
  let k := arr[nBytes]!.toNat
  if k > 30 then return true
  let mut kh := bloomHash key
  let delta := Gen.bloomDeltaContains kh
  for _ in [0:k] do
    let bitpos := (kh % nBits).toNat
    if arr[bitpos / 8]! &&& ((1 : UInt8) <<< (bitpos % 8).toUInt8) == 0 then return false
    kh := kh + delta
  return true

def bloomPolicy (bitsPerKey : Nat) : FilterPolicy where
  name := "leveldb.BuiltinBloomFilter".toUTF8.toList
  generate := bloomGenerate bitsPerKey
  contains := bloomContains

def filterById (s : String) : Option (Option FilterPolicy) :=
  if s = "none" then some none
  else if s.startsWith "bloom" then (s.drop 5).toNat?.map fun b => some (bloomPolicy b)
  else none

def mkCfg (bs ri : Nat) (f : Option FilterPolicy) (lg : Nat) (c : UCmp) : TableCfg :=
  ⟨bs, ri, f, lg, c.cmp, c.sep, c.succ, maskedCrc⟩

def parseKVs : List String → Option (List KV)
  | [] => some []
  | [_] => none
  | k :: v :: rest => do
    let k ← fromHex k; let v ← fromHex v; let r ← parseKVs rest
    pure ((k, v) :: r)

def keyArg (s : String) : Option Bytes := fromHex s

def optKeyArg (s : String) : Option (Option Bytes) :=
  if s = "nil" then some none else (fromHex s).map some

def showKVs (kvs : List KV) : String :=
  ",".intercalate (kvs.map fun kv => toHexField kv.1 ++ "=" ++ toHexField kv.2)

def runOp (t : TableR) (op : String) : Option String :=
  match op.splitOn ":" with
  | ["f", k] | ["F", k] => do
    let k ← keyArg k
    match t.find k (op.startsWith "F") with
    | .ok kv => pure s!"ok:{toHexField kv.1}:{toHexField kv.2}"
    | .notFound => pure "nf"
    | .corrupt => pure "corrupt"
  | ["k", k] | ["K", k] => do
    let k ← keyArg k
    match t.findKey k (op.startsWith "K") with
    | .ok r => pure s!"ok:{toHexField r}"
    | .notFound => pure "nf"
    | .corrupt => pure "corrupt"
  | ["g", k] => do
    let k ← keyArg k
    match t.get k with
    | .ok r => pure s!"ok:{toHexField r}"
    | .notFound => pure "nf"
    | .corrupt => pure "corrupt"
  | ["o", k] => do
    let k ← keyArg k
    match t.offsetOf k with
    | .ok r => pure s!"ok:{r}"
    | .notFound => pure "nf"
    | .corrupt => pure "corrupt"
  | ["e"] => pure "e:ok"
  | ["it"] =>
    match t.entries with
    | some kvs => pure s!"it:{showKVs kvs}"
    | none => pure "corrupt"
  | ["r", s, l] => do
    let s ← optKeyArg s; let l ← optKeyArg l
    match t.entriesInRange s l with
    | some kvs => pure s!"it:{showKVs kvs}"
    | none => pure "corrupt"
  | _ => none

/-! ## `tbl biter`: walks of the byte-level block iterator -/

def biterMove (s : String) : Option (Call Bytes) :=
  match s.splitOn ":" with
  | ["F"] => some .first
  | ["L"] => some .last
  | ["N"] => some .next
  | ["P"] => some .prev
  | ["S", k] => (fromHex k).map .seek
  | _ => none

def biterSlice (s : String) : Option (BRange × Bool) :=
  match s.splitOn ":" with
  | ["s", a, l, incl] => do
    let a ← optKeyArg a; let l ← optKeyArg l; let incl ← parseNat? incl
    pure (⟨a, l⟩, incl != 0)
  | _ => none

def showBiter (ok : Bool) (i : BIter) : String :=
  let c := match i.cur with
    | some (k, v) => toHexField k ++ "=" ++ toHexField v
    | none => "."
  let e := match i.err with
    | none => ""
    | some .corrupted => "!corrupt"
    | some .released => "!released"
    | some .badSlice => "!slice"
  (if ok then "1:" else "0:") ++ c ++ e

def biterWalk (cmp : Bytes → Bytes → Ordering) (b : BlockR) : BIter → List (Call Bytes) → List String
  | _, [] => []
  | i, cl :: cs => let r := BIter.step cmp b cl i; showBiter r.1 r.2 :: biterWalk cmp b r.2 cs

def handleBiter (c : UCmp) (blk : Bytes) (rest : List String) : Option String := do
  let (slice, moves) ← match rest with
    | t :: ms => if t.startsWith "s:" then (biterSlice t).map fun x => (some x, ms) else some (none, rest)
    | [] => some (none, [])
  let calls ← moves.mapM biterMove
  match Block.read blk with
  | none => pure (" ".intercalate (calls.map fun _ => "0:.!corrupt"))
  | some b =>
    let it := match slice with
      | none => newBlockIter c.cmp b none false
      | some (r, incl) => newBlockIter c.cmp b (some r) incl
    pure (" ".intercalate (biterWalk c.cmp b it calls))

def handleTbl : List String → Option String
  | "biter" :: c :: ri :: blk :: rest => do
    let c ← cmpById c; let _ ← parseNat? ri; let blk ← fromHex blk
    handleBiter c blk rest
  | "write" :: bs :: ri :: f :: lg :: c :: kvs => do
    let bs ← parseNat? bs; let ri ← parseNat? ri; let f ← filterById f; let lg ← parseNat? lg
    let c ← cmpById c; let kvs ← parseKVs kvs
    pure (toHexField (Table.write (mkCfg bs ri f lg c) kvs))
  | "read" :: f :: c :: v :: file :: ops => do
    let f ← filterById f; let c ← cmpById c; let v ← parseNat? v; let file ← fromHex file
    match Table.openE (mkCfg 0 1 f 0 c) (v != 0) file with
    | .error e =>                                                    -- `r.err` answers every call
      let cls := match e with
        | .footer => "e:footer"
        | .metaBlock => "e:block"
        | .indexBlock => "e:block"
        | .panics => "e:panic"
      pure (" ".intercalate (ops.map fun op => if op = "e" then cls else "corrupt"))
    | .ok t =>
      let rs ← ops.mapM (runOp t)
      pure (" ".intercalate rs)
  | "select" :: fn :: main :: alts =>
    -- `tbl select <recorded name> <Options.Filter name | -> <AltFilters names…>`: names as plain words
    let mainN : Option Bytes := if main == "-" then none else some main.toUTF8.toList
    match FilterSelect.selectName mainN (alts.map (·.toUTF8.toList)) fn.toUTF8.toList with
    | some _ => pure fn
    | none => pure "none"
  | ["handles", f, c, file] => do
    let f ← filterById f; let c ← cmpById c; let file ← fromHex file
    match Table.open (mkCfg 0 1 f 0 c) true file with
    | none => pure "openerr"
    | some t =>
      match t.index.entries with
      | none => pure "corrupt"
      | some ix =>
        let ds := ix.map fun e => match BH.decode e.2 with
          | some (bh, _) => s!"d:{bh.offset}:{bh.length}"
          | none => "d:bad"
        let fs := if t.filter.isSome then [s!"f:{t.filterBH.offset}:{t.filterBH.length}"] else []
        pure (" ".intercalate (ds ++ fs ++ [s!"m:{t.metaBH.offset}:{t.metaBH.length}", s!"i:{t.indexBH.offset}:{t.indexBH.length}"]))
  | ["raw", v, file, off, len] => do
    let v ← parseNat? v; let file ← fromHex file; let off ← parseNat? off; let len ← parseNat? len
    match readRawBlock maskedCrc file ⟨off, len⟩ (v != 0) with
    | some p => pure s!"ok:{toHexField p}"
    | none => pure "corrupt"
  | "block" :: ri :: kvs => do
    let ri ← parseNat? ri; let kvs ← parseKVs kvs
    pure (toHexField (Block.build ri kvs))
  | ["snappy", b] => do
    let b ← fromHex b
    match Snappy.decode b with
    | some d => pure s!"ok:{toHexField d}"
    | none => pure "corrupt"
  | ["crc", b] => do
    let b ← fromHex b
    pure (toString (maskedCrc b))
  | _ => none

end GoLevel.Driver
