import GoLevel.Model.RefLoop
/-! Line-protocol handler for the reference loop (C07).  Stateful.

```
ref reset                                   ⇒ ok          (a new session: fresh loop)
ref r <vid> <file>*                         ⇒ removed     (f.ref)
ref d <vid> <nadded> <added>* <deleted>*    ⇒ removed     (f.delta)
ref l <vid> <file>*                         ⇒ removed     (f.rel)
ref a <id>                                  ⇒ removed     (f.abandon)
ref x <vid>                                 ⇒ removed     (the task of vid is older than maxCachedTime)
ref q                                       ⇒ <file>:<count>,… ascending, `-` when empty   (VerifFileRefs)
```
`removed` = the table numbers passed to `tOps.remove` while handling the message and in the `processTasks()`
that follows, in order, blank separated, `-` when none; `panic` when the loop would panic. -/
namespace GoLevel.Driver
open GoLevel GoLevel.RefLoop

structure RefSt where
  s : State := State.init
  dead : Bool := false

def showRemoved (l : List Nat) : String :=
  if l.isEmpty then "-" else " ".intercalate (l.map toString)

def natsOf (l : List String) : Option (List Nat) := l.mapM (·.toNat?)

def refMsg (st : RefSt) (m : Msg) : RefSt × String :=
  if st.dead then (st, "panic") else
  match step st.s m with
  | some (s', rm) => ({ st with s := s' }, showRemoved rm)
  | none => ({ st with dead := true }, "panic")

def dedupSorted : List Nat → List Nat
  | a :: b :: rest => if a = b then dedupSorted (b :: rest) else a :: dedupSorted (b :: rest)
  | l => l

def handleRef (st : RefSt) : List String → Option (RefSt × String)
  | ["reset"] => some ({}, "ok")
  | "r" :: vid :: fs => do
    let vid ← vid.toNat?; let fs ← natsOf fs
    pure (refMsg st (.ref vid fs))
  | "d" :: vid :: na :: rest => do
    let vid ← vid.toNat?; let na ← na.toNat?; let xs ← natsOf rest
    if na > xs.length then none
    else pure (refMsg st (.delta vid ⟨xs.take na, xs.drop na⟩))
  | "l" :: vid :: fs => do
    let vid ← vid.toNat?; let fs ← natsOf fs
    pure (refMsg st (.rel vid fs))
  | ["a", id] => do
    let id ← id.toNat?
    pure (refMsg st (.abandon id))
  | ["x", vid] => do
    let vid ← vid.toNat?
    pure (refMsg st (.expire vid))
  | ["q"] =>
    let sorted := st.s.fileRef.mergeSort (· ≤ ·)
    let keys := dedupSorted sorted
    if keys.isEmpty then some (st, "-")
    else some (st, ",".intercalate (keys.map fun f => s!"{f}:{st.s.fileRef.count f}"))
  | _ => none

end GoLevel.Driver
