import GoLevel.Model.RefLoop
import GoLevel.Model.Session
/-! Line-protocol handler for the reference loop (C07).  Stateful.

```
ref reset                                   ⇒ ok          (a new session: fresh loop)
ref r <vid> <file>*                         ⇒ removed     (f.ref)
ref d <vid> <nadded> <added>* <deleted>*    ⇒ removed     (f.delta)
ref l <vid> <file>*                         ⇒ removed     (f.rel)
ref a <id>                                  ⇒ removed     (f.abandon)
ref x <vid>                                 ⇒ removed     (the task of vid is older than maxCachedTime)
ref q                                       ⇒ <file>:<count>,… ascending, `-` when empty   (VerifFileRefs)
ref v <oldvid> <nOld> <old>* <nNew> <new>* <nAdded> <recAdded>* <recDeleted>*
                                            ⇒ <oldvid> <n> <added>* <deleted>* <class>     (v.install)
```
`ref v` is the PRODUCER check: `old`/`new` = the tables of the superseded and of the installed version,
`recAdded`/`recDeleted` = the table numbers of the record handed to `setVersion`; the answer is the delta the
producer model computes (`Session.mkDelta`: each added table once) and how it relates to the two versions:
`exact` (net-exact for the versions and for the loop's view), `viewexact` (exact only relative to the loop's
view, which was smaller than the superseded version: the first commit after a recovery), `under` (the view stays
smaller than the installed version: `session.recover`'s empty delta), `BAD` otherwise.  The harness prints the
delta the real `setVersion` sent and its own classification.
`removed` = the table numbers passed to `tOps.remove` while handling the message and in the `processTasks()`
that follows, in order, blank separated, `-` when none; `panic` when the loop would panic. -/
namespace GoLevel.Driver
open GoLevel GoLevel.RefLoop

structure RefSt where
  s : State := State.init
  dead : Bool := false
  /-- the loop's view of the current version according to the producer model (sum of the deltas) -/
  view : List Nat := []

/-- `NetExact old d new`, decided -/
def netExactB (old : List Nat) (d : Delta) (new : List Nat) : Bool :=
  decide d.added.Nodup && decide d.deleted.Nodup && d.deleted.all (fun r => decide (r ∈ old)) &&
  (old ++ new ++ d.added).all (fun f =>
    (if f ∈ new then 1 else 0) + (if f ∈ d.deleted then 1 else 0) ==
      (if f ∈ old then 1 else 0) + (if f ∈ d.added then 1 else 0))

/-- the view after a delta (a multiset): `none` when a deleted table is not in it -/
def applyView (view : List Nat) (d : Delta) : Option (List Nat) :=
  let v1 := view ++ d.added
  if d.deleted.all (fun r => decide (r ∈ v1)) then some (d.deleted.foldl (fun l r => l.erase r) v1) else none

def producerCheck (view old new recAdded recDeleted : List Nat) : Delta × Option (List Nat) × String :=
  let dummy (n : Nat) : Table := ⟨n, 0, [], ⟨[], 0⟩, ⟨[], 0⟩⟩
  let d := Session.mkDelta ⟨recDeleted.map (fun n => (0, n)), recAdded.map (fun n => (0, dummy n))⟩
  let v' := applyView view d
  let cls :=
    match v' with
    | none => "BAD"
    | some x =>
      let sameSet := x.all (fun f => decide (f ∈ new)) && new.all (fun f => decide (f ∈ x)) && decide x.Nodup
      if sameSet then (if netExactB old d new then "exact" else "viewexact")
      else if x.all (fun f => decide (f ∈ new)) && decide x.Nodup then "under" else "BAD"
  (d, v', cls)

def showRemoved (l : List Nat) : String :=
  if l.isEmpty then "-" else " ".intercalate (l.map toString)

def natsOf (l : List String) : Option (List Nat) := l.mapM (·.toNat?)

def refMsg (st : RefSt) (m : Msg) : RefSt × String :=
  if st.dead then (st, "panic") else
  match step st.s m with
  | some (s', rm) => ({ st with s := s' }, showRemoved rm)
  | none => ({ st with dead := true }, "panic")

def dedupSorted : List Nat → List Nat
  | a :: b :: rest => if a = b then dedupSorted (b :: rest) else a :: dedupSorted (b :: rest)
  | l => l

def handleRef (st : RefSt) : List String → Option (RefSt × String)
  | ["reset"] => some ({}, "ok")
  | "r" :: vid :: fs => do
    let vid ← vid.toNat?; let fs ← natsOf fs
    pure (refMsg st (.ref vid fs))
  | "d" :: vid :: na :: rest => do
    let vid ← vid.toNat?; let na ← na.toNat?; let xs ← natsOf rest
    if na > xs.length then none
    else pure (refMsg st (.delta vid ⟨xs.take na, xs.drop na⟩))
  | "l" :: vid :: fs => do
    let vid ← vid.toNat?; let fs ← natsOf fs
    pure (refMsg st (.rel vid fs))
  | ["a", id] => do
    let id ← id.toNat?
    pure (refMsg st (.abandon id))
  | ["x", vid] => do
    let vid ← vid.toNat?
    pure (refMsg st (.expire vid))
  | "v" :: oldvid :: rest => do
    let oldvid ← oldvid.toNat?; let xs ← natsOf rest
    let nOld ← xs[0]?
    let old := (xs.drop 1).take nOld
    let r1 := xs.drop (1 + nOld)
    let nNew ← r1[0]?
    let new := (r1.drop 1).take nNew
    let r2 := r1.drop (1 + nNew)
    let nAdd ← r2[0]?
    let recAdded := (r2.drop 1).take nAdd
    let recDeleted := r2.drop (1 + nAdd)
    if old.length != nOld || new.length != nNew || recAdded.length != nAdd then none
    else
      let (d, v', cls) := producerCheck st.view old new recAdded recDeleted
      let nums (l : List Nat) := " ".intercalate (l.map toString)
      let out := " ".intercalate (([toString oldvid, toString d.added.length, nums d.added, nums d.deleted, cls]).filter (· != ""))
      pure ({ st with view := v'.getD new }, out)
  | ["q"] =>
    let sorted := st.s.fileRef.mergeSort (· ≤ ·)
    let keys := dedupSorted sorted
    if keys.isEmpty then some (st, "-")
    else some (st, ",".intercalate (keys.map fun f => s!"{f}:{st.s.fileRef.count f}"))
  | _ => none

end GoLevel.Driver
