import GoLevel.Model.MemDB
import GoLevel.Model.MemArr
import GoLevel.Driver.Key
/-! Line-protocol handler for the in-memory table (C14).  Stateful: `mem new` installs a table, the
following lines act on it.

```
mem new <cmp>                          ⇒ ok        <cmp> = bytewise|reverse|lenfirst|… or i:<cmp> (internal keys over <cmp>)
mem put <key> <val> <h>                ⇒ ok        <h> = tower height drawn by randHeight (ignored on overwrite)
mem del <key>                          ⇒ ok | notfound
mem get <key>                          ⇒ <val> | notfound
mem find <key>                         ⇒ <key> <val> | notfound
mem has <key>                          ⇒ true | false
mem len | mem size | mem used          ⇒ <n>       Len(), Size(), len(kvData) = Capacity()-Free()
mem reset                              ⇒ ok
mem iter <id> new <start|nil> <limit|nil>      ⇒ ok
mem iter <id> first|last|next|prev|seek <key>  ⇒ true <key> <val> | false
mem iter <id> rel                              ⇒ ok
```

`mem arr <the same commands>` address the array-level model `GoLevel.MemArr` (`Model/MemArr.lean`, the transcription
of `memdb.go` over `kvData`/`nodeData`) instead of the ideal skip list; same answers, `panic` when the model
indexes out of range.  Array-only commands (what the ideal model cannot answer):

```
mem arr state             ⇒ n=<n> size=<kvSize> mh=<maxHeight> gen=<gen> kv=<len(kvData)>:<fnv> nodes=<len(nodeData)>:<fnv> prev=<fnv>
mem arr iter <id> node    ⇒ <node index of the iterator>
```
(`fnv` = FNV-1a/64 over the elements, each taken mod 2^64, 16 hex digits)
-/
namespace GoLevel.Driver
open GoLevel GoLevel.MemDB

structure MemState where
  cmp : Cmp := bytesCompare
  db : DB := {}
  gen : Nat := 0
  its : List (Nat × GIter) := []
  acmp : Cmp := bytesCompare
  arr : MemArr.DB := MemArr.DB.new
  aits : List (Nat × MemArr.Iter) := []

def memCmpById (s : String) : Option Cmp :=
  if s.startsWith "i:" then (cmpById (s.drop 2).toString).map fun c => icmpBytes c
  else (cmpById s).map (·.cmp)

def memOptHex (s : String) : Option (Option Bytes) :=
  if s = "nil" then some none else (fromHex s).map some

def memShowOut : Option (Bytes × Bytes) → String
  | some (k, v) => s!"true {toHexField k} {toHexField v}"
  | none => "false"

def memCall : List String → Option (Call Bytes)
  | ["first"] => some .first
  | ["last"] => some .last
  | ["next"] => some .next
  | ["prev"] => some .prev
  | ["seek", k] => (fromHex k).map .seek
  | _ => none

def fnvStep (h : UInt64) (x : Nat) : UInt64 := (h ^^^ UInt64.ofNat x) * 1099511628211

def fnvNats (xs : Array Nat) : UInt64 := xs.foldl fnvStep 14695981039346656037

def hex16 (x : UInt64) : String :=
  let s := String.ofList (Nat.toDigits 16 x.toNat)
  String.ofList (List.replicate (16 - s.length) '0') ++ s

def memArrState (p : MemArr.DB) : String :=
  s!"n={p.n} size={p.kvSize} mh={p.maxHeight} gen={p.gen} kv={p.kvData.size}:{hex16 (fnvNats (p.kvData.map (·.toNat)))} " ++
  s!"nodes={p.nodeData.size}:{hex16 (fnvNats p.nodeData)} prev={hex16 (fnvNats p.prevNode.toArray)}"

/-- the `mem arr …` commands: the array-level model -/
def handleMemArr (st : MemState) : List String → Option (MemState × String)
  | ["new", c] => do
      let cmp ← memCmpById c
      pure ({ st with acmp := cmp, arr := MemArr.DB.new, aits := [] }, "ok")
  | ["put", k, v, h] => do
      let k ← fromHex k; let v ← fromHex v; let h ← h.toNat?
      match MemArr.put st.acmp st.arr k v h with
      | some p => pure ({ st with arr := p }, "ok")
      | none => pure (st, "panic")
  | ["del", k] => do
      let k ← fromHex k
      match MemArr.delete st.acmp st.arr k with
      | some r => pure ({ st with arr := r.1 }, if r.2 then "ok" else "notfound")
      | none => pure (st, "panic")
  | ["get", k] => do
      let k ← fromHex k
      pure (st, match MemArr.get st.acmp st.arr k with
        | some (some v) => toHexField v | some none => "notfound" | none => "panic")
  | ["find", k] => do
      let k ← fromHex k
      pure (st, match MemArr.find st.acmp st.arr k with
        | some (some (k', v)) => s!"{toHexField k'} {toHexField v}" | some none => "notfound" | none => "panic")
  | ["has", k] => do
      let k ← fromHex k
      pure (st, match MemArr.contains st.acmp st.arr k with | some b => toString b | none => "panic")
  | ["len"] => pure (st, toString st.arr.n)
  | ["size"] => pure (st, toString st.arr.kvSize)
  | ["used"] => pure (st, toString st.arr.kvData.size)
  | ["state"] => pure (st, memArrState st.arr)
  | ["reset"] =>
      match MemArr.reset st.arr with
      | some p => pure ({ st with arr := p }, "ok")
      | none => pure (st, "panic")
  | "iter" :: id :: rest => do
      let id ← id.toNat?
      match rest with
      | ["new", s, l] => do
          let s ← memOptHex s; let l ← memOptHex l
          pure ({ st with aits := (id, { start := s, limit := l }) :: st.aits.filter (·.1 != id) }, "ok")
      | ["rel"] => pure ({ st with aits := st.aits.filter (·.1 != id) }, "ok")
      | ["node"] => do
          let it ← st.aits.lookup id
          pure (st, toString it.node)
      | mv => do
          let it ← st.aits.lookup id
          let cl ← memCall mv
          match MemArr.Iter.step st.acmp st.arr cl it with
          | some (it', ok) =>
              pure ({ st with aits := (id, it') :: st.aits.filter (·.1 != id) },
                if ok then memShowOut it'.out else "false")
          | none => pure (st, "panic")
  | _ => none

def handleMem (st : MemState) : List String → Option (MemState × String)
  | "arr" :: rest => handleMemArr st rest
  | ["new", c] => do
      let cmp ← memCmpById c
      pure ({ st with cmp := cmp, db := {}, gen := 0, its := [] }, "ok")
  | ["put", k, v, h] => do
      let k ← fromHex k; let v ← fromHex v; let h ← h.toNat?
      pure ({ st with db := put st.cmp st.db k v h }, "ok")
  | ["del", k] => do
      let k ← fromHex k
      let r := delete st.cmp st.db k
      pure ({ st with db := r.1 }, if r.2 then "ok" else "notfound")
  | ["get", k] => do
      let k ← fromHex k
      pure (st, match get st.cmp st.db k with | some v => toHexField v | none => "notfound")
  | ["find", k] => do
      let k ← fromHex k
      pure (st, match find st.cmp st.db k with
        | some (k', v) => s!"{toHexField k'} {toHexField v}" | none => "notfound")
  | ["has", k] => do
      let k ← fromHex k
      pure (st, toString (contains st.cmp st.db k))
  | ["len"] => pure (st, toString st.db.n)
  | ["size"] => pure (st, toString st.db.kvSize)
  | ["used"] => pure (st, toString st.db.used)
  | ["reset"] => pure ({ st with db := reset st.db, gen := st.gen + 1 }, "ok")
  | "iter" :: id :: rest => do
      let id ← id.toNat?
      match rest with
      | ["new", s, l] => do
          let s ← memOptHex s; let l ← memOptHex l
          pure ({ st with its := (id, { it := { start := s, limit := l } }) :: st.its.filter (·.1 != id) }, "ok")
      | ["rel"] => pure ({ st with its := st.its.filter (·.1 != id) }, "ok")
      | mv => do
          let x ← st.its.lookup id
          let cl ← memCall mv
          let x' := GIter.step st.cmp st.db st.gen cl x
          pure ({ st with its := (id, x') :: st.its.filter (·.1 != id) }, memShowOut (x'.it.out st.db))
  | _ => none

end GoLevel.Driver
