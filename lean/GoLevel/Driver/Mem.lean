import GoLevel.Model.MemDB
import GoLevel.Driver.Key
/-! Line-protocol handler for the in-memory table (C14).  Stateful: `mem new` installs a table, the
following lines act on it.

```
mem new <cmp>                          ⇒ ok        <cmp> = bytewise|reverse|lenfirst|… or i:<cmp> (internal keys over <cmp>)
mem put <key> <val> <h>                ⇒ ok        <h> = tower height drawn by randHeight (ignored on overwrite)
mem del <key>                          ⇒ ok | notfound
mem get <key>                          ⇒ <val> | notfound
mem find <key>                         ⇒ <key> <val> | notfound
mem has <key>                          ⇒ true | false
mem len | mem size | mem used          ⇒ <n>       Len(), Size(), len(kvData) = Capacity()-Free()
mem reset                              ⇒ ok
mem iter <id> new <start|nil> <limit|nil>      ⇒ ok
mem iter <id> first|last|next|prev|seek <key>  ⇒ true <key> <val> | false
mem iter <id> rel                              ⇒ ok
```
-/
namespace GoLevel.Driver
open GoLevel GoLevel.MemDB

structure MemState where
  cmp : Cmp := bytesCompare
  db : DB := {}
  its : List (Nat × Iter) := []

def memCmpById (s : String) : Option Cmp :=
  if s.startsWith "i:" then (cmpById (s.drop 2).toString).map fun c => icmpBytes c
  else (cmpById s).map (·.cmp)

def memOptHex (s : String) : Option (Option Bytes) :=
  if s = "nil" then some none else (fromHex s).map some

def memShowOut : Option (Bytes × Bytes) → String
  | some (k, v) => s!"true {toHexField k} {toHexField v}"
  | none => "false"

def memCall : List String → Option (Call Bytes)
  | ["first"] => some .first
  | ["last"] => some .last
  | ["next"] => some .next
  | ["prev"] => some .prev
  | ["seek", k] => (fromHex k).map .seek
  | _ => none

def handleMem (st : MemState) : List String → Option (MemState × String)
  | ["new", c] => do
      let cmp ← memCmpById c
      pure ({ cmp := cmp }, "ok")
  | ["put", k, v, h] => do
      let k ← fromHex k; let v ← fromHex v; let h ← h.toNat?
      pure ({ st with db := put st.cmp st.db k v h }, "ok")
  | ["del", k] => do
      let k ← fromHex k
      let r := delete st.cmp st.db k
      pure ({ st with db := r.1 }, if r.2 then "ok" else "notfound")
  | ["get", k] => do
      let k ← fromHex k
      pure (st, match get st.cmp st.db k with | some v => toHexField v | none => "notfound")
  | ["find", k] => do
      let k ← fromHex k
      pure (st, match find st.cmp st.db k with
        | some (k', v) => s!"{toHexField k'} {toHexField v}" | none => "notfound")
  | ["has", k] => do
      let k ← fromHex k
      pure (st, toString (contains st.cmp st.db k))
  | ["len"] => pure (st, toString st.db.n)
  | ["size"] => pure (st, toString st.db.kvSize)
  | ["used"] => pure (st, toString st.db.used)
  | ["reset"] => pure ({ st with db := reset st.db }, "ok")
  | "iter" :: id :: rest => do
      let id ← id.toNat?
      match rest with
      | ["new", s, l] => do
          let s ← memOptHex s; let l ← memOptHex l
          pure ({ st with its := (id, { start := s, limit := l }) :: st.its.filter (·.1 != id) }, "ok")
      | ["rel"] => pure ({ st with its := st.its.filter (·.1 != id) }, "ok")
      | mv => do
          let it ← st.its.lookup id
          let cl ← memCall mv
          let it' := Iter.step st.cmp st.db cl it
          pure ({ st with its := (id, it') :: st.its.filter (·.1 != id) }, memShowOut (it'.out st.db))
  | _ => none

end GoLevel.Driver
