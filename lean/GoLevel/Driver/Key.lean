import GoLevel.Model.Key
/-! Line-protocol handler for layer A / keys.  `key <sub> <cmpId> …` -/
namespace GoLevel.Driver
open GoLevel

def ordStr : Ordering → String | .lt => "lt" | .eq => "eq" | .gt => "gt"

/-- comparers known to the driver; the harness registers the same five on the Go side -/
def revCompare (a b : Bytes) : Ordering := bytesCompare b a

def lenCompare (a b : Bytes) : Ordering :=
  if a.length < b.length then .lt else if b.length < a.length then .gt else bytesCompare a b

def cmpById : String → Option UCmp
  | "bytewise" => some bytewise
  | "reverse"  => some ⟨revCompare, fun _ _ => none, fun _ => none⟩
  | "lenfirst" => some ⟨lenCompare, fun _ _ => none, fun _ => none⟩
  | "nilsep"   => some ⟨bytesCompare, fun _ _ => none, fun _ => none⟩
  | "unshort"  => some ⟨bytesCompare, fun a _ => if a.isEmpty then none else some a,
                       fun b => if b.isEmpty then none else some b⟩  -- Go: append(nil, []...) is nil
  | _ => none

def optHex : Option Bytes → String | some b => toHexField b | none => "nil"

def parseNat? (s : String) : Option Nat := s.toNat?

def handleKey : List String → Option String
  | ["cmp", c, a, b] => do
      let c ← cmpById c; let a ← fromHex a; let b ← fromHex b
      pure (ordStr (icmpBytes c a b))
  | ["ucmp", c, a, b] => do
      let c ← cmpById c; let a ← fromHex a; let b ← fromHex b
      pure (ordStr (c.cmp a b))
  | ["usep", c, a, b] => do
      let c ← cmpById c; let a ← fromHex a; let b ← fromHex b
      pure (optHex (c.sep a b))
  | ["usucc", c, b] => do
      let c ← cmpById c; let b ← fromHex b
      pure (optHex (c.succ b))
  | ["sep", c, a, b] => do
      let c ← cmpById c; let a ← fromHex a; let b ← fromHex b
      let ka ← parseIKey a; let kb ← parseIKey b
      pure (optHex ((iSep c ka kb).map IKey.encode))
  | ["succ", c, b] => do
      let c ← cmpById c; let b ← fromHex b
      let kb ← parseIKey b
      pure (optHex ((iSucc c kb).map IKey.encode))
  | ["make", u, s, t] => do
      let u ← fromHex u; let s ← parseNat? s; let t ← parseNat? t
      if validParts s t then pure (toHexField (mkIKey u s t).encode) else pure "panic"
  | ["parse", b] => do
      let b ← fromHex b
      match parseIKey b with
      | some k => pure s!"{toHexField k.ukey} {k.seq} {k.kind}"
      | none => pure "err"
  | _ => none

end GoLevel.Driver
