import GoLevel.Driver.Key
import GoLevel.Model.LSM
import GoLevel.Proofs.LSMCompactView
import GoLevel.Model.Pick
import GoLevel.Model.Score
import GoLevel.Model.Seek
import GoLevel.Proofs.LSMSourcesB
/-!
Trace validation for the LSM layer (`lsm …` lines, DESIGN.md §2.2 shape 3).

The harness records what the real DB did (version installs, flushes, table compactions, trivial moves,
state dumps at reads) together with the *contents* of every table file involved (read back from storage).
Each line is checked against the proved model:

* `install`   — the installed version is well formed (`Version.wfB`, the predicate of C06) and no two
                entries share user key and sequence number;
* `flush`     — the flushed table holds exactly the frozen buffer's entries, in order;
* `compact`   — the edit satisfies `CompactionOK` (the hypotheses of `C03.compaction_preserves_lookup` /
                `C06.compaction_preserves_wf`): inputs are in the pinned version, the level+1 inputs are all
                the overlapping tables under the *user* comparer, level-0 inputs are closed under overlap,
                and the outputs are a legal cut of `build minSeq base (mergeAll inputs)`;
* `move`      — the hypotheses of `C06.trivial_move_preserves_wf`;
* `pick`      — differential: the model's `Pick.expand` (`Model/Pick.lean`, the transcription of
                `compaction.expand` proved to yield closed inputs in `C06.compaction_inputs_closed`) run on the
                pinned version from the real level-L inputs answers with the level-L and level-L+1 sets it
                settles on; the harness expects the real code's sets;
* `score`     — differential: the model's `Score.computeCompaction` (`Model/Score.lean`, proved in `Props/C06Score.lean`)
                run on the installed version with the real `GetCompactionL0Trigger()` / `GetCompactionTotalSize(level)`
                must leave the `cLevel` and `cScore >= 1` the real `computeCompaction` left (a near tie of two different
                fractions, where `float64` rounding may decide otherwise, is judged on `cScore >= 1` only);
* `visits`    — differential: the model's `Seek.visits` / `Seek.seekCharge` (`Model/Seek.lean`, proved in `Props/C06Score.lean`)
                on the version a real `version.get` ran on must name exactly the (level, table) pairs its callback was
                handed, in order, and agree on whether the first one was charged a seek (`tseek`);
* `trivial`   — differential: `Pick.newCompaction` from the moved table with the real limits must be `trivial()`;
* `get`       — `dbGet` on the dumped state (what `C01.lookup_refines_view` is about) answers like `DB.Get`.
-/
namespace GoLevel.Driver
open GoLevel

structure LsmState where
  cmp : UCmp := bytewise
  tables : List (Nat × Table) := []        -- facts: contents of table files, by number
  versions : List (Nat × Version) := []    -- installed versions by id
  mem : List Entry := []
  frozen : Option (List Entry) := none
  cur : Nat := 0                           -- version id of the current dump

def parseEntries : Nat → List String → Option (List Entry × List String)
  | 0, rest => some ([], rest)
  | n+1, k :: v :: rest => do
      let kb ← fromHex k
      let ik ← parseIKey kb
      let vb ← fromHex v
      let (es, rest') ← parseEntries n rest
      pure (⟨ik, vb⟩ :: es, rest')
  | _, _ => none

def parseNats : Nat → List String → Option (List Nat × List String)
  | 0, rest => some ([], rest)
  | n+1, x :: rest => do
      let v ← x.toNat?
      let (xs, rest') ← parseNats n rest
      pure (v :: xs, rest')
  | _, _ => none

def lookupTable (st : LsmState) (n : Nat) : Option Table := (st.tables.find? (·.1 = n)).map (·.2)
def lookupTables (st : LsmState) (ns : List Nat) : Option (List Table) := ns.mapM (lookupTable st)
def lookupVersion (st : LsmState) (v : Nat) : Option Version := (st.versions.find? (·.1 = v)).map (·.2)

/-- parse `<nlevels> (<n> <num>*)*` into a version using the table facts -/
def parseLevels (st : LsmState) : Nat → List String → Option (List Level × List String)
  | 0, rest => some ([], rest)
  | n+1, cnt :: rest => do
      let c ← cnt.toNat?
      let (nums, rest1) ← parseNats c rest
      let ts ← lookupTables st nums
      let (ls, rest2) ← parseLevels st n rest1
      pure (ts :: ls, rest2)
  | _, _ => none

def uniqSeqB (c : UCmp) (es : List Entry) : Bool :=
  -- no two entries with the same user key and sequence number (quadratic; inputs are small)
  let rec go : List Entry → Bool
    | [] => true
    | e :: rest => rest.all (fun x => !(c.cmp e.ukey x.ukey = .eq && e.seq = x.seq)) && go rest
  go es

def versionProblem (c : UCmp) (v : Version) : Option String :=
  if !(v.levels.all fun l => l.all (·.wfB c)) then some "table-not-wellformed"
  else if !((v.levels.drop 1).all (levelDisjointB c)) then some "level-overlap"
  else if !(levelsOrderedB c v.levels) then some "level-order"
  else if !(uniqSeqB c (v.levels.flatMap Level.entries)) then some "duplicate-ukey-seq"
  else none

def hitStr : Hit → String
  | .value v => "value " ++ toHexField v
  | _ => "notfound"

def nextLvl (v : Version) (src : Nat) : Level := v.lvl (src + 1)

def compactVerdict (c : UCmp) (v : Version) (src : Nat) (S0 S1 nts : List Table) (minSeq : Nat)
    (imin imax : IKey) : String :=
  if decide (CompactionOK c v src S0 S1 nts minSeq imin.ukey imax.ukey) then "ok"
  else
    -- say which clause fails
    let why :=
      if !(decide (∀ t ∈ S0, t ∈ v.lvl src)) then "source-not-in-version"
      else if !(decide (∀ t ∈ S1, t ∈ v.lvl (src + 1))) then "target-input-not-in-version"
      else if !(decide (∀ t ∈ nextLvl v src, t.overlapsRange c imin.ukey imax.ukey = true ↔ t ∈ S1)) then "L1-overlapping-table-missed"
      else if !(decide (src = 0 → ∀ x ∈ v.lvl 0, x ∉ S0 → x.overlapsRange c imin.ukey imax.ukey = false)) then "L0-not-closed-under-overlap"
      else if !(decide (∀ t ∈ nts, t.wfB c = true)) then "output-table-not-wellformed"
      else if !(legalCut c (build c minSeq (baseLevelForKey c v src) {} (mergeAll c (S0 ++ S1))) (nts.map (·.entries))) then "L2-output-is-not-builder-output"
      else "duplicate-input-key"
    "illegal " ++ why

def moveVerdict (c : UCmp) (v : Version) (src : Nat) (t : Table) : String :=
  if !(decide (t ∈ v.lvl src)) then "illegal source-not-in-version"
  else if !(decide (∀ x ∈ nextLvl v src, x.overlapsRange c t.imin.ukey t.imax.ukey = false)) then
    "illegal overlaps-next-level"
  else if !(decide (src = 0 → ∀ x ∈ v.lvl 0, x ≠ t → x.overlapsRange c t.imin.ukey t.imax.ukey = false)) then
    "illegal overlaps-level0"
  else "ok"

/-- the hypotheses of `C01.dbGet_spec` on a dumped state (`C01.sourcesOKB_sound`).  A frozen buffer whose flush
is committed but which is not dropped yet duplicates its own level-0 table: then the state without it is
checked (readers find those entries in the buffer first, with the same answer). -/
def sourcesVerdict (st : LsmState) (vid : Nat) (mem : List Entry) (frozen : Option (List Entry)) : String :=
  match lookupVersion st vid with
  | none => "illegal unknown-version"
  | some v =>
    if sourcesOKB st.cmp mem frozen v then "ok"
    else match frozen with
      | some fr =>
        if (v.levels.headD []).any (fun t => t.entries = fr) && sourcesOKB st.cmp mem none v then "ok"
        else "bad sources-not-ordered"
      | none => "bad sources-not-ordered"

/-- `<n> <num>*`, the format of the harness' `numsStr` -/
def numsOut (ts : List Table) : String :=
  ts.foldl (fun acc t => acc ++ " " ++ toString t.num) (toString ts.length)

/-- the level-L and level-L+1 sets the model's `expand` settles on, started from `S0` -/
def pickVerdict (c : UCmp) (v : Version) (src limit : Nat) (S0 : List Table) : String :=
  if !(decide (∀ t ∈ S0, t ∈ v.lvl src)) then "illegal source-not-in-version"
  else match Pick.expand c limit v src S0 with
    | none => "illegal empty-source"
    | some e => numsOut e.s0 ++ " " ++ numsOut e.s1

/-- does the model's `computeCompaction` leave what the real one left (`real = none`: `bestLevel = -1`)? -/
def scoreVerdict (v : Version) (trigger : Nat) (limits : List Nat) (real : Option Nat) (realGE1 : Bool) : String :=
  let o : Score.ScoreOpts := ⟨trigger, fun l => limits.getD l 0⟩
  -- the hypothesis `ScoreOpts.Pos` of the theorems, on the real option getters
  if trigger == 0 || limits.any (· == 0) || limits.length != v.levels.length then "illegal nonpositive-option" else
  let ge1 := Score.scoreGE1 o v
  let lvl := (Score.computeCompaction o v).map (·.1)
  if ge1 == realGE1 && (lvl == real || Score.nearTie o v) then "ok"
  else "bad model=" ++ (match lvl with | some l => toString l | none => "none") ++ " " ++ toString ge1

/-- `<n> (<level> <num>)*` -/
def parseLevelNums : Nat → List String → Option (List (Nat × Nat) × List String)
  | 0, rest => some ([], rest)
  | n+1, l :: x :: rest => do
      let l ← l.toNat?; let x ← x.toNat?
      let (ps, rest') ← parseLevelNums n rest
      pure ((l, x) :: ps, rest')
  | _, _ => none

/-- does the model's lookup walk consult the tables the real `version.get` consulted, and charge the same? -/
def visitsVerdict (c : UCmp) (v : Version) (k : Bytes) (s : Nat) (real : List (Nat × Nat)) (charged : Option (Nat × Nat)) : String :=
  let vs := (Seek.visits c [] v k s).map (fun p => (p.1, p.2.num))
  let ch := (Seek.seekCharge c [] v k s).map (fun p => (p.1, p.2.num))
  if vs == real && ch == charged then "ok"
  else "bad model=" ++ vs.foldl (fun acc p => acc ++ " " ++ toString p.1 ++ ":" ++ toString p.2) (toString vs.length) ++
    " charged=" ++ (match ch with | some p => toString p.1 ++ ":" ++ toString p.2 | none => "none")

/-- is the compaction the model builds from `[t]` trivial? -/
def trivialVerdict (c : UCmp) (v : Version) (src expandLimit gpLimit : Nat) (t : Table) : String :=
  if !(decide (t ∈ v.lvl src)) then "illegal source-not-in-version"
  else match Pick.newCompaction c ⟨fun _ => expandLimit, fun _ => gpLimit, fun _ => 0⟩ v src [t] with
    | none => "illegal empty-source"
    | some cm =>
      if cm.trivial then "yes"
      else "no " ++ numsOut cm.s0 ++ " " ++ numsOut cm.s1 ++ " gp " ++ toString (Pick.tSize cm.gp)

def handleLsm (st : LsmState) : List String → Option (LsmState × String)
  | ["reset", c] => do
      let c ← cmpById c
      pure ({ cmp := c }, "ok")
  | "table" :: num :: size :: imin :: imax :: n :: rest => do
      let num ← num.toNat?; let size ← size.toNat?; let n ← n.toNat?
      let imin ← (fromHex imin) >>= parseIKey
      let imax ← (fromHex imax) >>= parseIKey
      let (es, tail) ← parseEntries n rest
      if !tail.isEmpty then none
      else
        let t : Table := ⟨num, size, es, imin, imax⟩
        pure ({ st with tables := (num, t) :: st.tables.filter (·.1 ≠ num) }, "ok")
  | "install" :: vid :: nl :: rest => do
      let vid ← vid.toNat?; let nl ← nl.toNat?
      match parseLevels st nl rest with
      | none => pure (st, "bad unknown-table")
      | some (ls, _) =>
        let v : Version := ⟨ls⟩
        let st' := { st with versions := (vid, v) :: (st.versions.filter (·.1 ≠ vid)).take 64 }
        match versionProblem st.cmp v with
        | some why => pure (st', "bad " ++ why)
        | none => pure (st', "ok")
  | "flush" :: num :: n :: rest => do
      let num ← num.toNat?; let n ← n.toNat?
      let (es, _) ← parseEntries n rest
      match lookupTable st num with
      | none => pure (st, "illegal unknown-table")
      | some t =>
        if t.entries = es then pure (st, "ok") else pure (st, "illegal table-differs-from-buffer")
  | "compact" :: vid :: src :: minSeq :: rest => do
      let vid ← vid.toNat?; let src ← src.toNat?; let minSeq ← minSeq.toNat?
      match rest with
      | n0 :: rest0 => do
        let n0 ← n0.toNat?
        let (s0, rest1) ← parseNats n0 rest0
        match rest1 with
        | n1 :: rest1' => do
          let n1 ← n1.toNat?
          let (s1, rest2) ← parseNats n1 rest1'
          match rest2 with
          | no :: rest2' => do
            let no ← no.toNat?
            let (outs, _) ← parseNats no rest2'
            match lookupVersion st vid, lookupTables st s0, lookupTables st s1, lookupTables st outs with
            | some v, some S0, some S1, some nts =>
              match getRange st.cmp S0 with
              | none => pure (st, "illegal empty-source")
              | some (imin, imax) => pure (st, compactVerdict st.cmp v src S0 S1 nts minSeq imin imax)
            | _, _, _, _ => pure (st, "illegal unknown-version-or-table")
          | _ => none
        | _ => none
      | _ => none
  | "pick" :: vid :: src :: limit :: n0 :: rest => do
      let vid ← vid.toNat?; let src ← src.toNat?; let limit ← limit.toNat?; let n0 ← n0.toNat?
      let (s0, tail) ← parseNats n0 rest
      if !tail.isEmpty then none
      else match lookupVersion st vid, lookupTables st s0 with
        | some v, some S0 => pure (st, pickVerdict st.cmp v src limit S0)
        | _, _ => pure (st, "illegal unknown-version-or-table")
  | "score" :: vid :: trigger :: real :: realGE1 :: n :: rest => do
      let vid ← vid.toNat?; let trigger ← trigger.toNat?; let n ← n.toNat?
      let real ← if real == "none" then some none else real.toNat?.map some
      let (limits, tail) ← parseNats n rest
      if !tail.isEmpty then none
      else match lookupVersion st vid with
        | some v => pure (st, scoreVerdict v trigger limits real (realGE1 == "true"))
        | none => pure (st, "illegal unknown-version")
  | "visits" :: vid :: k :: sq :: cl :: cn :: n :: rest => do
      let vid ← vid.toNat?; let k ← fromHex k; let sq ← sq.toNat?; let n ← n.toNat?
      let charged ← if cl == "none" then some none else (do let a ← cl.toNat?; let b ← cn.toNat?; pure (some (a, b)))
      let (real, tail) ← parseLevelNums n rest
      if !tail.isEmpty then none
      else match lookupVersion st vid with
        | some v => pure (st, visitsVerdict st.cmp v k sq real charged)
        | none => pure (st, "illegal unknown-version")
  | ["trivial", vid, src, elimit, glimit, num] => do
      let vid ← vid.toNat?; let src ← src.toNat?; let elimit ← elimit.toNat?; let glimit ← glimit.toNat?
      let num ← num.toNat?
      match lookupVersion st vid, lookupTable st num with
      | some v, some t => pure (st, trivialVerdict st.cmp v src elimit glimit t)
      | _, _ => pure (st, "illegal unknown-version-or-table")
  | ["move", vid, src, num] => do
      let vid ← vid.toNat?; let src ← src.toNat?; let num ← num.toNat?
      match lookupVersion st vid, lookupTable st num with
      | some v, some t => pure (st, moveVerdict st.cmp v src t)
      | _, _ => pure (st, "illegal unknown-version-or-table")
  | "state" :: vid :: nm :: rest => do
      -- `state <vid> <nmem> entries… <nfrozen|none> entries…`
      let vid ← vid.toNat?; let nm ← nm.toNat?
      let (mem, rest1) ← parseEntries nm rest
      match rest1 with
      | "none" :: _ => pure ({ st with mem := mem, frozen := none, cur := vid }, sourcesVerdict st vid mem none)
      | nf :: rest2 => do
        let nf ← nf.toNat?
        let (fr, _) ← parseEntries nf rest2
        pure ({ st with mem := mem, frozen := some fr, cur := vid }, sourcesVerdict st vid mem (some fr))
      | [] => none
  | ["get", k, s] => do
      let k ← fromHex k; let s ← s.toNat?
      match lookupVersion st st.cur with
      | none => pure (st, "illegal unknown-version")
      | some v => pure (st, hitStr (dbGet st.cmp none [] st.mem st.frozen v k s))
  | _ => none

end GoLevel.Driver
