import GoLevel.Driver.Key
import GoLevel.Model.Conc
import GoLevel.Model.ConcSnaps
/-!
Trace validation for the interleaving model (`conc …` lines): the synchronisation events recorded by
the verif hooks of a concurrent run (group insertion, publication, buffer rotation, flush install, frozen
drop, compaction commit, transaction open/install/publish/discard, **and the reader side**: snapshot
acquisition / release, `getMems`, `version()`, the answer of the read) are replayed through the executable
`Conc.step Cfg.real`; every recorded event must be an enabled step of the system the C05/C03/C11 theorems
quantify over, and every recorded answer of a `Get` must be the answer of the model's `rLookup` at the reader's
(sequence number, buffers, version) triple.  The real snapshot list (`Model/Snaps.lean`) is driven by the same
events (`Conc.snapsStep`).

Every line is turned into a `Plan` (checks before, a list of model steps, checks after) that `exec` runs: the
state only ever changes by `Conc.step` (`Proofs/ConcDriver.lean`: the state of the driver is always a reachable
state of the model, paired with its snapshot list).

Entries: `insert <seq> <n>` uses synthetic entries (enabledness does not depend on the contents);
`insert <seq> <n> <e_1> … <e_n>` with `e_i = p<keyhex>:<valuehex>` (a put) or `d<keyhex>` (a deletion) carries
the user keys and (an identifier of) the values, so that reads can be compared.
-/
namespace GoLevel.Driver
open GoLevel GoLevel.Conc

structure ConcState where
  σ : Conc.State := {}
  steps : Nat := 0
  /-- `db.snapsList` -/
  snl : Snaps.SList := []
  /-- the harness' snapshot ids and the model's -/
  sids : List (Nat × Nat) := []

/-- decimal number (over the character list, so that concrete traces can be evaluated inside proofs) -/
def natOfChars : List Char → Nat → Option Nat
  | [], acc => some acc
  | ch :: r, acc => if ch.isDigit then natOfChars r (acc * 10 + (ch.toNat - '0'.toNat)) else none

def natOf (s : String) : Option Nat :=
  match s.toList with
  | [] => none
  | cs => natOfChars cs 0

def dummyEntries (seq n : Nat) : List Entry :=
  (List.range n).map fun i => ⟨mkIKey [] (seq + i) Gen.keyTypeVal, []⟩

def hexOfChars (cs : List Char) : Option Bytes := if cs = ['-'] then some [] else fromHexAux cs

/-- `p<keyhex>:<valuehex>` or `d<keyhex>` -/
def parseEnt (seq : Nat) (tok : String) : Option Entry :=
  match tok.toList with
  | 'p' :: rest => do
    let k ← hexOfChars (rest.takeWhile (· != ':'))
    match rest.dropWhile (· != ':') with
    | ':' :: v => do
      let v ← hexOfChars v
      pure ⟨mkIKey k seq Gen.keyTypeVal, v⟩
    | _ => none
  | 'd' :: rest => do
    let k ← hexOfChars rest
    pure ⟨mkIKey k seq Gen.keyTypeDel, []⟩
  | _ => none

def parseEnts : Nat → List String → Option (List Entry)
  | _, [] => some []
  | seq, t :: ts => do
    let e ← parseEnt seq t
    let r ← parseEnts (seq + 1) ts
    pure (e :: r)

/-- the entries of a line: recorded ones (exactly `n` of them) or synthetic ones -/
def entriesOf (seq n : Nat) (toks : List String) : Option (List Entry) :=
  if toks.isEmpty then some (dummyEntries seq n)
  else if toks.length = n then parseEnts seq toks else none

/-- what a line may do to the model: plain steps, or a whole table compaction that keeps every entry -/
inductive DAct
  | act (a : Action)
  | compactId

/-- one model step, on the state and on the snapshot list -/
def applyAct (st : ConcState) (a : Action) : Option ConcState :=
  if a.plain = true then
    match Conc.step Cfg.real bytewise st.σ a, Conc.snapsStep st.σ st.snl a with
    | some σ', some l' => some { st with σ := σ', steps := st.steps + 1, snl := l' }
    | _, _ => none
  else none

/-- `compStart` followed by `compCommit` of the unchanged table collection, without re-checking that every entry of
the collection is in the collection (`Proofs/ConcDriver.lean`: `applyCompactId_steps`) -/
def applyCompactId (st : ConcState) : Option ConcState :=
  if st.σ.comp = none then
    some { st with σ := { st.σ with comp := none, floor := Conc.minSeq st.σ }, steps := st.steps + 2 }
  else none

def applyD (st : ConcState) : DAct → Option ConcState
  | .act a => applyAct st a
  | .compactId => applyCompactId st

def applyDs (st : ConcState) : List DAct → Option ConcState
  | [] => some st
  | a :: as => (applyD st a).bind (applyDs · as)

structure Plan where
  /-- refuse the line (state unchanged) -/
  pre : Option String := none
  acts : List DAct := []
  /-- the message when a step is not enabled -/
  fail : String := "not-enabled"
  /-- check of the resulting state (`some` = refuse, state unchanged) -/
  post : ConcState → Option String := fun _ => none
  sids : List (Nat × Nat) → List (Nat × Nat) := id

def exec (st : ConcState) (p : Plan) : ConcState × String :=
  match p.pre with
  | some m => (st, "illegal " ++ m)
  | none =>
    match applyDs st p.acts with
    | none => (st, "illegal " ++ p.fail)
    | some st' =>
      match p.post st' with
      | some m => (st, "illegal " ++ m)
      | none => ({ st' with sids := p.sids st'.sids }, "ok")

def acts (as : List Action) : List DAct := as.map DAct.act

def pubIs (seq : Nat) (what : String) (st' : ConcState) : Option String :=
  if st'.σ.pub = seq then none else some s!"{what}-{seq}-model-{st'.σ.pub}"

/-- does the model's answer `v` agree with the recorded one (`found <value>` / `found *` / `notfound`)? -/
def answerOk (ans : String) (val : Option Bytes) (v : Option Bytes) : Bool :=
  if ans = "notfound" then v.isNone
  else if ans = "found" then
    match val with
    | some b => v == some b
    | none => v.isSome
  else false

/-- the value field of an `rget` line: `*` = any value (a `Has`), otherwise the (identifier of the) value -/
def parseVal (vid : String) : Option (Option Bytes) :=
  if vid = "*" then some none else (fromHex vid).map some

def showAns : Option Bytes → String
  | some b => "found-" ++ toHexField b
  | none => "notfound"

def plan (st : ConcState) : List String → Option Plan
  | "insert" :: seq :: n :: ents => do
      let seq ← natOf seq; let n ← natOf n
      let es ← entriesOf seq n ents
      -- numbers consumed without entries (a group whose journal write failed, `db.addSeq` on the error
      -- path) show up as a gap before the next group: replay it as `seqSkip`
      let gap := seq - (st.σ.pub + st.σ.pending.length + 1)
      let as := if gap > 0 ∧ st.σ.pending = [] then [Action.seqSkip gap, .writeInsert es] else [.writeInsert es]
      pure { acts := acts as, fail := "insert-not-enabled(seq-not-consecutive-or-transaction-open)" }
  | ["publish", seq] => do
      let seq ← natOf seq
      pure { acts := acts [.publish], fail := "publish-not-enabled", post := pubIs seq "published" }
  | ["rotate"] => pure { acts := acts [.rotate], fail := "rotate-not-enabled(frozen-buffer-present-or-group-pending)" }
  | ["flushinstall"] =>
      pure { acts := acts [.flushInstall], fail := "flush-install-not-enabled(no-frozen-buffer-or-already-installed)" }
  | ["drop"] =>
      -- an EMPTY frozen buffer is dropped without a table (`memCompaction`: "memdb@flush skipping"): in the
      -- model that is a flush install of no entries followed by the drop
      if st.σ.flushed = false ∧ Conc.frozenBuf st.σ = [] ∧ st.σ.frozen ≠ none then
        pure { acts := acts [.flushInstall, .flushDrop], fail := "empty-frozen-drop-not-enabled" }
      else pure { acts := acts [.flushDrop], fail := "frozen-drop-before-its-table-was-installed" }
  | ["compact", minSeq] => do
      let m ← natOf minSeq
      -- minSeq read earlier by the real code can only be smaller than now
      let pre :=
        if m > Conc.minSeq st.σ then some s!"compaction-minSeq-{m}-above-oldest-reader-{Conc.minSeq st.σ}"
        else if Snaps.minSeq st.snl st.σ.pub ≠ Conc.minSeq st.σ then
          some s!"snapshot-list-minSeq-{Snaps.minSeq st.snl st.σ.pub}-registrations-{Conc.minSeq st.σ}"
        else none
      pure { pre := pre, acts := [.compactId], fail := "compaction-not-enabled" }
  | ["minseq", m] => do
      -- `db.minSeq()` returned the front element of a non-empty list
      let m ← natOf m
      let pre := match st.snl with
        | e :: _ => if e.seq = m then none else some s!"minSeq-{m}-snapshot-list-front-{e.seq}"
        | [] => some s!"minSeq-{m}-from-the-list-but-snapshot-list-empty"
      pure { pre := pre }
  | ["tropen", base] => do
      let b ← natOf base
      -- numbers consumed without entries (a discarded transaction's range: `Transaction.discard` advances
      -- `db.seq`; a failed group) show up as a gap: replay it as `seqSkip`, as for `insert`
      let gap := b - st.σ.pub
      let as := if gap > 0 ∧ st.σ.pending = [] ∧ st.σ.tr.isNone then [Action.seqSkip gap, .trOpen] else [.trOpen]
      pure { acts := acts as,
             fail := "transaction-open-not-enabled(write-buffer-not-empty-or-frozen-buffer-pending-or-group-pending)",
             post := pubIs b "transaction-base" }
  | "trinstall" :: seq :: ents => do
      let seq ← natOf seq
      match st.σ.tr with
      | none => pure { pre := some "install-without-transaction" }
      | some t =>
        let es ← entriesOf (t.base + 1) (seq - t.base) ents
        pure { acts := acts (es.map Action.trPut ++ [.trInstall]), fail := "transaction-install-not-enabled" }
  | ["trpublish", seq] => do
      let seq ← natOf seq
      pure { acts := acts [.trPublish], fail := "transaction-publish-before-install", post := pubIs seq "published" }
  | ["trdone", seq] => do
      -- Discard of a transaction that reached sequence number `seq` (after a commit the transaction is already
      -- gone): its private records are replayed first, so that the discard skips exactly the numbers it used
      let seq ← natOf seq
      match st.σ.tr with
      | none => pure {}
      | some t =>
        let n := seq - (t.base + t.priv.length)
        let puts := (dummyEntries (t.base + t.priv.length + 1) n).map Action.trPut
        pure { acts := acts (puts ++ [.trDiscard]), fail := "discard-after-install" }
  | ["trdone"] =>
      -- Discard of a transaction that was not committed; after a commit the transaction is already gone
      match st.σ.tr with
      | none => pure {}
      | some _ => pure { acts := acts [.trDiscard], fail := "discard-after-install" }
  | ["snap", sid, seq] => do
      -- `DB.GetSnapshot`: `acquireSnapshot` read `seq` from `db.seq`
      let sid ← natOf sid; let seq ← natOf seq
      let id := st.σ.nextId
      pure { pre := if st.σ.pub = seq then none else some s!"snapshot-seq-{seq}-is-not-db-seq-{st.σ.pub}",
             acts := acts [.snapAcquire], sids := fun m => (sid, id) :: m }
  | ["snaprel", sid] => do
      let sid ← natOf sid
      match st.sids.lookup sid with
      | none => pure { pre := some "release-of-unknown-snapshot" }
      | some id => pure { acts := acts [.snapRelease id], sids := fun m => m.filter (fun p => p.1 != sid) }
  | ["racq", rid, seq] => do
      -- `DB.Get` / `DB.Has` / `DB.NewIterator`: `acquireSnapshot` read `seq` from `db.seq` and registered it
      let rid ← natOf rid; let seq ← natOf seq
      let pre :=
        if rid ≠ st.σ.readers.length then some s!"reader-id-{rid}-expected-{st.σ.readers.length}"
        else if st.σ.pub ≠ seq then some s!"reader-seq-{seq}-is-not-db-seq-{st.σ.pub}"
        else none
      pure { pre := pre, acts := acts [.rNew, .rSeq rid], fail := "reader-acquire-not-enabled" }
  | ["racqs", rid, sid, seq] => do
      -- `Snapshot.Get` / `Snapshot.NewIterator`: the sequence number of the snapshot element, under `snap.mu`
      let rid ← natOf rid; let sid ← natOf sid; let seq ← natOf seq
      match st.sids.lookup sid with
      | none => pure { pre := some "read-of-unknown-snapshot" }
      | some id =>
        let pre :=
          if rid ≠ st.σ.readers.length then some s!"reader-id-{rid}-expected-{st.σ.readers.length}"
          else if st.σ.snaps.lookup (.user id) ≠ some seq then some s!"snapshot-read-seq-{seq}-differs-from-the-snapshot"
          else none
        pure { pre := pre, acts := acts [.rNew, .rSeqSnap rid id], fail := "snapshot-reader-not-enabled" }
  | "rmems" :: rid :: fz => do
      -- `getMems()`; the optional flag says whether the real reader got a frozen buffer
      let rid ← natOf rid
      let pre := match fz with
        | [f] => if decide (f = "1") == decide (st.σ.frozen ≠ none) then none
                 else some s!"reader-frozen-buffer-{f}-model-{if st.σ.frozen ≠ none then 1 else 0}"
        | _ => none
      pure { pre := pre, acts := acts [.rMems rid], fail := "reader-buffers-not-enabled(no-sequence-number-or-twice-or-after-version)" }
  | ["rver", rid] => do
      let rid ← natOf rid
      pure { acts := acts [.rVer rid], fail := "reader-version-not-enabled(before-the-buffers-or-twice)" }
  | ["rrel", rid] => do
      let rid ← natOf rid
      pure { acts := acts [.rRelease rid], fail := "reader-release-not-enabled(before-buffers-and-version-are-pinned)" }
  | ["rget", rid, key, ans, vid] => do
      -- the answer of a completed read against the model's lookup at the reader's triple
      let rid ← natOf rid; let k ← fromHex key
      let val ← parseVal vid
      pure { acts := acts [.rLookup rid k], fail := "lookup-not-enabled(reader-has-not-pinned-its-triple)",
             post := fun st' =>
               match st'.σ.readers[rid]? with
               | some r =>
                 match r.results.getLast? with
                 | some kv => if answerOk ans val kv.2 = true then none
                              else some s!"read-{key}-real-{ans}-{vid}-model-{showAns kv.2}"
                 | none => some "no-result"
               | none => some "no-reader" }
  | _ => none

def handleConc (st : ConcState) : List String → Option (ConcState × String)
  | ["reset", pub] => do
      -- a DB opened with recovered sequence number `pub` and empty buffers
      let p ← natOf pub
      if p = 0 then pure ({}, "ok")
      else match applyAct {} (.seqSkip p) with
        | some st' => pure ({ st' with steps := 0 }, "ok")
        | none => pure ({}, "illegal reset")
  | ["pub?"] => pure (st, toString st.σ.pub)
  | args => (plan st args).map (exec st)

end GoLevel.Driver
