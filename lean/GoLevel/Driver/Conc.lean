import GoLevel.Driver.Key
import GoLevel.Model.Conc
/-!
Trace validation for the interleaving model (`conc …` lines): the synchronisation events recorded by
the verif hooks of a concurrent run (group insertion, publication, buffer rotation, flush install, frozen
drop, compaction commit, transaction open/install/publish/discard) are replayed through the executable
`Conc.step Cfg.real`; every recorded event must be an enabled step of the system the C05/C03/C11 theorems
quantify over.  Entry contents do not matter for enabledness, so synthetic entries with the recorded
sequence numbers are used.
-/
namespace GoLevel.Driver
open GoLevel GoLevel.Conc

structure ConcState where
  σ : Conc.State := {}
  steps : Nat := 0

def dummyEntries (seq n : Nat) : List Entry :=
  (List.range n).map fun i => ⟨mkIKey [] (seq + i) Gen.keyTypeVal, []⟩

def applyAct (st : ConcState) (a : Action) : Option ConcState :=
  (Conc.step {} bytewise st.σ a).map fun σ' => { σ := σ', steps := st.steps + 1 }

def applyActs (st : ConcState) : List Action → Option ConcState
  | [] => some st
  | a :: as => (applyAct st a).bind (applyActs · as)

def verdict (st : ConcState) (r : Option ConcState) (what : String) : ConcState × String :=
  match r with
  | some st' => (st', "ok")
  | none => (st, "illegal " ++ what)

def handleConc (st : ConcState) : List String → Option (ConcState × String)
  | ["reset", pub] => do
      -- a DB opened with recovered sequence number `pub` and empty buffers
      let p ← pub.toNat?
      pure ({ σ := { pub := p } }, "ok")
  | ["insert", seq, n] => do
      let seq ← seq.toNat?; let n ← n.toNat?
      -- numbers consumed without entries (a group whose journal write failed, `db.addSeq` on the error
      -- path) show up as a gap before the next group: replay it as `seqSkip`
      let gap := seq - (st.σ.pub + st.σ.pending.length + 1)
      let acts := if gap > 0 ∧ st.σ.pending = [] then [Action.seqSkip gap, .writeInsert (dummyEntries seq n)]
                  else [.writeInsert (dummyEntries seq n)]
      pure (verdict st (applyActs st acts) "insert-not-enabled(seq-not-consecutive-or-transaction-open)")
  | ["publish", seq] => do
      let seq ← seq.toNat?
      match applyAct st .publish with
      | some st' => if st'.σ.pub = seq then pure (st', "ok") else pure (st, s!"illegal published-{seq}-model-{st'.σ.pub}")
      | none => pure (st, "illegal publish-not-enabled")
  | ["rotate"] => pure (verdict st (applyAct st .rotate) "rotate-not-enabled(frozen-buffer-present-or-group-pending)")
  | ["flushinstall"] => pure (verdict st (applyAct st .flushInstall) "flush-install-not-enabled(no-frozen-buffer-or-already-installed)")
  | ["drop"] =>
      -- an EMPTY frozen buffer is dropped without a table (`memCompaction`: "memdb@flush skipping"): in the
      -- model that is a flush install of no entries followed by the drop
      if st.σ.flushed = false ∧ Conc.frozenBuf st.σ = [] ∧ st.σ.frozen ≠ none then
        pure (verdict st (applyActs st [.flushInstall, .flushDrop]) "empty-frozen-drop-not-enabled")
      else pure (verdict st (applyAct st .flushDrop) "frozen-drop-before-its-table-was-installed")
  | ["compact", minSeq] => do
      let m ← minSeq.toNat?
      -- minSeq read earlier by the real code can only be smaller than now
      if m > Conc.minSeq st.σ then pure (st, s!"illegal compaction-minSeq-{m}-above-oldest-reader-{Conc.minSeq st.σ}")
      else pure (verdict st (applyActs st [.compStart, .compCommit st.σ.tabs]) "compaction-not-enabled")
  | ["tropen", base] => do
      let b ← base.toNat?
      -- numbers consumed without entries (a discarded transaction's range: `Transaction.discard` advances
      -- `db.seq`; a failed group) show up as a gap: replay it as `seqSkip`, as for `insert`
      let gap := b - st.σ.pub
      let st0 := if gap > 0 ∧ st.σ.pending = [] ∧ st.σ.tr.isNone then (applyAct st (.seqSkip gap)).getD st else st
      match applyAct st0 .trOpen with
      | some st' => if st'.σ.pub = b then pure (st', "ok") else pure (st, s!"illegal transaction-base-{b}-model-{st'.σ.pub}")
      | none => pure (st, "illegal transaction-open-not-enabled(write-buffer-not-empty-or-frozen-buffer-pending-or-group-pending)")
  | ["trinstall", seq] => do
      let seq ← seq.toNat?
      match st.σ.tr with
      | none => pure (st, "illegal install-without-transaction")
      | some t =>
        let n := seq - t.base
        let puts := (dummyEntries (t.base + 1) n).map Action.trPut
        pure (verdict st (applyActs st (puts ++ [.trInstall])) "transaction-install-not-enabled")
  | ["trpublish", seq] => do
      let seq ← seq.toNat?
      match applyAct st .trPublish with
      | some st' => if st'.σ.pub = seq then pure (st', "ok") else pure (st, s!"illegal published-{seq}-model-{st'.σ.pub}")
      | none => pure (st, "illegal transaction-publish-before-install")
  | ["trdone", seq] => do
      -- Discard of a transaction that reached sequence number `seq` (after a commit the transaction is already
      -- gone): its private records are replayed first, so that the discard skips exactly the numbers it used
      let seq ← seq.toNat?
      match st.σ.tr with
      | none => pure (st, "ok")
      | some t =>
        let n := seq - (t.base + t.priv.length)
        let puts := (dummyEntries (t.base + t.priv.length + 1) n).map Action.trPut
        pure (verdict st (applyActs st (puts ++ [.trDiscard])) "discard-after-install")
  | ["trdone"] =>
      -- Discard of a transaction that was not committed; after a commit the transaction is already gone
      match st.σ.tr with
      | none => pure (st, "ok")
      | some _ => pure (verdict st (applyAct st .trDiscard) "discard-after-install")
  | ["snap"] => pure (verdict st (applyAct st .snapAcquire) "snap")
  | ["pub?"] => pure (st, toString st.σ.pub)
  | _ => none

end GoLevel.Driver
