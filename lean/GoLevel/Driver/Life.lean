import GoLevel.Model.Lifecycle
/-! Line-protocol handler for the lifecycle layer (C18).  Stateless.

```
life <mode> <recv> <method>                     ⇒ <cls>[|<alt>]* <mut|nomut>      the table entry; `unreachable` for a state
                                                                                 that cannot exist (live transaction on a
                                                                                 read-only DB)
life obs <mode> <recv> <method> <cls> <nmut>    ⇒ conform | deviate              does the observation (class returned, number
                                                                                 of mutating storage operations seen) agree
                                                                                 with the table entry
life own <excl|shro> <ev>*                      ⇒ <cls>* owners=<id,…|->         one class per event, then who holds the lock
      ev = rw:<id> | ro:<id>:<journals> | close:<id>
life run <seeks|noseeks> <mode> <bg> <frozen> <due> <tx> <ev>*
                                                ⇒ <mode> frozen=<0|1> due=<n> pins=<n> tx=<tx> <mut|nomut>
      ev = db.<method>:<p> | snap-live.<method>:<p> | snap-released.<method>:<p> | tx.<method>:<p>
         | iter-live.<method>:<p> | iter-released.<method>:<p> | iter-released-used.<method>:<p>
         | bgFlush:<p> | bgCompact:<p> | mark
      the flag says whether a mutating storage action was emitted after the last `mark` (or since the start)
life quiet <seeks|noseeks> <mode> <bg> <frozen> <due> <tx> <ev>*
                                                ⇒ <mode> <mut|nomut>             the same run, reporting only what an
                                                                                 outside observer sees
```
The machine runs in the configuration of the code as it is (`Life.codeCfg`: whether `tCompaction` parks on a
read-only DB is the regenerated fact `Gen.roCompactionParks`).
`<mode>`   openRW | openRW+tx (a transaction is open) | openRO | switchedRO | closed
`<recv>`   db | snap-live | snap-released | tx-live | tx-committed | tx-discarded | iter-live | iter-released |
           iter-released-used      (for `closed`, `tx-live` means: live when `Close` was called)
`<method>` the Go name; argument variants `Get:miss`, `GetProperty:bad`, `Write:empty`, `Write:nil`, `Write:large`
`<cls>`    ok notfound closed readonly released txdone locked other panic blocks
`<tx>`     none | live | committed | discarded;  `<bg>`, `<frozen>`: 0 | 1
-/
namespace GoLevel.Driver
open GoLevel GoLevel.Life

def clsStr : Cls → String
  | .ok => "ok" | .notfound => "notfound" | .closed => "closed" | .readonly => "readonly"
  | .released => "released" | .txdone => "txdone" | .locked => "locked" | .other => "other"
  | .panic => "panic" | .blocks => "blocks"

def parseCls : String → Option Cls
  | "ok" => some .ok | "notfound" => some .notfound | "closed" => some .closed | "readonly" => some .readonly
  | "released" => some .released | "txdone" => some .txdone | "locked" => some .locked | "other" => some .other
  | "panic" => some .panic | "blocks" => some .blocks
  | _ => none

def modeStr : Mode → String
  | .openRW => "openRW" | .openRO => "openRO" | .switchedRO => "switchedRO" | .closed => "closed"

/-- mode and "a transaction is open" -/
def parseMode : String → Option (Mode × Bool)
  | "openRW" => some (.openRW, false)
  | "openRW+tx" => some (.openRW, true)
  | "openRO" => some (.openRO, false)
  | "switchedRO" => some (.switchedRO, false)
  | "closed" => some (.closed, false)
  | _ => none

def parseDBm : String → Option DBm
  | "Close" => some .close | "CompactRange" => some .compactRange | "Delete" => some .delete
  | "Get" => some .get | "Get:miss" => some .getMiss | "GetProperty" => some .getProperty
  | "GetProperty:bad" => some .getPropertyBad | "GetSnapshot" => some .getSnapshot | "Has" => some .has
  | "NewIterator" => some .newIterator | "OpenTransaction" => some .openTransaction | "Put" => some .put
  | "SetReadOnly" => some .setReadOnly | "SizeOf" => some .sizeOf | "Stats" => some .stats
  | "Write" => some .write | "Write:empty" => some .writeEmpty | "Write:nil" => some .writeNil
  | "Write:large" => some .writeLarge
  | _ => none

def parseSnapM : String → Option SnapM
  | "Get" => some .get | "Get:miss" => some .getMiss | "Has" => some .has | "NewIterator" => some .newIterator
  | "Release" => some .release | "String" => some .string
  | _ => none

def parseTxM : String → Option TxM
  | "Commit" => some .commit | "Delete" => some .delete | "Discard" => some .discard | "Get" => some .get
  | "Get:miss" => some .getMiss | "Has" => some .has | "NewIterator" => some .newIterator | "Put" => some .put
  | "Write" => some .write | "Write:empty" => some .writeEmpty
  | _ => none

def parseIterM : String → Option IterM
  | "First" => some .first | "Last" => some .last | "Seek" => some .seek | "Next" => some .next
  | "Prev" => some .prev | "Valid" => some .valid | "Key" => some .key | "Value" => some .value
  | "Error" => some .error | "Release" => some .release | "SetReleaser" => some .setReleaser
  | _ => none

def parseTxSt : String → Option TxSt
  | "none" => some .none | "live" => some .live | "committed" => some .committed | "discarded" => some .discarded
  | _ => none

def txStr : TxSt → String
  | .none => "none" | .live => "live" | .committed => "committed" | .discarded => "discarded"

def parseSnapSt : String → Option SnapSt
  | "snap-live" => some .live | "snap-released" => some .released | _ => none

def parseIterSt : String → Option IterSt
  | "iter-live" => some .live | "iter-released" => some .released | "iter-released-used" => some .releasedUsed
  | _ => none

def parseTxRecv : String → Option TxSt
  | "tx-live" => some .live | "tx-committed" => some .committed | "tx-discarded" => some .discarded | _ => none

/-- table lookup; `none` inside = unreachable state -/
def lookup (mode : Mode) (txLive : Bool) (recv method : String) : Option (Option Outcome) :=
  if recv = "db" then do
    let m ← parseDBm method
    pure (some (dbTable mode txLive m))
  else match parseSnapSt recv with
  | some h => do let m ← parseSnapM method; pure (some (snapTable mode h m))
  | none =>
    match parseIterSt recv with
    | some h => do let m ← parseIterM method; pure (some (iterTable mode h m))
    | none => do
      let t ← parseTxRecv recv
      let m ← parseTxM method
      if mode != .closed && !txReachable mode t then pure none
      else pure (some (txTable mode t m))

def outcomeStr (o : Outcome) : String :=
  let a := String.join (o.alt.map fun c => "|" ++ clsStr c)
  clsStr o.cls ++ a ++ (if o.mutates then " mut" else " nomut")

def lifeBit : String → Option Bool
  | "0" => some false | "1" => some true | _ => none

def parseOwnEv (t : String) : Option SysEv :=
  match t.splitOn ":" with
  | ["rw", id] => do let i ← id.toNat?; pure (.open i false 1)
  | ["ro", id, j] => do let i ← id.toNat?; let j ← j.toNat?; pure (.open i true j)
  | ["close", id] => do let i ← id.toNat?; pure (.close i)
  | _ => none

/-- `mark` is `none` -/
def parseRunEv (t : String) : Option (Option Ev) :=
  if t = "mark" then some none else
  match t.splitOn ":" with
  | ["bgFlush", p] => do let p ← p.toNat?; pure (some (.bgFlush p))
  | ["bgCompact", p] => do let p ← p.toNat?; pure (some (.bgCompact p))
  | [rm, p] => do
    let p ← p.toNat?
    match rm.splitOn "." with
    | ["db", m] => do let m ← parseDBm m; pure (some (.db m p))
    | ["tx", m] => do let m ← parseTxM m; pure (some (.tx m p))
    | [r, m] =>
      match parseSnapSt r with
      | some h => do let m ← parseSnapM m; pure (some (.snap h m p))
      | none => do let h ← parseIterSt r; let m ← parseIterM m; pure (some (.iter h m p))
    | _ => none
  -- variants such as `db.Get:miss:1`
  | [rm, v, p] => do
    let p ← p.toNat?
    match rm.splitOn "." with
    | ["db", m] => do let m ← parseDBm (m ++ ":" ++ v); pure (some (.db m p))
    | ["tx", m] => do let m ← parseTxM (m ++ ":" ++ v); pure (some (.tx m p))
    | [r, m] => do let h ← parseSnapSt r; let m ← parseSnapM (m ++ ":" ++ v); pure (some (.snap h m p))
    | _ => none
  | _ => none

/-- run with marks: the flag is reset at every mark -/
def runMarked (c : Cfg) : St → Bool → List (Option Ev) → St × Bool
  | s, f, [] => (s, f)
  | s, _, none :: es => runMarked c s false es
  | s, f, some e :: es =>
    let r := step c s e
    runMarked c r.st (f || nMut r.acts > 0) es

def idsStr (xs : List Nat) : String :=
  if xs.isEmpty then "-" else ",".intercalate (xs.map toString)

def handleLife : List String → Option String
  | ["obs", mode, recv, method, cls, n] => do
    let (md, txl) ← parseMode mode
    let c ← parseCls cls
    let n ← n.toNat?
    match ← lookup md txl recv method with
    | some o => pure (if o.conforms c n then "conform" else "deviate")
    | none => pure "unreachable"
  | "own" :: kind :: evs => do
    let k ← (match kind with | "excl" => some LockKind.exclusive | "shro" => some LockKind.sharedRO | _ => none)
    let es ← evs.mapM parseOwnEv
    let (s, cs) := Sys.run (Sys.init k) es
    pure (" ".intercalate (cs.map clsStr ++ ["owners=" ++ idsStr s.owners]))
  | "run" :: seeks :: mode :: bg :: frozen :: due :: tx :: evs => do
    let sk ← (match seeks with | "seeks" => some true | "noseeks" => some false | _ => none)
    let (md, _) ← parseMode mode
    let bg ← lifeBit bg
    let fr ← lifeBit frozen
    let due ← due.toNat?
    let tx ← parseTxSt tx
    let es ← evs.mapM parseRunEv
    let (s, f) := runMarked (codeCfg sk) ⟨md, bg, fr, due, 0, tx, false⟩ false es
    pure s!"{modeStr s.mode} frozen={b2n s.frozen} due={s.due} pins={s.pins} tx={txStr s.tx} {if f then "mut" else "nomut"}"
  | "quiet" :: seeks :: mode :: bg :: frozen :: due :: tx :: evs => do
    let sk ← (match seeks with | "seeks" => some true | "noseeks" => some false | _ => none)
    let (md, _) ← parseMode mode
    let bg ← lifeBit bg
    let fr ← lifeBit frozen
    let due ← due.toNat?
    let tx ← parseTxSt tx
    let es ← evs.mapM parseRunEv
    let (s, f) := runMarked (codeCfg sk) ⟨md, bg, fr, due, 0, tx, false⟩ false es
    pure s!"{modeStr s.mode} {if f then "mut" else "nomut"}"
  | [mode, recv, method] => do
    let (md, txl) ← parseMode mode
    match ← lookup md txl recv method with
    | some o => pure (outcomeStr o)
    | none => pure "unreachable"
  | _ => none

end GoLevel.Driver
