import GoLevel.Gen.Consts
/-! Model of `session.refLoop` (`leveldb/session_util.go`) — the goroutine that counts references to table
files and removes a table when its counter reaches zero (C07).

State = the loop's local variables.  `fileRef map[int64]int` (which holds only positive counters) is a
multiset: the list `fileRef` contains file `f` exactly `fileRef[f]` times.  `step` = one iteration of the
`for { processTasks(); select { … } }` loop seen from the message: the `select` case for the message, then
the `processTasks()` at the top of the next iteration.  The result lists the table numbers handed to
`tOps.remove`, in order.  A Go `panic` in the loop is `none`.

The 5-minute timer (`time.Since(ref[next].created) < maxCachedTime`) is the nondeterministic message
`expire vid`, which marks the reference task of version `vid` as older than `maxCachedTime`. -/
namespace GoLevel.RefLoop

structure Delta where
  added : List Nat
  deleted : List Nat
  deriving DecidableEq, Repr, Inhabited

structure State where
  fileRef : List Nat
  ref : List (Nat × List Nat)
  deltas : List (Nat × Delta)
  referenced : List Nat
  released : List (Nat × Option Delta)
  abandoned : List Nat
  old : List Nat
  next : Nat
  last : Nat
  deriving DecidableEq, Repr, Inhabited

def State.init : State :=
  { fileRef := [], ref := [], deltas := [], referenced := [], released := [], abandoned := [], old := [],
    next := 0, last := 0 }

inductive Msg
  /-- `t := <-s.refCh` : version `vid` got its first reference; `files` = its tables, level by level -/
  | ref (vid : Nat) (files : List Nat)
  /-- `d := <-s.deltaCh` : version `vid` was superseded -/
  | delta (vid : Nat) (d : Delta)
  /-- `t := <-s.relCh` : the last reference to version `vid` was dropped -/
  | rel (vid : Nat) (files : List Nat)
  /-- `id := <-s.abandon` -/
  | abandon (id : Nat)
  /-- the reference task of `vid` is now older than `maxCachedTime` -/
  | expire (vid : Nat)
  deriving DecidableEq, Repr, Inhabited

/-- `addFileRef(fnum, 1)` -/
def incr (m : List Nat) (f : Nat) : List Nat := f :: m

/-- `addFileRef(fnum, -1)`: the new map and the new counter; `none` = `panic("negative ref")`. -/
def decr (m : List Nat) (f : Nat) : Option (List Nat × Nat) :=
  if f ∈ m then some (m.erase f, (m.erase f).count f) else none

/-- `for … { if addFileRef(t, -1) == 0 { remove(t) } }` -/
def decrAll : List Nat → List Nat → Option (List Nat × List Nat)
  | m, [] => some (m, [])
  | m, t :: ts =>
    match decr m t with
    | none => none
    | some (m', c) =>
      match decrAll m' ts with
      | none => none
      | some (m'', rm) => some (m'', if c = 0 then t :: rm else rm)

def incrAll (m : List Nat) (fs : List Nat) : List Nat := fs.foldl incr m

/-- `applyDelta` -/
def applyDelta (m : List Nat) (d : Delta) : Option (List Nat × List Nat) :=
  decrAll (incrAll m d.added) d.deleted

/-- `skipAbandoned` then the first loop of `processTasks` (conversion of old / too many cached version tasks
into full references). -/
def convertLoop : Nat → State → Option (State × List Nat)
  | 0, s => some (s, [])
  | fuel + 1, s =>
    if s.next ∈ s.abandoned then
      convertLoop fuel { s with abandoned := s.abandoned.erase s.next, next := s.next + 1 }
    else if (s.released.lookup s.next).isSome then some (s, [])
    else
      match s.ref.lookup s.next with
      | none => some (s, [])
      | some files =>
        if s.last - s.next < Gen.maxCachedNumber ∧ s.next ∉ s.old then some (s, [])
        else
          let m1 := incrAll s.fileRef files
          let r := match s.deltas.lookup s.next with
            | some d => applyDelta m1 d
            | none => some (m1, [])
          match r with
          | none => none
          | some (m2, rm) =>
            let s1 : State := { s with
              fileRef := m2, referenced := s.next :: s.referenced,
              ref := s.ref.filter (fun p => p.1 != s.next),
              deltas := s.deltas.filter (fun p => p.1 != s.next),
              next := s.next + 1 }
            match convertLoop fuel s1 with
            | none => none
            | some (s', rm') => some (s', rm ++ rm')

/-- The second loop of `processTasks` (released versions, by delta). -/
def releaseLoop : Nat → State → Option (State × List Nat)
  | 0, s => some (s, [])
  | fuel + 1, s =>
    if s.next ∈ s.abandoned then
      releaseLoop fuel { s with abandoned := s.abandoned.erase s.next, next := s.next + 1 }
    else
      match s.released.lookup s.next with
      | none => some (s, [])
      | some od =>
        let r := match od with
          | some d => applyDelta s.fileRef d
          | none => some (s.fileRef, [])
        match r with
        | none => none
        | some (m, rm) =>
          let s1 : State := { s with
            fileRef := m, released := s.released.filter (fun p => p.1 != s.next), next := s.next + 1 }
          match releaseLoop fuel s1 with
          | none => none
          | some (s', rm') => some (s', rm ++ rm')

/-- `processTasks`: every iteration of either loop consumes an abandoned id, a referenced or a released
version, so this fuel suffices. -/
def processTasks (s : State) : Option (State × List Nat) :=
  match convertLoop (s.abandoned.length + s.ref.length + 1) s with
  | none => none
  | some (s1, rm1) =>
    match releaseLoop (s1.abandoned.length + s1.released.length + 1) s1 with
    | none => none
    | some (s2, rm2) => some (s2, rm1 ++ rm2)

/-- The `select` case of a message. -/
def handle (s : State) : Msg → Option (State × List Nat)
  | .ref vid files =>
    if (s.ref.lookup vid).isSome then none  -- panic("duplicate reference request")
    else some ({ s with ref := (vid, files) :: s.ref, last := if vid > s.last then vid else s.last }, [])
  | .delta vid d =>
    if (s.ref.lookup vid).isSome then some ({ s with deltas := (vid, d) :: s.deltas.filter (fun p => p.1 != vid) }, [])
    else if vid ∈ s.referenced then
      match applyDelta s.fileRef d with
      | none => none
      | some (m, rm) => some ({ s with fileRef := m }, rm)
    else none  -- panic("invalid release request")
  | .rel vid files =>
    if vid ∈ s.referenced then
      match decrAll s.fileRef files with
      | none => none
      | some (m, rm) => some ({ s with fileRef := m, referenced := s.referenced.filter (· != vid) }, rm)
    else if (s.ref.lookup vid).isSome then
      some ({ s with released := (vid, s.deltas.lookup vid) :: s.released.filter (fun p => p.1 != vid),
                     deltas := s.deltas.filter (fun p => p.1 != vid),
                     ref := s.ref.filter (fun p => p.1 != vid) }, [])
    else none  -- panic("invalid release request")
  | .abandon id =>
    if id ≥ s.next then some ({ s with abandoned := if id ∈ s.abandoned then s.abandoned else id :: s.abandoned }, [])
    else some (s, [])
  | .expire vid => some ({ s with old := vid :: s.old }, [])

/-- One message: its `select` case, then `processTasks()`. -/
def step (s : State) (m : Msg) : Option (State × List Nat) :=
  match handle s m with
  | none => none
  | some (s1, rm1) =>
    match processTasks s1 with
    | none => none
    | some (s2, rm2) => some (s2, rm1 ++ rm2)

/-- A whole message history: final state and every removal, in order. -/
def run : State → List Msg → Option (State × List Nat)
  | s, [] => some (s, [])
  | s, m :: ms =>
    match step s m with
    | none => none
    | some (s', rm) =>
      match run s' ms with
      | none => none
      | some (s'', rm') => some (s'', rm ++ rm')

end GoLevel.RefLoop
