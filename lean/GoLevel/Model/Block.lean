import GoLevel.Model.Bytes
/-!
# Table blocks (`table/writer.go: blockWriter`, `table/reader.go: block, blockIter`)

A block is a run of prefix-compressed entries followed by the restart array (LE32 offsets) and the
restart count (LE32).  The writer is a state machine (`BlockWriter`); the reader works on
`rest = data[offset:]` and `lim = restartsOffset - offset`, i.e. exactly the slice expressions and the
offset arithmetic of `block.entry` / `blockIter.Next`, with the absolute offset factored out.

Divergence on malformed input (never on writer output): wherever the Go code would slice out of range
(panic), read stale capacity of its key buffer, or overflow `int`, the model answers `none`
(= "corrupted"), the same value it gives where Go reports `ErrCorrupted`.
-/
namespace GoLevel

abbrev KV := Bytes × Bytes

/-- `sharedPrefixLen` -/
def sharedPrefixLen : Bytes → Bytes → Nat
  | x :: xs, y :: ys => if x = y then sharedPrefixLen xs ys + 1 else 0
  | _, _ => 0

/-- `blockWriter` (the scratch buffer is not state) -/
structure BlockWriter where
  restartInterval : Nat
  buf      : Bytes := []
  nEntries : Nat := 0
  prevKey  : Bytes := []
  restarts : List Nat := []

namespace BlockWriter

/-- the bytes of one entry: three uvarints, the unshared key suffix, the value -/
def encEntry (nShared : Nat) (key value : Bytes) : Bytes :=
  uvarint nShared ++ (uvarint (key.length - nShared) ++ (uvarint value.length ++ (key.drop nShared ++ value)))

/-- `blockWriter.append` -/
def append (w : BlockWriter) (key value : Bytes) : BlockWriter :=
  if w.nEntries % w.restartInterval = 0 then
    { w with
      restarts := w.restarts ++ [w.buf.length]
      buf := w.buf ++ encEntry 0 key value
      prevKey := key
      nEntries := w.nEntries + 1 }
  else
    { w with
      buf := w.buf ++ encEntry (sharedPrefixLen w.prevKey key) key value
      prevKey := key
      nEntries := w.nEntries + 1 }

/-- the restart array as `blockWriter.finish` completes it (one restart `0` for an empty block, then the count) -/
def finishRestarts (w : BlockWriter) : List Nat :=
  let rs := if w.nEntries = 0 then w.restarts ++ [0] else w.restarts
  rs ++ [rs.length]

/-- `blockWriter.finish`: the block contents (before the 5-byte trailer that `Writer.writeBlock` adds);
`uint32(...)` truncation is `le32` -/
def finish (w : BlockWriter) : Bytes :=
  w.buf ++ w.finishRestarts.flatMap le32

/-- `blockWriter.reset` (keeps `prevKey`, as the code does) -/
def reset (w : BlockWriter) : BlockWriter :=
  { w with buf := [], nEntries := 0, restarts := [] }

/-- `blockWriter.bytesLen` -/
def bytesLen (w : BlockWriter) : Nat :=
  w.buf.length + 4 * (if w.restarts.length = 0 then 1 else w.restarts.length) + 4

def appendAll (w : BlockWriter) (kvs : List KV) : BlockWriter :=
  kvs.foldl (fun w kv => w.append kv.1 kv.2) w

end BlockWriter

/-- a whole block from a fresh `blockWriter` -/
def Block.build (restartInterval : Nat) (kvs : List KV) : Bytes :=
  (BlockWriter.appendAll { restartInterval := restartInterval } kvs).finish

/-- `block` as `Reader.readBlock` sets it up -/
structure BlockR where
  data : Bytes
  restartsLen : Nat
  restartsOffset : Nat

/-- the tail of `Reader.readBlock`.  `none` where Go would slice out of range (`len(data) < 4`) or would
compute a negative `restartsOffset` (then `Next` reports "entries offset not aligned" and `seek` panics). -/
def Block.read (data : Bytes) : Option BlockR :=
  if data.length < 4 then none
  else
    let rl := rd32 (data.drop (data.length - 4))
    if (rl + 1) * 4 > data.length then none
    else some ⟨data, rl, data.length - (rl + 1) * 4⟩

/-- `block.entry(offset)` for `offset < restartsOffset`, on `rest = data[offset:]`, `lim = restartsOffset - offset`:
`(nShared, key suffix, value, n)` -/
def Block.entry (rest : Bytes) (lim : Nat) : Option (Nat × Bytes × Bytes × Nat) :=
  match readUvarint rest with
  | none => none
  | some (v0, n0) =>
    match readUvarint (rest.drop n0) with
    | none => none
    | some (v1, n1) =>
      match readUvarint (rest.drop (n0 + n1)) with
      | none => none
      | some (v2, n2) =>
        if n0 + n1 + n2 + v1 + v2 > lim then none
        else some (v0, (rest.drop (n0 + n1 + n2)).take v1, (rest.drop (n0 + n1 + n2 + v1)).take v2,
                   n0 + n1 + n2 + v1 + v2)

/-- position of a `blockIter` after a successful `Next`: current pair and what is left -/
structure Cursor where
  key : Bytes
  value : Bytes
  rest : Bytes
  lim : Nat

/-- one `blockIter.Next` (unsliced iterator): `some none` = end of block, `none` = corrupted.
`prev` is the iterator's key buffer. -/
def Block.step (rest : Bytes) (lim : Nat) (prev : Bytes) : Option (Option Cursor) :=
  if lim = 0 then some none
  else
    match Block.entry rest lim with
    | none => none
    | some (sh, ks, v, n) =>
      if sh > prev.length then none
      else some (some ⟨prev.take sh ++ ks, v, rest.drop n, lim - n⟩)

/-- `for it.Next() { collect }`; fuel `lim + 1` suffices (every entry takes at least 3 bytes) -/
def Block.scan : Nat → Bytes → Nat → Bytes → Option (List KV)
  | 0, _, _, _ => none
  | fuel + 1, rest, lim, prev =>
    match Block.step rest lim prev with
    | none => none
    | some none => some []
    | some (some c) =>
      match Block.scan fuel c.rest c.lim c.key with
      | none => none
      | some tl => some ((c.key, c.value) :: tl)

def BlockR.entries (b : BlockR) : Option (List KV) :=
  Block.scan (b.restartsOffset + 1) b.data b.restartsOffset []

/-- all pairs of a block, as a fresh unsliced `blockIter` yields them with `Next` -/
def Block.decode (bs : Bytes) : Option (List KV) :=
  match Block.read bs with
  | none => none
  | some b => b.entries

/-- `block.restartOffset` -/
def BlockR.restartOffset (b : BlockR) (i : Nat) : Nat :=
  rd32 (b.data.drop (b.restartsOffset + 4 * i))

/-- the key stored at restart point `i`, as the closure inside `block.seek` reads it
(skips one byte for the shared length, reads key length and value length, slices the key) -/
def BlockR.restartKey (b : BlockR) (i : Nat) : Option Bytes :=
  let off := b.restartOffset i + 1
  match readUvarint (b.data.drop off) with
  | none => none
  | some (v1, n1) =>
    match readUvarint (b.data.drop (off + n1)) with
    | none => none
    | some (_, n2) =>
      if off + n1 + n2 + v1 > b.data.length then none
      else some ((b.data.drop (off + n1 + n2)).take v1)

/-- the loop of `sort.Search`; `fuel ≥ j - i` suffices -/
def searchLoop (f : Nat → Option Bool) : Nat → Nat → Nat → Option Nat
  | 0, i, j => if i < j then none else some i
  | fuel + 1, i, j =>
    if i < j then
      let h := (i + j) / 2
      match f h with
      | none => none
      | some false => searchLoop f fuel (h + 1) j
      | some true => searchLoop f fuel i h
    else some i

/-- `sort.Search(n, f)` -/
def sortSearch (n : Nat) (f : Nat → Option Bool) : Option Nat := searchLoop f n 0 n

/-- `block.seek(cmp, 0, restartsLen, key)`: `(index, offset)` -/
def BlockR.seekRestart (cmp : Bytes → Bytes → Ordering) (b : BlockR) (key : Bytes) : Option (Nat × Nat) :=
  match sortSearch b.restartsLen (fun i => (b.restartKey i).map fun k => cmp k key == .gt) with
  | none => none
  | some r => some (r - 1, b.restartOffset (r - 1))

/-- `for i.Next() { if cmp(i.key, key) >= 0 { return true } }` -/
def Block.scanSeek (cmp : Bytes → Bytes → Ordering) (key : Bytes) :
    Nat → Bytes → Nat → Bytes → Option (Option Cursor)
  | 0, _, _, _ => none
  | fuel + 1, rest, lim, prev =>
    match Block.step rest lim prev with
    | none => none
    | some none => some none
    | some (some c) =>
      if cmp c.key key ≠ .lt then some (some c)
      else Block.scanSeek cmp key fuel c.rest c.lim c.key

/-- `blockIter.Seek` on a fresh unsliced iterator -/
def BlockR.seekCursor (cmp : Bytes → Bytes → Ordering) (b : BlockR) (key : Bytes) : Option (Option Cursor) :=
  match b.seekRestart cmp key with
  | none => none
  | some (_, off) =>
    if off > b.restartsOffset then none      -- "entries offset not aligned"
    else Block.scanSeek cmp key (b.restartsOffset - off + 1) (b.data.drop off) (b.restartsOffset - off) []

/-- first entry `≥ key` of a block (outer `none`: corrupted) -/
def Block.seek (cmp : Bytes → Bytes → Ordering) (bs : Bytes) (key : Bytes) : Option (Option KV) :=
  match Block.read bs with
  | none => none
  | some b => (b.seekCursor cmp key).map fun r => r.map fun c => (c.key, c.value)

end GoLevel
