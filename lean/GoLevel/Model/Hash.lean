import GoLevel.Model.Bytes
import GoLevel.Gen.Consts
/-!
# `util.Hash` (`leveldb/util/hash.go`)

The murmur-like 32-bit hash used by the Bloom filter.  All arithmetic is on `UInt32` (wrap-around, as Go's
`uint32`); the two constants come from the generated `Gen.hashM` / `Gen.hashR`.
-/
namespace GoLevel

/-- `m` of `util.Hash` -/
def hashM32 : UInt32 := Gen.hashM.toUInt32
/-- `r` of `util.Hash` -/
def hashR32 : UInt32 := Gen.hashR.toUInt32

/-- `binary.LittleEndian.Uint32` of four bytes -/
def leWord (b0 b1 b2 b3 : UInt8) : UInt32 :=
  b0.toUInt32 ||| (b1.toUInt32 <<< 8) ||| (b2.toUInt32 <<< 16) ||| (b3.toUInt32 <<< 24)

/-- the closing step shared by the `case 3/2/1` arms: `h *= m; h ^= h >> r` -/
def hashFin (h : UInt32) : UInt32 :=
  let h := h * hashM32
  h ^^^ (h >>> hashR32)

/-- The word loop of `util.Hash` followed by its `switch len(data)-i` (cases 3 and 2 fall through):
    the list is consumed four bytes at a time; fewer than four remaining bytes are the tail. -/
def hashLoop : UInt32 → Bytes → UInt32
  | h, b0 :: b1 :: b2 :: b3 :: rest =>
    let h := h + leWord b0 b1 b2 b3
    let h := h * hashM32
    let h := h ^^^ (h >>> 16)
    hashLoop h rest
  | h, [b0, b1, b2] =>
    let h := h + (b2.toUInt32 <<< 16)
    let h := h + (b1.toUInt32 <<< 8)
    hashFin (h + b0.toUInt32)
  | h, [b0, b1] =>
    let h := h + (b1.toUInt32 <<< 8)
    hashFin (h + b0.toUInt32)
  | h, [b0] => hashFin (h + b0.toUInt32)
  | h, [] => h

/-- `util.Hash(data, seed)`; `uint32(len(data))` is the length modulo 2^32 -/
def hash (data : Bytes) (seed : UInt32) : UInt32 :=
  hashLoop (seed ^^^ (data.length.toUInt32 * hashM32)) data

end GoLevel
