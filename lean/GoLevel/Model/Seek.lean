import GoLevel.Model.LSM
/-!
# Which tables a lookup consults, and which one it charges (`version.go`: `walkOverlapping`, `version.get`)

`version.get` walks the version with `walkOverlapping` and remembers the FIRST table of the version it consults
(`tset`); when it has to consult a second one, the first is charged a seek (`consumeSeek`), and a table whose
allowance is used up becomes the version's seek-compaction candidate `v.cSeek` — the table `pickCompaction` starts
from when no level is over its limit (`Pick.PickState.cSeek`).

`visits` is the sequence of (level, table) pairs of the VERSION that `get` hands to its callback, in order, for a
lookup without read errors: the auxiliary (transaction) tables come first with level -1 and are not part of it; a
hit among them ends the walk before the version is touched; level 0 yields every table whose range contains the
user key, and a hit there ends the walk after level 0; a deeper level yields at most the one table `searchMax`
finds, and a hit there ends the walk.  Core Lean only.
-/
namespace GoLevel.Seek
open GoLevel

/-- level 0 of `walkOverlapping`: every table whose range contains the user key, in list order -/
def l0Visits (c : UCmp) (l0 : Level) (k : Bytes) : List Table := l0.filter (·.overlapsKey c k)

/-- a level ≥ 1 of `walkOverlapping`: `tables[searchMax(ikey)]` when `ukey ≥ imin.ukey` -/
def levelVisit (c : UCmp) (tables : Level) (k : Bytes) (s : Nat) : Option Table :=
  match searchMax c tables (probe k s) with
  | some t => if c.cmp k t.imin.ukey != .lt then some t else none
  | none => none

/-- levels `lvl, lvl+1, …`: the walk ends with the first table that holds the user key -/
def deeperVisits (c : UCmp) : Nat → List Level → Bytes → Nat → List (Nat × Table)
  | _, [], _, _ => []
  | lvl, l :: ls, k, s =>
    match levelVisit c l k s with
    | some t =>
      match tableProbe c t k s with
      | some _ => [(lvl, t)]
      | none => (lvl, t) :: deeperVisits c (lvl + 1) ls k s
    | none => deeperVisits c (lvl + 1) ls k s

/-- the tables of the version `version.get(aux, ikey)` consults, in order -/
def visits (c : UCmp) (aux : Level) (v : Version) (k : Bytes) (s : Nat) : List (Nat × Table) :=
  match l0Get c aux k s with
  | some _ => []
  | none =>
    match v.levels with
    | [] => []
    | l0 :: rest =>
      (l0Visits c l0 k).map (fun t => (0, t)) ++
        (match l0Get c l0 k s with
         | some _ => []
         | none => deeperVisits c 1 rest k s)

/-- `tset` when `tseek` is set: the first table consulted, charged because a second one had to be consulted -/
def seekCharge (c : UCmp) (aux : Level) (v : Version) (k : Bytes) (s : Nat) : Option (Nat × Table) :=
  match visits c aux v k s with
  | a :: _ :: _ => some a
  | _ => none

end GoLevel.Seek
