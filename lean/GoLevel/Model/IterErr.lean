import GoLevel.Model.Iter
/-!
# The error paths of the iterator stack (properties C02 / C08)

`Model/Iter.lean` models `indexedIterator`, `mergedIterator` and `dbIter` over children that never fail.
This file adds what the Go code does when a child iterator fails:

* `Err`, `EIterOps`: an iterator that also has `Error()`;
* `FailChild`: a child iterator that fails at one chosen movement and is dead from then on (what `blockIter`
  after `sErr`, `emptyIterator` with an error and a strict `indexedIterator` do: every later movement returns
  `false`, `Valid()` is `false`, `Key()`/`Value()` are `nil`, `Error()` keeps returning the error);
* `EIndexed` — `leveldb/iterator/indexed_iter.go` with `dataErr`, `i.err`, `errf`;
* `EMerged`  — `leveldb/iterator/merged_iter.go` with `iterErr`, `i.err`, `errf`, `strict`;
* `EDBIter`  — `leveldb/db_iter.go` with `setErr`/`iterErr`.

`strict` is `opt.GetStrict(o, ro, opt.StrictReader)` (`db_iter.go` `newRawIterator`/`newIterator`,
`version.go` `getIterators`, `table/reader.go` `NewIterator`); it is on by default
(`opt.DefaultStrict` contains `StrictReader`).

The step functions are built from the error-free ones of `Model/Iter.lean`: a method that did not hit a failing
child does literally what the old definition does (`Proofs/IterErrMerged.lean`, `…Indexed`, `…DB` prove
the coincidence), so the C02 theorems keep applying up to the first failure.

Not modelled: errors of the index iterator (`indexErr`; the index is an in-memory array or the table's
index block read at open), internal keys that do not parse (`kerr`, the only use of `dbIter.strict`),
`Release` of children.  Core Lean only.
-/
namespace GoLevel

/-- error classes: `errors.IsCorrupted(err)` (a block that fails its checksum, a malformed block), any other
error (I/O), `iterator.ErrIterReleased` -/
inductive Err
  | corrupted
  | io
  | released
deriving DecidableEq, Repr

/-- `errors.IsCorrupted` -/
def Err.isCorrupted : Err → Bool
  | .corrupted => true
  | _ => false

/-- an iterator with `Error()` -/
structure EIterOps (σ : Type) extends IterOps σ where
  err : σ → Option Err

/-- what the caller observes after each call: the pair under the cursor (`none` = the call returned
`false`) and `Error()` -/
def EIterOps.run {σ : Type} (o : EIterOps σ) : σ → List (Call IKey) → List (Option Entry × Option Err)
  | _, [] => []
  | s, cl :: cs => let s' := o.toIterOps.step cl s; (o.cur s', o.err s') :: o.run s' cs

/-- an iterator that never fails -/
def IterOps.noErr {σ : Type} (o : IterOps σ) : EIterOps σ := { o with err := fun _ => none }

/-! ## a child that fails -/

/-- a child iterator over `inner` that fails at movement number `plan.1` (counted from 0 over all of
`First/Last/Seek/Next/Prev`) with error `plan.2` -/
structure FailChild (σ : Type) where
  inner : σ
  moves : Nat
  plan  : Option (Nat × Err)
  err   : Option Err

namespace FailChild
variable {σ : Type}

def new (s : σ) (plan : Option (Nat × Err)) : FailChild σ := ⟨s, 0, plan, none⟩

/-- one movement: `if i.err != nil { return false }`; the planned movement sets the error (`sErr`) and
returns `false`; any other one is the inner iterator's -/
def move (f : σ → σ) (x : FailChild σ) : FailChild σ :=
  if x.err.isSome then x
  else
    match x.plan with
    | some (k, e) =>
      if k = x.moves then { x with moves := x.moves + 1, err := some e }
      else { x with inner := f x.inner, moves := x.moves + 1 }
    | none => { x with inner := f x.inner, moves := x.moves + 1 }

def ops (o : IterOps σ) : EIterOps (FailChild σ) where
  first := move o.first
  last := move o.last
  seek k := move (o.seek k)
  next := move o.next
  prev := move o.prev
  cur x := if x.err.isSome then none else o.cur x.inner
  err x := x.err

end FailChild

/-! ## `indexedIterator` with `dataErr`

The index is an `arrayIteratorIndexer`; `Get()` makes a fresh data iterator, which fails as its block says
(`plan = some (0, e)`: the block cannot be read — `Reader.getDataIter` returns `NewEmptyIterator(err)`, whose
first movement returns `false` with `Error() = err`). -/

structure EIdxChild where
  sep  : IKey
  es   : List Entry
  plan : Option (Nat × Err)
deriving Repr

structure EIndexed where
  children : List EIdxChild
  ipos   : Pos
  data   : Option (FailChild ArrIter)
  strict : Bool
  err    : Option Err
  /-- the errors handed to the error callback `errf`, oldest first -/
  errf   : List Err

namespace EIndexed

def new (children : List EIdxChild) (strict : Bool) : EIndexed := ⟨children, .soi, none, strict, none, []⟩

abbrev dops (c : UCmp) : EIterOps (FailChild ArrIter) := FailChild.ops (ArrIter.ops c)

def indexOk (x : EIndexed) : Bool := (Cursor.get x.children x.ipos).isSome

/-- `setData` -/
def setData (x : EIndexed) : EIndexed :=
  { x with data := (Cursor.get x.children x.ipos).map fun ch => FailChild.new ⟨ch.es, .soi⟩ ch.plan }

def clearData (x : EIndexed) : EIndexed := { x with data := none }

/-- `dataErr`: the new state and the returned Boolean -/
def dataErr (x : EIndexed) : EIndexed × Bool :=
  match x.data.bind (·.err) with
  | none => (x, false)
  | some e =>
    if x.strict || !e.isCorrupted then ({ x with err := some e, errf := x.errf ++ [e] }, true)
    else ({ x with errf := x.errf ++ [e] }, false)

/-- `Valid()`/`Key()`/`Value()`: `i.data != nil && i.data.Valid()` — `i.err` is not consulted -/
def cur (c : UCmp) (x : EIndexed) : Option Entry := x.data.bind (dops c).cur

/-- `Next` after its guard (`fuel` as in `IndexedIter.nextF`; the guard of the recursive `return i.Next()`
is passed because `i.err` is still nil there) -/
def nextF (c : UCmp) : Nat → EIndexed → EIndexed
  | 0, x => x
  | fuel + 1, x =>
    let advance (x : EIndexed) : EIndexed :=
      let x := { x with ipos := Cursor.next x.children x.ipos }
      if !x.indexOk then x else nextF c fuel x.setData
    match x.data with
    | some a =>
      let a' := (dops c).next a
      if (dops c).ok a' then { x with data := some a' }
      else
        let r := dataErr { x with data := some a' }
        if r.2 then r.1 else advance r.1.clearData
    | none => advance x

/-- `Prev` after its guard -/
def prevF (c : UCmp) : Nat → EIndexed → EIndexed
  | 0, x => x
  | fuel + 1, x =>
    let retreat (x : EIndexed) : EIndexed :=
      let x := { x with ipos := Cursor.prev x.children x.ipos }
      if !x.indexOk then x
      else
        let x := x.setData
        match x.data with
        | some a =>
          let a' := (dops c).last a
          if (dops c).ok a' then { x with data := some a' }
          else
            let r := dataErr { x with data := some a' }
            if r.2 then r.1 else prevF c fuel r.1.clearData
        | none => x
    match x.data with
    | some a =>
      let a' := (dops c).prev a
      if (dops c).ok a' then { x with data := some a' }
      else
        let r := dataErr { x with data := some a' }
        if r.2 then r.1 else retreat r.1.clearData
    | none => retreat x

def fuel (x : EIndexed) : Nat := x.children.length + 2

/-- the guard every method starts with: `if i.err != nil { return false }` (`Released()` is not modelled) -/
def guard (x : EIndexed) (k : EIndexed → EIndexed) : EIndexed := if x.err.isSome then x else k x

def next (c : UCmp) (x : EIndexed) : EIndexed := guard x fun x => nextF c x.fuel x
def prev (c : UCmp) (x : EIndexed) : EIndexed := guard x fun x => prevF c x.fuel x

def first (c : UCmp) (x : EIndexed) : EIndexed := guard x fun x =>
  let x := { x with ipos := Cursor.first x.children }
  if !x.indexOk then x.clearData else nextF c x.fuel x.setData

def last (c : UCmp) (x : EIndexed) : EIndexed := guard x fun x =>
  let x := { x with ipos := Cursor.last x.children }
  if !x.indexOk then x.clearData
  else
    let x := x.setData
    match x.data with
    | some a =>
      let a' := (dops c).last a
      if (dops c).ok a' then { x with data := some a' }
      else
        let r := dataErr { x with data := some a' }
        if r.2 then r.1 else prevF c x.fuel r.1.clearData
    | none => x

def seek (c : UCmp) (k : IKey) (x : EIndexed) : EIndexed := guard x fun x =>
  let x := { x with ipos := Cursor.seek x.children (fun ch => icmp c ch.sep k != Ordering.lt) }
  if !x.indexOk then x.clearData
  else
    let x := x.setData
    match x.data with
    | some a =>
      let a' := (dops c).seek k a
      if (dops c).ok a' then { x with data := some a' }
      else
        let r := dataErr { x with data := some a' }
        if r.2 then r.1 else nextF c x.fuel r.1.clearData
    | none => x

def ops (c : UCmp) : EIterOps EIndexed where
  first := first c
  last := last c
  seek := seek c
  next := next c
  prev := prev c
  cur := cur c
  err x := x.err

end EIndexed

/-! ## `mergedIterator` with `iterErr` -/

structure EMerged (σ : Type) where
  base   : MergedIter σ
  strict : Bool
  err    : Option Err
  /-- the errors handed to the error callback `errf`, oldest first -/
  errf   : List Err

namespace EMerged
variable {σ : Type}
open MergedIter (keyAt keyOf)

def new (iters : List σ) (strict : Bool) : EMerged σ := ⟨MergedIter.new iters, strict, none, []⟩

/-- the loop `for x, iter := range i.iters { switch { case iter.Move(): …; case i.iterErr(iter): return false;
default: … } }` of `First`/`Last`/`Seek` and of `Prev`'s `case dirForward:`, from child `x` on.  `g x s` is the
moved child, `none` for `continue` (the current child in `Prev`).  Result: the children (moved up to and
including the one whose `iterErr` returned `true`), the errors handed to `errf`, and the error of the
`return false`, if any. -/
def moveLoop (o : EIterOps σ) (strict : Bool) (g : Nat → σ → Option σ) :
    Nat → List σ → List σ × List Err × Option Err
  | _, [] => ([], [], none)
  | x, s :: rest =>
    let r := moveLoop o strict g (x + 1) rest
    match g x s with
    | none => (s :: r.1, r.2.1, r.2.2)
    | some s' =>
      if o.ok s' then (s' :: r.1, r.2.1, r.2.2)
      else
        match o.err s' with
        | none => (s' :: r.1, r.2.1, r.2.2)
        | some e =>
          if strict || !e.isCorrupted then (s' :: rest, [e], some e)
          else (s' :: r.1, e :: r.2.1, r.2.2)

/-- `h.Reset(rev)` + the loop + (`heap.Init`): the body shared by `First`, `Last`, `Seek`.  When the loop
returns early the Go fields `keys`/`indexes` are left half updated; no method reads them once `i.err` is set,
the model leaves `keys` alone and empties the heap. -/
def resetAllE (o : EIterOps σ) (rev : Bool) (f : σ → σ) (m : EMerged σ) : EMerged σ :=
  let r := moveLoop o m.strict (fun _ s => some (f s)) 0 m.base.iters
  match r.2.2 with
  | some e =>
    { m with base := { m.base with iters := r.1, reverse := rev, heap := [] },
             err := some e, errf := m.errf ++ r.2.1 }
  | none =>
    let keys := r.1.map (keyOf o.toIterOps)
    { m with base := { m.base with iters := r.1, keys := keys, reverse := rev,
                                   heap := (List.range r.1.length).filter fun x => (keyAt keys x).isSome },
             errf := m.errf ++ r.2.1 }

def first (o : EIterOps σ) (c : UCmp) (m : EMerged σ) : EMerged σ :=
  if m.err.isSome then m
  else if m.base.dir = .released then { m with err := some .released }
  else
    let m := resetAllE o false o.first m
    if m.err.isSome then m else { m with base := MergedIter.popNext c { m.base with dir := .soi } }

def last (o : EIterOps σ) (c : UCmp) (m : EMerged σ) : EMerged σ :=
  if m.err.isSome then m
  else if m.base.dir = .released then { m with err := some .released }
  else
    let m := resetAllE o true o.last m
    if m.err.isSome then m else { m with base := MergedIter.popPrev c { m.base with dir := .eoi } }

def seek (o : EIterOps σ) (c : UCmp) (k : IKey) (m : EMerged σ) : EMerged σ :=
  if m.err.isSome then m
  else if m.base.dir = .released then { m with err := some .released }
  else
    let m := resetAllE o false (o.seek k) m
    if m.err.isSome then m else { m with base := MergedIter.popNext c { m.base with dir := .soi } }

/-- the tail of `Next`/`Prev`: `iter := i.iters[i.index]; switch { case iter.Move(): keys[x] = …; heap.Push;
case i.iterErr(iter): return false; default: keys[x] = nil }` -/
def stepIndexE (o : EIterOps σ) (f : σ → σ) (m : EMerged σ) : EMerged σ :=
  match m.base.iters[m.base.index]? with
  | none => m
  | some s =>
    let s' := f s
    let moved : EMerged σ := { m with base := MergedIter.stepIndex o.toIterOps f m.base }
    if o.ok s' then moved
    else
      match o.err s' with
      | none => moved
      | some e =>
        if m.strict || !e.isCorrupted then
          { m with base := { m.base with iters := m.base.iters.set m.base.index s' },
                   err := some e, errf := m.errf ++ [e] }
        else { moved with errf := m.errf ++ [e] }

/-- `… ; return i.next()` -/
def tailNext (o : EIterOps σ) (c : UCmp) (m : EMerged σ) : EMerged σ :=
  let m := stepIndexE o o.next m
  if m.err.isSome then m else { m with base := MergedIter.popNext c m.base }

/-- `… ; return i.prev()` -/
def tailPrev (o : EIterOps σ) (c : UCmp) (m : EMerged σ) : EMerged σ :=
  let m := stepIndexE o o.prev m
  if m.err.isSome then m else { m with base := MergedIter.popPrev c m.base }

def next (o : EIterOps σ) (c : UCmp) (m : EMerged σ) : EMerged σ :=
  if m.base.dir = .eoi ∨ m.err.isSome then m
  else
    match m.base.dir with
    | .released => { m with err := some .released }
    | .soi => first o c m
    | .backward =>
      match keyAt m.base.keys m.base.index with
      | none => m
      | some key =>
        let m := seek o c key m                       -- `if !i.Seek(key) { return false }`
        if m.err.isSome || !m.base.dir.valid then m else tailNext o c m   -- `return i.Next()`
    | _ => tailNext o c m

/-- what the loop of `Prev`'s `case dirForward:` does with child `x`: `if x == i.index { continue }`;
`seek := iter.Seek(key)`, then `iter.Prev()` if `seek`, else `iter.Last()` -/
def turnG (o : IterOps σ) (key : IKey) (index : Nat) (x : Nat) (s : σ) : Option σ :=
  if x = index then none
  else
    let s1 := o.seek key s
    some (if o.ok s1 then o.prev s1 else o.last s1)

/-- the `case dirForward:` block of `Prev` (`case seek && iter.Prev(), !seek && iter.Last(): …;
case i.iterErr(iter): return false`) -/
def turnBackE (o : EIterOps σ) (key : IKey) (m : EMerged σ) : EMerged σ :=
  let r := moveLoop o m.strict (turnG o.toIterOps key m.base.index) 0 m.base.iters
  match r.2.2 with
  | some e =>
    { m with base := { m.base with iters := r.1, reverse := true, heap := [] },
             err := some e, errf := m.errf ++ r.2.1 }
  | none =>
    let keys := r.1.mapIdx fun x s => if x = m.base.index then keyAt m.base.keys x else keyOf o.toIterOps s
    { m with base := { m.base with iters := r.1, keys := keys, reverse := true,
                                   heap := (List.range r.1.length).filter fun x =>
                                     x ≠ m.base.index && (keyAt keys x).isSome },
             errf := m.errf ++ r.2.1 }

def prev (o : EIterOps σ) (c : UCmp) (m : EMerged σ) : EMerged σ :=
  if m.base.dir = .soi ∨ m.err.isSome then m
  else
    match m.base.dir with
    | .released => { m with err := some .released }
    | .eoi => last o c m
    | .forward =>
      match keyAt m.base.keys m.base.index with
      | none => m
      | some key =>
        let m := turnBackE o key m
        if m.err.isSome then m else tailPrev o c m
    | _ => tailPrev o c m

/-- `Key()`/`Value()`: `nil` when `i.err != nil || i.dir <= dirEOI` -/
def cur (o : EIterOps σ) (m : EMerged σ) : Option Entry :=
  if m.err.isSome then none else MergedIter.cur o.toIterOps m.base

def ops (o : EIterOps σ) (c : UCmp) : EIterOps (EMerged σ) where
  first := first o c
  last := last o c
  seek := seek o c
  next := next o c
  prev := prev o c
  cur := cur o
  err m := m.err

end EMerged

/-! ## `dbIter` with `setErr`/`iterErr`

Every path of `First`/`Last`/`Seek`/`Next`/`Prev` that returns `false` after having touched the raw iterator
ends with `i.iterErr()` (`First`, `Seek`: the `else` branch and the only `false` exit of `next()`; `Last`: the
`else` branch and the `del` exit of `prev()`; `Next`: both exits; `Prev`: the end of the `for i.iter.Prev()`
loop and `prev()`), and nothing happens between the failing raw movement and that call; the paths that
return `true` never call it — except, since the repair of D40, the last exit of `prev()` (see `step`).  So each
method is the error-free one followed by `iterErr()` when it returned `false`.  The guards `i.err != nil` (all five) and `i.dir == dirEOI` (`Next`) / `dirSOI` (`Prev`) return
before anything else. -/

structure EDBIter (σ : Type) where
  base : DBIter σ
  err  : Option Err

namespace EDBIter
variable {σ : Type}

def new (raw : σ) (seq fuel : Nat) : EDBIter σ := ⟨DBIter.new raw seq fuel, none⟩

/-- `setErr` -/
def setErr (e : Err) (d : EDBIter σ) : EDBIter σ :=
  { base := { d.base with key := [], value := [] }, err := some e }

/-- `iterErr` -/
def iterErr (o : EIterOps σ) (d : EDBIter σ) : EDBIter σ :=
  match o.err d.base.raw with
  | some e => setErr e d
  | none => d

/-- does the call end in `prev()` (`Last`, `Prev`)? -/
def viaPrev : Call Bytes → Bool
  | .last => true
  | .prev => true
  | _ => false

/-- the guards `i.dir == dirEOI` of `Next` and `i.dir == dirSOI` of `Prev` -/
def atEnd (cl : Call Bytes) (d : EDBIter σ) : Bool :=
  match cl with
  | .next => d.base.dir = .eoi
  | .prev => d.base.dir = .soi
  | _ => false

/-- what the method does after the error-free part has produced `b`: `iterErr()` on the paths that return
`false`.  `chk` = `Gen.iterPrevChecksErr`: the last exit of `prev()` — the loop was left because
`i.iter.Prev()` returned `false` while a candidate is held — is `if i.iterErr(); i.err != nil { return false };
return true` (`true`, the code since the repair of D40) or just `return true` (`false`, the code as found: a
raw iterator that failed there went unnoticed until the next call). -/
def finish (chk : Bool) (o : EIterOps σ) (cl : Call Bytes) (d : EDBIter σ) (b : DBIter σ) : EDBIter σ :=
  if b.dir.valid then
    if chk && viaPrev cl && !o.ok b.raw then iterErr o { d with base := b } else { d with base := b }
  else iterErr o { d with base := b }

/-- one call -/
def step (chk : Bool) (o : EIterOps σ) (c : UCmp) (cl : Call Bytes) (d : EDBIter σ) : EDBIter σ :=
  if d.err.isSome then d
  else if atEnd cl d then d
  else if d.base.dir = .released then { d with err := some .released }
  else finish chk o cl d (DBIter.step o.toIterOps c cl d.base)

/-- `Valid()`, `Key()`, `Value()` -/
def out (d : EDBIter σ) : Option (Bytes × Bytes) := if d.err.isSome then none else d.base.out

/-- what the caller observes after each call: the pair (`none` = `false`) and `Error()` -/
def run (chk : Bool) (o : EIterOps σ) (c : UCmp) :
    EDBIter σ → List (Call Bytes) → List (Option (Bytes × Bytes) × Option Err)
  | _, [] => []
  | d, cl :: cs => let d' := step chk o c cl d; (d'.out, d'.err) :: run chk o c d' cs

end EDBIter

/-! ## children of the raw iterator that can fail -/

/-- a memdb / level-0 table iterator that fails as a whole (`arr`), or an indexed iterator whose blocks fail
(`idx`) -/
inductive ENode
  | arr (a : FailChild ArrIter)
  | idx (x : EIndexed)

def ENode.ops (c : UCmp) : EIterOps ENode where
  first | .arr a => .arr ((EIndexed.dops c).first a) | .idx x => .idx (x.first c)
  last  | .arr a => .arr ((EIndexed.dops c).last a)  | .idx x => .idx (x.last c)
  seek k | .arr a => .arr ((EIndexed.dops c).seek k a) | .idx x => .idx (x.seek c k)
  next  | .arr a => .arr ((EIndexed.dops c).next a)  | .idx x => .idx (x.next c)
  prev  | .arr a => .arr ((EIndexed.dops c).prev a)  | .idx x => .idx (x.prev c)
  cur   | .arr a => (EIndexed.dops c).cur a | .idx x => x.cur c
  err   | .arr a => a.err | .idx x => x.err

end GoLevel
