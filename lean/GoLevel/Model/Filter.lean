import GoLevel.Model.Bytes
/-!
# Filter policies (`filter/filter.go`)

A policy as the table writer/reader see it: `generate keys` is what `Generate` appends to the filter
block after the keys were `Add`ed in that order; `contains filter key` is `Contains`.
-/
namespace GoLevel

structure FilterPolicy where
  name     : Bytes
  generate : List Bytes → Bytes
  contains : Bytes → Bytes → Bool

/-- the contract of `filter.Filter`: no false negatives -/
def LawfulFilter (f : FilterPolicy) : Prop :=
  ∀ (keys : List Bytes) (k : Bytes), k ∈ keys → f.contains (f.generate keys) k = true

/-- `iFilter` (`leveldb/filter.go`): the DB wraps the user policy so that it sees user keys only -/
def FilterPolicy.internal (f : FilterPolicy) : FilterPolicy where
  name := f.name
  generate := fun ikeys => f.generate (ikeys.map fun k => k.take (k.length - 8))
  contains := fun flt ikey => f.contains flt (ikey.take (ikey.length - 8))

end GoLevel
