import GoLevel.Model.Key
/-!
# The LSM core: tables as sorted entry lists, versions, lookup, overlap search, compaction builder

Layer C of the model (DESIGN.md §5, C01/C03/C05/C06).  Mirrors `version.go` (`walkOverlapping`, `get`,
`pickMemdbLevel`), `table.go` (`tFile.overlaps`, `tFiles.overlaps/getOverlaps/getRange`),
`session_compaction.go` (`expand`, `baseLevelForKey`), `db_compaction.go`
(`tableCompactionBuilder.run`), `db.go` (`memGet`, `DB.get`) and `version.go`/`session_util.go` staging.

A table's *content* is its list of entries (what C13 proves the file yields); `imin`/`imax` are the
recorded metadata that the searches trust.
-/
namespace GoLevel

structure Entry where
  key : IKey
  val : Bytes
deriving DecidableEq, Repr

def Entry.ukey (e : Entry) : Bytes := e.key.ukey
def Entry.seq (e : Entry) : Nat := e.key.seq
def Entry.kind (e : Entry) : Nat := e.key.kind

structure Table where
  num  : Nat
  size : Nat
  entries : List Entry
  imin : IKey
  imax : IKey
deriving DecidableEq, Repr

abbrev Level := List Table

structure Version where
  levels : List Level
deriving DecidableEq, Repr

inductive Hit
  | miss
  | deleted
  | value (v : Bytes)
deriving DecidableEq, Repr

/-- result as the API reports it (`ErrNotFound` for both `miss` and `deleted`) -/
def Hit.toOption : Hit → Option Bytes
  | .value v => some v
  | _ => none

def Entry.hit (e : Entry) : Hit := if e.kind = Gen.keyTypeVal then .value e.val else .deleted

def ecmp (c : UCmp) (a b : Entry) : Ordering := icmp c a.key b.key

/-- first entry not smaller than the probe: what `memdb.Find` / `table.Reader.Find` return (C13, C14) -/
def seekEntry (c : UCmp) (es : List Entry) (p : IKey) : Option Entry :=
  es.find? (fun e => icmp c e.key p != .lt)

/-- `db.memGet` on one buffer -/
def memGet (c : UCmp) (mem : List Entry) (k : Bytes) (s : Nat) : Hit :=
  match seekEntry c mem (probe k s) with
  | some e => if c.cmp e.ukey k = .eq then e.hit else .miss
  | none => .miss

/-- `tFile.overlaps(icmp, ukey, ukey)` -/
def Table.overlapsKey (c : UCmp) (t : Table) (k : Bytes) : Bool :=
  c.cmp k t.imax.ukey != .gt && c.cmp k t.imin.ukey != .lt

/-- `tFile.overlaps(icmp, umin, umax)` with both bounds present -/
def Table.overlapsRange (c : UCmp) (t : Table) (umin umax : Bytes) : Bool :=
  c.cmp umin t.imax.ukey != .gt && c.cmp umax t.imin.ukey != .lt

/-- what `tops.find(t, ikey)` followed by the user-key comparison of `version.get` yields -/
def tableProbe (c : UCmp) (t : Table) (k : Bytes) (s : Nat) : Option Entry :=
  match seekEntry c t.entries (probe k s) with
  | some e => if c.cmp k e.ukey = .eq then some e else none
  | none => none

/-- level-0 / aux rule of `version.get`: every overlapping table is consulted and the hit with the
largest sequence number wins (`fseq >= zseq`, `zseq` initially 0) -/
def l0Get (c : UCmp) (tables : Level) (k : Bytes) (s : Nat) : Option Entry :=
  tables.foldl (fun best t =>
    if t.overlapsKey c k then
      match tableProbe c t k s with
      | some e =>
        match best with
        | some b => if e.seq ≥ b.seq then some e else best
        | none => some e
      | none => best
    else best) none

/-- `tFiles.searchMax`: index of the first table with `imax ≥ ikey` (binary search = first, the
predicate being monotone on a sorted level) -/
def searchMax (c : UCmp) (tables : Level) (p : IKey) : Option Table :=
  tables.find? (fun t => icmp c t.imax p != .lt)

/-- level ≥ 1 rule of `walkOverlapping` + `get` -/
def levelGet (c : UCmp) (tables : Level) (k : Bytes) (s : Nat) : Option Entry :=
  match searchMax c tables (probe k s) with
  | some t => if c.cmp k t.imin.ukey != .lt then tableProbe c t k s else none
  | none => none

def deeperGet (c : UCmp) : List Level → Bytes → Nat → Hit
  | [], _, _ => .miss
  | l :: ls, k, s =>
    match levelGet c l k s with
    | some e => e.hit
    | none => deeperGet c ls k s

/-- `version.get` with auxiliary (transaction) tables -/
def versionGet (c : UCmp) (aux : Level) (v : Version) (k : Bytes) (s : Nat) : Hit :=
  match l0Get c aux k s with
  | some e => e.hit
  | none =>
    match v.levels with
    | [] => .miss
    | l0 :: rest =>
      match l0Get c l0 k s with
      | some e => e.hit
      | none => deeperGet c rest k s

/-- `DB.get`: auxiliary memdb, write buffer, frozen buffer, then the version -/
def dbGet (c : UCmp) (auxm : Option (List Entry)) (aux : Level) (mem : List Entry)
    (frozen : Option (List Entry)) (v : Version) (k : Bytes) (s : Nat) : Hit :=
  let tryMem (m : Option (List Entry)) (next : Unit → Hit) : Hit :=
    match m with
    | some es => match memGet c es k s with | .miss => next () | h => h
    | none => next ()
  tryMem auxm fun _ => tryMem (some mem) fun _ => tryMem frozen fun _ => versionGet c aux v k s

/-! ## specification side: the plain map -/

/-- newest entry of user key `k` with `seq ≤ s` in an arbitrary collection -/
def newest (c : UCmp) (es : List Entry) (k : Bytes) (s : Nat) : Option Entry :=
  es.foldl (fun best e =>
    if c.cmp e.ukey k = .eq ∧ e.seq ≤ s then
      match best with
      | some b => if e.key.num > b.key.num then some e else best
      | none => some e
    else best) none

/-- what a reader at sequence `s` must see for `k`, given all entries ever written -/
def view (c : UCmp) (es : List Entry) (k : Bytes) (s : Nat) : Option Bytes :=
  match newest c es k s with
  | some e => e.hit.toOption
  | none => none

/-! ## compaction builder (`tableCompactionBuilder.run`) -/

structure BState where
  lastKey : Option Bytes := none      -- hasLastUkey / lastUkey
  lastSeq : Option Nat := none        -- none = keyMaxSeq
deriving DecidableEq, Repr

/-- one iteration of the loop for a well-formed key: new state, and whether the entry is kept -/
def bstep (c : UCmp) (minSeq : Nat) (base : Bytes → Bool) (st : BState) (e : Entry) : BState × Bool :=
  let same : Bool := match st.lastKey with | some lk => c.cmp lk e.ukey = .eq | none => false
  let ls : Option Nat := if same then st.lastSeq else none
  let shadowed : Bool := match ls with | some l => decide (l ≤ minSeq) | none => false     -- rule (A)
  let dropDel : Bool := decide (e.kind = Gen.keyTypeDel) && decide (e.seq ≤ minSeq) && base e.ukey  -- rule (B)
  ({ lastKey := some e.ukey, lastSeq := some e.seq }, !(shadowed || dropDel))

/-- the entries the builder keeps, in order (before they are cut into tables) -/
def build (c : UCmp) (minSeq : Nat) (base : Bytes → Bool) : BState → List Entry → List Entry
  | _, [] => []
  | st, e :: es =>
    let r := bstep c minSeq base st e
    if r.2 then e :: build c minSeq base r.1 es else build c minSeq base r.1 es

/-- `compaction.baseLevelForKey`: no table of a level ≥ source+2 covers the user key -/
def baseLevelForKey (c : UCmp) (v : Version) (srcLevel : Nat) (k : Bytes) : Bool :=
  (v.levels.drop (srcLevel + 2)).all fun l => l.all fun t => !(t.overlapsKey c k)

/-- insertion into an `ecmp`-sorted list: the specification of the merged input iterator -/
def insertSorted (c : UCmp) (e : Entry) : List Entry → List Entry
  | [] => [e]
  | x :: xs => if ecmp c e x = .lt then e :: x :: xs else x :: insertSorted c e xs

def mergeAll (c : UCmp) (tables : List Table) : List Entry :=
  (tables.flatMap (·.entries)).foldl (fun acc e => insertSorted c e acc) []

/-- a legal cutting of the builder output into tables: concatenation is the output, every piece is
non-empty, and a cut happens only between different user keys -/
def legalCut (c : UCmp) (out : List Entry) (pieces : List (List Entry)) : Bool :=
  decide (pieces.flatten = out) && pieces.all (fun p => !p.isEmpty) &&
  (List.zip pieces pieces.tail).all fun (a, b) =>
    match a.getLast?, b.head? with
    | some x, some y => c.cmp x.ukey y.ukey != .eq
    | _, _ => false

/-! ## overlap search (`tFiles.getOverlaps`, `tFiles.getRange`) -/

/-- `getOverlaps` with `overlapped = true` (level 0): restart the scan whenever the range grows.
Fuel bounds the number of restarts (each restart strictly widens the range to a table bound). -/
def getOverlapsL0 (c : UCmp) (tables : Level) : Nat → Bytes → Bytes → List Table
  | 0, umin, umax => tables.filter (·.overlapsRange c umin umax)
  | fuel+1, umin, umax =>
    let rec scan : List Table → List Table → Sum (Bytes × Bytes) (List Table)
      | [], acc => .inr acc.reverse
      | t :: ts, acc =>
        if t.overlapsRange c umin umax then
          if c.cmp t.imin.ukey umin = .lt then .inl (t.imin.ukey, umax)
          else if c.cmp t.imax.ukey umax = .gt then .inl (umin, t.imax.ukey)
          else scan ts (t :: acc)
        else scan ts acc
    match scan tables [] with
    | .inl (a, b) => getOverlapsL0 c tables fuel a b
    | .inr r => r

/-- `getOverlaps` with `overlapped = false` (sorted level), as the property requires it: all tables
whose user-key range meets `[umin, umax]` under the *user comparer* -/
def getOverlapsSorted (c : UCmp) (tables : Level) (umin umax : Bytes) : List Table :=
  tables.filter (·.overlapsRange c umin umax)

/-- `tFiles.getRange` -/
def getRange (c : UCmp) : List Table → Option (IKey × IKey)
  | [] => none
  | t :: ts =>
    some (ts.foldl (fun (mn, mx) t =>
      (if icmp c t.imin mn = .lt then t.imin else mn, if icmp c t.imax mx = .gt then t.imax else mx))
      (t.imin, t.imax))

/-! ## well-formedness of a version (C06), decidable -/

def sortedB (c : UCmp) : List Entry → Bool
  | [] => true
  | [_] => true
  | a :: b :: rest => ecmp c a b = .lt && sortedB c (b :: rest)

def Table.wfB (c : UCmp) (t : Table) : Bool :=
  sortedB c t.entries &&
  (match t.entries.head?, t.entries.getLast? with
   | some f, some l => decide (f.key = t.imin) && decide (l.key = t.imax)
   | _, _ => false) &&
  t.entries.all (fun e => decide (e.kind ≤ Gen.keyTypeVal))

/-- levels ≥ 1: ordered, pairwise disjoint user-key ranges -/
def levelDisjointB (c : UCmp) : Level → Bool
  | [] => true
  | [_] => true
  | a :: b :: rest => c.cmp a.imax.ukey b.imin.ukey = .lt && levelDisjointB c (b :: rest)

/-- for user key `k`: every entry of `newer` has a larger sequence number than every entry of `older` -/
def newerThanB (c : UCmp) (newer older : List Entry) : Bool :=
  newer.all fun a => older.all fun b => c.cmp a.ukey b.ukey != .eq || decide (b.seq < a.seq)

def Level.entries (l : Level) : List Entry := l.flatMap (·.entries)

/-- each level's entries are newer (per user key) than all deeper levels' -/
def levelsOrderedB (c : UCmp) : List Level → Bool
  | [] => true
  | l :: ls => ls.all (fun d => newerThanB c (Level.entries l) (Level.entries d)) && levelsOrderedB c ls

def Version.wfB (c : UCmp) (v : Version) : Bool :=
  v.levels.all (fun l => l.all (·.wfB c)) &&
  (v.levels.drop 1).all (levelDisjointB c) &&
  levelsOrderedB c v.levels

/-- all table numbers of a version -/
def Version.nums (v : Version) : List Nat := v.levels.flatMap fun l => l.map (·.num)

/-! ## version edits (`versionStaging.commit/finish`, abstractly) -/

structure Edit where
  deleted : List (Nat × Nat)        -- (level, table number)
  added   : List (Nat × Table)      -- (level, table)
deriving Repr

def insertByKey (c : UCmp) (t : Table) : Level → Level
  | [] => [t]
  | x :: xs =>
    match icmp c t.imin x.imin with
    | .lt => t :: x :: xs
    | .eq => if t.num < x.num then t :: x :: xs else x :: insertByKey c t xs
    | .gt => x :: insertByKey c t xs

def insertByNumDesc (t : Table) : Level → Level
  | [] => [t]
  | x :: xs => if t.num > x.num then t :: x :: xs else x :: insertByNumDesc t xs

def padLevels (ls : List Level) (n : Nat) : List Level := ls ++ List.replicate (n - ls.length) []

def trimLevels (ls : List Level) : List Level :=
  (ls.reverse.dropWhile (·.isEmpty)).reverse

/-- `version.spawn`: level 0 ordered by file number descending, other levels by `imin` -/
def Version.apply (c : UCmp) (v : Version) (e : Edit) : Version :=
  let maxLvl := (e.added.map (·.1)).foldl max 0 + 1
  let ls := padLevels v.levels maxLvl
  let ls := ls.mapIdx fun i l => l.filter fun t => !(e.deleted.any fun (lv, n) => lv = i && n = t.num)
  let ls := ls.mapIdx fun i l =>
    (e.added.filter (·.1 = i)).foldl (fun acc (_, t) =>
      if i = 0 then insertByNumDesc t acc else insertByKey c t acc) l
  ⟨trimLevels ls⟩

end GoLevel
