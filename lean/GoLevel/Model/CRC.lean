import GoLevel.Gen.Consts
import GoLevel.Model.Bytes
/-!
# CRC32C (`hash/crc32` with the Castagnoli table, as used by `leveldb/util/crc32.go`)

`crc32c b` = Go `crc32.Update(0, crc32.MakeTable(crc32.Castagnoli), b)`;
`crcValue b` = `util.NewCRC(b).Value()` (the masked checksum stored in journal chunks and table blocks).
The table is computed from the reflected polynomial, as `crc32.MakeTable` (`simpleMakeTable`) does.
-/
namespace GoLevel.CRC

/-- `crc32.Castagnoli` (reflected form of the polynomial) -/
def poly : UInt32 := 0x82F63B78

/-- one iteration of the inner loop of `crc32.simpleMakeTable` -/
def bitStep (c : UInt32) : UInt32 := if c &&& 1 == 1 then (c >>> 1) ^^^ poly else c >>> 1

/-- `crc32.simpleMakeTable`: entry `i` -/
def entry (i : Nat) : UInt32 :=
  bitStep (bitStep (bitStep (bitStep (bitStep (bitStep (bitStep (bitStep i.toUInt32)))))))

/-- the 256-entry table (evaluated once in compiled code) -/
def table : Array UInt32 := Array.ofFn (n := 256) (fun i => entry i.val)

@[inline] def tab (b : UInt8) : UInt32 := table[b.toNat]!

/-- body of the loop of `crc32.simpleUpdate`: `crc = tab[byte(crc) ^ v] ^ (crc >> 8)` -/
def step (s : UInt32) (b : UInt8) : UInt32 :=
  tab (s.toUInt8 ^^^ b) ^^^ (s >>> 8)

/-- `crc32.simpleUpdate` without the two inversions -/
def update (s : UInt32) (bs : Bytes) : UInt32 := bs.foldl step s

/-- `crc32.Update(0, castagnoliTable, b)`: invert, run, invert -/
def crc32c (bs : Bytes) : UInt32 := (update 0xFFFFFFFF bs) ^^^ 0xFFFFFFFF

/-- `util.NewCRC(b).Value()` -/
def crcValue (bs : Bytes) : UInt32 := Gen.crcMask (crc32c bs)

end GoLevel.CRC
