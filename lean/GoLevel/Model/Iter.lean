import GoLevel.Model.LSM
import GoLevel.Spec.Cursor
/-!
# Iterators: array/table cursor, indexed iterator, merged iterator, DB iterator

Layer B/C of the model (property C02).  Mirrors

* `leveldb/iterator/array_iter.go`, `leveldb/memdb/memdb.go` (`dbIter`), `leveldb/table/reader.go`
  (`blockIter`, `Reader.NewIterator`) — only their *observable* cursor behaviour: `ArrIter`,
* `leveldb/iterator/indexed_iter.go` — `IndexedIter`,
* `leveldb/iterator/merged_iter.go` — `MergedIter`,
* `leveldb/db_iter.go` — `DBIter`.

Conventions.  A child iterator is used by its parent only through `IterOps`: the five seek methods (state
passing) and `cur`, the pair under the cursor (`Valid()`/`Key()`/`Value()`).  The Boolean every Go seek
method returns is `Valid()` right after the call for all iterators in this file (array, memdb, block,
indexed, merged); the model therefore reads it off `cur` (`IterOps.ok`).  Errors are not modelled here (C02 is
about error-free iteration): `iterErr`/`dataErr`/`indexErr` are no-ops, keys always parse.  The error paths
(`dataErr`, `iterErr`, `setErr`, strict / non-strict) are `Model/IterErr.lean`, built on these definitions.
Core Lean only.
-/
namespace GoLevel

/-- `dir` of `merged_iter.go` / `db_iter.go` (`dirReleased = -1 < dirSOI < dirEOI < dirBackward < dirForward`) -/
inductive Dir
  | released
  | soi
  | eoi
  | backward
  | forward
deriving DecidableEq, Repr

/-- `dir > dirEOI` -/
def Dir.valid : Dir → Bool
  | .backward => true
  | .forward => true
  | _ => false

/-- what a parent iterator uses of a child iterator with state `σ` -/
structure IterOps (σ : Type) where
  first : σ → σ
  last  : σ → σ
  seek  : IKey → σ → σ
  next  : σ → σ
  prev  : σ → σ
  /-- `Key()`, `Value()`; `none` = `!Valid()` -/
  cur   : σ → Option Entry

/-- the Boolean a seek method has just returned -/
def IterOps.ok {σ : Type} (o : IterOps σ) (s : σ) : Bool := (o.cur s).isSome

/-- `x ≥ k` on entries: the test every `Seek(k)` uses -/
def geKey (c : UCmp) (k : IKey) (e : Entry) : Bool := icmp c e.key k != .lt

/-! ## `ArrIter`: a cursor over a sorted array with an optional `[start, limit)` slice

`iterator.NewArrayIterator`: `pos = -1` is `soi`, `pos = Len()` is `eoi`.  memdb's `dbIter`: `node = 0`
with `forward = false` is `soi`, with `forward = true` is `eoi`; `Seek` below `slice.Start` is clamped to
`Start`, which is what seeking in the restricted list does.  `table.Reader.NewIterator(slice)` (an
`indexedIterator` over `blockIter`s with `dir`) has the same observable behaviour; below this abstraction
the block/skip-list arithmetic is tied by differential testing. -/

/-- the entries of `es` inside `[start, limit)` -/
def sliceOf (c : UCmp) (es : List Entry) (start limit : Option IKey) : List Entry :=
  es.filter fun e =>
    (match start with | some s => icmp c e.key s != .lt | none => true) &&
    (match limit with | some l => icmp c e.key l == .lt | none => true)

structure ArrIter where
  xs  : List Entry
  pos : Pos
deriving Repr

def ArrIter.new (c : UCmp) (es : List Entry) (start limit : Option IKey) : ArrIter :=
  ⟨sliceOf c es start limit, .soi⟩

def ArrIter.ops (c : UCmp) : IterOps ArrIter where
  first a := { a with pos := Cursor.first a.xs }
  last a := { a with pos := Cursor.last a.xs }
  seek k a := { a with pos := Cursor.seek a.xs (geKey c k) }
  next a := { a with pos := Cursor.next a.xs a.pos }
  prev a := { a with pos := Cursor.prev a.xs a.pos }
  cur a := Cursor.get a.xs a.pos

/-! ## `IndexedIter` (`indexed_iter.go`)

The index is an `arrayIteratorIndexer` over the children: `Search(key)` is the first child whose index key
`sep` is `≥ key` (`tFilesArrayIndexer.Search` = `searchMax` on `imax`; the table index block uses the
separator keys).  `Get()` makes a fresh data iterator at `soi`. -/

structure IdxChild where
  sep : IKey
  es  : List Entry
deriving Repr

structure IndexedIter where
  children : List IdxChild
  /-- `index` (a `basicArrayIterator`) -/
  ipos : Pos
  /-- `data`; `none` = nil -/
  data : Option ArrIter
deriving Repr

namespace IndexedIter

def new (children : List IdxChild) : IndexedIter := ⟨children, .soi, none⟩

/-- `index.Valid()` -/
def indexOk (x : IndexedIter) : Bool := (Cursor.get x.children x.ipos).isSome

/-- `setData`: `data = index.Get()` (nil when the index is not valid) -/
def setData (x : IndexedIter) : IndexedIter :=
  { x with data := (Cursor.get x.children x.ipos).map fun ch => ⟨ch.es, .soi⟩ }

def clearData (x : IndexedIter) : IndexedIter := { x with data := none }

def cur (x : IndexedIter) : Option Entry := x.data.bind fun a => Cursor.get a.xs a.pos

/-- `Next`.  The Go method calls itself after moving to the next data iterator; each such call advances
the index, so `children.length + 1` levels of recursion suffice (`fuel`). -/
def nextF (c : UCmp) : Nat → IndexedIter → IndexedIter
  | 0, x => x
  | fuel + 1, x =>
    let advance (x : IndexedIter) : IndexedIter :=
      -- case i.data == nil
      let x := { x with ipos := Cursor.next x.children x.ipos }
      if !x.indexOk then x else nextF c fuel x.setData
    match x.data with
    | some a =>
      let a' := (ArrIter.ops c).next a
      if (ArrIter.ops c).ok a' then { x with data := some a' }       -- return true
      else advance x.clearData                                       -- clearData; fallthrough
    | none => advance x

/-- `Prev` -/
def prevF (c : UCmp) : Nat → IndexedIter → IndexedIter
  | 0, x => x
  | fuel + 1, x =>
    let retreat (x : IndexedIter) : IndexedIter :=
      let x := { x with ipos := Cursor.prev x.children x.ipos }
      if !x.indexOk then x
      else
        let x := x.setData
        match x.data with
        | some a =>
          let a' := (ArrIter.ops c).last a
          if (ArrIter.ops c).ok a' then { x with data := some a' }
          else prevF c fuel x.clearData                              -- clearData; return i.Prev()
        | none => x
    match x.data with
    | some a =>
      let a' := (ArrIter.ops c).prev a
      if (ArrIter.ops c).ok a' then { x with data := some a' }
      else retreat x.clearData
    | none => retreat x

def fuel (x : IndexedIter) : Nat := x.children.length + 2

def next (c : UCmp) (x : IndexedIter) : IndexedIter := nextF c x.fuel x
def prev (c : UCmp) (x : IndexedIter) : IndexedIter := prevF c x.fuel x

/-- `First` -/
def first (c : UCmp) (x : IndexedIter) : IndexedIter :=
  let x := { x with ipos := Cursor.first x.children }
  if !x.indexOk then x.clearData else next c x.setData

/-- `Last` -/
def last (c : UCmp) (x : IndexedIter) : IndexedIter :=
  let x := { x with ipos := Cursor.last x.children }
  if !x.indexOk then x.clearData
  else
    let x := x.setData
    match x.data with
    | some a =>
      let a' := (ArrIter.ops c).last a
      if (ArrIter.ops c).ok a' then { x with data := some a' } else prev c x.clearData
    | none => x

/-- `Seek` -/
def seek (c : UCmp) (k : IKey) (x : IndexedIter) : IndexedIter :=
  let x := { x with ipos := Cursor.seek x.children (fun ch => icmp c ch.sep k != Ordering.lt) }
  if !x.indexOk then x.clearData
  else
    let x := x.setData
    match x.data with
    | some a =>
      let a' := (ArrIter.ops c).seek k a
      if (ArrIter.ops c).ok a' then { x with data := some a' } else next c x.clearData
    | none => x

def ops (c : UCmp) : IterOps IndexedIter where
  first := first c
  last := last c
  seek := seek c
  next := next c
  prev := prev c
  cur := cur

end IndexedIter

/-! ## `MergedIter` (`merged_iter.go`)

`iters`, `keys`, `index`, `dir` as in Go.  `indexes`/`reverse` (the heap): a bag `heap` of child indices;
`heap.Push` appends, `heap.Init` is the identity, `heap.Pop` removes a least element under
`indexHeap.Less` (`Compare(keys[i], keys[j]) < 0`, or `> 0` when `reverse`).  `Less` compares keys only —
there is no tie-break on the child index, so with two equal keys the Go result depends on the heap
layout.  The constructor's contract ("assumed to be no duplicate keys", which holds in the DB: internal
keys are unique) excludes ties; the model takes the first least element in bag order. -/

structure MergedIter (σ : Type) where
  iters   : List σ
  keys    : List (Option IKey)
  heap    : List Nat
  reverse : Bool
  index   : Nat
  dir     : Dir

namespace MergedIter
variable {σ : Type}

def new (iters : List σ) : MergedIter σ :=
  ⟨iters, iters.map fun _ => none, [], false, 0, .soi⟩

def keyAt (keys : List (Option IKey)) (x : Nat) : Option IKey := (keys[x]?).join

/-- `indexHeap.Less` on child indices -/
def less (c : UCmp) (rev : Bool) (keys : List (Option IKey)) (i j : Nat) : Bool :=
  match keyAt keys i, keyAt keys j with
  | some a, some b => if rev then icmp c a b == .gt else icmp c a b == .lt
  | _, _ => false

def argBest (lt : Nat → Nat → Bool) : Nat → List Nat → Nat
  | b, [] => b
  | b, y :: ys => argBest lt (if lt y b then y else b) ys

/-- `heap.Pop` -/
def pop (c : UCmp) (m : MergedIter σ) : Option (Nat × List Nat) :=
  match m.heap with
  | [] => none
  | x :: xs =>
    let b := argBest (less c m.reverse m.keys) x xs
    some (b, m.heap.erase b)

def keyOf (o : IterOps σ) (s : σ) : Option IKey := (o.cur s).map (·.key)

/-- the body shared by `First`, `Last`, `Seek`: `h.Reset(rev)`, move every child with `f`, record its key
and push it if it is valid, `heap.Init` -/
def resetAll (o : IterOps σ) (rev : Bool) (f : σ → σ) (m : MergedIter σ) : MergedIter σ :=
  let iters := m.iters.map f
  let keys := iters.map (keyOf o)
  { m with iters := iters, keys := keys, reverse := rev,
           heap := (List.range iters.length).filter fun x => (keyAt keys x).isSome }

/-- `next()` -/
def popNext (c : UCmp) (m : MergedIter σ) : MergedIter σ :=
  match pop c m with
  | none => { m with dir := .eoi }
  | some (x, h) => { m with index := x, heap := h, dir := .forward }

/-- `prev()` -/
def popPrev (c : UCmp) (m : MergedIter σ) : MergedIter σ :=
  match pop c m with
  | none => { m with dir := .soi }
  | some (x, h) => { m with index := x, heap := h, dir := .backward }

def first (o : IterOps σ) (c : UCmp) (m : MergedIter σ) : MergedIter σ :=
  if m.dir = .released then m
  else popNext c { resetAll o false o.first m with dir := .soi }

def last (o : IterOps σ) (c : UCmp) (m : MergedIter σ) : MergedIter σ :=
  if m.dir = .released then m
  else popPrev c { resetAll o true o.last m with dir := .eoi }

def seek (o : IterOps σ) (c : UCmp) (k : IKey) (m : MergedIter σ) : MergedIter σ :=
  if m.dir = .released then m
  else popNext c { resetAll o false (o.seek k) m with dir := .soi }

/-- the tail of `Next`/`Prev`: move child `index` with `f`; push it if still valid -/
def stepIndex (o : IterOps σ) (f : σ → σ) (m : MergedIter σ) : MergedIter σ :=
  match m.iters[m.index]? with
  | none => m
  | some s =>
    let s' := f s
    match o.cur s' with
    | some e => { m with iters := m.iters.set m.index s', keys := m.keys.set m.index (some e.key),
                         heap := m.heap ++ [m.index] }
    | none => { m with iters := m.iters.set m.index s', keys := m.keys.set m.index none }

def next (o : IterOps σ) (c : UCmp) (m : MergedIter σ) : MergedIter σ :=
  match m.dir with
  | .eoi => m
  | .released => m
  | .soi => first o c m
  | .backward =>
    match keyAt m.keys m.index with
    | none => m                                     -- unreachable: `keys[index]` is set while valid
    | some key =>
      let m := seek o c key m
      if !m.dir.valid then m else popNext c (stepIndex o o.next m)
  | .forward => popNext c (stepIndex o o.next m)

/-- the `case dirForward:` block of `Prev`: every other child is sought to the current key and stepped
back (or sent to its last entry when the seek fails) -/
def turnBack (o : IterOps σ) (key : IKey) (m : MergedIter σ) : MergedIter σ :=
  let iters := m.iters.mapIdx fun x s =>
    if x = m.index then s
    else
      let s1 := o.seek key s
      if o.ok s1 then o.prev s1 else o.last s1
  let keys := iters.mapIdx fun x s => if x = m.index then keyAt m.keys x else keyOf o s
  { m with iters := iters, keys := keys, reverse := true,
           heap := (List.range iters.length).filter fun x => x ≠ m.index && (keyAt keys x).isSome }

def prev (o : IterOps σ) (c : UCmp) (m : MergedIter σ) : MergedIter σ :=
  match m.dir with
  | .soi => m
  | .released => m
  | .eoi => last o c m
  | .forward =>
    match keyAt m.keys m.index with
    | none => m
    | some key => popPrev c (stepIndex o o.prev (turnBack o key m))
  | .backward => popPrev c (stepIndex o o.prev m)

/-- `Key()`/`Value()`: `keys[index]`, `iters[index].Value()` -/
def cur (o : IterOps σ) (m : MergedIter σ) : Option Entry :=
  if m.dir.valid then
    match keyAt m.keys m.index, m.iters[m.index]? with
    | some k, some s => some ⟨k, ((o.cur s).map (·.val)).getD []⟩
    | _, _ => none
  else none

def release (m : MergedIter σ) : MergedIter σ :=
  { m with dir := .released, iters := [], keys := [], heap := [] }

def ops (o : IterOps σ) (c : UCmp) : IterOps (MergedIter σ) where
  first := first o c
  last := last o c
  seek := seek o c
  next := next o c
  prev := prev o c
  cur := cur o

end MergedIter

/-! ## `DBIter` (`db_iter.go`)

`fuel` bounds the three scanning loops (`next()`, `prev()`, the `for i.iter.Prev()` loop of `Prev`); each
iteration moves the raw iterator by one entry in one direction, so the number of raw entries plus one
suffices. -/

structure DBIter (σ : Type) where
  raw   : σ
  seq   : Nat
  dir   : Dir
  key   : Bytes
  value : Bytes
  fuel  : Nat

namespace DBIter
variable {σ : Type}

def new (raw : σ) (seq fuel : Nat) : DBIter σ := ⟨raw, seq, .soi, [], [], fuel⟩

/-- `next()`: the result is the iterator and the returned Boolean -/
def nextLoop (o : IterOps σ) (c : UCmp) : Nat → DBIter σ → DBIter σ × Bool
  | 0, d => (d, false)
  | n + 1, d =>
    let continue_ (d : DBIter σ) : DBIter σ × Bool :=
      let r := o.next d.raw
      if o.ok r then nextLoop o c n { d with raw := r }
      else ({ d with raw := r, dir := .eoi }, false)
    match o.cur d.raw with
    | none => continue_ d
    | some e =>
      if e.seq ≤ d.seq then
        if e.kind = Gen.keyTypeDel then
          continue_ { d with key := e.ukey, dir := .forward }
        else if e.kind = Gen.keyTypeVal then
          if d.dir = .soi ∨ c.cmp e.ukey d.key = .gt then
            ({ d with key := e.ukey, value := e.val, dir := .forward }, true)
          else continue_ d
        else continue_ d
      else continue_ d

/-- the loop of `prev()`; the second component is the final `del` (`false` also for the early
`return true`, which Go takes only when `!del`) -/
def prevLoop (o : IterOps σ) (c : UCmp) : Nat → Bool → DBIter σ → DBIter σ × Bool
  | 0, del, d => (d, del)
  | n + 1, del, d =>
    let continue_ (del : Bool) (d : DBIter σ) : DBIter σ × Bool :=
      let r := o.prev d.raw
      if o.ok r then prevLoop o c n del { d with raw := r } else ({ d with raw := r }, del)
    match o.cur d.raw with
    | none => continue_ del d
    | some e =>
      if e.seq ≤ d.seq then
        if !del && c.cmp e.ukey d.key = .lt then (d, false)
        else if e.kind = Gen.keyTypeDel then continue_ true d
        else continue_ false { d with key := e.ukey, value := e.val }
      else continue_ del d

/-- `prev()` -/
def prevScan (o : IterOps σ) (c : UCmp) (d : DBIter σ) : DBIter σ :=
  let d := { d with dir := .backward }
  let (d, del) := if o.ok d.raw then prevLoop o c d.fuel true d else (d, true)
  if del then { d with dir := .soi } else d

def first (o : IterOps σ) (c : UCmp) (d : DBIter σ) : DBIter σ :=
  if d.dir = .released then d
  else
    let r := o.first d.raw
    if o.ok r then (nextLoop o c d.fuel { d with raw := r, dir := .soi }).1
    else { d with raw := r, dir := .eoi }

def last (o : IterOps σ) (c : UCmp) (d : DBIter σ) : DBIter σ :=
  if d.dir = .released then d
  else
    let r := o.last d.raw
    if o.ok r then prevScan o c { d with raw := r }
    else { d with raw := r, dir := .soi }

def seek (o : IterOps σ) (c : UCmp) (k : Bytes) (d : DBIter σ) : DBIter σ :=
  if d.dir = .released then d
  else
    let r := o.seek (mkIKey k d.seq Gen.keyTypeSeek) d.raw
    if o.ok r then (nextLoop o c d.fuel { d with raw := r, dir := .soi }).1
    else { d with raw := r, dir := .eoi }

def next (o : IterOps σ) (c : UCmp) (d : DBIter σ) : DBIter σ :=
  if d.dir = .eoi ∨ d.dir = .released then d
  else
    let r := o.next d.raw
    if !o.ok r then { d with raw := r, dir := .eoi }
    else if d.dir = .backward then
      let r2 := o.next r
      if !o.ok r2 then { d with raw := r2, dir := .eoi }
      else (nextLoop o c d.fuel { d with raw := r2 }).1
    else (nextLoop o c d.fuel { d with raw := r }).1

/-- the `for i.iter.Prev()` loop of `Prev` (`case dirForward`); `true` = `goto cont` -/
def backLoop (o : IterOps σ) (c : UCmp) : Nat → DBIter σ → DBIter σ × Bool
  | 0, d => (d, false)
  | n + 1, d =>
    let r := o.prev d.raw
    match o.cur r with
    | none => ({ d with raw := r }, false)
    | some e =>
      if c.cmp e.ukey d.key = .lt then ({ d with raw := r }, true)
      else backLoop o c n { d with raw := r }

def prev (o : IterOps σ) (c : UCmp) (d : DBIter σ) : DBIter σ :=
  match d.dir with
  | .soi => d
  | .released => d
  | .eoi => last o c d
  | .forward =>
    let (d, found) := backLoop o c d.fuel d
    if found then prevScan o c d else { d with dir := .soi }
  | .backward => prevScan o c d

/-- `Valid()`, `Key()`, `Value()` -/
def out (d : DBIter σ) : Option (Bytes × Bytes) :=
  if d.dir.valid then some (d.key, d.value) else none

def release (d : DBIter σ) : DBIter σ := { d with dir := .released, key := [], value := [] }

/-- one call -/
def step (o : IterOps σ) (c : UCmp) : Call Bytes → DBIter σ → DBIter σ
  | .first, d => first o c d
  | .last, d => last o c d
  | .seek k, d => seek o c k d
  | .next, d => next o c d
  | .prev, d => prev o c d

/-- what the caller observes after each call of a sequence -/
def run (o : IterOps σ) (c : UCmp) : DBIter σ → List (Call Bytes) → List (Option (Bytes × Bytes))
  | _, [] => []
  | d, cl :: cs => let d' := step o c cl d; d'.out :: run o c d' cs

end DBIter

/-- one call on any `IterOps` -/
def IterOps.step {σ : Type} (o : IterOps σ) : Call IKey → σ → σ
  | .first, s => o.first s
  | .last, s => o.last s
  | .seek k, s => o.seek k s
  | .next, s => o.next s
  | .prev, s => o.prev s

def IterOps.run {σ : Type} (o : IterOps σ) : σ → List (Call IKey) → List (Option Entry)
  | _, [] => []
  | s, cl :: cs => let s' := o.step cl s; o.cur s' :: o.run s' cs

/-! ## the specification side: what a reader at `seq` sees -/

/-- `e` is the newest entry of its user key with sequence number `≤ seq`, and it is a value -/
def isVisible (c : UCmp) (es : List Entry) (seq : Nat) (e : Entry) : Bool :=
  decide (e.seq ≤ seq) && decide (e.kind = Gen.keyTypeVal) &&
  es.all fun e' => !(c.cmp e'.ukey e.ukey == .eq && decide (e'.seq ≤ seq)) || decide (e'.key.num ≤ e.key.num)

/-- the live pairs of the view at `seq`, in the order of `es` -/
def visible (c : UCmp) (es : List Entry) (seq : Nat) : List (Bytes × Bytes) :=
  (es.filter (isVisible c es seq)).map fun e => (e.ukey, e.val)

/-- `Start ≤ key < Limit` on user keys -/
def inRange (c : UCmp) (start limit : Option Bytes) (k : Bytes) : Bool :=
  (match start with | some s => c.cmp k s != .lt | none => true) &&
  (match limit with | some l => c.cmp k l == .lt | none => true)

/-- `x ≥ k` on user pairs -/
def geUser (c : UCmp) (k : Bytes) (p : Bytes × Bytes) : Bool := c.cmp p.1 k != .lt

end GoLevel

namespace GoLevel

/-! ## how `DB.newIterator` assembles the raw iterator (`db.go`/`db_iter.go` `newRawIterator`,
`version.getIterators`, `table.go` `tFiles.newIndexIterator`, `tFilesArrayIndexer`) -/

/-- a child of the merged raw iterator: a memdb / level-0 table iterator, or the indexed iterator of a
sorted level -/
inductive Node
  | arr (a : ArrIter)
  | idx (x : IndexedIter)
deriving Repr

def Node.ops (c : UCmp) : IterOps Node where
  first | .arr a => .arr ((ArrIter.ops c).first a) | .idx x => .idx (x.first c)
  last  | .arr a => .arr ((ArrIter.ops c).last a)  | .idx x => .idx (x.last c)
  seek k | .arr a => .arr ((ArrIter.ops c).seek k a) | .idx x => .idx (x.seek c k)
  next  | .arr a => .arr ((ArrIter.ops c).next a)  | .idx x => .idx (x.next c)
  prev  | .arr a => .arr ((ArrIter.ops c).prev a)  | .idx x => .idx (x.prev c)
  cur   | .arr a => (ArrIter.ops c).cur a | .idx x => x.cur

def Node.size : Node → Nat
  | .arr a => a.xs.length
  | .idx x => (x.children.map (·.es.length)).sum

/-- the test of `sliceOf` -/
def slicePred (c : UCmp) (start limit : Option IKey) (e : Entry) : Bool :=
  (match start with | some s => icmp c e.key s != .lt | none => true) &&
  (match limit with | some l => icmp c e.key l == .lt | none => true)

/-- `imax` / `imin` of a table given by its entries (exact: the last / first key) -/
def tableMax (t : List Entry) : IKey := (t.getLast?.map (·.key)).getD ⟨[], 0⟩
def tableMin (t : List Entry) : IKey := (t.head?.map (·.key)).getD ⟨[], 0⟩

/-- `tf.searchMax(icmp, Start)`: first table whose `imax ≥ Start` (0 without a start) -/
def levelStart (c : UCmp) (tables : List (List Entry)) (start : Option IKey) : Nat :=
  match start with
  | some s => (tables.findIdx? fun t => icmp c (tableMax t) s != .lt).getD tables.length
  | none => 0

/-- `tf.searchMin(icmp, Limit)`: first table whose `imin ≥ Limit` (`Len()` without a limit) -/
def levelLimit (c : UCmp) (tables : List (List Entry)) (limit : Option IKey) : Nat :=
  match limit with
  | some l => (tables.findIdx? fun t => icmp c (tableMin t) l != .lt).getD tables.length
  | none => tables.length

/-- `tFiles.newIndexIterator` + `tFilesArrayIndexer`: the tables of a level ≥ 1 (each given by its
entries; `imin`/`imax` are the first/last key), cut to `tf[searchMax(Start) : searchMin(Limit)]` with the
limit clamped to the start for an inverted range (`if limit < start { limit = start }`); only the first and
the last remaining table get the slice (`tFilesArrayIndexer.Get`), the others are iterated unrestricted. -/
def levelIter (c : UCmp) (tables : List (List Entry)) (start limit : Option IKey) : IndexedIter :=
  let st := levelStart c tables start
  let lim0 := levelLimit c tables limit
  let lim := if lim0 < st then st else lim0
  let tf := (tables.take lim).drop st
  IndexedIter.new (tf.mapIdx fun i t =>
    ⟨tableMax t, if i = 0 ∨ i = tf.length - 1 then sliceOf c t start limit else t⟩)

end GoLevel
