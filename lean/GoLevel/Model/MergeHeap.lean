import GoLevel.Model.Iter
/-!
# The heap inside `mergedIterator` (property C02)

`Model/Iter.lean` models `leveldb/iterator/merged_iter.go` with an abstract bag of child indices from which
"a least element" is taken.  This file transcribes what the code really does:

* `GoHeap`: Go's `container/heap` (`$GOROOT/src/container/heap/heap.go`: `up`, `down`, `Init`, `Push`,
  `Pop`) over `indexes []int` with `indexHeap.Swap`/`Push`/`Pop` (`merged_iter.go`) inlined, the order given
  by an abstract `less` on child indices (`indexHeap.Less` compares `keys[indexes[i]]`, `keys[indexes[j]]`).
* `HeapMerged`: `mergedIterator.First/Last/Seek/next/Next/prev/Prev/Valid/Key/Value` on the state
  `MergedIter σ` of `Model/Iter.lean`, whose field `heap` is now read as the Go slice `indexes` in its exact
  order.  The parts of the methods that do not touch the heap order are shared with the abstract model
  (`MergedIter.resetAll` = `h.Reset(rev)` + the `for x, iter := range i.iters` loop with `h.Push(x)` in
  increasing `x`; `MergedIter.turnBack` = the same loop of `Prev`'s `case dirForward:`); every
  `heap.Init`/`heap.Push`/`heap.Pop` is the `GoHeap` function.

Ties.  `indexHeap.Less` compares keys only (`Compare(keys[i], keys[j]) < 0`, `> 0` when `reverse`), so for
two children standing on equal keys neither is `Less` than the other and which one `heap.Pop` returns is
decided by the array layout alone: the binary heap is not stable.  E.g. three children each holding the
single key `k`: `First` builds `indexes = [0, 1, 2]` (`heap.Init` moves nothing), `heap.Pop` swaps to
`[2, 1, 0]`, sifts nothing and returns child `0`; the next `Pop` (on `[2, 1]`) returns child `2`, the last
one child `1` — the order shown is `0, 2, 1` (`Props/C02.lean`, `tie_order_example`).  The constructor's
contract excludes duplicate keys; the model reproduces the real tie-breaking nevertheless (differential
walks with duplicate keys, `it new hmerged`).

Not modelled: errors (`iterErr`, `i.err`; children never fail, as in `Model/Iter.lean`), `assertKey`'s
panic (a valid child has a non-nil key), the `j1 < 0` overflow test of `down` (`2*i+1` cannot overflow for
`i < len(iters)`), the Boolean result of `down` (used by `heap.Fix`/`heap.Remove` only).  Core Lean only.
-/
namespace GoLevel

namespace GoHeap

/-- `indexHeap.Swap(i, j)`: `h.indexes[i], h.indexes[j] = h.indexes[j], h.indexes[i]` -/
def swap (h : List Nat) (i j : Nat) : List Nat :=
  (h.set i (h.getD j 0)).set j (h.getD i 0)

/-- `indexHeap.Less(i, j)` on heap positions: `less` on the child indices stored there -/
def lessAt (less : Nat → Nat → Bool) (h : List Nat) (i j : Nat) : Bool :=
  less (h.getD i 0) (h.getD j 0)

/-- `up(h, j)`.  `(j - 1) / 2` is `0` for `j = 0` in Go (truncated division of `-1`) and in `Nat`.  Every
iteration strictly decreases `j`, so `j + 1` iterations suffice (`fuel`). -/
def upF (less : Nat → Nat → Bool) : Nat → List Nat → Nat → List Nat
  | 0, h, _ => h
  | fuel + 1, h, j =>
    let i := (j - 1) / 2                                   -- parent
    if i == j || !lessAt less h j i then h                 -- break
    else upF less fuel (swap h i j) i

def up (less : Nat → Nat → Bool) (h : List Nat) (j : Nat) : List Nat := upF less (j + 1) h j

/-- `down(h, i0, n)`.  Every iteration strictly increases `i` and stops at `2*i+1 ≥ n`, so `n` iterations
suffice (`fuel`). -/
def downF (less : Nat → Nat → Bool) : Nat → List Nat → Nat → Nat → List Nat
  | 0, h, _, _ => h
  | fuel + 1, h, i, n =>
    let j1 := 2 * i + 1
    if j1 ≥ n then h                                       -- break
    else
      let j := if j1 + 1 < n && lessAt less h (j1 + 1) j1 then j1 + 1 else j1   -- left / right child
      if !lessAt less h j i then h                         -- break
      else downF less fuel (swap h i j) j n

def down (less : Nat → Nat → Bool) (h : List Nat) (i n : Nat) : List Nat := downF less n h i n

/-- the loop of `heap.Init`: `k` iterations remain, the next one is `down(h, k-1, n)` -/
def initLoop (less : Nat → Nat → Bool) (n : Nat) : Nat → List Nat → List Nat
  | 0, h => h
  | k + 1, h => initLoop less n k (down less h k n)

/-- `heap.Init(h)`: `n := h.Len(); for i := n/2 - 1; i >= 0; i-- { down(h, i, n) }` -/
def init (less : Nat → Nat → Bool) (h : List Nat) : List Nat := initLoop less h.length (h.length / 2) h

/-- `heap.Push(h, x)`: `h.Push(x)` (append), `up(h, h.Len()-1)` -/
def push (less : Nat → Nat → Bool) (h : List Nat) (x : Nat) : List Nat := up less (h ++ [x]) h.length

/-- `heap.Pop(h)`: `n := h.Len() - 1; h.Swap(0, n); down(h, 0, n); return h.Pop()` (`indexHeap.Pop` cuts
off and returns the last element).  `none` for the empty heap (Go would panic; `next()`/`prev()` test
`h.Len() == 0` first). -/
def pop (less : Nat → Nat → Bool) (h : List Nat) : Option (Nat × List Nat) :=
  if h.isEmpty then none
  else
    let n := h.length - 1
    let h1 := down less (swap h 0 n) 0 n
    some (h1.getD n 0, h1.take n)

end GoHeap

/-! ## `mergedIterator` with the real heap -/

namespace HeapMerged
variable {σ : Type}
open MergedIter (keyAt keyOf resetAll turnBack)

/-- `indexHeap.Less` for the current `keys`/`reverse`, on child indices -/
def lessOf (c : UCmp) (m : MergedIter σ) : Nat → Nat → Bool := MergedIter.less c m.reverse m.keys

/-- `heap.Init(h)` -/
def init (c : UCmp) (m : MergedIter σ) : MergedIter σ :=
  { m with heap := GoHeap.init (lessOf c m) m.heap }

/-- `next()` -/
def popNext (c : UCmp) (m : MergedIter σ) : MergedIter σ :=
  match GoHeap.pop (lessOf c m) m.heap with
  | none => { m with dir := .eoi }
  | some (x, h) => { m with index := x, heap := h, dir := .forward }

/-- `prev()` -/
def popPrev (c : UCmp) (m : MergedIter σ) : MergedIter σ :=
  match GoHeap.pop (lessOf c m) m.heap with
  | none => { m with dir := .soi }
  | some (x, h) => { m with index := x, heap := h, dir := .backward }

/-- `First` -/
def first (o : IterOps σ) (c : UCmp) (m : MergedIter σ) : MergedIter σ :=
  if m.dir = .released then m
  else popNext c (init c { resetAll o false o.first m with dir := .soi })

/-- `Last` -/
def last (o : IterOps σ) (c : UCmp) (m : MergedIter σ) : MergedIter σ :=
  if m.dir = .released then m
  else popPrev c (init c { resetAll o true o.last m with dir := .eoi })

/-- `Seek` -/
def seek (o : IterOps σ) (c : UCmp) (k : IKey) (m : MergedIter σ) : MergedIter σ :=
  if m.dir = .released then m
  else popNext c (init c { resetAll o false (o.seek k) m with dir := .soi })

/-- the tail of `Next`/`Prev`: `x := i.index`, move `iters[x]` with `f`; if it is still valid
`keys[x] = iter.Key()` and `heap.Push(h, x)` (with the *new* key), else `keys[x] = nil` -/
def stepIndex (o : IterOps σ) (c : UCmp) (f : σ → σ) (m : MergedIter σ) : MergedIter σ :=
  match m.iters[m.index]? with
  | none => m
  | some s =>
    let s' := f s
    match o.cur s' with
    | some e =>
      let keys := m.keys.set m.index (some e.key)
      { m with iters := m.iters.set m.index s', keys := keys,
               heap := GoHeap.push (MergedIter.less c m.reverse keys) m.heap m.index }
    | none => { m with iters := m.iters.set m.index s', keys := m.keys.set m.index none }

/-- `Next` -/
def next (o : IterOps σ) (c : UCmp) (m : MergedIter σ) : MergedIter σ :=
  match m.dir with
  | .eoi => m
  | .released => m
  | .soi => first o c m
  | .backward =>
    match keyAt m.keys m.index with
    | none => m                                     -- unreachable: `keys[index]` is set while valid
    | some key =>
      let m := seek o c key m                       -- `if !i.Seek(key) { return false }`
      if !m.dir.valid then m else popNext c (stepIndex o c o.next m)   -- `return i.Next()`
  | .forward => popNext c (stepIndex o c o.next m)

/-- `Prev`; `case dirForward:` is `turnBack` followed by `heap.Init(h)` -/
def prev (o : IterOps σ) (c : UCmp) (m : MergedIter σ) : MergedIter σ :=
  match m.dir with
  | .soi => m
  | .released => m
  | .eoi => last o c m
  | .forward =>
    match keyAt m.keys m.index with
    | none => m
    | some key => popPrev c (stepIndex o c o.prev (init c (turnBack o key m)))
  | .backward => popPrev c (stepIndex o c o.prev m)

/-- `Valid()` (without `err`) -/
def valid (m : MergedIter σ) : Bool := m.dir.valid

/-- `Key()`/`Value()`: `keys[index]`, `iters[index].Value()` -/
def cur (o : IterOps σ) (m : MergedIter σ) : Option Entry := MergedIter.cur o m

def ops (o : IterOps σ) (c : UCmp) : IterOps (MergedIter σ) where
  first := first o c
  last := last o c
  seek := seek o c
  next := next o c
  prev := prev o c
  cur := cur o

end HeapMerged

end GoLevel
