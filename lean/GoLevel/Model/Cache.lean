import GoLevel.Gen.Consts
/-! Model of `leveldb/cache` (C17): the cache map (`cache.go`) with the LRU replacement policy (`lru.go`).

The resizable hash table (`mHead`/`mBucket`, freeze/split/merge) is abstracted to a list of nodes with atomic
per-key operations: `mBucket.get` and `mBucket.delete` run under the bucket lock and retry on frozen buckets,
so each is one atomic step on the (ns,key) they address (the table itself is modelled in `Model/CacheTable.lean`,
which `Props/C17.lean` shows to be a finite map).  A node that `mBucket.delete` removes from its bucket is erased
from `nodes` and kept in the ghost list `dead` (`Proofs/Cache*.lean` shows such a node is never on the LRU list,
so later stale `lru.Evict(n)` calls on it are no-ops, which is how `levict` treats an absent id; a stale
`Node.callFinalizer(n)` — possible only when `Close` races with `unRefExternal` — runs its delFuncs again).

Every *instruction* (`Instr`) is one critical section / atomic operation of the Go code; an API call is compiled
to instructions (`startCall`), executing an instruction may push follow-up instructions in front of the
thread's remaining ones (`exec`).  The same `exec` is used by the sequential API (`call`, one thread run to
completion — used by the driver) and by the interleaving system (`sysStep`, any number of threads).

Abstractions (stated, not hidden):
* `setFunc`, value `Release()` and `delFunc`s are opaque: they do not re-enter the cache.  `setFunc` runs under
  `n.mu`, so "lock n.mu; look at n.value; maybe run setFunc; unlock" is one step (`setv`).
* `Node.callFinalizer` takes the value and the delFuncs out of the node under `n.mu` (repaired code: "make
  Node.callFinalizer safe against a concurrent second call") and runs them after the unlock; it is one step
  (`fin`) whose events are emitted at that critical section.
* `Cache.Close` enumerates the detached table with `enumerateNodesWithCB`, which hands the *cumulative* node
  list to the callback once per bucket, i.e. repeats zero/Evict/callFinalizer on earlier nodes; the repeats are
  idempotent, the model performs them once per node.
* `sync.RWMutex` `r.mu` is a reader count; `Close` needs it to be zero.  (Go's writer preference only removes
  behaviours — and can deadlock the recursive `RLock` in `unRefExternal` under `Get`; liveness is not modelled.)
-/
namespace GoLevel.CacheM

abbrev Key := Nat × Nat

/-- `Node.CacheData` as used by `lru.go`: nil, an `lruNode` on the `recent` list, or a banned `lruNode`. -/
inductive LruSt
  | none | inList | banned
  deriving DecidableEq, Repr, Inhabited

/-- `cache.Node`.  `value = some v`: the v-th value ever constructed. -/
structure Node where
  id : Nat
  key : Key
  ref : Int
  value : Option Nat
  size : Nat
  delFuncs : List Nat
  lru : LruSt
  deriving DecidableEq, Repr, Inhabited

/-- `cache.lru`: `recent` holds node ids, most recently used first (`recent.next … recent.prev`). -/
structure LRU where
  capacity : Nat
  used : Nat
  recent : List Nat
  deriving DecidableEq, Repr, Inhabited

/-- What the `setFunc` passed to `Get` does: absent, returns `(size, value)`, or returns `(size, nil)`. -/
inductive SetFunc
  | none | val (size : Nat) | nilv (size : Nat)
  deriving DecidableEq, Repr, Inhabited

/-- The shared memory of a `cache.Cache` with an `lru` cacher.  `handles` (ghost) is the multiset of node ids
of the `*Handle`s currently owned by callers; `forced` (ghost) records that `Close(true)` took the lock;
`dropped` (ghost) lists the delFuncs handed to a `Delete` that found the cache closed (`Cache.Delete` then returns
`false` without ever calling them); `dead` (ghost) holds the nodes that `mBucket.delete` removed from their
bucket — the Go objects live on while some thread still has a pointer to them: `value` is nil, `delFuncs` is what
the code leaves there; `stale` (ghost) records that a `Node.callFinalizer` reached such a removed node and ran
delFuncs that had run before.  `clearDel` is configuration, not state: `mBucket.delete` takes the delFuncs out
of the node (`delFuncs := n.delFuncs; n.delFuncs = nil` under `n.mu`) before it calls them — the repaired code,
`Gen.cacheDeleteClearsDelFuncs`; with `false` it is the code before that repair, which ran `n.delFuncs` and left
them in place.  `recheck` is configuration too: in the closed branch of `Node.unRefExternal` the finaliser is
called only `if atomic.LoadInt32(&n.ref) == 0` — the repaired code, `Gen.cacheClosedUnrefRechecks`; with `false` it
is called unconditionally, as before that repair. -/
structure Shared where
  nodes : List Node
  closed : Bool
  rlock : Nat
  lru : LRU
  nextId : Nat
  nextVal : Nat
  nextDel : Nat
  statNodes : Int
  statSize : Int
  handles : List Nat
  bug : Bool
  forced : Bool
  dropped : List Nat
  dead : List Node
  stale : Bool
  clearDel : Bool
  recheck : Bool
  deriving DecidableEq, Repr, Inhabited

inductive Call
  | get (k : Key) (sf : SetFunc)
  | delete (k : Key) (withDel : Bool)
  | evict (k : Key)
  | evictNS (ns : Nat)
  | evictAll
  /-- `EvictNS`/`EvictAll` whose (non-atomic, bucket by bucket) enumeration produced this node list. -/
  | evictIds (ids : List Nat)
  | setCapacity (c : Nat)
  | close (force : Bool)
  | release (id : Nat)
  deriving DecidableEq, Repr, Inhabited

inductive Mode
  | get (sf : SetFunc) | del (d : Option Nat) | evict
  deriving DecidableEq, Repr, Inhabited

inductive Instr
  /-- `r.mu.RLock(); if r.closed { return }` of Get/Delete/Evict/EvictNS/EvictAll -/
  | enter (c : Call)
  /-- `mBucket.get(…, getOnly)` -/
  | bget (k : Key) (m : Mode)
  /-- `n.mu.Lock(); if n.value == nil { … setFunc() … }; n.mu.Unlock()` in `Cache.Get` -/
  | setv (id : Nat) (sf : SetFunc)
  /-- `lru.Promote(n)` (its critical section; the releases of evicted handles follow as `unrefExt`, then
  `retHandle`) -/
  | promote (id : Nat)
  /-- `return &Handle{n}` -/
  | retHandle (id : Nat)
  /-- `n.mu.Lock(); n.delFuncs = append(n.delFuncs, delFunc); n.mu.Unlock()` -/
  | addDel (id : Nat) (d : Nat)
  /-- `lru.Ban(n)` -/
  | ban (id : Nat)
  /-- `lru.Evict(n)` -/
  | levict (id : Nat)
  /-- `Node.unRefInternal`: `atomic.AddInt32(&n.ref, -1)` -/
  | unrefInt (id : Nat)
  /-- `Node.unRefExternal`: `atomic.AddInt32(&n.ref, -1)` -/
  | unrefExt (id : Nat)
  /-- `unRefExternal` after the counter reached zero: `n.r.mu.RLock(); if n.r.closed …` -/
  | extz (id : Nat) (key : Key)
  /-- `Cache.delete(n)` = `mBucket.delete(…, n.ns, n.key)` and the code after its unlock -/
  | delz (key : Key)
  /-- `Node.callFinalizer` -/
  | fin (id : Nat) (forced : Bool)
  /-- `atomic.StoreInt32(&n.ref, 0)` in `Close(true)` -/
  | zero (id : Nat)
  /-- `delFunc()` of `Delete` when the node does not exist -/
  | runDel (d : Nat)
  /-- `r.mu.RUnlock()` -/
  | runlock
  /-- `lru.SetCapacity` -/
  | setcap (c : Nat)
  /-- `r.mu.Lock(); if !r.closed { r.closed = true; head = r.mHead; r.mHead = nil }; r.mu.Unlock()` -/
  | closeLock (force : Bool)
  /-- `Handle.Release`: the CAS on `h.n` -/
  | relH (id : Nat)
  | retBool (b : Bool)
  | retNil
  deriving DecidableEq, Repr, Inhabited

/-- Observable / ghost events. -/
inductive Ev
  /-- `setFunc` ran for node `id` and produced value `v` -/
  | ctor (id v : Nat)
  /-- `setFunc` ran and returned a nil value -/
  | ctorNil (id : Nat)
  /-- the value's `Release()` ran -/
  | fin (id v : Nat) (forced : Bool)
  /-- delFunc `d` ran; `id` = its node, `none` when it ran immediately because the node did not exist -/
  | delf (d : Nat) (id : Option Nat) (forced : Bool)
  /-- `Get` returned a handle to node `id`, whose value is `v` -/
  | handle (id : Nat) (v : Option Nat)
  | retNil
  | retBool (b : Bool)
  deriving DecidableEq, Repr, Inhabited

def findId (ns : List Node) (id : Nat) : Option Node := ns.find? (fun n => n.id == id)
def findKey (ns : List Node) (k : Key) : Option Node := ns.find? (fun n => n.key == k)
def upd (ns : List Node) (id : Nat) (f : Node → Node) : List Node :=
  ns.map fun n => if n.id = id then f n else n
def eraseId (ns : List Node) (id : Nat) : List Node := ns.filter (fun n => n.id != id)
/-- `n.Size()` through a node pointer. -/
def sizeOf (ns : List Node) (id : Nat) : Nat :=
  match findId ns id with
  | some n => n.size
  | none => 0

/-- The loop `for r.used > r.capacity { rn := r.recent.prev; rn.remove(); rn.n.CacheData = nil;
r.used -= rn.n.Size(); evicted = append(evicted, rn) }` of `Promote`/`SetCapacity`, on the reversed list
(least recently used first).  Result: remaining reversed list, `used`, evicted ids in order, and whether the
loop ran into the list sentinel (`rn.n == nil`: a nil dereference in the code). -/
def evictTail (ns : List Node) (cap : Nat) : List Nat → Nat → List Nat × Nat × List Nat × Bool
  | [], used => ([], used, [], decide (used > cap))
  | id :: rest, used =>
    if used > cap then
      let r := evictTail ns cap rest (used - sizeOf ns id)
      (r.1, r.2.1, id :: r.2.2.1, r.2.2.2)
    else (id :: rest, used, [], false)

def clearLru (ns : List Node) (ev : List Nat) : List Node :=
  ns.map fun n => if n.id ∈ ev then { n with lru := .none } else n

abbrev Res := Option (Shared × List Instr × List Ev)

/-- The body of each API call between `RLock` and the deferred `RUnlock`. -/
def execEnter (s : Shared) : Call → Res
  | .get k sf =>
    if s.closed then some (s, [], [.retNil])
    else some ({ s with rlock := s.rlock + 1 }, [.bget k (.get sf), .runlock], [])
  | .delete k withDel =>
    -- the harness numbers its delFuncs in call order; so does the model
    let d := if withDel then some s.nextDel else none
    let s := if withDel then { s with nextDel := s.nextDel + 1 } else s
    -- `if r.closed { return false }`: the delFunc is never called
    if s.closed then some ({ s with dropped := d.toList ++ s.dropped }, [], [.retBool false])
    else some ({ s with rlock := s.rlock + 1 }, [.bget k (.del d), .runlock], [])
  | .evict k =>
    if s.closed then some (s, [], [.retBool false])
    else some ({ s with rlock := s.rlock + 1 }, [.bget k .evict, .runlock], [])
  | .evictNS ns =>
    if s.closed then some (s, [], [])
    else some ({ s with rlock := s.rlock + 1 },
      ((s.nodes.filter fun n => n.key.1 == ns).map fun n => Instr.levict n.id) ++ [.runlock], [])
  | .evictAll =>
    if s.closed then some (s, [], [])
    else some ({ s with rlock := s.rlock + 1 }, (s.nodes.map fun n => Instr.levict n.id) ++ [.runlock], [])
  | .evictIds ids =>
    if s.closed then some (s, [], [])
    else some ({ s with rlock := s.rlock + 1 }, (ids.map Instr.levict) ++ [.runlock], [])
  | _ => none

/-- `mBucket.get` and what the caller does with the result. -/
def execBget (s : Shared) (k : Key) (m : Mode) : Res :=
  if s.closed then some ({ s with bug := true }, [], []) else
  match findKey s.nodes k with
  | some n =>
    let s' := { s with nodes := upd s.nodes n.id fun n => { n with ref := n.ref + 1 } }
    match m with
    | .get sf => some (s', [.setv n.id sf], [])
    | .del d =>
      some (s', (match d with | some d => [Instr.addDel n.id d] | none => []) ++
        [.ban n.id, .unrefInt n.id, .retBool true], [])
    | .evict => some (s', [.levict n.id, .unrefInt n.id, .retBool true], [])
  | none =>
    match m with
    | .get .none => some (s, [.retNil], [])
    | .get sf =>
      let n : Node := { id := s.nextId, key := k, ref := 1, value := none, size := 0, delFuncs := [],
                        lru := .none }
      some ({ s with nodes := n :: s.nodes, nextId := s.nextId + 1, statNodes := s.statNodes + 1 },
        [.setv n.id sf], [])
    | .del d => some (s, (match d with | some d => [Instr.runDel d] | none => []) ++ [.retBool false], [])
    | .evict => some (s, [.retBool false], [])

def execSetv (s : Shared) (id : Nat) (sf : SetFunc) : Res :=
  match findId s.nodes id with
  | none => some ({ s with bug := true }, [], [])
  | some n =>
    match n.value with
    | some _ => some (s, [.promote id], [])
    | none =>
      match sf with
      | .none => some (s, [.unrefInt id, .retNil], [])
      | .nilv _ =>
        some ({ s with nodes := upd s.nodes id fun n => { n with size := 0 } },
          [.unrefInt id, .retNil], [.ctorNil id])
      | .val sz =>
        some ({ s with nodes := upd s.nodes id fun n => { n with size := sz, value := some s.nextVal },
                       nextVal := s.nextVal + 1, statSize := s.statSize + sz },
          [.promote id], [.ctor id s.nextVal])

/-- `lru.Promote`, followed by the releases of the evicted handles and `return &Handle{n}` (the instruction
carries the reference that `mBucket.get` took for the caller). -/
def execPromote (s : Shared) (id : Nat) : Res :=
  match findId s.nodes id with
  | none => some ({ s with bug := true }, [], [])
  | some n =>
    match n.lru with
    | .none =>
      if n.size ≤ s.lru.capacity then
        -- `n.GetHandle()` panics when the counter was not positive
        let bug1 := decide (n.ref + 1 ≤ 1)
        let ns1 := upd s.nodes id fun n => { n with ref := n.ref + 1, lru := .inList }
        let r := evictTail ns1 s.lru.capacity (id :: s.lru.recent).reverse (s.lru.used + n.size)
        some ({ s with nodes := clearLru ns1 r.2.2.1,
                       lru := { s.lru with used := r.2.1, recent := r.1.reverse },
                       bug := s.bug || bug1 || r.2.2.2 },
              r.2.2.1.map Instr.unrefExt ++ [.retHandle id], [])
      else some (s, [.retHandle id], [])
    | .inList =>
      some ({ s with lru := { s.lru with recent := id :: s.lru.recent.erase id } }, [.retHandle id], [])
    | .banned => some (s, [.retHandle id], [])

/-- `lru.Ban`. -/
def execBan (s : Shared) (id : Nat) : Res :=
  match findId s.nodes id with
  | none => some ({ s with bug := true }, [], [])
  | some n =>
    match n.lru with
    | .none => some ({ s with nodes := upd s.nodes id fun n => { n with lru := .banned } }, [], [])
    | .inList =>
      some ({ s with nodes := upd s.nodes id fun n => { n with lru := .banned },
                     lru := { s.lru with recent := s.lru.recent.erase id, used := s.lru.used - n.size } },
            [.unrefExt id], [])
    | .banned => some (s, [], [])

/-- `lru.Evict`; the node pointer may be stale (enumerations hold no reference). -/
def execLevict (s : Shared) (id : Nat) : Res :=
  match findId s.nodes id with
  | none => some (s, [], [])
  | some n =>
    match n.lru with
    | .inList =>
      some ({ s with nodes := upd s.nodes id fun n => { n with lru := .none },
                     lru := { s.lru with recent := s.lru.recent.erase id, used := s.lru.used - n.size } },
            [.unrefExt id], [])
    | _ => some (s, [], [])

/-- `lru.SetCapacity`. -/
def execSetcap (s : Shared) (c : Nat) : Res :=
  let r := evictTail s.nodes c s.lru.recent.reverse s.lru.used
  some ({ s with nodes := clearLru s.nodes r.2.2.1,
                 lru := { capacity := c, used := r.2.1, recent := r.1.reverse },
                 bug := s.bug || r.2.2.2 },
        r.2.2.1.map Instr.unrefExt, [])

def finEvents (n : Node) (forced : Bool) : List Ev :=
  (match n.value with | some v => [Ev.fin n.id v forced] | none => []) ++
    n.delFuncs.map fun d => Ev.delf d (some n.id) forced

/-- `mBucket.delete` for the (ns,key) of the node being unreferenced, with the code after the unlock
(delFuncs, counters).  It finds whatever node currently has that key. -/
def execDelz (s : Shared) (k : Key) : Res :=
  if s.closed then some ({ s with bug := true }, [], []) else
  match findKey s.nodes k with
  | none => some (s, [], [])
  | some n =>
    if n.ref = 0 then
      some ({ s with nodes := eraseId s.nodes n.id, statSize := s.statSize - n.size,
                     statNodes := s.statNodes - 1,
                     dead := { n with value := none,
                                      delFuncs := if s.clearDel then [] else n.delFuncs } :: s.dead }, [],
            finEvents n false)
    else some (s, [], [])

def execUnref (s : Shared) (id : Nat) (ext : Bool) : Res :=
  match findId s.nodes id with
  | none => some ({ s with bug := true }, [], [])
  | some n =>
    some ({ s with nodes := upd s.nodes id fun n => { n with ref := n.ref - 1 } },
      if n.ref - 1 = 0 then (if ext then [.extz id n.key] else [.delz n.key]) else [], [])

/-- `Node.callFinalizer` through a stale pointer, to a node that `mBucket.delete` removed meanwhile: its value is
nil already; whatever `mBucket.delete` left in `delFuncs` (nothing in the repaired code, the delFuncs it had just
run before the repair) runs — a second time. -/
def execFinStale (s : Shared) (id : Nat) (forced : Bool) : Res :=
  match findId s.dead id with
  | none => some ({ s with bug := true }, [], [])
  | some n =>
    some ({ s with bug := true, stale := s.stale || !n.delFuncs.isEmpty,
                   dead := upd s.dead id fun n => { n with delFuncs := [] } }, [],
      n.delFuncs.map fun d => Ev.delf d (some n.id) forced)

def execFin (s : Shared) (id : Nat) (forced : Bool) : Res :=
  match findId s.nodes id with
  | none => execFinStale s id forced
  | some n =>
    some ({ s with nodes := upd s.nodes id fun n => { n with value := none, delFuncs := [] } }, [],
      finEvents n forced)

def execCloseLock (s : Shared) (force : Bool) : Res :=
  if s.rlock ≠ 0 then none
  else if s.closed then some (s, [], [])
  else some ({ s with closed := true, forced := force },
    s.nodes.flatMap (fun n =>
      (if force then [Instr.zero n.id] else []) ++ [Instr.levict n.id] ++
      (if force then [Instr.fin n.id true] else [])), [])

/-- `atomic.LoadInt32(&n.ref) != 0` through a node pointer (a node that `mBucket.delete` removed was removed with
a zero counter, and nobody can find it any more). -/
def refNonZero (ns : List Node) (id : Nat) : Bool :=
  match findId ns id with
  | some n => decide (n.ref ≠ 0)
  | none => false

def exec (s : Shared) : Instr → Res
  | .enter c => execEnter s c
  | .bget k m => execBget s k m
  | .setv id sf => execSetv s id sf
  | .promote id => execPromote s id
  | .retHandle id =>
    some ({ s with handles := id :: s.handles }, [], [.handle id ((findId s.nodes id).bind (·.value))])
  | .addDel id d =>
    some ({ s with nodes := upd s.nodes id fun n => { n with delFuncs := n.delFuncs ++ [d] } }, [], [])
  | .ban id => execBan s id
  | .levict id => execLevict s id
  | .unrefInt id => execUnref s id false
  | .unrefExt id => execUnref s id true
  | .extz id key =>
    if s.closed then
      -- repaired code: `if atomic.LoadInt32(&n.ref) == 0 { n.callFinalizer() }`
      if s.recheck && refNonZero s.nodes id then
        some ({ s with rlock := s.rlock + 1 }, [.runlock], [])
      else some ({ s with rlock := s.rlock + 1 }, [.fin id false, .runlock], [])
    else some ({ s with rlock := s.rlock + 1 }, [.delz key, .runlock], [])
  | .delz key => execDelz s key
  | .fin id forced => execFin s id forced
  | .zero id =>
    some ({ s with nodes := upd s.nodes id fun n => { n with ref := 0 } }, [], [])
  | .runDel d => some (s, [], [.delf d none false])
  | .runlock => some ({ s with rlock := s.rlock - 1 }, [], [])
  | .setcap c => execSetcap s c
  | .closeLock force => execCloseLock s force
  | .relH id =>
    if id ∈ s.handles then some ({ s with handles := s.handles.erase id }, [.unrefExt id], [])
    else some (s, [], [])
  | .retBool b => some (s, [], [.retBool b])
  | .retNil => some (s, [], [.retNil])

def startCall : Call → List Instr
  | .setCapacity c => [.setcap c]
  | .close force => [.closeLock force]
  | .release id => [.relH id]
  | c => [.enter c]

/-- Which version of the code the model runs (see `Shared.clearDel`, `Shared.recheck`). -/
structure Cfg where
  clearDel : Bool
  recheck : Bool
  deriving DecidableEq, Repr, Inhabited

/-- The code as it is: both flags are read off the source by `tools/extract`. -/
def Cfg.code : Cfg := { clearDel := Gen.cacheDeleteClearsDelFuncs, recheck := Gen.cacheClosedUnrefRechecks }

/-- `cache.NewCache(cache.NewLRU(capacity))`, for the given version of the code. -/
def Shared.newCfg (cfg : Cfg) (capacity : Nat) : Shared :=
  { nodes := [], closed := false, rlock := 0, lru := { capacity := capacity, used := 0, recent := [] },
    nextId := 0, nextVal := 0, nextDel := 0, statNodes := 0, statSize := 0, handles := [], bug := false,
    forced := false, dropped := [], dead := [], stale := false, clearDel := cfg.clearDel,
    recheck := cfg.recheck }

/-- `cache.NewCache(cache.NewLRU(capacity))` of the code as it is. -/
def Shared.new (capacity : Nat) : Shared := Shared.newCfg Cfg.code capacity

/-! ## Sequential API: one thread, each call run to completion -/

def runInstrs : Nat → Shared → List Instr → List Ev → Option (Shared × List Ev)
  | 0, _, _, _ => none
  | _ + 1, s, [], evs => some (s, evs)
  | f + 1, s, i :: rest, evs =>
    match exec s i with
    | none => none
    | some (s', push, e) => runInstrs f s' (push ++ rest) (evs ++ e)

/-- Fuel for one call: every node can be evicted, released, deleted and finalised at most once per call. -/
def callFuel (s : Shared) : Nat := 16 * (s.nodes.length + 4)

def call (s : Shared) (c : Call) : Option (Shared × List Ev) :=
  runInstrs (callFuel s + (match c with | .evictIds ids => 8 * ids.length | _ => 0)) s (startCall c) []

def Shared.Nodes (s : Shared) : Int := s.statNodes
def Shared.Size (s : Shared) : Int := s.statSize

/-! ## Interleaving system -/

structure Sys where
  sh : Shared
  threads : List (List Instr)
  log : List Ev
  deriving DecidableEq, Repr, Inhabited

def Sys.initCfg (cfg : Cfg) (capacity nthreads : Nat) : Sys :=
  { sh := Shared.newCfg cfg capacity, threads := List.replicate nthreads [], log := [] }

/-- The initial state for the code as it is. -/
def Sys.init (capacity nthreads : Nat) : Sys := Sys.initCfg Cfg.code capacity nthreads

inductive Act
  | call (t : Nat) (c : Call)
  | step (t : Nat)
  deriving DecidableEq, Repr, Inhabited

def isExtz : Instr → Bool
  | .extz _ _ => true
  | _ => false

/-- No thread sits between the decrement that brought a counter to zero in `unRefExternal` and the `RLock`
that follows it. -/
def noPendingExtz (ts : List (List Instr)) : Bool := ts.all fun t => t.all fun i => !isExtz i

/-- The guard of `sysStep`: with `guarded`, `closeLock` is only scheduled while `noPendingExtz`. -/
def stepOK (guarded : Bool) (ts : List (List Instr)) : Instr → Bool
  | .closeLock _ => !guarded || noPendingExtz ts
  | _ => true

/-- One scheduling step.  With `guarded`, `Close` takes `r.mu` only while `noPendingExtz` (the hypothesis under
which the finalisation properties hold; `Props/C17.lean` shows it is needed). -/
def sysStep (guarded : Bool) (s : Sys) : Act → Option Sys
  | .call t c =>
    match s.threads[t]? with
    | some [] => some { s with threads := s.threads.set t (startCall c) }
    | _ => none
  | .step t =>
    match s.threads[t]? with
    | some (i :: rest) =>
      if stepOK guarded s.threads i then
        match exec s.sh i with
        | some (sh', push, evs) =>
          some { sh := sh', threads := s.threads.set t (push ++ rest), log := s.log ++ evs }
        | none => none
      else none
    | _ => none

/-- The events of a step (`sysStep` appends them to the log). -/
def emitted (s : Sys) : Act → List Ev
  | .call _ _ => []
  | .step t =>
    match s.threads[t]? with
    | some (i :: _) => match exec s.sh i with | some (_, _, evs) => evs | none => []
    | _ => []

/-- All instructions some thread still has to execute. -/
def pending (s : Sys) : List Instr := s.threads.flatten

/-- `*Handle`s a thread owns: about to be returned, or being released. -/
def holdsHandle (id : Nat) : Instr → Bool
  | .retHandle j => j == id
  | .unrefExt j => j == id
  | _ => false

/-- Handles to node `id` that are outstanding: owned by callers, by the LRU list, or in the hands of a thread. -/
def outstanding (s : Sys) (id : Nat) : Nat :=
  s.sh.handles.count id + s.sh.lru.recent.count id + (pending s).countP (holdsHandle id)

def runSched (guarded : Bool) : Sys → List Act → Option Sys
  | s, [] => some s
  | s, a :: as =>
    match sysStep guarded s a with
    | some s' => runSched guarded s' as
    | none => none

inductive Reachable (guarded : Bool) : Sys → Prop
  | init (cfg : Cfg) (capacity nthreads : Nat) : Reachable guarded (Sys.initCfg cfg capacity nthreads)
  | step {s s' : Sys} (a : Act) : Reachable guarded s → sysStep guarded s a = some s' → Reachable guarded s'

end GoLevel.CacheM
