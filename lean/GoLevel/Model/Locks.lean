import GoLevel.Gen.Consts
import GoLevel.Model.CompErr
/-!
# Blocking resources of `leveldb.DB` and the control flow of every public call over them (property C09)

Resources: the write-lock token (`writeLockC`, capacity 1: `tok`), `compCommitLk` (`clk`), the transaction
mutex `tr.lk` (`trlk`), the command/ack rendezvous with the two compaction goroutines (`mc` = `mCompaction`
on `mcompCmdC`, `tc` = `tCompaction` on `tcompCmdC`) together with their `closeC` / `compErrC` / `compPerErrC`
alternatives, the error goroutine `compactionError` (`eh`), `closeC` (`closed`).

Threads are client goroutines, each performing one public call; a thread is its program counter (`Pc`).
Every storage action inside a call or a compaction has an `ok` and a `fail` outcome; the steps with a
`fail` outcome are the *fault* steps (`Step cfg true`), all other steps are `Step cfg false`.

Four return paths could leave a resource held; the model is parametrised by `Cfg` with one flag per path
(`true` = the path releases), the `select` / `switch` cases of `compactionError` (`Cfg.m`), and whether
`tCompaction` consults `compReadOnly` (`Cfg.roParks`).  `Cfg.asIs` (the four flags `false`) is the code as it was
when the model was first written, `Cfg.repaired` has every leak closed and the machine as coded, `codeCfg` takes
everything from the regenerated `Gen/Consts.lean`, i.e. from the Go source as it is now:

* `commitUnlocksOnError` — `Transaction.Commit` returns with `compCommitLk` held after three failed
  `s.commit` attempts (`db_transaction.go`, `if cerr != nil { return cerr }` after the retry loop);
* `openTxReleasesOnError` — `OpenTransaction` returns the errors of `rotateMem` / `waitCompaction` without
  `<-db.writeLockC`;
* `largeBatchDiscardsOnCommitError` — `DB.Write`'s large-batch path returns a failed `tr.Commit()` without
  `tr.Discard()`: the transaction (and the token it owns) is orphaned;
* `setReadOnlyReleasesOnClose` — `SetReadOnly` takes the token, sets `compWriteLocking`, and if its second
  `select` then takes the `closeC` arm it returned `ErrClosed` with the token still in `writeLockC`;
  `compactionError` releases it on `closeC` only from its `hasperr` loop.  (Found while modelling, D23;
  repaired: the arm now does `select { case <-db.writeLockC: default: }`.)

The error goroutine is `Model/CompErr.lean`: `Cfg.m` says which `select` / `switch` cases `compactionError` has
(`CompErr.codeM`: read off the Go AST), and every step that talks to it — `compactionTransact`'s
`select { case db.compErrSetC <- err: … case perr := <-db.compPerErrC: … case <-db.closeC: … }`, the `compErrC` /
`compPerErrC` arms of the calls, `SetReadOnly`'s two `select`s, the `writeLockC` send / take-back of the `hasperr`
loop — is enabled exactly when the machine offers the matching operation in its current label.  Error kinds
(`CompErr.EK`): a compaction's storage action ends with `nil`, a transient error, or a corruption
(`errors.IsCorrupted`, fault steps `bgWorkCorrupt` / `bgCommitCorrupt`, possible while `St.corr`); `SetReadOnly`
posts `ErrReadOnly`.  `St.cwl` is `db.compWriteLocking` (set by `compactionError` when it takes `ErrReadOnly` —
`SetReadOnly` has put the token into `writeLockC` for it — and by the `hasperr` loop when it takes the lock
itself; read by the `closeC` case of `hasperr`), `St.ro` is `db.compReadOnly` (consulted by `tCompaction` if
`Cfg.roParks`: it answers a command with `ErrReadOnly` and parks until `closeC`).  Until `compactionError` has
taken `ErrReadOnly` the token is `SetReadOnly`'s, which gives it back itself when it gives up (`compPerErrC`,
`closeC`).  Before 832d000 (`Cfg.before832`, flags `srSetsWriteLocking` …) `SetReadOnly` set `compWriteLocking`
itself and both take-backs could run for one token.

`Close` and the persistent-error loop (wp51, D42).  *As found* (`Cfg.asFound`: `closeSel = false`, `m = .asCoded false`):
on `closeC` the machine, holding the lock for `compWriteLocking`, gives it back (`<-db.writeLockC`, step `ehTake`) and
`Close` takes it with a plain send (`clAcq`) — or a writer that was parked in its `select` does (`selTok`).  *Now*
(`Cfg.repaired`: `closeSel = true`, `m = .asCoded true`): the machine keeps the lock and closes `compLockedC`; `Close`
waits in `select { case db.writeLockC <- struct{}{}: case <-db.compLockedC: }`.  The first arm is `clAcq`; the second
is `clAcqKept`, which is at the same time the machine's `close(db.compLockedC); return` (label `closing` → `exited`):
closing a channel never blocks and only `Close`'s `select` looks at `compLockedC`, so the two are one step of the
model; the ghost ownership of the token passes from the machine (`ehTok`) to `Close` (`closeTok`), the token itself
never leaves `writeLockC`.

Abstractions: the write-merge protocol is C10 (here a `Put` is a non-merging writer); `tcompPauseC` is not
modelled; a compaction goroutine works only on waited commands (`compTriggerWait` / `compTriggerRange`);
when a compaction goroutine exits it does not ack its waiter with `ErrClosed` — the waiter's own `closeC`
arm, or its `compErrC` arm when the goroutine ended on a persistent error (enabled in the same states) stands
for it; the back-off timer of `compactionTransact` is "retry"; `db.ok()` prechecks are subsumed by the
`closeC` arms.
-/
namespace GoLevel.Locks

structure Cfg where
  commitUnlocksOnError : Bool
  openTxReleasesOnError : Bool
  largeBatchDiscardsOnCommitError : Bool
  setReadOnlyReleasesOnClose : Bool
  /-- the `select` and `switch` cases of `compactionError` (`Model/CompErr.lean`) -/
  m : CompErr.MCfg
  /-- `tCompaction` consults `compReadOnly` at the top of its loop and before executing a command -/
  roParks : Bool
  /-- `SetReadOnly` and `compactionTransact` talk to `compactionError` as modelled (a shape fact: no step
  depends on it, `codeCfg = Cfg.repaired` demands it) -/
  callers : Bool
  /-- `SetReadOnly` does `db.compWriteLocking = true` itself right after it has taken the token (so it was until
  832d000; now `compactionError` sets the flag when it takes `ErrReadOnly`) -/
  srSetsWriteLocking : Bool
  /-- the `compPerErrC` arm of `SetReadOnly`'s second `select` gives its token back (`<-db.writeLockC`) before it
  returns the error (since 832d000; before, the token stayed for `compWriteLocking`) -/
  srPerErrGivesBack : Bool
  /-- `noerr`: the `err == ErrReadOnly` case does `db.compWriteLocking = true` (since 832d000) -/
  noerrROSetsLock : Bool
  /-- `haserr`: likewise -/
  haserrROSetsLock : Bool
  /-- `Close` acquires the write lock with `select { case db.writeLockC <- struct{}{}: case <-db.compLockedC: }`
  (since the repair of D42; before: the plain send) -/
  closeSel : Bool
deriving DecidableEq, Repr

/-- every release in place, `compactionError` as coded, the hand-over of the token from `SetReadOnly` to
`compactionError` as coded since 832d000: the source as it is now -/
def Cfg.repaired : Cfg :=
  { commitUnlocksOnError := true, openTxReleasesOnError := true, largeBatchDiscardsOnCommitError := true,
    setReadOnlyReleasesOnClose := true, m := .asCoded true, roParks := true, callers := true,
    srSetsWriteLocking := false, srPerErrGivesBack := true, noerrROSetsLock := true, haserrROSetsLock := true,
    closeSel := true }

/-- the source as found by wp40/wp51 (after 832d000, before the repair of D42): on `closeC` the persistent-error
loop gives the write lock back and `Close` takes it with a plain send — or a parked writer does
(`C09.readonly_write_slips_through_on_close`) -/
def Cfg.asFound : Cfg := { Cfg.repaired with m := .asCoded false, closeSel := false }

/-- the source between the repair of D23 and 832d000: `SetReadOnly` sets `compWriteLocking` itself, and both
take-backs of that token — `SetReadOnly`'s `select { case <-db.writeLockC: default: }` on `closeC` and the
machine's `<-db.writeLockC` — can run for the same token (`C09.write_lock_lost`) -/
def Cfg.before832 : Cfg :=
  { Cfg.asFound with srSetsWriteLocking := true, srPerErrGivesBack := false, noerrROSetsLock := false,
                      haserrROSetsLock := false }

/-- the code as it was when the model was first written: none of the four releases -/
def Cfg.asIs : Cfg :=
  { Cfg.before832 with commitUnlocksOnError := false, openTxReleasesOnError := false,
                       largeBatchDiscardsOnCommitError := false, setReadOnlyReleasesOnClose := false,
                       roParks := false }

/-- the hand-over of the write-lock token as coded since 832d000 -/
def Cfg.HandsOver (cfg : Cfg) : Prop :=
  cfg.srSetsWriteLocking = false ∧ cfg.srPerErrGivesBack = true ∧ cfg.noerrROSetsLock = true ∧
  cfg.haserrROSetsLock = true
/-- … and as coded before -/
def Cfg.Blind (cfg : Cfg) : Prop :=
  cfg.srSetsWriteLocking = true ∧ cfg.srPerErrGivesBack = false ∧ cfg.noerrROSetsLock = false ∧
  cfg.haserrROSetsLock = false
def Cfg.Shape (cfg : Cfg) : Prop := cfg.HandsOver ∨ cfg.Blind

instance (cfg : Cfg) : Decidable cfg.HandsOver := by unfold Cfg.HandsOver; infer_instance
instance (cfg : Cfg) : Decidable cfg.Blind := by unfold Cfg.Blind; infer_instance

/-- the configuration of the Go source as it is now: every fact is read off the Go AST on every run
(`Gen/Consts.lean` is regenerated) -/
def codeCfg : Cfg :=
  { commitUnlocksOnError := Gen.lkCommitUnlocksOnError, openTxReleasesOnError := Gen.lkOpenTxReleasesOnError,
    largeBatchDiscardsOnCommitError := Gen.lkLargeBatchDiscardsOnCommitError,
    setReadOnlyReleasesOnClose := Gen.lkSetReadOnlyReleasesOnClose, m := CompErr.codeM,
    roParks := Gen.roCompactionParks, callers := Gen.ceCallersAsModelled,
    srSetsWriteLocking := Gen.lkSetReadOnlySetsWriteLocking, srPerErrGivesBack := Gen.lkSetReadOnlyPerErrGivesBack,
    noerrROSetsLock := Gen.ceNoerrROSetsLock, haserrROSetsLock := Gen.ceHaserrROSetsLock,
    closeSel := Gen.lkCloseSelectsCompLocked }

export CompErr (Eh EK)
open CompErr (recvs next offErr offPer offLock closes onClose)

/-- the three leaks of `Commit`, `OpenTransaction` and the large-batch `Write` are closed -/
def Fixed3 (cfg : Cfg) : Prop :=
  cfg.commitUnlocksOnError = true ∧ cfg.openTxReleasesOnError = true ∧
  cfg.largeBatchDiscardsOnCommitError = true

/-- call sites of `compTriggerWait` / `compTriggerRange` -/
inductive Site
  | put        -- `flush`: `rotateMem` or the L0 pause, inside `writeLocked` (token held)
  | otxRot1    -- `OpenTransaction` → `rotateMem(0, true)`: first wait (token held)
  | otxRot2    -- … second wait (token held)
  | otxWaitM   -- `OpenTransaction`, empty memdb: `compTriggerWait(mcompCmdC)` (token held)
  | otxWaitT   -- `OpenTransaction` → `waitCompaction` (token held)
  | cmWaitT    -- `Commit` → `waitCompaction` (`tr.lk` held; error ignored)
  | crRot      -- `CompactRange` → `rotateMem(0, false)` (token held)
  | crWaitM    -- `CompactRange` → `compTriggerWait(mcompCmdC)`
  | crRange    -- `CompactRange` → `compTriggerRange(tcompCmdC, …)`
deriving DecidableEq, Repr

/-- program counters; `lg = true`: the call is part of `DB.Write`'s large-batch path -/
inductive Pc
  | idle | ret (ok : Bool)
  /-- the call returned the error it received from `compPerErrC` at its first `select` -/
  | retE (e : EK)
  -- Put / Delete / small Write
  | putSel | putFlush | putJournal | putUnlock (ok : Bool)
  -- compTriggerWait: send the command, wait for the ack
  | cwSend (b : Bool) (site : Site) (lg : Bool) | cwAck (b : Bool) (site : Site) (lg : Bool)
  -- OpenTransaction
  | otxSel (lg : Bool) | otxBranch (lg : Bool) | otxNewMem (lg : Bool) | otxWaitComp (lg : Bool)
  | otxFail (lg : Bool) | otxRel (lg : Bool) | otxDone (lg : Bool)
  | lgWrite
  -- Transaction.Commit
  | cmLockTr (lg : Bool) | cmFlush (lg : Bool) | cmLockClk (lg : Bool) | cmTry (k : Nat) (lg : Bool)
  | cmSleep (k : Nat) (lg : Bool) | cmFail3 (lg : Bool) | cmAfterOk (lg : Bool) | cmWaitComp (lg : Bool)
  | cmDone (lg : Bool) | cmRet (ok : Bool) (lg : Bool)
  -- Transaction.Discard
  | dcLockTr (lg : Bool) | dcBody (lg : Bool)
  -- CompactRange
  | crSel | crCheck | crNewMem | crRelM | crRelOk | crRelFail
  -- SetReadOnly
  | srSel | srSet
  -- Close
  | clCheckTr | clLockTr | clBody | clAcq | clWait
deriving DecidableEq, Repr

/-- phases of a compaction (`compactionTransact` around the table writes, then `compactionCommit`) -/
inductive BPh
  | work | setErr (ok : Bool) (commit : Bool) | backoff (commit : Bool) | lockClk | commit | ackW
  /-- at the `select` of `compactionTransact` with an error for which `errors.IsCorrupted` holds -/
  | setErrC (commit : Bool)
deriving DecidableEq, Repr

/-- a compaction goroutine -/
inductive Bg
  | idle | run (w : Option Nat) (ph : BPh) | exited
  /-- `tCompaction` saw `compReadOnly` at the top of its loop: `<-db.closeC` -/
  | parked
deriving DecidableEq, Repr

structure St where
  ws : List Pc
  tok : Bool := false
  clk : Bool := false
  trlk : Bool := false
  closed : Bool := false
  /-- `db.tr != nil`: an open transaction owns the token -/
  trOpen : Bool := false
  /-- the open transaction's handle is in the user's hands (not internal to `DB.Write`) -/
  trUser : Bool := false
  /-- ghost: a token put into `writeLockC` by `SetReadOnly` or by the `hasperr` loop has not been taken back -/
  ehTok : Bool := false
  /-- `db.compWriteLocking` -/
  cwl : Bool := false
  /-- `db.compReadOnly` -/
  ro : Bool := false
  /-- `compactionError`'s variable `err` (the last value received from `compErrSetC`) -/
  ehErr : EK := .nil
  /-- ghost: the token is held by `Close` -/
  closeTok : Bool := false
  mc : Bg := .idle
  tc : Bg := .idle
  eh : Eh := .noerr
  /-- the client program may call `SetReadOnly` (never changed by a step) -/
  sr : Bool := true
  /-- a compaction's storage action may fail with a corruption error (never changed by a step) -/
  corr : Bool := true
deriving DecidableEq, Repr

def St.bg (s : St) (b : Bool) : Bg := if b then s.tc else s.mc
def St.setBg (s : St) (b : Bool) (v : Bg) : St := if b then { s with tc := v } else { s with mc := v }

/-- continuation of a wait that succeeded -/
def onOk : Site → Bool → Pc
  | .put, _ => .putJournal
  | .otxRot1, lg => .otxNewMem lg
  | .otxRot2, lg => .otxWaitComp lg
  | .otxWaitM, lg => .otxWaitComp lg
  | .otxWaitT, lg => .otxDone lg
  | .cmWaitT, lg => .cmDone lg
  | .crRot, _ => .crNewMem
  | .crWaitM, _ => .cwSend true .crRange false
  | .crRange, _ => .ret true

/-- continuation of a wait that returned an error (`compErrC`, `closeC`) -/
def onErr : Site → Bool → Pc
  | .put, _ => .putUnlock false
  | .otxRot1, lg => .otxFail lg
  | .otxRot2, lg => .otxFail lg
  | .otxWaitM, lg => .otxRel lg
  | .otxWaitT, lg => .otxFail lg
  | .cmWaitT, lg => .cmDone lg
  | .crRot, _ => .crRelFail
  | .crWaitM, _ => .ret false
  | .crRange, _ => .ret false

/-- where the `select` on `writeLockC` leads -/
def selNext : Pc → Option Pc
  | .putSel => some .putFlush
  | .otxSel lg => some (.otxBranch lg)
  | .crSel => some .crCheck
  | .srSel => some .srSet
  | _ => none

/-- token / `compCommitLk` / `tr.lk` held by a thread at this program counter -/
def tokW : Pc → Nat
  | .putFlush | .putJournal | .putUnlock _ => 1
  | .cwSend _ s _ | .cwAck _ s _ =>
    (match s with | .put | .otxRot1 | .otxRot2 | .otxWaitM | .otxWaitT | .crRot => 1 | _ => 0)
  | .otxBranch _ | .otxNewMem _ | .otxWaitComp _ | .otxFail _ | .otxRel _ | .otxDone _ => 1
  | .crCheck | .crNewMem | .crRelM | .crRelOk | .crRelFail => 1
  | _ => 0

def clkW : Pc → Nat
  | .cmTry _ _ | .cmSleep _ _ | .cmFail3 _ | .cmAfterOk _ => 1
  | _ => 0

def trlkW : Pc → Nat
  | .cmFlush _ | .cmLockClk _ | .cmTry _ _ | .cmSleep _ _ | .cmFail3 _ | .cmAfterOk _ | .cmWaitComp _
  | .cmDone _ | .dcBody _ | .clBody => 1
  | .cwSend _ .cmWaitT _ | .cwAck _ .cmWaitT _ => 1
  | _ => 0

def bphClk : BPh → Nat
  | .commit | .setErr _ true | .backoff true | .setErrC true => 1
  | _ => 0

def bgClk : Bg → Nat
  | .run _ ph => bphClk ph
  | _ => 0

def b2n (b : Bool) : Nat := if b then 1 else 0

def tot (f : Pc → Nat) (ws : List Pc) : Nat := (ws.map f).sum

/-! ## the termination measure (fault-free steps decrease it) -/

/-- weight of a thread waiting for the ack at a site: more than both continuations -/
def ackWt : Site → Nat
  | .put => 3 | .crRange => 1 | .crWaitM => 10 | .crRot => 21 | .cmWaitT => 5
  | .otxWaitT => 28 | .otxRot2 => 38 | .otxWaitM => 38 | .otxRot1 => 48

def wt : Pc → Nat
  | .idle => 60 | .ret _ => 0 | .retE _ => 0
  | .putSel => 13 | .putFlush => 12 | .putJournal => 2 | .putUnlock _ => 1
  | .cwSend _ s _ => ackWt s + 8 | .cwAck _ s _ => ackWt s
  | .otxSel _ => 58 | .otxBranch _ => 57 | .otxNewMem _ => 47 | .otxWaitComp _ => 37
  | .otxFail _ => 1 | .otxRel _ => 1 | .otxDone _ => 27
  | .lgWrite => 26
  | .cmLockTr _ => 25 | .cmFlush _ => 24 | .cmLockClk _ => 23 | .cmTry k _ => 16 + 2 * k
  | .cmSleep k _ => 17 + 2 * k | .cmFail3 _ => 4 | .cmAfterOk _ => 15 | .cmWaitComp _ => 14
  | .cmDone _ => 4 | .cmRet _ _ => 3
  | .dcLockTr _ => 2 | .dcBody _ => 1
  | .crSel => 31 | .crCheck => 30 | .crNewMem => 20 | .crRelM => 19 | .crRelOk => 10 | .crRelFail => 1
  | .srSel => 3 | .srSet => 2
  | .clCheckTr => 5 | .clLockTr => 4 | .clBody => 3 | .clAcq => 2 | .clWait => 1

def bphWt : BPh → Nat
  | .setErr false _ => 9 | .backoff _ => 8 | .work => 7 | .setErr true false => 6 | .lockClk => 5
  | .commit => 4 | .setErr true true => 3 | .ackW => 2 | .setErrC _ => 3

def bgWt : Bg → Nat
  | .idle => 1 | .run _ ph => bphWt ph | .exited => 0 | .parked => 1

def ehWt : Eh → Nat
  | .exited => 0 | .closing => 2 | _ => 3

/-- the waiter `i` has left: forget it -/
def clearW (x : Bg) (i : Nat) : Bg :=
  match x with
  | .run (some j) ph => if j = i then .run none ph else .run (some j) ph
  | x => x

/-- `x.ack(nil)`: the waiter `w`, if it is still waiting for this goroutine, continues -/
def ackWs (ws : List Pc) (w : Option Nat) (b : Bool) : List Pc :=
  match w with
  | some i =>
    (match ws[i]? with
     | some (.cwAck b' site lg) => if b' = b then ws.set i (onOk site lg) else ws
     | _ => ws)
  | none => ws

/-- after `setErr`: on success go on (a successful commit unlocks `compCommitLk` and acks), else back off -/
def afterSetErr (ok commit : Bool) : BPh :=
  if ok then (if commit then .ackW else .lockClk) else .backoff commit

/-- where `tCompaction` is after it finished a command: at its `select`, or — having seen `compReadOnly` at
the top of the loop — parked (`mCompaction` does not look at the flag) -/
def afterCmd (cfg : Cfg) (s : St) (b : Bool) : Bg :=
  if b && cfg.roParks && s.ro then .parked else .idle

/-- receiving `ErrReadOnly` in this label makes `compactionError` set `compWriteLocking` -/
def roSets (cfg : Cfg) : Eh → Bool
  | .noerr => cfg.m.noerrRO && cfg.noerrROSetsLock
  | .haserr => cfg.m.haserrRO && cfg.haserrROSetsLock
  | _ => false

/-- `setDone`: the transaction ends, its token goes back -/
def St.setDone (s : St) : St :=
  if s.trOpen then { s with trOpen := false, trUser := false, tok := false } else s

/-- the step relation; the Bool index says whether the step is a storage *failure* -/
inductive Step (cfg : Cfg) : Bool → St → St → Prop
  -- ### calls start
  | startPut (s : St) (i : Nat) (hi : s.ws[i]? = some .idle) :
      Step cfg false s { s with ws := s.ws.set i .putSel }
  | startWrite (s : St) (i : Nat) (hi : s.ws[i]? = some .idle) :
      Step cfg false s { s with ws := s.ws.set i (.otxSel true) }
  | startOtx (s : St) (i : Nat) (hi : s.ws[i]? = some .idle) :
      Step cfg false s { s with ws := s.ws.set i (.otxSel false) }
  | startCommit (s : St) (i : Nat) (hi : s.ws[i]? = some .idle) (hu : s.trUser = true) :
      Step cfg false s { s with ws := s.ws.set i (.cmLockTr false) }
  | startDiscard (s : St) (i : Nat) (hi : s.ws[i]? = some .idle) (hu : s.trUser = true) :
      Step cfg false s { s with ws := s.ws.set i (.dcLockTr false) }
  | startCR (s : St) (i : Nat) (hi : s.ws[i]? = some .idle) :
      Step cfg false s { s with ws := s.ws.set i .crSel }
  | startSR (s : St) (i : Nat) (hi : s.ws[i]? = some .idle) (ha : s.sr = true) :
      Step cfg false s { s with ws := s.ws.set i .srSel }
  /-- `Close`: `setClosed`, `close(db.closeC)`; a second `Close` returns `ErrClosed` -/
  | startClose (s : St) (i : Nat) (hi : s.ws[i]? = some .idle) :
      Step cfg false s (if s.closed then { s with ws := s.ws.set i (.ret false) }
                        else { s with ws := s.ws.set i .clCheckTr, closed := true })
  -- ### `select { case db.writeLockC <- …; case <-db.compPerErrC; case <-db.closeC }`
  | selTok (s : St) (i : Nat) (p q : Pc) (hi : s.ws[i]? = some p) (hq : selNext p = some q)
      (ht : s.tok = false) :
      Step cfg false s { s with ws := s.ws.set i q, tok := true, ehTok := if p = .srSel then true else s.ehTok,
                                cwl := s.cwl || (p == .srSel && cfg.srSetsWriteLocking) }
  | selPerErr (s : St) (i : Nat) (p q : Pc) (hi : s.ws[i]? = some p) (hq : selNext p = some q)
      (he : offPer cfg.m s.eh = true) :
      Step cfg false s { s with ws := s.ws.set i (.retE s.ehErr) }
  | selClosed (s : St) (i : Nat) (p q : Pc) (hi : s.ws[i]? = some p) (hq : selNext p = some q)
      (hc : s.closed = true) :
      Step cfg false s { s with ws := s.ws.set i (.ret false) }
  -- ### Put
  | putNoWait (s : St) (i : Nat) (hi : s.ws[i]? = some .putFlush) :
      Step cfg false s { s with ws := s.ws.set i .putJournal }
  | putWait (s : St) (i : Nat) (b : Bool) (hi : s.ws[i]? = some .putFlush) :
      Step cfg false s { s with ws := s.ws.set i (.cwSend b .put false) }
  | putJournalOk (s : St) (i : Nat) (hi : s.ws[i]? = some .putJournal) :
      Step cfg false s { s with ws := s.ws.set i (.putUnlock true) }
  | putJournalFail (s : St) (i : Nat) (hi : s.ws[i]? = some .putJournal) :
      Step cfg true s { s with ws := s.ws.set i (.putUnlock false) }
  | putUnlock (s : St) (i : Nat) (r : Bool) (hi : s.ws[i]? = some (.putUnlock r)) :
      Step cfg false s { s with ws := s.ws.set i (.ret r), tok := false }
  -- ### `compTriggerWait` / `compTriggerRange`
  | cwSendGo (s : St) (i : Nat) (b : Bool) (site : Site) (lg : Bool)
      (hi : s.ws[i]? = some (.cwSend b site lg)) (hb : s.bg b = .idle)
      (hro : (b && cfg.roParks && s.ro) = false) :
      Step cfg false s ({ s with ws := s.ws.set i (.cwAck b site lg) }.setBg b (.run (some i) .work))
  /-- `tCompaction` receives the command, sees `compReadOnly`: `x.ack(ErrReadOnly)`, `continue`, and at the
  top of the loop `<-db.closeC` -/
  | cwSendRO (s : St) (i : Nat) (site : Site) (lg : Bool)
      (hi : s.ws[i]? = some (.cwSend true site lg)) (hb : s.tc = .idle)
      (hp : cfg.roParks = true) (hro : s.ro = true) :
      Step cfg false s { s with ws := s.ws.set i (onErr site lg), tc := .parked }
  | cwSendErr (s : St) (i : Nat) (b : Bool) (site : Site) (lg : Bool)
      (hi : s.ws[i]? = some (.cwSend b site lg))
      (he : offErr cfg.m s.eh = true ∨ s.closed = true) :
      Step cfg false s { s with ws := s.ws.set i (onErr site lg) }
  /-- the waiter leaves (its ack channel is closed: the later ack is a no-op) -/
  | cwAckErr (s : St) (i : Nat) (b : Bool) (site : Site) (lg : Bool)
      (hi : s.ws[i]? = some (.cwAck b site lg))
      (he : offErr cfg.m s.eh = true ∨ s.closed = true) :
      Step cfg false s ({ s with ws := s.ws.set i (onErr site lg) }.setBg b (clearW (s.bg b) i))
  -- ### OpenTransaction
  | otxRotate (s : St) (i : Nat) (lg : Bool) (hi : s.ws[i]? = some (.otxBranch lg)) :
      Step cfg false s { s with ws := s.ws.set i (.cwSend false .otxRot1 lg) }
  | otxNoRotate (s : St) (i : Nat) (lg : Bool) (hi : s.ws[i]? = some (.otxBranch lg)) :
      Step cfg false s { s with ws := s.ws.set i (.cwSend false .otxWaitM lg) }
  | otxNewMemOk (s : St) (i : Nat) (lg : Bool) (hi : s.ws[i]? = some (.otxNewMem lg)) :
      Step cfg false s { s with ws := s.ws.set i (.cwSend false .otxRot2 lg) }
  | otxNewMemFail (s : St) (i : Nat) (lg : Bool) (hi : s.ws[i]? = some (.otxNewMem lg)) :
      Step cfg true s { s with ws := s.ws.set i (.otxFail lg) }
  | otxNoWaitComp (s : St) (i : Nat) (lg : Bool) (hi : s.ws[i]? = some (.otxWaitComp lg)) :
      Step cfg false s { s with ws := s.ws.set i (.otxDone lg) }
  | otxWaitComp (s : St) (i : Nat) (lg : Bool) (hi : s.ws[i]? = some (.otxWaitComp lg)) :
      Step cfg false s { s with ws := s.ws.set i (.cwSend true .otxWaitT lg) }
  /-- `return nil, err` after `rotateMem` / `waitCompaction` failed — the leak (flag false): no `<-db.writeLockC` -/
  | otxFail (s : St) (i : Nat) (lg : Bool) (hi : s.ws[i]? = some (.otxFail lg)) :
      Step cfg false s { s with ws := s.ws.set i (.ret false),
                                tok := if cfg.openTxReleasesOnError then false else s.tok }
  | otxRel (s : St) (i : Nat) (lg : Bool) (hi : s.ws[i]? = some (.otxRel lg)) :
      Step cfg false s { s with ws := s.ws.set i (.ret false), tok := false }
  | otxDone (s : St) (i : Nat) (lg : Bool) (hi : s.ws[i]? = some (.otxDone lg)) :
      Step cfg false s { s with ws := s.ws.set i (if lg then .lgWrite else .ret true),
                                trOpen := true, trUser := !lg }
  -- ### the large-batch path of `DB.Write`
  | lgWriteOk (s : St) (i : Nat) (hi : s.ws[i]? = some .lgWrite) :
      Step cfg false s { s with ws := s.ws.set i (.cmLockTr true) }
  | lgWriteFail (s : St) (i : Nat) (hi : s.ws[i]? = some .lgWrite) :
      Step cfg true s { s with ws := s.ws.set i (.dcLockTr true) }
  -- ### Transaction.Commit
  | cmLockTr (s : St) (i : Nat) (lg : Bool) (hi : s.ws[i]? = some (.cmLockTr lg)) (hl : s.trlk = false) :
      Step cfg false s (if s.trOpen then { s with ws := s.ws.set i (.cmFlush lg), trlk := true }
                        else { s with ws := s.ws.set i (.cmRet false lg) })
  | cmFlushOk (s : St) (i : Nat) (lg : Bool) (hi : s.ws[i]? = some (.cmFlush lg)) :
      Step cfg false s { s with ws := s.ws.set i (.cmLockClk lg) }
  | cmFlushEmpty (s : St) (i : Nat) (lg : Bool) (hi : s.ws[i]? = some (.cmFlush lg)) :
      Step cfg false s { s with ws := s.ws.set i (.cmDone lg) }
  | cmFlushFail (s : St) (i : Nat) (lg : Bool) (hi : s.ws[i]? = some (.cmFlush lg)) :
      Step cfg true s { s with ws := s.ws.set i (.cmRet false lg), trlk := false }
  | cmLockClk (s : St) (i : Nat) (lg : Bool) (hi : s.ws[i]? = some (.cmLockClk lg)) (hl : s.clk = false) :
      Step cfg false s { s with ws := s.ws.set i (.cmTry 3 lg), clk := true }
  | cmTryOk (s : St) (i : Nat) (k : Nat) (lg : Bool) (hi : s.ws[i]? = some (.cmTry k lg)) :
      Step cfg false s { s with ws := s.ws.set i (.cmAfterOk lg) }
  | cmTryFail (s : St) (i : Nat) (k : Nat) (lg : Bool) (hi : s.ws[i]? = some (.cmTry (k + 1) lg)) :
      Step cfg true s { s with ws := s.ws.set i (.cmSleep k lg) }
  | cmSleepTimer (s : St) (i : Nat) (k : Nat) (lg : Bool) (hi : s.ws[i]? = some (.cmSleep k lg)) :
      Step cfg false s { s with ws := s.ws.set i (if k = 0 then .cmFail3 lg else .cmTry k lg) }
  | cmSleepClosed (s : St) (i : Nat) (k : Nat) (lg : Bool) (hi : s.ws[i]? = some (.cmSleep k lg))
      (hc : s.closed = true) :
      Step cfg false s { s with ws := s.ws.set i (.cmRet false lg), clk := false, trlk := false }
  /-- `if cerr != nil { return cerr }` after the loop — THE LEAK: no `compCommitLk.Unlock()` -/
  | cmFail3 (s : St) (i : Nat) (lg : Bool) (hi : s.ws[i]? = some (.cmFail3 lg)) :
      Step cfg false s { s with ws := s.ws.set i (.cmRet false lg), trlk := false,
                                clk := if cfg.commitUnlocksOnError then false else s.clk }
  | cmAfterOk (s : St) (i : Nat) (lg : Bool) (hi : s.ws[i]? = some (.cmAfterOk lg)) :
      Step cfg false s { s with ws := s.ws.set i (.cmWaitComp lg), clk := false }
  | cmNoWaitComp (s : St) (i : Nat) (lg : Bool) (hi : s.ws[i]? = some (.cmWaitComp lg)) :
      Step cfg false s { s with ws := s.ws.set i (.cmDone lg) }
  | cmWaitComp (s : St) (i : Nat) (lg : Bool) (hi : s.ws[i]? = some (.cmWaitComp lg)) :
      Step cfg false s { s with ws := s.ws.set i (.cwSend true .cmWaitT lg) }
  | cmDone (s : St) (i : Nat) (lg : Bool) (hi : s.ws[i]? = some (.cmDone lg)) :
      Step cfg false s { s.setDone with ws := s.ws.set i (.cmRet true lg), trlk := false }
  /-- `Commit` returns; inside `DB.Write` a failure is returned as is — THE LEAK: no `tr.Discard()` -/
  | cmRet (s : St) (i : Nat) (ok lg : Bool) (hi : s.ws[i]? = some (.cmRet ok lg)) :
      Step cfg false s { s with ws := (s.ws.set i
        (if lg && !ok && cfg.largeBatchDiscardsOnCommitError then .dcLockTr true else .ret ok)) }
  -- ### Transaction.Discard
  | dcLockTr (s : St) (i : Nat) (lg : Bool) (hi : s.ws[i]? = some (.dcLockTr lg)) (hl : s.trlk = false) :
      Step cfg false s { s with ws := s.ws.set i (.dcBody lg), trlk := true }
  | dcBody (s : St) (i : Nat) (lg : Bool) (hi : s.ws[i]? = some (.dcBody lg)) :
      Step cfg false s { s.setDone with ws := s.ws.set i (.ret (!lg)), trlk := false }
  -- ### CompactRange
  | crNoOverlap (s : St) (i : Nat) (hi : s.ws[i]? = some .crCheck) :
      Step cfg false s { s with ws := s.ws.set i .crRelOk }
  | crOverlap (s : St) (i : Nat) (hi : s.ws[i]? = some .crCheck) :
      Step cfg false s { s with ws := s.ws.set i (.cwSend false .crRot false) }
  | crNewMemOk (s : St) (i : Nat) (hi : s.ws[i]? = some .crNewMem) :
      Step cfg false s { s with ws := s.ws.set i .crRelM }
  | crNewMemFail (s : St) (i : Nat) (hi : s.ws[i]? = some .crNewMem) :
      Step cfg true s { s with ws := s.ws.set i .crRelFail }
  | crRelM (s : St) (i : Nat) (hi : s.ws[i]? = some .crRelM) :
      Step cfg false s { s with ws := s.ws.set i (.cwSend false .crWaitM false), tok := false }
  | crRelOk (s : St) (i : Nat) (hi : s.ws[i]? = some .crRelOk) :
      Step cfg false s { s with ws := s.ws.set i (.cwSend true .crRange false), tok := false }
  | crRelFail (s : St) (i : Nat) (hi : s.ws[i]? = some .crRelFail) :
      Step cfg false s { s with ws := s.ws.set i (.ret false), tok := false }
  -- ### SetReadOnly (second `select`)
  /-- `case db.compErrSetC <- ErrReadOnly: atomic.StoreUint32(&db.compReadOnly, 1)`; `return nil` -/
  | srSend (s : St) (i : Nat) (hi : s.ws[i]? = some .srSet) (he : recvs cfg.m s.eh = true) :
      Step cfg false s { s with ws := s.ws.set i (.ret true), eh := next cfg.m s.eh .readonly,
                                ehErr := .readonly, ro := true, cwl := s.cwl || roSets cfg s.eh }
  /-- `case perr := <-db.compPerErrC:` (`<-db.writeLockC`, since 832d000) `return perr` -/
  | srPerErr (s : St) (i : Nat) (hi : s.ws[i]? = some .srSet) (he : offPer cfg.m s.eh = true) :
      Step cfg false s (if cfg.srPerErrGivesBack
                        then { s with ws := s.ws.set i (.retE s.ehErr), tok := false, ehTok := false }
                        else { s with ws := s.ws.set i (.retE s.ehErr) })
  /-- `case <-db.closeC: <-db.writeLockC; return ErrClosed` (before 832d000:
  `select { case <-db.writeLockC: default: }` — whatever token is in the channel is taken out; flag false: the
  code before the repair of D23, the token stays) -/
  | srClosed (s : St) (i : Nat) (hi : s.ws[i]? = some .srSet) (hc : s.closed = true) :
      Step cfg false s (if cfg.setReadOnlyReleasesOnClose
                        then { s with ws := s.ws.set i (.ret false), tok := false, ehTok := false }
                        else { s with ws := s.ws.set i (.ret false) })
  -- ### Close
  | clCheckTr (s : St) (i : Nat) (hi : s.ws[i]? = some .clCheckTr) :
      Step cfg false s { s with ws := s.ws.set i (if s.trOpen then .clLockTr else .clAcq) }
  | clLockTr (s : St) (i : Nat) (hi : s.ws[i]? = some .clLockTr) (hl : s.trlk = false) :
      Step cfg false s { s with ws := s.ws.set i .clBody, trlk := true }
  | clBody (s : St) (i : Nat) (hi : s.ws[i]? = some .clBody) :
      Step cfg false s { s.setDone with ws := s.ws.set i .clAcq, trlk := false }
  /-- `db.writeLockC <- struct{}{}` — as found without alternative, now the first arm of `Close`'s `select` -/
  | clAcq (s : St) (i : Nat) (hi : s.ws[i]? = some .clAcq) (ht : s.tok = false) :
      Step cfg false s { s with ws := s.ws.set i .clWait, tok := true, closeTok := true }
  /-- `case <-db.compLockedC:` of `Close`'s `select`, together with the machine's `close(db.compLockedC); return` in
  the `closeC` case of `hasperr`: the lock the machine holds for `compWriteLocking` is now held by `Close` -/
  | clAcqKept (s : St) (i : Nat) (hi : s.ws[i]? = some .clAcq) (he : s.eh = .closing)
      (hk : cfg.m.hasperrKeepsLock = true) (hs : cfg.closeSel = true) :
      Step cfg false s { s with ws := s.ws.set i .clWait, eh := .exited, ehTok := false, closeTok := true }
  /-- `db.closeW.Wait()` -/
  | clWait (s : St) (i : Nat) (hi : s.ws[i]? = some .clWait) (hm : s.mc = .exited) (ht : s.tc = .exited) :
      Step cfg false s { s with ws := s.ws.set i (.ret true) }
  -- ### `compactionError` (its receives from `compErrSetC` and its sends on `compErrC` / `compPerErrC` are
  -- part of the steps of their partners)
  /-- `case db.writeLockC <- struct{}{}: db.compWriteLocking = true` -/
  | ehAcquire (s : St) (he : offLock cfg.m s.eh = true) (ht : s.tok = false) :
      Step cfg false s { s with tok := true, ehTok := true, cwl := true }
  /-- `case <-db.closeC:` … `return`, in `hasperr` after `if db.compWriteLocking { <-db.writeLockC }` (as found: `ehTake`)
  resp. `if db.compWriteLocking { close(db.compLockedC) }` (now: `clAcqKept`) -/
  | ehClose (s : St) (he : closes cfg.m s.eh = true) (hc : s.closed = true) :
      Step cfg false s { s with eh := onClose cfg.m s.eh s.cwl }
  /-- `<-db.writeLockC` in the `closeC` case of `hasperr` (as found): a blocking receive, whatever token is there -/
  | ehTake (s : St) (he : s.eh = .closing) (ht : s.tok = true) (hg : cfg.m.hasperrGivesBack = true) :
      Step cfg false s { s with eh := .exited, tok := false, ehTok := false }
  -- ### the compaction goroutines
  | bgExitIdle (s : St) (b : Bool) (hb : s.bg b = .idle) (hc : s.closed = true) :
      Step cfg false s (s.setBg b .exited)
  /-- the parked `tCompaction`: `<-db.closeC; return` -/
  | bgExitParked (s : St) (hb : s.tc = .parked) (hc : s.closed = true) :
      Step cfg false s { s with tc := .exited }
  | bgWorkOk (s : St) (b : Bool) (w : Option Nat) (hb : s.bg b = .run w .work) :
      Step cfg false s (s.setBg b (.run w (.setErr true false)))
  | bgWorkFail (s : St) (b : Bool) (w : Option Nat) (hb : s.bg b = .run w .work) :
      Step cfg true s (s.setBg b (.run w (.setErr false false)))
  | bgCommitOk (s : St) (b : Bool) (w : Option Nat) (hb : s.bg b = .run w .commit) :
      Step cfg false s (s.setBg b (.run w (.setErr true true)))
  | bgCommitFail (s : St) (b : Bool) (w : Option Nat) (hb : s.bg b = .run w .commit) :
      Step cfg true s (s.setBg b (.run w (.setErr false true)))
  | bgWorkCorrupt (s : St) (b : Bool) (w : Option Nat) (hb : s.bg b = .run w .work) (hk : s.corr = true) :
      Step cfg true s (s.setBg b (.run w (.setErrC false)))
  | bgCommitCorrupt (s : St) (b : Bool) (w : Option Nat) (hb : s.bg b = .run w .commit) (hk : s.corr = true) :
      Step cfg true s (s.setBg b (.run w (.setErrC true)))
  /-- `case db.compErrSetC <- err` (received where the machine has a `compErrSetC` case); then `return` on
  `nil`, else the back-off -/
  | bgSetErr (s : St) (b : Bool) (w : Option Nat) (ok c : Bool) (hb : s.bg b = .run w (.setErr ok c))
      (he : recvs cfg.m s.eh = true) :
      Step cfg false s ({ s with eh := next cfg.m s.eh (if ok then .nil else .transient),
                                 ehErr := if ok then .nil else .transient,
                                 clk := if ok && c then false else s.clk }.setBg b (.run w (afterSetErr ok c)))
  /-- `case db.compErrSetC <- err` with a corruption; then `if errors.IsCorrupted(err) { …
  db.compactionExitTransact() }`: the deferred `compCommitLk.Unlock()` runs, the goroutine ends -/
  | bgSetErrCorrupt (s : St) (b : Bool) (w : Option Nat) (c : Bool) (hb : s.bg b = .run w (.setErrC c))
      (he : recvs cfg.m s.eh = true) :
      Step cfg false s ({ s with eh := next cfg.m s.eh .corrupt, ehErr := .corrupt,
                                 clk := if c then false else s.clk }.setBg b .exited)
  /-- `case perr := <-db.compPerErrC` with `err == nil` -/
  | bgSetErrPer (s : St) (b : Bool) (w : Option Nat) (c : Bool) (hb : s.bg b = .run w (.setErr true c))
      (he : offPer cfg.m s.eh = true) :
      Step cfg false s ({ s with clk := if c then false else s.clk }.setBg b (.run w (afterSetErr true c)))
  | bgBackoff (s : St) (b : Bool) (w : Option Nat) (c : Bool) (hb : s.bg b = .run w (.backoff c)) :
      Step cfg false s (s.setBg b (.run w (if c then .commit else .work)))
  /-- `db.compCommitLk.Lock()` — no alternative -/
  | bgLockClk (s : St) (b : Bool) (w : Option Nat) (hb : s.bg b = .run w .lockClk) (hl : s.clk = false) :
      Step cfg false s ({ s with clk := true }.setBg b (.run w .commit))
  /-- `x.ack(nil)`: the waiter, if it still waits, goes on -/
  | bgAck (s : St) (b : Bool) (w : Option Nat) (hb : s.bg b = .run w .ackW) :
      Step cfg false s ({ s with ws := ackWs s.ws w b }.setBg b (afterCmd cfg s b))
  /-- `compactionExitTransact` (closed at the top of the retry loop, `closeC` in a `select`, a persistent
  error with `err != nil`): the deferred `compCommitLk.Unlock()` runs, the goroutine ends -/
  | bgExit (s : St) (b : Bool) (w : Option Nat) (ph : BPh) (hb : s.bg b = .run w ph)
      (hx : (s.closed = true ∧ ph ≠ .lockClk ∧ ph ≠ .ackW) ∨
            (offPer cfg.m s.eh = true ∧ ∃ c, ph = .setErr false c ∨ ph = .setErrC c)) :
      Step cfg false s ({ s with clk := if bphClk ph = 1 then false else s.clk }.setBg b .exited)

/-- runs (storage failures allowed) -/
inductive Steps (cfg : Cfg) : St → St → Prop
  | refl (s : St) : Steps cfg s s
  | tail {s t u : St} {f : Bool} : Steps cfg s t → Step cfg f t u → Steps cfg s u

theorem Steps.trans {cfg : Cfg} {s t u : St} (h1 : Steps cfg s t) (h2 : Steps cfg t u) : Steps cfg s u := by
  induction h2 with
  | refl => exact h1
  | tail _ h ih => exact .tail ih h

/-- fault-free runs -/
inductive StepsNF (cfg : Cfg) : St → St → Prop
  | refl (s : St) : StepsNF cfg s s
  | tail {s t u : St} : StepsNF cfg s t → Step cfg false t u → StepsNF cfg s u

/-- initial states: `n` idle threads, an open DB -/
def init (n : Nat) : St := { ws := List.replicate n .idle }

def Reachable (cfg : Cfg) (s : St) : Prop := ∃ n, Steps cfg (init n) s

/-- initial states of client programs that never call `SetReadOnly` -/
def initNoSR (n : Nat) : St := { ws := List.replicate n .idle, sr := false }

/-- reachable in a run in which no thread executes `SetReadOnly` -/
def ReachableNoSR (cfg : Cfg) (s : St) : Prop := ∃ n, Steps cfg (initNoSR n) s

def srAllW : Pc → Nat | .srSel | .srSet => 1 | _ => 0

/-- no thread is inside `SetReadOnly`, and none will be -/
def NoSR (s : St) : Prop := s.sr = false ∧ tot srAllW s.ws = 0

/-- initial states in which no storage action reports a corruption -/
def initNC (n : Nat) : St := { ws := List.replicate n .idle, corr := false }

/-- reachable in a run without corruption errors -/
def ReachableNC (cfg : Cfg) (s : St) : Prop := ∃ n, Steps cfg (initNC n) s

def measure (s : St) : Nat :=
  2 * (tot wt s.ws + bgWt s.mc + bgWt s.tc + ehWt s.eh) + (if s.tok then 0 else 1)

/-- a call is in progress -/
def pending : Pc → Bool
  | .idle | .ret _ | .retE _ => false
  | _ => true

end GoLevel.Locks
