import GoLevel.Model.Bytes
/-!
# Snappy block decoder (`github.com/golang/snappy` v0.0.4: `decode.go`, `decode_other.go`)

Block format only (not the framed stream format): a uvarint with the decoded length, then elements that are
either literals or copies from the output produced so far.  Mirrors `Decode` / `decodedLen` / `decode` (the
pure-Go `decode_other.go`; the assembly versions implement the same function) on a 64-bit platform.
The output is kept reversed: a copy element appends, `length` times, the byte `offset` positions back from
the current end — the byte-by-byte forward copy of the code, which is also what the built-in `copy` yields
when source and destination do not overlap.
-/
namespace GoLevel.Snappy

/-- `decodedLen`: decoded length and header size; `none` = `ErrCorrupt` (bad varint or more than 32 bits) -/
def decodedLen (src : Bytes) : Option (Nat × Nat) :=
  match readUvarint src with
  | none => none
  | some (v, n) => if v > 0xffffffff then none else some (v, n)

/-- forward copy of `length` bytes starting `offset` back from the end of the (reversed) output -/
def copyBack (offset : Nat) : Nat → List UInt8 → List UInt8
  | 0, out => out
  | n + 1, out => copyBack offset n (out.getD (offset - 1) 0 :: out)

/-- the tail shared by the three copy tags: bounds checks, then the copy -/
def doCopy (dLen offset length : Nat) (out : List UInt8) : Option (List UInt8) :=
  if offset = 0 ∨ out.length < offset ∨ length > dLen - out.length then none
  else some (copyBack offset length out)

/-- a literal of `length` bytes taken from `data` -/
def doLiteral (dLen length : Nat) (data : Bytes) (out : List UInt8) : Option (Bytes × List UInt8) :=
  if length > dLen - out.length ∨ length > data.length then none
  else some (data.drop length, (data.take length).reverse ++ out)

/-- the loop of `decode`; `out` is the output so far, reversed; every round consumes at least one byte of `src`,
so `fuel = len(src)` suffices -/
def decodeLoop (dLen : Nat) : Nat → Bytes → List UInt8 → Option Bytes
  | _, [], out => if out.length = dLen then some out.reverse else none
  | 0, _ :: _, _ => none
  | fuel + 1, tag :: rest, out =>
    let t := tag.toNat
    match t % 4 with
    | 0 =>                                   -- tagLiteral
      let x := t / 4
      let extra := if x < 60 then 0 else x - 59          -- bytes holding the length
      if extra > rest.length then none
      else
        let len := (if x < 60 then x else rdLE (rest.take extra)) + 1
        match doLiteral dLen len (rest.drop extra) out with
        | none => none
        | some (src', out') => decodeLoop dLen fuel src' out'
    | 1 =>                                   -- tagCopy1
      match rest with
      | b1 :: src' =>
        match doCopy dLen ((t / 32) * 256 + b1.toNat) (4 + (t / 4) % 8) out with
        | none => none
        | some out' => decodeLoop dLen fuel src' out'
      | [] => none
    | 2 =>                                   -- tagCopy2
      if rest.length < 2 then none
      else
        match doCopy dLen (rdLE (rest.take 2)) (1 + t / 4) out with
        | none => none
        | some out' => decodeLoop dLen fuel (rest.drop 2) out'
    | _ =>                                   -- tagCopy4
      if rest.length < 4 then none
      else
        match doCopy dLen (rdLE (rest.take 4)) (1 + t / 4) out with
        | none => none
        | some out' => decodeLoop dLen fuel (rest.drop 4) out'

/-- `snappy.Decode(nil, src)`; `none` = an error (`ErrCorrupt`, …) -/
def decode (src : Bytes) : Option Bytes :=
  match decodedLen src with
  | none => none
  | some (dLen, n) => decodeLoop dLen (src.length) (src.drop n) []

end GoLevel.Snappy
