import GoLevel.Gen.Consts
import GoLevel.Model.Bytes
/-!
# Buffers across the API boundary (C20)

A heap of byte cells; the DB's stored values and the caller's buffers are cells.  Every path that moves
bytes across the API boundary either *copies* (allocates a fresh cell) or *aliases* (hands over the same
cell), as the code does: `Batch.appendRec` and `memdb.Put` copy what they are given, `DB.get` copies a memdb
hit, `table.Reader.find` copies the value out of the (cached) block, `dbIter.next/prev` copy into
iterator-owned buffers.  The caller may overwrite any cell it owns — its argument buffers and anything a
call returned — at any time.  The configuration says which paths copy; `codeCfg` is read off the Go source
by the extractor.
-/
namespace GoLevel.Own

abbrev Cell := Nat

structure Cfg where
  putCopies      : Bool   -- Put / Batch.Put / memdb.Put: argument buffers are copied into DB-owned memory
  memGetCopies   : Bool   -- a Get served from a write buffer returns a copy
  tableGetCopies : Bool   -- a Get served from a table returns a copy
  iterCopies     : Bool   -- iterator Key/Value are copies held by the iterator
deriving DecidableEq, Repr

def Cfg.safe (c : Cfg) : Bool := c.putCopies && c.memGetCopies && c.tableGetCopies && c.iterCopies

/-- the configuration of the code, from the regenerated facts -/
def codeCfg : Cfg :=
  { putCopies := Gen.ownBatchCopies && Gen.ownMemdbPutCopies
    memGetCopies := Gen.ownMemGetCopies
    tableGetCopies := Gen.ownTableGetCopies
    iterCopies := Gen.ownIterCopies }

/-- where a stored value currently lives -/
inductive Loc | mem | table
deriving DecidableEq, Repr

structure State where
  heap  : List Bytes                         -- cell id ↦ contents
  store : List (Bytes × Cell × Loc)          -- key ↦ cell holding the stored value, and where it lives
  owned : List Cell                          -- cells the caller may overwrite
deriving Repr

def State.init : State := ⟨[], [], []⟩

def State.read (s : State) (c : Cell) : Bytes := s.heap.getD c []

def State.alloc (s : State) (b : Bytes) : State × Cell := ({ s with heap := s.heap ++ [b] }, s.heap.length)

def State.lookup (s : State) (k : Bytes) : Option (Cell × Loc) :=
  (s.store.find? (·.1 = k)).map (·.2)

/-- the caller comes to hold (a reference to) cell `c` -/
def State.give (s : State) (c : Cell) : State := { s with owned := s.owned ++ [c] }

/-- the write buffer now maps `k` to `cell` -/
def State.bind (s : State) (k : Bytes) (cell : Cell) : State :=
  { s with store := (k, cell, .mem) :: s.store.filter (·.1 ≠ k) }

/-- hand the contents of the stored cell to the caller: a fresh copy, or the stored cell itself -/
def State.hand (s : State) (copies : Bool) (cell : Cell) : State :=
  if copies then (s.alloc (s.read cell)).1.give (s.alloc (s.read cell)).2 else s.give cell

/-- does a Get served from `loc` copy? (`DB.get`: memdb hit / `table.Reader.find`) -/
def Cfg.getCopies (c : Cfg) : Loc → Bool
  | .mem => c.memGetCopies
  | .table => c.tableGetCopies

inductive Op
  | put (k v : Bytes)            -- the caller fills a fresh buffer with `v` and passes it
  | flush                        -- background: values move from the write buffer to tables (no copy semantics change)
  | get (k : Bytes)              -- output: the bytes returned
  | iterAt (k : Bytes)           -- an iterator positioned at `k`: output its Value()
  | scribble (i : Nat) (b : Bytes)  -- the caller overwrites the i-th cell it owns with `b` (same length not required)
deriving Repr

/-- one step: new state and the bytes a reading call returned (if any) -/
def step (c : Cfg) (s : State) : Op → State × Option Bytes
  | .put k v =>
    -- caller-owned argument buffer
    let s1 := (s.alloc v).1.give (s.alloc v).2
    if c.putCopies then
      ((s1.alloc v).1.bind k (s1.alloc v).2, none)
    else
      (s1.bind k (s.alloc v).2, none)
  | .flush => ({ s with store := s.store.map fun e => (e.1, e.2.1, .table) }, none)
  | .get k =>
    match s.lookup k with
    | none => (s, some [])
    | some (cell, loc) => (s.hand (c.getCopies loc) cell, some (s.read cell))
  | .iterAt k =>
    match s.lookup k with
    | none => (s, some [])
    | some (cell, _) => (s.hand c.iterCopies cell, some (s.read cell))
  | .scribble i b =>
    match s.owned[i]? with
    | some cell => ({ s with heap := s.heap.set cell b }, none)
    | none => (s, none)

/-- outputs of a program -/
def run (c : Cfg) : State → List Op → List Bytes
  | _, [] => []
  | s, op :: ops =>
    match (step c s op).2 with
    | some b => b :: run c (step c s op).1 ops
    | none => run c (step c s op).1 ops

def Op.isScribble : Op → Bool
  | .scribble .. => true
  | _ => false

/-- the same program with the caller never touching a buffer after the call -/
def clean (ops : List Op) : List Op := ops.filter (!·.isScribble)

end GoLevel.Own
