import GoLevel.Gen.Consts
/-!
# Lifecycle: ownership of a storage, modes of a DB, handles, and what every public method does in each state

Layer E of the model (protocols / lifecycle), property C18.  The file has two parts.

**Tables.**  For every public method of `*leveldb.DB`, `*leveldb.Snapshot`, `*leveldb.Transaction` and of the
iterator returned by `NewIterator` (`dbIter`), the *error class* the code returns in each lifecycle state and
whether the call — or background work that the call starts — *may* emit a mutating storage action
(`Create`, `Write`, `Sync`, `Remove`, `Rename`, `SetMeta`).  The tables record **what the code does**
(`db.go`, `db_write.go`, `db_snapshot.go`, `db_transaction.go`, `db_iter.go`, `db_state.go`), including the places
where that is not what one would wish; the wishes are the theorems of `Props/C18.lean`, stated with the
exceptions listed explicitly.

**Machine.**  A small state machine of one DB (`St`, `step`) with the two background loops of
`db_compaction.go` (`mCompaction`: flush of the frozen memdb, `tCompaction`: table compactions), and a machine of
one storage with several DBs competing for its lock (`Sys`, `Sys.step`), which is the ownership token
(`session.storLock`, taken by `newSession`, dropped by `session.release` in `DB.Close` and on a failed `Open`).

Error classes of methods without an error result: `NewIterator` ⇒ class of `Error()` of the returned iterator;
iterator methods ⇒ class of `Error()` right after the call; `Release`/`Discard`/`String` ⇒ `ok` unless they panic.
-/
namespace GoLevel.Life

/-- `openRW`: `Open`/`OpenFile`/`Recover` without `ReadOnly`.  `openRO`: opened with `opt.Options.ReadOnly`
(`openDB`: `recoverJournalRO`, no `tCompaction`/`mCompaction` goroutines, then `SetReadOnly`).
`switchedRO`: `SetReadOnly` was called on an `openRW` DB (the goroutines keep running).  `closed`: after `Close`. -/
inductive Mode | openRW | openRO | switchedRO | closed
  deriving DecidableEq, Repr

/-- Error classes.  `ok` = nil error; `notfound` = `ErrNotFound`; `closed` = `ErrClosed`; `readonly` = `ErrReadOnly`;
`released` = `ErrSnapshotReleased` / `ErrIterReleased`; `txdone` = `errTransactionDone`; `locked` = `storage.ErrLocked`
(or the `flock` error of `storage.OpenFile`); `other` = any other error; `panic` = the call panics;
`blocks` = the call does not return until another call releases the write lock. -/
inductive Cls | ok | notfound | closed | readonly | released | txdone | locked | other | panic | blocks
  deriving DecidableEq, Repr

structure Outcome where
  cls : Cls
  /-- further classes the code may return in this state (depends on state the tables do not track) -/
  alt : List Cls := []
  /-- may the call, or background work that it starts, emit a mutating storage action -/
  mutates : Bool
  deriving DecidableEq, Repr

/-! ## methods -/

/-- `*leveldb.DB`; variants by argument where the class depends on it: `getMiss` = key absent,
`getPropertyBad` = unknown property name, `writeEmpty` = batch of length 0, `writeNil` = nil batch,
`writeLarge` = batch larger than the write buffer (routed through a transaction unless
`DisableLargeBatchTransaction`). -/
inductive DBm
  | close | compactRange | delete | get | getMiss | getProperty | getPropertyBad | getSnapshot | has
  | newIterator | openTransaction | put | setReadOnly | sizeOf | stats | write | writeEmpty | writeNil | writeLarge
  deriving DecidableEq, Repr

def DBm.all : List DBm :=
  [.close, .compactRange, .delete, .get, .getMiss, .getProperty, .getPropertyBad, .getSnapshot, .has,
   .newIterator, .openTransaction, .put, .setReadOnly, .sizeOf, .stats, .write, .writeEmpty, .writeNil, .writeLarge]

/-- `*leveldb.Snapshot` -/
inductive SnapM | get | getMiss | has | newIterator | release | string
  deriving DecidableEq, Repr
def SnapM.all : List SnapM := [.get, .getMiss, .has, .newIterator, .release, .string]

/-- `*leveldb.Transaction` -/
inductive TxM | commit | delete | discard | get | getMiss | has | newIterator | put | write | writeEmpty
  deriving DecidableEq, Repr
def TxM.all : List TxM := [.commit, .delete, .discard, .get, .getMiss, .has, .newIterator, .put, .write, .writeEmpty]

/-- `iterator.Iterator` as implemented by `dbIter` -/
inductive IterM | first | last | seek | next | prev | valid | key | value | error | release | setReleaser
  deriving DecidableEq, Repr
def IterM.all : List IterM :=
  [.first, .last, .seek, .next, .prev, .valid, .key, .value, .error, .release, .setReleaser]

/-! ## handle states -/

inductive SnapSt | live | released
  deriving DecidableEq, Repr
/-- `none`: no transaction was opened; `live`: `db.tr ≠ nil` (it holds the write lock) -/
inductive TxSt | none | live | committed | discarded
  deriving DecidableEq, Repr
/-- `released`: `Release` was called, no move since; `releasedUsed`: a move was attempted after `Release`
(`dbIter.err = ErrIterReleased` from then on) -/
inductive IterSt | live | released | releasedUsed
  deriving DecidableEq, Repr

/-- `DB.Close` discards the open transaction (`db.tr.Discard()`). -/
def TxSt.afterClose : TxSt → TxSt
  | .live => .discarded
  | t => t

def TxSt.done : TxSt → Bool
  | .committed | .discarded => true
  | _ => false

/-- A live transaction exists only on an `openRW` DB: `OpenTransaction` and `SetReadOnly` both need the write
lock, `openRO` never hands it out. -/
def txReachable : Mode → TxSt → Bool
  | .openRW, _ => true
  | _, .live => false
  | _, _ => true

/-! ## classes of methods -/

def DBm.isRead : DBm → Bool
  | .get | .getMiss | .has => true
  | _ => false

/-- methods that change data or layout: everything that takes the write lock with a non-empty payload -/
def DBm.isWrite : DBm → Bool
  | .put | .delete | .write | .writeLarge | .compactRange | .openTransaction => true
  | _ => false

/-- methods that take `writeLockC` (blocked while a transaction is open) -/
def DBm.needsWriteLock : DBm → Bool
  | .setReadOnly => true
  | m => m.isWrite

def SnapM.isRead : SnapM → Bool
  | .get | .getMiss | .has => true
  | _ => false

def TxM.isRead : TxM → Bool
  | .get | .getMiss | .has => true
  | _ => false

def IterM.isMove : IterM → Bool
  | .first | .last | .seek | .next | .prev => true
  | _ => false

/-- Does a read on a DB that was switched to read-only still end in a table compaction?  Not since `tCompaction`
consults the flag that `SetReadOnly` raises (`Gen.roCompactionParks`, a fact regenerated from the source): it
finishes what was in flight and parks until `Close`.  (Before that repair it did — finding D14, kept as
`C18.setReadOnly_quiesces_refuted_without_parking`.) -/
def roReadsWakeCompaction : Bool := !Gen.roCompactionParks

/-- Reads charge seeks to tables (`version.get` → `cSched`, `dbIter.sampleSeek`) and then wake `tCompaction`
(`compTrigger`); where those goroutines run this may end in a compaction. -/
def Mode.bgReacts : Mode → Bool
  | .openRW => true
  | .switchedRO => roReadsWakeCompaction
  | _ => false

/-! ## the tables -/

/-- class of a successful read -/
def readCls : DBm → Cls
  | .getMiss | .getPropertyBad => .notfound
  | _ => .ok

/-- `*leveldb.DB`.  `txLive`: a transaction is open (only possible in `openRW`). -/
def dbTable (mode : Mode) (txLive : Bool) (m : DBm) : Outcome :=
  match mode with
  | .closed => ⟨.closed, [], false⟩          -- `db.ok()` first in every method; `Close`: `setClosed` fails
  | .openRW =>
    if m = .close then ⟨.ok, [], true⟩        -- aborted compactions revert, the open transaction is discarded
    else if m.isRead then ⟨readCls m, [], true⟩            -- may schedule a seek compaction
    else if m.needsWriteLock then
      -- `writeLockC` is held by the open transaction; otherwise journal/table/manifest writes
      -- (`SetReadOnly` itself writes nothing)
      (if txLive then ⟨.blocks, [], false⟩ else ⟨.ok, [], m.isWrite⟩)
    else ⟨readCls m, [], false⟩               -- properties, snapshots, iterators, sizes, stats; `Write` of an empty/nil batch
  | .openRO =>
    if m = .close then ⟨.ok, [], false⟩
    else if m.needsWriteLock then ⟨.readonly, [], false⟩   -- `compPerErrC` delivers `ErrReadOnly`
    else ⟨readCls m, [], false⟩               -- `Write` of an empty/nil batch returns nil before looking at the mode
  | .switchedRO =>
    if m = .close then ⟨.ok, [], true⟩        -- a compaction still in flight is aborted and reverted
    else if m.needsWriteLock then ⟨.readonly, [], false⟩
    else ⟨readCls m, [], m.isRead && roReadsWakeCompaction⟩   -- reads charge seeks, but `tCompaction` is parked

/-- `*leveldb.Snapshot` -/
def snapTable (mode : Mode) (h : SnapSt) (m : SnapM) : Outcome :=
  match h with
  | .released =>
    if m = .release then ⟨.ok, [], false⟩                  -- no-op
    else if m = .string then ⟨.ok, [], false⟩              -- prints "leveldb.Snapshot{released}" (it used to
                                                            -- dereference the nil `snap.elem`: fixed in the repository)
    else ⟨.released, [], false⟩                             -- `snap.released` is checked before `db.ok()`
  | .live =>
    if m = .release ∨ m = .string then ⟨.ok, [], false⟩
    else if mode = .closed then ⟨.closed, [], false⟩
    else if m = .newIterator then ⟨.ok, [], false⟩
    else ⟨if m = .getMiss then .notfound else .ok, [], mode.bgReacts⟩

/-- a committed or discarded transaction -/
def txDoneRow (mode : Mode) (m : TxM) : Outcome :=
  if m = .discard then ⟨.ok, [], false⟩                    -- no-op
  -- `Write` looks at `tr.closed` before the empty-batch shortcut (it used to return nil first: fixed)
  else if m = .commit then ⟨if mode = .closed then .closed else .txdone, [], false⟩   -- `db.ok()` first
  else ⟨.txdone, [], false⟩

def txRow (mode : Mode) (t : TxSt) (m : TxM) : Outcome :=
  match t with
  | .none => ⟨.other, [], false⟩                            -- no handle
  | .live =>
    if m = .getMiss then ⟨.notfound, [], true⟩
    else if m = .newIterator ∨ m = .writeEmpty then ⟨.ok, [], false⟩
    else ⟨.ok, [], true⟩                                    -- spill of the buffer, commit, removal of spilled tables, seeks
  | .committed => txDoneRow mode m
  | .discarded => txDoneRow mode m

/-- `*leveldb.Transaction`; in `closed` a transaction that was live has been discarded by `Close`. -/
def txTable (mode : Mode) (t : TxSt) (m : TxM) : Outcome :=
  txRow mode (if mode = .closed then t.afterClose else t) m

/-- `dbIter`; the class is that of `Error()` right after the call (for a live iterator without read errors). -/
def iterTable (mode : Mode) (h : IterSt) (m : IterM) : Outcome :=
  match h with
  | .live =>
    if m.isMove then
      -- an iterator held over `Close` ("not safe" says the documentation of `Close`): it serves what it still
      -- holds, reports `ErrClosed` or `table.ErrReaderReleased` at the next table access — or reads block
      -- buffers that went back to the pool: bogus corruption errors, slice-bounds panics
      (if mode = .closed then ⟨.ok, [.closed, .released, .other, .panic], false⟩
       else ⟨.ok, [], mode.bgReacts⟩)
    else if m = .release then ⟨.ok, [], mode = .openRW ∨ mode = .switchedRO⟩   -- dropping the version may delete tables a compaction replaced
    else ⟨.ok, [], false⟩
  | .released =>
    if m.isMove then ⟨.released, [], false⟩
    else if m = .setReleaser then ⟨.panic, [], false⟩       -- `util.ErrReleased`, as documented for `ReleaseSetter`
    else ⟨.ok, [], false⟩                                    -- `Release(); Error()` is the documented way to get the iteration error
  | .releasedUsed =>
    if m = .setReleaser then ⟨.panic, [], false⟩ else ⟨.released, [], false⟩

/-- does an observation (class, number of mutating storage operations attributed to the call) agree with a
table entry -/
def Outcome.conforms (o : Outcome) (c : Cls) (nmut : Nat) : Bool :=
  (o.cls == c || o.alt.contains c) && (o.mutates || nmut == 0)

/-! ## storage actions -/

inductive Act | lock | unlock | open | read | list | getMeta | closeFile | create | write | sync | remove | rename | setMeta
  deriving DecidableEq, Repr

def Act.mutating : Act → Bool
  | .create | .write | .sync | .remove | .rename | .setMeta => true
  | _ => false

def nMut (as : List Act) : Nat := (as.filter Act.mutating).length

/-! ## one DB and its background loops -/

structure Cfg where
  /-- seek-triggered compaction can happen: `DisableSeeksCompaction` is off and reads can exhaust a table's
  seek allowance -/
  seeks : Bool
  /-- `tCompaction` consults the read-only flag raised by `SetReadOnly` at the top of its loop and before it
  executes a command: once the flag is up it starts nothing new, acknowledges waiters with `ErrReadOnly` and
  parks on `closeC` (a compaction that was already running finishes; `mCompaction` is not concerned: a pending
  flush still completes).  `false` = the loop as it was before the repair of D14. -/
  parks : Bool
  deriving DecidableEq, Repr

/-- the configuration of the code as it is: whether the loop parks is a fact regenerated from the source -/
def codeCfg (seeks : Bool) : Cfg := ⟨seeks, Gen.roCompactionParks⟩

structure St where
  mode : Mode
  /-- the `tCompaction` and `mCompaction` goroutines exist (`openDB` starts them unless read-only) -/
  bg : Bool
  /-- a frozen memdb awaits its flush (`db.frozenMem ≠ nil`): work of `mCompaction` that is already started -/
  frozen : Bool
  /-- table compactions that `tableNeedCompaction()` asks for (score ≥ 1, or a pending seek compaction `v.cSeek`) -/
  due : Nat
  /-- table sets that a compaction replaced but that a live iterator's version still references: their removal
  (`session.refLoop`) waits for that iterator's `Release` -/
  pins : Nat
  tx : TxSt
  /-- a table compaction that `tCompaction` had started before `SetReadOnly` raised its flag is still running
  (only ever set by `SetReadOnly`) -/
  running : Bool
  deriving DecidableEq, Repr

/-- nothing is left for the background loops, no deferred deletion is waiting for an iterator -/
def St.drained (s : St) : Bool := !s.frozen && s.due == 0 && s.pins == 0 && !s.running

/-- the work that was in flight when `SetReadOnly` was called has completed: the pending flush, the table
compaction that was running, the deferred deletions.  Compactions may still be *due* (`tableNeedCompaction()`):
a parked `tCompaction` never starts them. -/
def St.settled (s : St) : Bool := !s.frozen && !s.running && s.pins == 0

/-- `tCompaction` may start (or, for `running`, finish) a table compaction in this state -/
def compactionPending (c : Cfg) (s : St) : Bool :=
  if c.parks && s.mode == .switchedRO then s.running else decide (s.due > 0)

def compactionRuns (c : Cfg) (s : St) : Bool := s.bg && s.mode != .closed && compactionPending c s

inductive Ev
  /-- a method call; `p` resolves what the model leaves open: for reads `p > 0` = this read exhausted a table's
  seek allowance; for writes `p > 0` = the write rotates the memdb / spills / makes a compaction due -/
  | db (m : DBm) (p : Nat)
  | snap (h : SnapSt) (m : SnapM) (p : Nat)
  | tx (m : TxM) (p : Nat)
  | iter (h : IterSt) (m : IterM) (p : Nat)
  /-- `mCompaction` completes `memCompaction`; `p` odd: the new table makes a table compaction due -/
  | bgFlush (p : Nat)
  /-- `tCompaction` runs one `tableAutoCompaction`; `p` odd: its output makes another one due; `p ≥ 2`: a live
  iterator still references the replaced tables, their removal is deferred -/
  | bgCompact (p : Nat)
  deriving DecidableEq, Repr

/-- the event is a read that exhausts a seek allowance -/
def Ev.seekHit : Ev → Bool
  | .db m p => m.isRead && p > 0
  | .snap .live m p => m.isRead && p > 0
  | .tx m p => m.isRead && p > 0
  | .iter .live m p => m.isMove && p > 0
  | _ => false

def b2n (b : Bool) : Nat := if b then 1 else 0

/-- reading of the parameter of the background events -/
def moreDue (p : Nat) : Nat := p % 2
def deferred (p : Nat) : Bool := p ≥ 2

/-- `version.get`/`sampleSeek` set `v.cSeek` whatever the mode is; `compTrigger` then wakes `tCompaction`. -/
def chargeSeek (c : Cfg) (s : St) (hit : Bool) : St :=
  if c.seeks && hit && s.mode != .closed then { s with due := s.due + 1 } else s

def flushActs : List Act := [.create, .write, .sync, .closeFile, .write, .sync, .remove]
def compactActs : List Act := [.open, .read, .create, .write, .sync, .closeFile, .write, .sync, .remove]
/-- the same with the removal of the inputs deferred -/
def compactActsDeferred : List Act := [.open, .read, .create, .write, .sync, .closeFile, .write, .sync]
def rotateActs : List Act := [.create, .closeFile]

structure Res where
  st : St
  cls : Cls
  acts : List Act

/-- `Close` of an open DB: goroutines exit (an unfinished compaction is reverted), the open transaction is
discarded, journal and manifest are closed, the lock is dropped -/
def closeRes (c : Cfg) (s : St) (cls : Cls) (p : Nat) : Res :=
  ⟨{ s with mode := .closed, bg := false, tx := s.tx.afterClose, running := false }, cls,
    (if s.tx == .live && p > 0 then [.remove] else []) ++
    (if s.bg && (s.frozen || compactionPending c s) then [.remove] else []) ++ [.closeFile, .unlock]⟩

/-- `DB` methods on a read-only DB -/
def stepRO (c : Cfg) (s : St) (m : DBm) (p : Nat) (cls : Cls) : Res :=
  if m = .close then closeRes c s cls p
  else if m = .sizeOf then ⟨s, cls, [.open, .read]⟩
  else ⟨chargeSeek c s (m.isRead && p > 0), cls, []⟩      -- writers are refused before they touch anything

/-- `DB` methods on an open read-write DB (no transaction in the way) -/
def stepRW (c : Cfg) (s : St) (m : DBm) (p : Nat) (cls : Cls) : Res :=
  if m = .close then closeRes c s cls p
  else if m = .put ∨ m = .delete ∨ m = .write then
    -- journal write; when the buffer is full the pending flush is awaited, then `newMem` rotates
    (if p > 0 then ⟨{ s with frozen := true, due := s.due + b2n s.frozen }, cls,
                     [.write] ++ (if s.frozen then flushActs else []) ++ rotateActs⟩
     else ⟨s, cls, [.write, .sync]⟩)
  else if m = .writeLarge then ⟨{ s with due := s.due + b2n (p > 0) }, cls, [.create, .write, .sync, .closeFile, .write, .sync]⟩
  else if m = .compactRange then ⟨{ s with frozen := false, due := 0 }, cls, rotateActs ++ flushActs ++ compactActs⟩
  else if m = .openTransaction then ⟨{ s with frozen := false, tx := .live }, cls, rotateActs ++ flushActs⟩
  -- `p > 0`: a table compaction is running at the moment the flag goes up (it is one of the due ones)
  else if m = .setReadOnly then ⟨{ s with mode := .switchedRO, running := s.bg && decide (p > 0) && decide (s.due > 0) }, cls, []⟩
  else if m = .sizeOf then ⟨s, cls, [.open, .read]⟩
  else ⟨chargeSeek c s (m.isRead && p > 0), cls, []⟩

/-- `DB` methods -/
def stepDB (c : Cfg) (s : St) (m : DBm) (p : Nat) : Res :=
  match s.mode with
  | .closed => ⟨s, (dbTable .closed (s.tx == .live) m).cls, []⟩
  | .openRO => stepRO c s m p (dbTable .openRO (s.tx == .live) m).cls
  | .switchedRO => stepRO c s m p (dbTable .switchedRO (s.tx == .live) m).cls
  | .openRW =>
    if s.tx == .live && m.needsWriteLock then ⟨s, (dbTable .openRW true m).cls, []⟩
    else stepRW c s m p (dbTable .openRW (s.tx == .live) m).cls

/-- methods of the live transaction -/
def stepTxLive (c : Cfg) (s : St) (m : TxM) (p : Nat) (cls : Cls) : Res :=
  if m = .put ∨ m = .delete ∨ m = .write then ⟨s, cls, if p > 0 then [.create, .write, .sync, .closeFile] else []⟩
  else if m = .commit then
    ⟨{ s with tx := .committed, due := s.due + b2n (p > 0) }, cls,
      if p > 0 then [.create, .write, .sync, .closeFile, .write, .sync] else []⟩
  else if m = .discard then ⟨{ s with tx := .discarded }, cls, if p > 0 then [.remove] else []⟩
  else ⟨chargeSeek c s (m.isRead && p > 0), cls, []⟩

/-- `Transaction` methods (the handle is `s.tx`) -/
def stepTx (c : Cfg) (s : St) (m : TxM) (p : Nat) : Res :=
  if s.mode = .closed then ⟨s, (txTable s.mode s.tx m).cls, []⟩
  else if s.tx = .live then stepTxLive c s m p (txTable s.mode s.tx m).cls
  else ⟨s, (txTable s.mode s.tx m).cls, []⟩

def step (c : Cfg) (s : St) : Ev → Res
  | .db m p => stepDB c s m p
  | .tx m p => stepTx c s m p
  | .snap h m p => ⟨chargeSeek c s (h == .live && m.isRead && p > 0), (snapTable s.mode h m).cls, []⟩
  | .iter h m p =>
    -- `Release` of a live iterator drops its version; the reference loop then removes what only it kept alive
    if h == .live && m == .release && p > 0 && s.pins > 0 && s.mode != .closed then
      ⟨{ s with pins := s.pins - 1 }, (iterTable s.mode h m).cls, [.remove]⟩
    else ⟨chargeSeek c s (h == .live && m.isMove && p > 0), (iterTable s.mode h m).cls, []⟩
  | .bgFlush p =>
    -- the loop does not look at the mode: a flush that was pending when `SetReadOnly` came still completes
    if s.bg && s.frozen && s.mode != .closed then
      ⟨{ s with frozen := false, due := s.due + moreDue p }, .ok, flushActs⟩
    else ⟨s, .ok, []⟩
  | .bgCompact p =>
    -- `tCompaction`: `if db.tableNeedCompaction() … db.tableAutoCompaction()`; with `c.parks` the read-only flag
    -- is consulted first: only the compaction that was already running completes
    if compactionRuns c s then
      (if deferred p then ⟨{ s with due := s.due - 1 + moreDue p, pins := s.pins + 1, running := false }, .ok, compactActsDeferred⟩
       else ⟨{ s with due := s.due - 1 + moreDue p, running := false }, .ok, compactActs⟩)
    else ⟨s, .ok, []⟩

/-- run a list of events, collecting the storage actions -/
def run (c : Cfg) (s : St) : List Ev → St × List Act
  | [] => (s, [])
  | e :: es =>
    let r := step c s e
    let (s', as) := run c r.st es
    (s', r.acts ++ as)

/-- result of `openDB` on a storage a cleanly closed (or crashed) DB left, whatever the number of journals to
replay.  (Remark: `recoverJournalRO` used to return the stale `io.EOF` of `journal.Reader.Reset` as soon as a
second journal had to be replayed, so that a read-only `Open` failed with class `other` for `journals ≥ 2`;
fixed in the repository, the value of `Reset` is ignored as on the read-write path.) -/
def openCls (_ro : Bool) (_journals : Nat) : Cls := .ok

def openActs (ro : Bool) : List Act :=
  if ro then [.lock, .getMeta, .open, .read, .list, .open, .read]
  else [.lock, .getMeta, .open, .read, .list, .open, .read, .create, .write, .sync, .create, .write, .sync, .setMeta, .remove]

/-- the state right after a successful `openDB` -/
def opened (ro : Bool) (due : Nat) : St :=
  { mode := if ro then .openRO else .openRW, bg := !ro, frozen := false, due := due, pins := 0, tx := .none, running := false }

/-! ## one storage, several DBs -/

/-- `exclusive`: `memStorage`, `fileStorage` opened read-write, the harness storage — `Lock` fails with `ErrLocked`
while a lock is out.  `sharedRO`: `fileStorage` opened with `readOnly = true` — `Lock` hands out a dummy lock every
time (and the `LOCK` file is `flock`ed `LOCK_SH`). -/
inductive LockKind | exclusive | sharedRO
  deriving DecidableEq, Repr

structure Sys where
  kind : LockKind
  /-- DBs holding the storage lock -/
  owners : List Nat
  /-- DBs in an open mode -/
  opened : List Nat
  deriving DecidableEq, Repr

inductive SysEv
  | open (id : Nat) (ro : Bool) (journals : Nat)
  | close (id : Nat)
  deriving DecidableEq, Repr

/-- `Storage.Lock` -/
def Sys.canLock (s : Sys) : Bool :=
  match s.kind with
  | .exclusive => s.owners.isEmpty
  | .sharedRO => true

/-- `Open`: `newSession` takes the lock; when recovery or `openDB` fails the deferred `s.release()` drops it again.
`Close`: first call closes and unlocks, later calls return `ErrClosed`. -/
def Sys.step (s : Sys) : SysEv → Sys × Cls
  | .open id ro j =>
    if !s.canLock then (s, .locked)
    else if openCls ro j != .ok then (s, openCls ro j)
    else ({ s with owners := id :: s.owners, opened := id :: s.opened }, .ok)
  | .close id =>
    if s.opened.contains id then
      ({ s with owners := s.owners.erase id, opened := s.opened.erase id }, .ok)
    else (s, .closed)

def Sys.run (s : Sys) : List SysEv → Sys × List Cls
  | [] => (s, [])
  | e :: es =>
    let (s1, c) := s.step e
    let (s2, cs) := Sys.run s1 es
    (s2, c :: cs)

def Sys.init (k : LockKind) : Sys := ⟨k, [], []⟩

end GoLevel.Life
