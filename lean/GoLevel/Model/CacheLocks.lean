import GoLevel.Model.Cache
/-! The LOCKS of `cache.Cache` (C17): `mu` and `unrefMu` (`sync.RWMutex`) on top of the interleaving model of
`Model/Cache.lean`.

`Model/Cache.lean` keeps one reader count (`rlock`) and lets `Close` take its critical section whenever that count
is zero; readers never wait.  That is enough for the safety theorems (it allows every behaviour of the locks and
more).  This file adds what `sync.RWMutex` really does, so that liveness facts are theorems about the model and
not assumptions:

* `RW` — a `sync.RWMutex` as far as blocking goes, with Go's WRITER PREFERENCE: `Lock()` first announces the
  writer (`writer := some t`; from then on every NEW `RLock()` blocks), then waits until the readers that are
  already inside have left (`held := true`); `RLock()` is enabled iff no writer is announced; `RUnlock()` /
  `Unlock()` never block.
* Who takes what:
  - `Get` / `Delete` / `Evict` / `EvictNS` / `EvictAll` (`Instr.enter`): `r.mu.RLock()`, released by the deferred
    `r.mu.RUnlock()` (`Instr.runlock`) after everything the call does — including the `Handle.Release` calls the
    LRU performs from inside `Promote` / `Ban` / `Evict` while the caller still holds `r.mu` for reading;
  - `Node.unRefExternal` when the counter reached zero (`Instr.extz`), from `Handle.Release` of a caller, of the
    LRU inside one of the calls above, or of `lru.SetCapacity` / `Close`'s `lru.Evict` (which hold neither lock):
    `n.r.unrefMu.RLock()` … `RUnlock()` in the code as it is; `n.r.mu.RLock()` … `RUnlock()` before the repair of
    D36 (`unrefUsesMu`) — a recursive read lock when called from inside `Get`, which blocks for ever once a
    `Close` has announced itself: `Props/C17.lean`, `d36_deadlock`;
  - `SetCapacity`, `Handle.Release` (`relH`, `unrefExt`), `callFinalizer`, the LRU's own mutex, `n.mu`, the bucket
    mutexes: no `RWMutex`; their critical sections are single instructions of the base model and never wait for
    anything but each other;
  - `Close` (`Instr.closeLock`): `r.mu.Lock(); r.unrefMu.Lock(); …; r.unrefMu.Unlock(); r.mu.Unlock()` (lock order
    mu, then unrefMu), five lock steps around the one base step that sets `closed` (`Phase`); before the repair
    only `r.mu`.
* `lstep` is a RESTRICTION of `sysStep false`: every lock-level step is a base step of the same thread or changes
  lock state only (`Proofs/CacheLocks.lean`), so every safety theorem of `Props/C17.lean` holds for the states the
  lock-level system reaches.

Hypothesis kept from the base model (documented, not checked): the user callbacks — `setFunc`, the value's
`Release()`, delFuncs — do not call back into the SAME cache.  `Release()` runs under a bucket mutex and under
`r.mu.RLock` or `unrefMu.RLock`, delFuncs under one of the two read locks, `setFunc` under `n.mu` and `r.mu.RLock`:
a callback that calls `Get`/`Delete`/`Evict` (→ `r.mu.RLock`, recursive when the callback runs inside a `Get`) or
releases a handle of the same cache (→ `unrefMu.RLock`, recursive when it runs inside `unRefExternal`) blocks for
ever as soon as a `Close` has announced itself on that lock — the shape of D36 — and a `Release()` that touches
the same bucket, or a `setFunc` that `Get`s its own key, blocks on the plain mutex even without `Close`.
goleveldb's callbacks only touch the OTHER cache (the table cache's values release handles of the block cache). -/
namespace GoLevel.CacheL
open GoLevel.CacheM

inductive LockId
  | mu | un
  deriving DecidableEq, Repr, Inhabited

/-- A `sync.RWMutex`: readers inside, the announced writer (thread), whether it has the lock. -/
structure RW where
  readers : Nat
  writer : Option Nat
  held : Bool
  deriving DecidableEq, Repr, Inhabited

def RW.free : RW := { readers := 0, writer := none, held := false }

/-- Where a thread is inside `Cache.Close`'s locking. -/
inductive Phase
  | idle
  /-- `r.mu.Lock()` announced, waiting for the readers of `mu` to leave -/
  | annMu
  /-- holds `mu` -/
  | hasMu
  /-- `r.unrefMu.Lock()` announced, waiting for the readers of `unrefMu` -/
  | annUn
  /-- holds both: about to run `if !r.closed { … }` -/
  | hasBoth
  /-- after the body: `r.unrefMu.Unlock()` next -/
  | relUn
  /-- `r.mu.Unlock()` next -/
  | relMu
  deriving DecidableEq, Repr, Inhabited

/-- The lock-level state of a thread: the read locks it holds (innermost first) and its `Close` phase. -/
structure LThread where
  held : List LockId
  phase : Phase
  deriving DecidableEq, Repr, Inhabited

structure LSys where
  base : Sys
  mu : RW
  un : RW
  tl : List LThread
  /-- configuration: `Node.unRefExternal` read-locks `r.mu` (the code before the repair of D36) instead of
  `r.unrefMu`, and `Close` write-locks `r.mu` only -/
  unrefUsesMu : Bool
  deriving DecidableEq, Repr, Inhabited

/-- The code as it is: `Gen.cacheUnrefOwnLock` is read off the source by `tools/extract`. -/
def unrefUsesMuCode : Bool := !Gen.cacheUnrefOwnLock

def LSys.initCfg (cfg : Cfg) (unrefUsesMu : Bool) (capacity nthreads : Nat) : LSys :=
  { base := Sys.initCfg cfg capacity nthreads, mu := RW.free, un := RW.free,
    tl := List.replicate nthreads { held := [], phase := .idle }, unrefUsesMu := unrefUsesMu }

def LSys.init (capacity nthreads : Nat) : LSys := LSys.initCfg Cfg.code unrefUsesMuCode capacity nthreads

def LSys.lock (ls : LSys) : LockId → RW
  | .mu => ls.mu
  | .un => ls.un

def LSys.setLock (ls : LSys) (l : LockId) (rw : RW) : LSys :=
  match l with
  | .mu => { ls with mu := rw }
  | .un => { ls with un := rw }

/-- The lock `Node.unRefExternal` takes for reading. -/
def LSys.unrefLock (ls : LSys) : LockId := if ls.unrefUsesMu then .mu else .un

/-- The read lock instruction `i` starts by taking, if any. -/
def rlockOf (ls : LSys) : Instr → Option LockId
  | .enter _ => some .mu
  | .extz _ _ => some ls.unrefLock
  | _ => none

/-- `RLock()` blocks: a writer has announced itself on the lock instruction `i` wants to read-lock. -/
def blocked (ls : LSys) (i : Instr) : Bool :=
  match rlockOf ls i with
  | some l => (ls.lock l).writer.isSome
  | none => false

def isRunlock : Instr → Bool
  | .runlock => true
  | _ => false

/-- Lock bookkeeping after thread `t` executed base instruction `i` (base state `b` → `b'`). -/
def afterBase (ls : LSys) (t : Nat) (th : LThread) (i : Instr) (b' : Sys) : LSys :=
  match rlockOf ls i with
  | some l =>
    -- `RLock()`; the section is left open iff the base model pushed its `RUnlock` (`rlock + 1`)
    if b'.sh.rlock = ls.base.sh.rlock + 1 then
      let rw := ls.lock l
      { (ls.setLock l { rw with readers := rw.readers + 1 }) with
          base := b', tl := ls.tl.set t { th with held := l :: th.held } }
    else { ls with base := b' }
  | none =>
    if isRunlock i then
      match th.held with
      | l :: rest =>
        let rw := ls.lock l
        { (ls.setLock l { rw with readers := rw.readers - 1 }) with
            base := b', tl := ls.tl.set t { th with held := rest } }
      | [] => { ls with base := b' }
    else { ls with base := b' }

def setPhase (ls : LSys) (t : Nat) (th : LThread) (p : Phase) : LSys :=
  { ls with tl := ls.tl.set t { th with phase := p } }

/-- The body of `Close` between the locks: the base step `closeLock`. -/
def closeBody (ls : LSys) (t : Nat) (th : LThread) : Option LSys :=
  match sysStep false ls.base (.step t) with
  | some b' => some { (setPhase ls t th (if ls.unrefUsesMu then .relMu else .relUn)) with base := b' }
  | none => none

/-- One step of thread `t` with the locks.  `none`: the thread is blocked (or has nothing to do). -/
def lstepThread (ls : LSys) (t : Nat) : Option LSys :=
  match ls.tl[t]?, ls.base.threads[t]? with
  | some th, some T =>
    match th.phase with
    | .annMu =>
      if ls.mu.readers = 0 then some { (setPhase ls t th .hasMu) with mu := { ls.mu with held := true } } else none
    | .hasMu =>
      if ls.unrefUsesMu then closeBody ls t th
      else if ls.un.writer = none then
        some { (setPhase ls t th .annUn) with un := { ls.un with writer := some t } }
      else none
    | .annUn =>
      if ls.un.readers = 0 then some { (setPhase ls t th .hasBoth) with un := { ls.un with held := true } } else none
    | .hasBoth => closeBody ls t th
    | .relUn => some { (setPhase ls t th .relMu) with un := { ls.un with writer := none, held := false } }
    | .relMu => some { (setPhase ls t th .idle) with mu := { ls.mu with writer := none, held := false } }
    | .idle =>
      match T with
      | [] => none
      | .closeLock _ :: _ =>
        -- `r.mu.Lock()`: announce
        if ls.mu.writer = none then
          some { (setPhase ls t th .annMu) with mu := { ls.mu with writer := some t } }
        else none
      | i :: _ =>
        -- a read lock is only granted while no writer is announced
        if blocked ls i then none
        else
          match sysStep false ls.base (.step t) with
          | some b' => some (afterBase ls t th i b')
          | none => none
  | _, _ => none

def lstep (ls : LSys) : Act → Option LSys
  | .call t c =>
    match ls.tl[t]? with
    | some th =>
      if th.phase = .idle then
        match sysStep false ls.base (.call t c) with
        | some b' => some { ls with base := b' }
        | none => none
      else none
    | none => none
  | .step t => lstepThread ls t

def lrun : LSys → List Act → Option LSys
  | ls, [] => some ls
  | ls, a :: as =>
    match lstep ls a with
    | some ls' => lrun ls' as
    | none => none

inductive LReachable : LSys → Prop
  | init (cfg : Cfg) (uum : Bool) (capacity nthreads : Nat) : LReachable (LSys.initCfg cfg uum capacity nthreads)
  | step {ls ls' : LSys} (a : Act) : LReachable ls → lstep ls a = some ls' → LReachable ls'

/-- Every call has returned and nobody is inside `Close`'s locking. -/
def LQuiescent (ls : LSys) : Prop := pending ls.base = [] ∧ ∀ th ∈ ls.tl, th.phase = .idle

/-- No thread can take a step. -/
def Stuck (ls : LSys) : Prop := ∀ t, lstepThread ls t = none

end GoLevel.CacheL
