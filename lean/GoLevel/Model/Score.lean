import GoLevel.Model.Pick
/-!
# Which level a version wants compacted (`version.go`: `computeCompaction`, `needCompaction`)

`version.computeCompaction` runs once for every version (`versionStaging.finish`, before `setVersion`) and leaves
`v.cLevel` / `v.cScore`, the two numbers `pickCompaction` and `needCompaction` read (`Pick.PickState.cLevel`,
`scoreGE1`).  Transcription:

```go
bestLevel := int(-1); bestScore := float64(-1)
for level, tables := range v.levels {
    if level == 0 { score = float64(len(tables)) / float64(GetCompactionL0Trigger()) }
    else          { score = float64(tables.size()) / float64(GetCompactionTotalSize(level)) }
    if score > bestScore { bestLevel = level; bestScore = score }
}
```

A score is kept as the fraction it is computed from (`Frac`); `>` is cross multiplication.  Go compares the two
correctly rounded `float64` quotients instead: the two orders agree unless two DIFFERENT fractions round to the same
`float64` (needs a relative distance below 2⁻⁵³, i.e. sizes and limits beyond 2²⁶ with nearly equal ratios); `≥ 1` is
exact for sizes below 2⁵³.  The driver reports such near ties as `close` and the harness does not judge them.
The trigger and the level limits are `opt.Options` getters (floating-point arithmetic over user options): parameters.
`bestLevel = -1` (a version without levels) is `none`.  Core Lean only.
-/
namespace GoLevel.Score
open GoLevel.Pick

/-- a score `num / den` (`den > 0` for the sanitised options) -/
structure Frac where
  num : Nat
  den : Nat
  deriving Repr, DecidableEq

/-- `a < b` on fractions with positive denominators -/
def Frac.lt (a b : Frac) : Bool := decide (a.num * b.den < b.num * a.den)

/-- `score >= 1` -/
def Frac.ge1 (a : Frac) : Bool := decide (a.den ≤ a.num)

/-- the options `computeCompaction` reads -/
structure ScoreOpts where
  l0Trigger : Nat            -- GetCompactionL0Trigger()
  totalSize : Nat → Nat      -- GetCompactionTotalSize(level)

/-- the score of one level -/
def levelScore (o : ScoreOpts) (level : Nat) (tables : Level) : Frac :=
  if level = 0 then ⟨tables.length, o.l0Trigger⟩ else ⟨tSize tables, o.totalSize level⟩

/-- one iteration of the loop: `if score > bestScore { … }`; `none` is the initial `(-1, -1.0)`, which every score beats -/
def scoreStep (o : ScoreOpts) (best : Option (Nat × Frac)) (level : Nat) (tables : Level) : Option (Nat × Frac) :=
  match best with
  | none => some (level, levelScore o level tables)
  | some (bl, bs) =>
    if bs.lt (levelScore o level tables) then some (level, levelScore o level tables) else some (bl, bs)

/-- the loop over `v.levels[level:]` -/
def scoreLoop (o : ScoreOpts) : Option (Nat × Frac) → Nat → List Level → Option (Nat × Frac)
  | best, _, [] => best
  | best, level, tables :: rest => scoreLoop o (scoreStep o best level tables) (level + 1) rest

/-- `version.computeCompaction`: `(v.cLevel, v.cScore)`; `none` = `(-1, -1.0)` -/
def computeCompaction (o : ScoreOpts) (v : Version) : Option (Nat × Frac) := scoreLoop o none 0 v.levels

/-- `v.cScore >= 1` -/
def scoreGE1 (o : ScoreOpts) (v : Version) : Bool :=
  match computeCompaction o v with
  | some (_, s) => s.ge1
  | none => false

/-- `v.cLevel` where `pickCompaction` reads it (only behind `cScore >= 1`) -/
def cLevel (o : ScoreOpts) (v : Version) : Nat :=
  match computeCompaction o v with
  | some (l, _) => l
  | none => 0

/-- the `PickState` of a version: what `computeCompaction` left, the session's compaction pointers, `v.cSeek` -/
def pickState (o : ScoreOpts) (v : Version) (compPtrs : List (Option IKey)) (cSeek : Option (Nat × Table)) : PickState :=
  ⟨scoreGE1 o v, cLevel o v, compPtrs, cSeek⟩

/-- is some other level's score within 2⁻⁴⁰ (relative) of the best one without being equal to it?  Then the
`float64` comparison of the code may see a tie where the fractions differ. -/
def nearTie (o : ScoreOpts) (v : Version) : Bool :=
  match computeCompaction o v with
  | none => false
  | some (_, b) =>
    (List.zip (List.range v.levels.length) v.levels).any fun (i, ts) =>
      let s := levelScore o i ts
      let x := s.num * b.den
      let y := b.num * s.den
      decide (x ≠ y) && decide ((if x < y then y - x else x - y) * 1099511627776 < y)

end GoLevel.Score
