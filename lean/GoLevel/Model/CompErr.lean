import GoLevel.Gen.Consts
/-!
# The goroutine `compactionError` (`leveldb/db_compaction.go`) as a state machine (properties C09, C18)

```go
func (db *DB) compactionError() {
	var err error
noerr:
	for { select {
		case err = <-db.compErrSetC:
			switch {
			case err == nil:
			case err == ErrReadOnly: db.compWriteLocking = true; goto hasperr
			case errors.IsCorrupted(err): goto hasperr
			default: goto haserr
			}
		case <-db.closeC: return
	} }
haserr:
	for { select {
		case db.compErrC <- err:
		case err = <-db.compErrSetC:
			switch {
			case err == nil: goto noerr
			case err == ErrReadOnly: db.compWriteLocking = true; goto hasperr
			case errors.IsCorrupted(err): goto hasperr
			default:
			}
		case <-db.closeC: return
	} }
hasperr:
	for { select {
		case db.compErrC <- err:
		case db.compPerErrC <- err:
		case db.writeLockC <- struct{}{}: db.compWriteLocking = true
		case <-db.closeC:
			if db.compWriteLocking { close(db.compLockedC) }   // as found (until wp51): { <-db.writeLockC }
			return
	} }
}
```

The `closeC` case of `hasperr` exists in two recognised forms.  *As found*: `if db.compWriteLocking { <-db.writeLockC }`
— the goroutine gives the write lock back so that `Close` (`db.writeLockC <- struct{}{}`) can take it; a writer parked
in its `select` may take it first (`C09.readonly_write_slips_through_on_close`).  *Now*
(`MCfg.hasperrKeepsLock`): `if db.compWriteLocking { close(db.compLockedC) }` — the goroutine keeps the lock and tells
`Close`, which waits in `select { case db.writeLockC <- struct{}{}: case <-db.compLockedC: }`.  In both forms the
machine passes through the label `closing` ("inside the `closeC` case with `compWriteLocking` set"): as found it
leaves it by the blocking receive (`Locks.Step.ehTake`); now it leaves it together with `Close`'s receive from
`compLockedC` (`Locks.Step.clAcqKept`: closing a channel never blocks and nobody but `Close`'s `select` looks at
`compLockedC`, so "close the channel, return" and "`Close` takes the `compLockedC` arm" are one step of the model).

The machine is described by *which `select` cases and `switch` cases exist* (`MCfg`, one flag per case); the
functions below say, for a configuration, which channel operation is offered in which label and where a
received error kind leads.  `MCfg.asCoded` has every case of the source above; `codeM` takes every flag from
`Gen/Consts.lean`, i.e. from the Go AST of the function as it is now (`tools/extract`, facts `ce…`).
-/
namespace GoLevel.CompErr

/-- what is sent on `compErrSetC`: `nil`, an error that is neither `ErrReadOnly` nor a corruption (transient),
`ErrReadOnly` (only `SetReadOnly` sends it), an error with `errors.IsCorrupted(err)` -/
inductive EK | nil | transient | readonly | corrupt
deriving DecidableEq, Repr

/-- the labels of `compactionError`; `closing`: inside the `closeC` case of `hasperr` with `compWriteLocking` set —
at `<-db.writeLockC` (a blocking receive; as found), or at `close(db.compLockedC)` (now); `exited`: returned -/
inductive Eh | noerr | haserr | hasperr | closing | exited
deriving DecidableEq, Repr

/-- one flag per `select` case / `switch` case of `compactionError` (`true` = the case is in the source) -/
structure MCfg where
  /-- `noerr`: `case err = <-db.compErrSetC` -/
  noerrRecv : Bool
  /-- `noerr`: `case err == nil:` (empty: stay) -/
  noerrNil : Bool
  /-- `noerr`: a case with `err == ErrReadOnly` does `goto hasperr` (whether it also sets `compWriteLocking` is
  `Locks.Cfg.noerrROSetsLock`: that variable belongs to the lock model) -/
  noerrRO : Bool
  /-- `noerr`: `errors.IsCorrupted(err)` is in the case list that does `goto hasperr` -/
  noerrCorrupt : Bool
  /-- `noerr`: `default: goto haserr` -/
  noerrOther : Bool
  /-- `noerr`: `case <-db.closeC: return` -/
  noerrClose : Bool
  /-- `haserr`: `case db.compErrC <- err` -/
  haserrErr : Bool
  /-- `haserr`: `case err = <-db.compErrSetC` -/
  haserrRecv : Bool
  /-- `haserr`: `case err == nil: goto noerr` -/
  haserrNil : Bool
  /-- `haserr`: `err == ErrReadOnly` is in the case list that does `goto hasperr` -/
  haserrRO : Bool
  /-- `haserr`: `errors.IsCorrupted(err)` is in the case list that does `goto hasperr` -/
  haserrCorrupt : Bool
  /-- `haserr`: `case <-db.closeC: return` -/
  haserrClose : Bool
  /-- `hasperr`: `case db.compErrC <- err` -/
  hasperrErr : Bool
  /-- `hasperr`: `case db.compPerErrC <- err` -/
  hasperrPerErr : Bool
  /-- `hasperr`: `case db.writeLockC <- struct{}{}: db.compWriteLocking = true` -/
  hasperrLock : Bool
  /-- `hasperr`: `case <-db.closeC: … return` -/
  hasperrClose : Bool
  /-- `hasperr`, in the `closeC` case: `if db.compWriteLocking { <-db.writeLockC }` -/
  hasperrGivesBack : Bool
  /-- `hasperr`, in the `closeC` case: `if db.compWriteLocking { close(db.compLockedC) }` (the lock is kept for
  `Close`; since the repair of D42) -/
  hasperrKeepsLock : Bool
  /-- nothing else: the function is exactly three labelled `for { select { … } }` loops, every `select` case
  and `switch` case is one of the above, `default:` of `haserr` is empty, `hasperr` does not receive from
  `compErrSetC` -/
  shape : Bool
deriving DecidableEq, Repr

/-- the function as printed above: `keeps = true` with `close(db.compLockedC)` in the `closeC` case of `hasperr`
(the source now), `keeps = false` with `<-db.writeLockC` there (the source as found) -/
def MCfg.asCoded (keeps : Bool) : MCfg :=
  { noerrRecv := true, noerrNil := true, noerrRO := true, noerrCorrupt := true, noerrOther := true,
    noerrClose := true, haserrErr := true, haserrRecv := true, haserrNil := true, haserrRO := true,
    haserrCorrupt := true, haserrClose := true, hasperrErr := true, hasperrPerErr := true,
    hasperrLock := true, hasperrClose := true, hasperrGivesBack := !keeps, hasperrKeepsLock := keeps,
    shape := true }

/-- the function as it is in the source now (regenerated facts) -/
def codeM : MCfg :=
  { noerrRecv := Gen.ceNoerrRecv, noerrNil := Gen.ceNoerrNil, noerrRO := Gen.ceNoerrRO,
    noerrCorrupt := Gen.ceNoerrCorrupt, noerrOther := Gen.ceNoerrOther, noerrClose := Gen.ceNoerrClose,
    haserrErr := Gen.ceHaserrErr, haserrRecv := Gen.ceHaserrRecv, haserrNil := Gen.ceHaserrNil,
    haserrRO := Gen.ceHaserrRO, haserrCorrupt := Gen.ceHaserrCorrupt, haserrClose := Gen.ceHaserrClose,
    hasperrErr := Gen.ceHasperrErr, hasperrPerErr := Gen.ceHasperrPerErr, hasperrLock := Gen.ceHasperrLock,
    hasperrClose := Gen.ceHasperrClose, hasperrGivesBack := Gen.ceHasperrGivesBack,
    hasperrKeepsLock := Gen.ceHasperrKeepsLockOnClose, shape := Gen.ceShape }

/-- `compErrSetC` is received in this label -/
def recvs (m : MCfg) : Eh → Bool
  | .noerr => m.noerrRecv
  | .haserr => m.haserrRecv
  | _ => false

/-- where the `switch` after `err = <-db.compErrSetC` leads (a missing case falls to `default`; a missing
`default` leaves the `switch`: the loop goes on in the same label) -/
def next (m : MCfg) : Eh → EK → Eh
  | .noerr, k =>
    let dflt : Eh := if m.noerrOther then .haserr else .noerr
    match k with
    | .nil => if m.noerrNil then .noerr else dflt
    | .readonly => if m.noerrRO then .hasperr else dflt
    | .corrupt => if m.noerrCorrupt then .hasperr else dflt
    | .transient => dflt
  | .haserr, k =>
    match k with
    | .nil => if m.haserrNil then .noerr else .haserr
    | .readonly => if m.haserrRO then .hasperr else .haserr
    | .corrupt => if m.haserrCorrupt then .hasperr else .haserr
    | .transient => .haserr
  | e, _ => e

/-- `db.compErrC <- err` is offered -/
def offErr (m : MCfg) : Eh → Bool
  | .haserr => m.haserrErr
  | .hasperr => m.hasperrErr
  | _ => false

/-- `db.compPerErrC <- err` is offered -/
def offPer (m : MCfg) : Eh → Bool
  | .hasperr => m.hasperrPerErr
  | _ => false

/-- `db.writeLockC <- struct{}{}` is offered -/
def offLock (m : MCfg) : Eh → Bool
  | .hasperr => m.hasperrLock
  | _ => false

/-- the label has a `case <-db.closeC` -/
def closes (m : MCfg) : Eh → Bool
  | .noerr => m.noerrClose
  | .haserr => m.haserrClose
  | .hasperr => m.hasperrClose
  | _ => false

/-- the `closeC` case: `return`, in `hasperr` after `if db.compWriteLocking { <-db.writeLockC }` resp.
`if db.compWriteLocking { close(db.compLockedC) }` (label `closing`) -/
def onClose (m : MCfg) (e : Eh) (compWriteLocking : Bool) : Eh :=
  if e = .hasperr ∧ (m.hasperrGivesBack || m.hasperrKeepsLock) = true ∧ compWriteLocking = true then .closing
  else .exited

@[simp] theorem recvs_hasperr (m : MCfg) : recvs m .hasperr = false := rfl
@[simp] theorem recvs_closing (m : MCfg) : recvs m .closing = false := rfl
@[simp] theorem recvs_exited (m : MCfg) : recvs m .exited = false := rfl
@[simp] theorem next_hasperr (m : MCfg) (k : EK) : next m .hasperr k = .hasperr := rfl
@[simp] theorem next_closing (m : MCfg) (k : EK) : next m .closing k = .closing := rfl
@[simp] theorem next_exited (m : MCfg) (k : EK) : next m .exited k = .exited := rfl
@[simp] theorem offErr_noerr (m : MCfg) : offErr m .noerr = false := rfl
@[simp] theorem offErr_closing (m : MCfg) : offErr m .closing = false := rfl
@[simp] theorem offErr_exited (m : MCfg) : offErr m .exited = false := rfl
@[simp] theorem offPer_noerr (m : MCfg) : offPer m .noerr = false := rfl
@[simp] theorem offPer_haserr (m : MCfg) : offPer m .haserr = false := rfl
@[simp] theorem offPer_closing (m : MCfg) : offPer m .closing = false := rfl
@[simp] theorem offPer_exited (m : MCfg) : offPer m .exited = false := rfl
@[simp] theorem offLock_noerr (m : MCfg) : offLock m .noerr = false := rfl
@[simp] theorem offLock_haserr (m : MCfg) : offLock m .haserr = false := rfl
@[simp] theorem offLock_closing (m : MCfg) : offLock m .closing = false := rfl
@[simp] theorem offLock_exited (m : MCfg) : offLock m .exited = false := rfl
@[simp] theorem closes_closing (m : MCfg) : closes m .closing = false := rfl
@[simp] theorem closes_exited (m : MCfg) : closes m .exited = false := rfl

@[simp] theorem onClose_noerr (m : MCfg) (w : Bool) : onClose m .noerr w = .exited := by simp [onClose]
@[simp] theorem onClose_haserr (m : MCfg) (w : Bool) : onClose m .haserr w = .exited := by simp [onClose]

/-- a receive never leads into the `closeC` case -/
theorem next_ne_closing (m : MCfg) (e : Eh) (k : EK) (h : ¬ e = .closing) : ¬ next m e k = .closing := by
  cases e <;> cases k <;> simp [next] at h ⊢ <;> (repeat' split) <;> simp

theorem offPer_hasperr (m : MCfg) (e : Eh) (h : offPer m e = true) : e = .hasperr := by
  cases e <;> simp [offPer] at h ⊢
theorem offLock_hasperr (m : MCfg) (e : Eh) (h : offLock m e = true) : e = .hasperr := by
  cases e <;> simp [offLock] at h ⊢

/-! ### the machine as coded -/

@[simp] theorem recvs_asCoded (k : Bool) (e : Eh) : recvs (.asCoded k) e = true ↔ e = .noerr ∨ e = .haserr := by
  cases e <;> simp [recvs, MCfg.asCoded]
@[simp] theorem offErr_asCoded (k : Bool) (e : Eh) : offErr (.asCoded k) e = true ↔ e = .haserr ∨ e = .hasperr := by
  cases e <;> simp [offErr, MCfg.asCoded]
@[simp] theorem offPer_asCoded (k : Bool) (e : Eh) : offPer (.asCoded k) e = true ↔ e = .hasperr := by
  cases e <;> simp [offPer, MCfg.asCoded]
@[simp] theorem offLock_asCoded (k : Bool) (e : Eh) : offLock (.asCoded k) e = true ↔ e = .hasperr := by
  cases e <;> simp [offLock, MCfg.asCoded]
@[simp] theorem closes_asCoded (k : Bool) (e : Eh) :
    closes (.asCoded k) e = true ↔ e = .noerr ∨ e = .haserr ∨ e = .hasperr := by
  cases e <;> simp [closes, MCfg.asCoded]

@[simp] theorem asCoded_noerrRO (k : Bool) : (MCfg.asCoded k).noerrRO = true := rfl
@[simp] theorem asCoded_haserrRO (k : Bool) : (MCfg.asCoded k).haserrRO = true := rfl
@[simp] theorem asCoded_givesBack (k : Bool) : (MCfg.asCoded k).hasperrGivesBack = !k := rfl
@[simp] theorem asCoded_keepsLock (k : Bool) : (MCfg.asCoded k).hasperrKeepsLock = k := rfl

/-- the transitions of the machine as coded -/
def nextC : Eh → EK → Eh
  | .noerr, .nil => .noerr
  | .noerr, .transient => .haserr
  | .haserr, .nil => .noerr
  | .haserr, .transient => .haserr
  | .noerr, _ => .hasperr
  | .haserr, _ => .hasperr
  | e, _ => e

@[simp] theorem next_asCoded (b : Bool) (e : Eh) (k : EK) : next (.asCoded b) e k = nextC e k := by
  cases e <;> cases k <;> rfl

@[simp] theorem onClose_asCoded (k : Bool) (e : Eh) (w : Bool) :
    onClose (.asCoded k) e w = if e = .hasperr ∧ w = true then .closing else .exited := by
  cases k <;> simp [onClose, MCfg.asCoded]

end GoLevel.CompErr
