import GoLevel.Model.Hash
import GoLevel.Model.Filter
/-!
# The built-in Bloom filter (`leveldb/filter/bloom.go`)

`bloomFilter(bitsPerKey)`: `NewGenerator` (choice of `k`), `bloomFilterGenerator.Add/Generate`, `Contains`.
All index arithmetic is on `UInt32` exactly as in Go (`uint32` wrap-around, including the conversion
`uint32(len(g.keyHashes) * g.n)`); the bit array under construction is an `Array UInt8` (Go: the slice
returned by `Buffer.Alloc`, all zero), the finished filter is `Bytes`.

Domain of the model: `bitsPerKey ≥ 0` with `bitsPerKey * 69 < 2^63` (Go computes `f * 69 / 100` on `int`).
Two Go panics are *not* representable in the `Bytes`-valued functions below; the definitions are total and
their value at those inputs is meaningless (the theorems exclude them, see `bloomGenPanics`):
* `Generate` with `len*n mod 2^32 ∈ [2^32-7, 2^32-1]`: `nBits + 7` wraps, `nBytes = nBits = 0`, and the
  first `kh % nBits` is an integer division by zero;
* `Contains` on a filter of `1 + 2^29·m` bytes (`m ≥ 1`) with `1 ≤ k ≤ 30`: `uint32(nBytes*8) = 0`, same panic.
-/
namespace GoLevel

/-! ## bit array -/

/-- `1 << (bitpos % 8)` as a byte -/
def bitMask (i : Nat) : UInt8 := (1 : UInt8) <<< (i % 8).toUInt8

/-- `dest[bitpos/8] |= 1 << (bitpos % 8)` (an out-of-range index is a Go panic; here: no change) -/
def setBit (a : Array UInt8) (i : Nat) : Array UInt8 :=
  a.modify (i / 8) (· ||| bitMask i)

/-- `filter[bitpos/8] & (1 << (bitpos % 8)) != 0` (Go widens both operands to `uint32`; the shift count
    is below 8, so the byte-wide computation is the same).  Out of range (a Go panic): `false`. -/
def testBit (a : Array UInt8) (i : Nat) : Bool :=
  (a.getD (i / 8) 0 &&& bitMask i) != 0

/-! ## `NewGenerator` -/

/-- `k := uint8(f * 69 / 100)` then the clamp to `1..30`.  The `uint8` conversion truncates, so
    e.g. `bitsPerKey = 400` gives `276 mod 256 = 20` and `bitsPerKey = 372` gives `256 mod 256 = 0 → 1`. -/
def bloomK (bitsPerKey : Nat) : Nat :=
  let k := Gen.bloomKRaw bitsPerKey % 256
  if k < 1 then 1 else if k > 30 then 30 else k

/-! ## hashing and the probe sequence -/

/-- `bloomHash` -/
def bloomHash (key : Bytes) : UInt32 := hash key Gen.bloomSeed.toUInt32

/-- the inner loop of `Generate`: `for j := 0; j < k; j++ { bitpos := kh % nBits; set; kh += delta }` -/
def probeSet (nBits delta : UInt32) : Nat → UInt32 → Array UInt8 → Array UInt8
  | 0, _, a => a
  | j + 1, kh, a => probeSet nBits delta j (kh + delta) (setBit a (kh % nBits).toNat)

/-- the loop of `Contains`: `false` at the first clear bit, `true` after `k` set bits -/
def probeTest (nBits delta : UInt32) (a : Array UInt8) : Nat → UInt32 → Bool
  | 0, _ => true
  | j + 1, kh => testBit a (kh % nBits).toNat && probeTest nBits delta a j (kh + delta)

/-! ## `Generate` -/

/-- `nBytes` of `Generate` for `nKeys` added keys: `nBits := uint32(len * n)`, at least 64, rounded up -/
def bloomNBytes (bitsPerKey nKeys : Nat) : UInt32 :=
  let nBits : UInt32 := (nKeys * bitsPerKey).toUInt32
  let nBits := if nBits < 64 then 64 else nBits
  (nBits + 7) / 8

/-- Go's `Generate` panics (integer divide by zero) exactly when this holds and a key was added -/
def bloomGenPanics (bitsPerKey nKeys : Nat) : Bool :=
  bloomNBytes bitsPerKey nKeys == 0

/-- `Generate` writing into a given (in Go: freshly allocated, zero) destination -/
def bloomFill (k : Nat) (nBits : UInt32) (hashes : List UInt32) (dest : Array UInt8) : Array UInt8 :=
  hashes.foldl (fun d kh => probeSet nBits (Gen.bloomDeltaGenerate kh) k kh d) dest

/-- `g := bloomFilter(bitsPerKey).NewGenerator(); for key in keys { g.Add(key) }; g.Generate(b)`:
    the bytes appended to `b` -/
def bloomGenerate (bitsPerKey : Nat) (keys : List Bytes) : Bytes :=
  let k := bloomK bitsPerKey
  let hashes := keys.map bloomHash
  let nBytes := bloomNBytes bitsPerKey hashes.length
  let nBits := nBytes * 8
  let dest := Array.replicate nBytes.toNat (0 : UInt8)
  ((bloomFill k nBits hashes dest).push k.toUInt8).toList

/-! ## `Contains` -/

/-- `bloomFilter.Contains(filter, key)` (independent of the receiver: `k` is read from the filter) -/
def bloomContains (filter key : Bytes) : Bool :=
  let a := filter.toArray
  let nBytes := a.size - 1
  if a.size < 2 then false            -- `nBytes < 1` on Go's signed `len(filter) - 1`
  else
    let nBits : UInt32 := (nBytes * 8).toUInt32
    let k := a.getD nBytes 0
    if k > 30 then true
    else
      let kh := bloomHash key
      probeTest nBits (Gen.bloomDeltaContains kh) a k.toNat kh

/-- `filter.NewBloomFilter(bitsPerKey)` -/
def bloomPolicy (bitsPerKey : Nat) : FilterPolicy where
  name := "leveldb.BuiltinBloomFilter".toUTF8.toList
  generate := bloomGenerate bitsPerKey
  contains := bloomContains

end GoLevel
