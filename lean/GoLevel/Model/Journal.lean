import GoLevel.Gen.Consts
import GoLevel.Model.Bytes
import GoLevel.Model.CRC
/-!
# Journal (`leveldb/journal/journal.go`)

* `Journal.encode` — functional specification of the byte stream produced by `Writer`
  (`Next`/`Write`/`Close`) for a list of records.
* `Journal.Writer` — small-step machine with Go's fields, ops `next | write p | flush | close`, and the
  bytes handed to the underlying `io.Writer` so far (`out`).
* `Journal.decode strict checksum` — `Reader.Next` + `io.ReadAll` of every record, consumer loop as in
  `DB.recoverJournal` (`io.ErrUnexpectedEOF` from a record ⇒ go on with the next record, any other error
  ⇒ stop).

Constants come from `GoLevel.Gen`; the facts used about them are the `decide`d lemmas at the top.
-/
namespace GoLevel.Journal
open GoLevel.Gen (journalBlockSize journalHeaderSize fullChunkType firstChunkType middleChunkType lastChunkType)

local notation "blockSize" => journalBlockSize
local notation "headerSize" => journalHeaderSize

theorem headerSize_eq : journalHeaderSize = 7 := by decide
theorem headerSize_lt_blockSize : journalHeaderSize < journalBlockSize := by decide
theorem blockSize_lt_u16 : journalBlockSize < 65536 := by decide
theorem chunkTypes_eq : fullChunkType = 1 ∧ firstChunkType = 2 ∧ middleChunkType = 3 ∧ lastChunkType = 4 := by
  decide

/-! ## Wire format -/

/-- `Writer.fillHeader`: which of the four chunk types -/
def chunkType (first last : Bool) : Nat :=
  if last then (if first then fullChunkType else lastChunkType)
  else (if first then firstChunkType else middleChunkType)

/-- the 7 header bytes written by `Writer.fillHeader` for a chunk of type `ty` with payload `payload`:
    LE32 `util.NewCRC(buf[i+6:j]).Value()`, LE16 `j-i-headerSize`, type byte -/
def chunkHeader (ty : Nat) (payload : Bytes) : Bytes :=
  le32 (CRC.crcValue (ty.toUInt8 :: payload)).toNat ++ le16 payload.length ++ [ty.toUInt8]

def chunk (ty : Nat) (payload : Bytes) : Bytes := chunkHeader ty payload ++ payload

/-! ## Functional writer -/

/-- chunks of a record after its first chunk; they start at in-block offset 0 (the previous chunk filled
    its block exactly).  Returns the bytes and the in-block offset after the last chunk. -/
def restChunks (rec : Bytes) : Bytes × Nat :=
  if rec.length ≤ blockSize - headerSize then
    (chunk (chunkType false true) rec, headerSize + rec.length)
  else
    let r := restChunks (rec.drop (blockSize - headerSize))
    (chunk (chunkType false false) (rec.take (blockSize - headerSize)) ++ r.1, r.2)
termination_by rec.length
decreasing_by
  have := headerSize_lt_blockSize
  simp only [List.length_drop]; omega

/-- all chunks of a record whose first header starts at in-block offset `pos`
    (`pos + headerSize ≤ blockSize`): a chunk is closed as non-last exactly when the block is full and
    more payload follows (`singleWriter.Write`: `if w.j == blockSize { w.fillHeader(false); … }`). -/
def emitChunks (pos : Nat) (rec : Bytes) : Bytes × Nat :=
  let avail := blockSize - (pos + headerSize)
  if rec.length ≤ avail then
    (chunk (chunkType true true) rec, pos + headerSize + rec.length)
  else
    let r := restChunks (rec.drop avail)
    (chunk (chunkType true false) (rec.take avail) ++ r.1, r.2)

/-- `Writer.Next`: if the header of the next record does not fit, the rest of the block is zero-filled -/
def pad (pos : Nat) : Bytes × Nat :=
  if pos + headerSize > blockSize then (List.replicate (blockSize - pos) 0, 0) else ([], pos)

def emitRecord (pos : Nat) (rec : Bytes) : Bytes × Nat :=
  let z := pad pos
  let c := emitChunks z.2 rec
  (z.1 ++ c.1, c.2)

/-- stream for records `rs` when the writer is at in-block offset `pos` -/
def encodeFrom : Nat → List Bytes → Bytes
  | _, [] => []
  | pos, r :: rs => let e := emitRecord pos r; e.1 ++ encodeFrom e.2 rs

/-- in-block offset after writing `rs` from offset `pos` -/
def endPos : Nat → List Bytes → Nat
  | pos, [] => pos
  | pos, r :: rs => endPos (emitRecord pos r).2 rs

/-- the byte stream of `NewWriter; (Next; Write r)* ; Close` -/
def encode (rs : List Bytes) : Bytes := encodeFrom 0 rs

/-! ## Writer machine -/

/-- `journal.Writer`.  `buf` is `w.buf[:w.j]` (the bytes beyond `j` are stale and never reach the
    output), so Go's `j` is `buf.length`.  `cur` abstracts `x.seq == w.seq` for the last `singleWriter`
    handed out; `closed` is `w.err != nil` (the underlying writer never fails in the model);
    `bad` records a Go panic (`fillHeader`'s "bad writer state" or a slice-bounds panic in `Write`);
    `out` is the concatenation of all slices passed to `w.w.Write`. -/
structure Writer where
  buf : Bytes := []
  i : Nat := 0
  written : Nat := 0
  first : Bool := false
  pending : Bool := false
  cur : Bool := false
  closed : Bool := false
  bad : Bool := false
  out : Bytes := []
deriving Repr, DecidableEq

namespace Writer

def j (w : Writer) : Nat := w.buf.length

/-- `Writer.fillHeader` -/
def fillHeader (w : Writer) (last : Bool) : Writer :=
  if w.i + headerSize > w.j ∨ w.j > blockSize then { w with bad := true }
  else
    let payload := w.buf.drop (w.i + headerSize)
    { w with buf := w.buf.take w.i ++ chunkHeader (chunkType w.first last) payload ++ payload }

/-- `Writer.writeBlock`; the 7 reserved header bytes of the next block are modelled as zeros -/
def writeBlock (w : Writer) : Writer :=
  { w with out := w.out ++ w.buf.drop w.written, i := 0, buf := List.replicate headerSize 0, written := 0 }

/-- `Writer.writePending` -/
def writePending (w : Writer) : Writer :=
  if w.closed then w else
  let w := if w.pending then { (w.fillHeader true) with pending := false } else w
  { w with out := w.out ++ (w.buf.drop w.written), written := w.j }

/-- `Writer.Close` -/
def close (w : Writer) : Writer :=
  let w := { w with cur := false }
  let w := w.writePending
  { w with closed := true }

/-- `Writer.Flush` -/
def flush (w : Writer) : Writer :=
  let w := { w with cur := false }
  w.writePending

/-- `Writer.Next` -/
def next (w : Writer) : Writer :=
  let w := { w with cur := false }
  if w.closed then w else
  let w := if w.pending then w.fillHeader true else w
  let i := w.j
  let w := { w with i := i }
  let w :=
    if i + headerSize > blockSize then
      -- fill the rest of the block with zeroes, write it out
      ({ w with buf := w.buf ++ List.replicate (blockSize - i) 0 }).writeBlock
    else { w with buf := w.buf ++ List.replicate headerSize 0 }
  { w with first := true, pending := true, cur := true }

/-- `singleWriter.Write`, loop body: "Write a block, if it is full." -/
def roll (w : Writer) : Writer :=
  if w.j = blockSize then { (w.fillHeader false).writeBlock with first := false } else w

/-- the `for len(p) > 0` loop of `singleWriter.Write` -/
def writeLoop (w : Writer) (p : Bytes) : Writer :=
  if _hp : p.length = 0 then w else
  if _hj : blockSize ≤ w.roll.j then { w.roll with bad := true }   -- `w.buf[w.j:]`, `j > blockSize`: panic
  else
    -- "Copy bytes into the buffer."
    writeLoop { w.roll with buf := w.roll.buf ++ p.take (min (blockSize - w.roll.j) p.length) }
      (p.drop (min (blockSize - w.roll.j) p.length))
termination_by p.length
decreasing_by simp only [List.length_drop]; omega

/-- `singleWriter.Write` (stale writer / closed writer ⇒ error, nothing written) -/
def write (w : Writer) (p : Bytes) : Writer :=
  if !w.cur || w.closed then w else w.writeLoop p

end Writer

inductive Op
  | next | write (p : Bytes) | flush | close
deriving Repr, DecidableEq

def Writer.step (w : Writer) : Op → Writer
  | .next => w.next
  | .write p => w.write p
  | .flush => w.flush
  | .close => w.close

def Writer.run (w : Writer) (ops : List Op) : Writer := ops.foldl Writer.step w

/-- What an op sequence asks for: `next` finishes the current record and opens a new one, `write` while
    the `singleWriter` is current appends to it (a stale `singleWriter` returns an error), `flush` and
    `close` finish the current record, nothing counts after `close`. -/
structure RecState where
  done : List Bytes := []
  cur : Option Bytes := none
  closed : Bool := false
deriving Repr, DecidableEq

def RecState.all (s : RecState) : List Bytes := s.done ++ s.cur.toList

def RecState.step (s : RecState) (op : Op) : RecState :=
  if s.closed then s else
  match op with
  | .next => { s with done := s.all, cur := some [] }
  | .write p => { s with cur := s.cur.map (· ++ p) }
  | .flush => { s with done := s.all, cur := none }
  | .close => { done := s.all, cur := none, closed := true }

def recState (ops : List Op) : RecState := ops.foldl RecState.step {}

/-- the records written by an op sequence (the last one possibly still open) -/
def recordsOf (ops : List Op) : List Bytes := (recState ops).all

/-! ## Reader -/

/-- the `reason` strings passed to `Reader.corrupt` -/
inductive DropReason
  | zeroHeader | invalidType | lengthOverflow | checksumMismatch | orphan | missingPart
deriving Repr, DecidableEq

/-- Reader position on a flat stream: `pos` is Go's `r.j`; `rest` is `r.buf[r.j:r.n]` followed by the
    bytes of `r.r` not read yet.  Hence `r.n = pos + min (blockSize - pos) rest.length`.  (Go's initial
    state `n = 0` behaves as `pos = 0` on the whole stream: the first thing `nextChunk` does is read a
    block.) -/
structure RState where
  pos : Nat
  rest : Bytes
deriving Repr, DecidableEq

/-- result of one call of `Reader.nextChunk` -/
inductive ChunkRes
  /-- `nil`: `r.buf[r.i:r.j]` is `payload`, `r.last = last` -/
  | ok (payload : Bytes) (last : Bool) (st : RState)
  /-- `errSkip` after `Drop(n, why)` -/
  | skip (n : Nat) (why : DropReason) (st : RState)
  /-- strict mode: `r.err = ErrCorrupted` after `Drop(n, why)` -/
  | corrupt (n : Nat) (why : DropReason)
  /-- `r.err = io.EOF` -/
  | eof
deriving Repr, DecidableEq

/-- `Reader.corrupt` (the dropper is always called; we record its arguments) -/
def corrupt (strict : Bool) (n : Nat) (why : DropReason) (skip : Bool) (st : RState) : ChunkRes :=
  if strict && !skip then .corrupt n why else .skip n why st

/-- `nextChunk`, branch `if r.j+headerSize <= r.n { … }` -/
def parseChunk (strict checksum first : Bool) (pos : Nat) (rest : Bytes) (n : Nat) : ChunkRes :=
  let cks := rd32 rest
  let len := rd16 (rest.drop 4)
  let tyb := rest.getD 6 0
  let ty := tyb.toNat
  let unproc := n - pos
  let dropped : RState := ⟨n, rest.drop unproc⟩     -- r.i = r.n; r.j = r.n
  if cks = 0 ∧ len = 0 ∧ ty = 0 then corrupt strict unproc .zeroHeader false dropped
  else if ty < fullChunkType ∨ ty > lastChunkType then corrupt strict unproc .invalidType false dropped
  else if pos + headerSize + len > n then corrupt strict unproc .lengthOverflow false dropped
  else
    let payload := (rest.drop headerSize).take len
    let after : RState := ⟨pos + headerSize + len, rest.drop (headerSize + len)⟩
    if checksum ∧ cks ≠ (CRC.crcValue (tyb :: payload)).toNat then
      corrupt strict unproc .checksumMismatch false dropped
    else if first ∧ ty ≠ fullChunkType ∧ ty ≠ firstChunkType then
      corrupt strict (len + headerSize) .orphan true after
    else .ok payload (ty = fullChunkType ∨ ty = lastChunkType) after

/-- `nextChunk`: the two places that end the stream (`!first` ⇒ "missing chunk part", else `io.EOF`) -/
def endOfStream (strict first : Bool) (st : RState) : ChunkRes :=
  if !first then corrupt strict 0 .missingPart false st else .eof

/-- the `for` loop of `Reader.nextChunk`; two rounds always suffice (`nextChunkLoop_fuel`) -/
def nextChunkLoop (strict checksum first : Bool) : Nat → RState → ChunkRes
  | 0, _ => .eof
  | k+1, st =>
    let n := st.pos + min (blockSize - st.pos) st.rest.length
    if st.pos + headerSize ≤ n then parseChunk strict checksum first st.pos st.rest n
    else if n < blockSize ∧ n > 0 then endOfStream strict first st        -- "The last block."
    else
      -- "Read block."  `io.ReadFull` returns `min blockSize (bytes left)` bytes
      let rest' := st.rest.drop (n - st.pos)
      if min blockSize rest'.length = 0 then endOfStream strict first st
      else nextChunkLoop strict checksum first k ⟨0, rest'⟩

def nextChunk (strict checksum first : Bool) (st : RState) : ChunkRes :=
  nextChunkLoop strict checksum first 2 st

/-- how reading ended: `Next` returned `io.EOF`, or (strict) an `ErrCorrupted` came out of `Next` or of
    reading a record -/
inductive End
  | eof | corrupt
deriving Repr, DecidableEq

/-- what the consumer sees, in order -/
inductive Event
  | record (bs : Bytes)
  | drop (n : Nat) (why : DropReason)
deriving Repr, DecidableEq

structure DecodeResult where
  events : List Event
  final : End
deriving Repr, DecidableEq

def DecodeResult.cons (e : Event) (r : DecodeResult) : DecodeResult := { r with events := e :: r.events }

def eventRecords : List Event → List Bytes
  | [] => []
  | .record bs :: es => bs :: eventRecords es
  | .drop _ _ :: es => eventRecords es

def eventDrops : List Event → List (Nat × DropReason)
  | [] => []
  | .record _ :: es => eventDrops es
  | .drop n w :: es => (n, w) :: eventDrops es

/-- the records delivered, in order -/
def DecodeResult.records (r : DecodeResult) : List Bytes := eventRecords r.events
/-- the arguments of the `Drop` calls, in order -/
def DecodeResult.drops (r : DecodeResult) : List (Nat × DropReason) := eventDrops r.events

/-- measure for the reader loop -/
def RState.measure (st : RState) (cur : Option Bytes) : Nat :=
  2 * st.rest.length + (if cur.isSome then 1 else 0)

theorem parseChunk_ok_shrinks {s c f pos rest n p l st'} (hn : n = pos + min (blockSize - pos) rest.length)
    (h : parseChunk s c f pos rest n = .ok p l st') : st'.rest.length < rest.length := by
  have := headerSize_eq
  unfold parseChunk corrupt at h
  simp only at h
  repeat' split at h
  all_goals first
    | (simp only [ChunkRes.ok.injEq] at h; obtain ⟨_, _, rfl⟩ := h; simp only [List.length_drop]; omega)
    | (simp at h; done)

theorem parseChunk_skip_shrinks {s c f pos rest n m w st'} (hn : n = pos + min (blockSize - pos) rest.length)
    (hp : pos + headerSize ≤ n)
    (h : parseChunk s c f pos rest n = .skip m w st') : st'.rest.length < rest.length := by
  have := headerSize_eq
  unfold parseChunk corrupt at h
  simp only at h
  repeat' split at h
  all_goals first
    | (simp only [ChunkRes.skip.injEq] at h; obtain ⟨_, _, rfl⟩ := h; simp only [List.length_drop]; omega)
    | (simp at h; done)

theorem nextChunkLoop_ok_shrinks {s c f k st p l st'} (h : nextChunkLoop s c f k st = .ok p l st') :
    st'.rest.length < st.rest.length := by
  induction k generalizing st with
  | zero => simp [nextChunkLoop] at h
  | succ k ih =>
    simp only [nextChunkLoop, endOfStream, corrupt] at h
    repeat' split at h
    all_goals first
      | exact parseChunk_ok_shrinks rfl h
      | (have := ih h; simp only [List.length_drop] at this ⊢; omega)
      | (simp at h; done)

theorem nextChunkLoop_skip_shrinks {s c f k st m w st'} (h : nextChunkLoop s c f k st = .skip m w st') :
    st'.rest.length < st.rest.length ∨ (f = false ∧ st'.rest.length ≤ st.rest.length) := by
  induction k generalizing st with
  | zero => simp [nextChunkLoop] at h
  | succ k ih =>
    simp only [nextChunkLoop, endOfStream, corrupt] at h
    repeat' split at h
    all_goals first
      | (left; exact parseChunk_skip_shrinks rfl (by assumption) h)
      | (have := ih h; simp only [List.length_drop] at this ⊢
         rcases this with h1 | ⟨h1, h2⟩
         · left; omega
         · right; exact ⟨h1, by omega⟩)
      | (right; simp only [ChunkRes.skip.injEq] at h; obtain ⟨_, _, rfl⟩ := h; simp_all; done)
      | (simp at h; done)

theorem nextChunk_ok_shrinks {s c f st p l st'} (h : nextChunk s c f st = .ok p l st') :
    st'.rest.length < st.rest.length := nextChunkLoop_ok_shrinks h

theorem nextChunk_skip_shrinks {s c f st m w st'} (h : nextChunk s c f st = .skip m w st') :
    st'.rest.length < st.rest.length ∨ (f = false ∧ st'.rest.length ≤ st.rest.length) :=
  nextChunkLoop_skip_shrinks h

/-- `Reader.Next` / `singleReader.Read` driven by a consumer that reads every record to its end.
    `cur = none`: inside the `for` loop of `Reader.Next` (`nextChunk(true)`);
    `cur = some acc`: inside `io.ReadAll` of a record, `acc` read so far (`nextChunk(false)`).
    `errSkip` inside a record becomes `io.ErrUnexpectedEOF`: the consumer abandons the record and calls
    `Next` again; `ErrCorrupted` (strict) ends everything. -/
def decodeLoop (strict checksum : Bool) (st : RState) (cur : Option Bytes) : DecodeResult :=
  match _h : nextChunk strict checksum cur.isNone st with
  | .eof => ⟨[], .eof⟩
  | .corrupt n why => ⟨[.drop n why], .corrupt⟩
  | .skip n why st' => (decodeLoop strict checksum st' none).cons (.drop n why)
  | .ok payload last st' =>
    let acc := cur.getD [] ++ payload
    if last then (decodeLoop strict checksum st' none).cons (.record acc)
    else decodeLoop strict checksum st' (some acc)
termination_by st.measure cur
decreasing_by
  · have := nextChunk_skip_shrinks _h
    simp only [RState.measure]
    rcases this with h1 | ⟨h1, h2⟩
    · simp; split <;> omega
    · cases cur <;> simp_all; omega
  · have := nextChunk_ok_shrinks _h
    simp only [RState.measure]; simp; split <;> omega
  · have := nextChunk_ok_shrinks _h
    simp only [RState.measure]; simp; split <;> omega

/-- `journal.NewReader(bytes.NewReader(bs), dropper, strict, checksum)` read to the end -/
def decode (strict checksum : Bool) (bs : Bytes) : DecodeResult :=
  decodeLoop strict checksum ⟨0, bs⟩ none

end GoLevel.Journal
