import GoLevel.Gen.Consts
import GoLevel.Model.Bytes
import GoLevel.Model.Journal
/-!
# Session records (`leveldb/session_record.go`) and manifest replay (`session.recover`, reading part)

A manifest is a journal file whose records are `sessionRecord`s: a sequence of tagged fields
`uvarint tag ‖ payload` (`recComparer … recPrevJournalNum`, constants from `GoLevel.Gen`).

* `SessionRecord.encode` — `sessionRecord.encode`, field order as written by the Go code (comparer,
  journal number, next file number, sequence number, compaction pointers, deleted tables, added tables;
  `recPrevJournalNum` is never written by this implementation, only read).
* `decodeInto p data complete` — `sessionRecord.decode` *as it is*: it decodes into the receiver without
  clearing it (`session.recover` re-uses one `sessionRecord` for the whole manifest and only resets the
  three lists after each record), it silently ignores an unknown tag (the `switch` has no default), and it
  is a streaming decoder: when the journal reader delivers only the first chunks of a record
  (`complete = false`: the next read returns `io.ErrUnexpectedEOF`), **the fields before the tear have
  already been stored in the receiver** when the error is reported.
* `Manifest.readRecords` — the journal reader as `session.recover` drives it (the record is consumed
  incrementally by `decode`, not by `io.ReadAll`): payloads with a completeness flag.

Not modelled: `make([]byte, n)` for an absurd length `n` (Go panics or exhausts memory; here "short read"),
`getScratch(level)` for an absurd level.
-/
namespace GoLevel.Manifest
open GoLevel.Gen (recComparer recJournalNum recNextFileNum recSeqNum recCompPtr recDelTable recAddTable
  recPrevJournalNum)

/-- `atRecord` (`imin`/`imax` are raw internal-key bytes) -/
structure AddedTable where
  level : Nat
  num   : Nat
  size  : Nat
  imin  : Bytes
  imax  : Bytes
deriving DecidableEq, Repr

/-- `sessionRecord`; `none` = the `hasRec` bit is clear -/
structure SessionRecord where
  comparer       : Option Bytes := none
  journalNum     : Option Nat := none
  prevJournalNum : Option Nat := none
  nextFileNum    : Option Nat := none
  seqNum         : Option Nat := none
  compPtrs       : List (Nat × Bytes) := []
  deleted        : List (Nat × Nat) := []          -- (level, num)
  added          : List AddedTable := []
deriving DecidableEq, Repr

/-- one tagged field -/
inductive Field
  | comparer (name : Bytes)
  | journalNum (n : Nat)
  | nextFileNum (n : Nat)
  | seqNum (n : Nat)
  | compPtr (level : Nat) (ikey : Bytes)
  | delTable (level num : Nat)
  | addTable (t : AddedTable)
  | prevJournalNum (n : Nat)
deriving DecidableEq, Repr

/-- `putBytes` -/
def putBytes (x : Bytes) : Bytes := uvarint x.length ++ x

def Field.encode : Field → Bytes
  | .comparer name => uvarint recComparer ++ putBytes name
  | .journalNum n => uvarint recJournalNum ++ uvarint n
  | .nextFileNum n => uvarint recNextFileNum ++ uvarint n
  | .seqNum n => uvarint recSeqNum ++ uvarint n
  | .compPtr l k => uvarint recCompPtr ++ uvarint l ++ putBytes k
  | .delTable l n => uvarint recDelTable ++ uvarint l ++ uvarint n
  | .addTable t => uvarint recAddTable ++ uvarint t.level ++ uvarint t.num ++ uvarint t.size ++
      putBytes t.imin ++ putBytes t.imax
  | .prevJournalNum n => uvarint recPrevJournalNum ++ uvarint n

/-- the fields `sessionRecord.encode` writes, in its order (no `recPrevJournalNum`) -/
def SessionRecord.fields (r : SessionRecord) : List Field :=
  (r.comparer.map Field.comparer).toList ++ (r.journalNum.map Field.journalNum).toList ++
  (r.nextFileNum.map Field.nextFileNum).toList ++ (r.seqNum.map Field.seqNum).toList ++
  r.compPtrs.map (fun p => Field.compPtr p.1 p.2) ++ r.deleted.map (fun p => Field.delTable p.1 p.2) ++
  r.added.map Field.addTable

/-- `sessionRecord.encode` -/
def SessionRecord.encode (r : SessionRecord) : Bytes := r.fields.flatMap Field.encode

/-- `setComparer`, `setJournalNum`, …, `addCompPtr`, `delTable`, `addTable` -/
def SessionRecord.apply (p : SessionRecord) : Field → SessionRecord
  | .comparer name => { p with comparer := some name }
  | .journalNum n => { p with journalNum := some n }
  | .nextFileNum n => { p with nextFileNum := some n }
  | .seqNum n => { p with seqNum := some n }
  | .compPtr l k => { p with compPtrs := p.compPtrs ++ [(l, k)] }
  | .delTable l n => { p with deleted := p.deleted ++ [(l, n)] }
  | .addTable t => { p with added := p.added ++ [t] }
  | .prevJournalNum n => { p with prevJournalNum := some n }

/-- how `decode` ended other than with `nil` -/
inductive DecErr
  /-- an `errors.ErrCorrupted` (`ErrManifestCorrupted{field, "short read" | "binary: …" | "invalid
      negative value"}`): skipped by a tolerant `session.recover` -/
  | corrupted
  /-- a bare `io.EOF` that `readBytes` lets through when the record ends exactly where a non-empty byte
      string should start: `session.recover` returns it (it is not `IsCorrupted`), `Open` fails with `EOF` -/
  | eof
deriving DecidableEq, Repr

abbrev Rd (α : Type) := Bytes → Except DecErr (α × Bytes)

/-- `readUvarintMayEOF(field, r, false)`: every failure (`io.EOF`, `io.ErrUnexpectedEOF`, overflow) is
    turned into a corruption error -/
def rdUvarint : Rd Nat := fun data =>
  match readUvarint data with
  | some (x, n) => .ok (x, data.drop n)
  | none => .error .corrupted

/-- `readVarint`: additionally `int64(x) < 0` is "invalid negative value" -/
def rdVarint : Rd Nat := fun data =>
  match rdUvarint data with
  | .ok (x, rest) => if x < 2 ^ 63 then .ok (x, rest) else .error .corrupted
  | .error e => .error e

/-- `readBytes`; `complete` = the journal record really ends where `data` ends -/
def rdBytes (complete : Bool) : Rd Bytes := fun data =>
  match rdUvarint data with
  | .error e => .error e
  | .ok (n, rest) =>
    if n ≤ rest.length then .ok (rest.take n, rest.drop n)
    else if complete ∧ rest.length = 0 then .error .eof     -- `io.ReadFull`: `(0, io.EOF)`
    else .error .corrupted                                   -- `io.ErrUnexpectedEOF` ⇒ "short read"

/-- the body of one `case` of `sessionRecord.decode`; `none` = unknown tag, nothing read, nothing set -/
def rdField (complete : Bool) (tag : Nat) : Rd (Option Field) := fun data =>
  if tag = recComparer then
    (rdBytes complete data).map fun (x, r) => (some (.comparer x), r)
  else if tag = recJournalNum then
    (rdVarint data).map fun (x, r) => (some (.journalNum x), r)
  else if tag = recPrevJournalNum then
    (rdVarint data).map fun (x, r) => (some (.prevJournalNum x), r)
  else if tag = recNextFileNum then
    (rdVarint data).map fun (x, r) => (some (.nextFileNum x), r)
  else if tag = recSeqNum then
    (rdUvarint data).map fun (x, r) => (some (.seqNum x), r)
  else if tag = recCompPtr then do
    let (l, r) ← rdUvarint data
    let (k, r) ← rdBytes complete r
    pure (some (.compPtr l k), r)
  else if tag = recAddTable then do
    let (l, r) ← rdUvarint data
    let (n, r) ← rdVarint r
    let (s, r) ← rdVarint r
    let (a, r) ← rdBytes complete r
    let (b, r) ← rdBytes complete r
    pure (some (.addTable ⟨l, n, s, a, b⟩), r)
  else if tag = recDelTable then do
    let (l, r) ← rdUvarint data
    let (n, r) ← rdVarint r
    pure (some (.delTable l n), r)
  else .ok (none, data)

/-- `sessionRecord.decode` on the receiver `p`; the loop consumes at least one byte per round, `fuel`
    bounds the rounds (`decodeInto` supplies `data.length + 1`).  Returns the receiver as the call leaves
    it and the error, if any. -/
def decodeLoop (complete : Bool) : Nat → SessionRecord → Bytes → SessionRecord × Option DecErr
  | 0, p, _ => (p, some .corrupted)
  | fuel+1, p, data =>
    if data.isEmpty ∧ complete then (p, none)         -- `io.EOF` at a field header: done
    else
      match rdUvarint data with
      | .error e => (p, some e)
      | .ok (tag, rest) =>
        match rdField complete tag rest with
        | .error e => (p, some e)
        | .ok (some f, rest') => decodeLoop complete fuel (p.apply f) rest'
        | .ok (none, rest') => decodeLoop complete fuel p rest'

def decodeInto (p : SessionRecord) (data : Bytes) (complete : Bool) : SessionRecord × Option DecErr :=
  decodeLoop complete (data.length + 1) p data

/-- decoding a complete record into a fresh receiver: the record, or `none` on any error -/
def SessionRecord.decode (data : Bytes) : Option SessionRecord :=
  match decodeInto {} data true with
  | (p, none) => some p
  | (_, some _) => none

/-- the three `reset…` calls at the end of each round of `session.recover` -/
def SessionRecord.resetLists (p : SessionRecord) : SessionRecord :=
  { p with compPtrs := [], deleted := [], added := [] }

/-! ## the journal reader as `session.recover` consumes it -/

/-- what the consumer has seen of a record that ends with `io.ErrUnexpectedEOF` -/
def partialOf : Option Bytes → List (Bytes × Bool)
  | some acc => [(acc, false)]
  | none => []

open GoLevel.Journal in
/-- Like `Journal.decodeLoop`, but for a consumer that reads the record incrementally: a record whose
    later chunk is missing or damaged is delivered as the payload of its good leading chunks with
    `complete = false` (the consumer sees these bytes and then `io.ErrUnexpectedEOF`; in strict mode the
    sticky `ErrCorrupted`).  `final` as in `Journal.DecodeResult`. -/
def readLoop (strict checksum : Bool) (st : RState) (cur : Option Bytes) : List (Bytes × Bool) × End :=
  match _h : nextChunk strict checksum cur.isNone st with
  | .eof => ([], .eof)
  | .corrupt _ _ => (partialOf cur, .corrupt)
  | .skip _ _ st' =>
    let r := readLoop strict checksum st' none
    (partialOf cur ++ r.1, r.2)
  | .ok payload last st' =>
    let acc := cur.getD [] ++ payload
    if last then
      let r := readLoop strict checksum st' none
      ((acc, true) :: r.1, r.2)
    else readLoop strict checksum st' (some acc)
termination_by st.measure cur
decreasing_by
  · have := nextChunk_skip_shrinks _h
    simp only [RState.measure]
    rcases this with h1 | ⟨h1, h2⟩
    · simp; split <;> omega
    · cases cur <;> simp_all; omega
  · have := nextChunk_ok_shrinks _h
    simp only [RState.measure]; simp; split <;> omega
  · have := nextChunk_ok_shrinks _h
    simp only [RState.measure]; simp; split <;> omega

/-- `journal.NewReader(reader, dropper, strict, true)` driven by `session.recover` -/
def readRecords (strict : Bool) (bs : Bytes) : List (Bytes × Bool) × Journal.End :=
  readLoop strict true ⟨0, bs⟩ none

end GoLevel.Manifest
