/-!
# The write-merge protocol of `db_write.go` as an interleaving transition system (property C10)

Any number of threads share the four channels of `leveldb.DB`:

* `writeLockC` (capacity 1) — the *token*; `token = true` iff the channel holds its element;
* `writeMergeC`, `writeMergedC`, `writeAckC` (unbuffered) — every send is paired with one receive, so a
  rendezvous is one step that moves the sender and the receiver together.

A thread is a `writer` (one call of `DB.Write` / `DB.Put` / `DB.Delete` on the small-batch path) or a
lock competitor: `transient` (`OpenTransaction … Commit/Discard`, `CompactRange`, `SetReadOnly` before it
passes the lock on), `closer` (`DB.Close`: sets `closed`, takes the token with a plain send and keeps it),
`perErrH` (the `hasperr` loop of `compactionError`: makes `compPerErrC` ready, takes the token, gives it
back only on `closeC`).

Program counters of a writer (`DB.Write`/`putRec` then `writeLocked`, `unlockWrite`):

```
idle → selecting → waitMerged → waitAck → returned r          (merged into another writer's group)
                 ↘ waitMerged → lead …                        (too large: the lock is handed over)
                 ↘ lead flush → merging ⇄ replying → journal → apply → publish → rotate? → acking k r
                 ↘ returned closed | returned perErr                              → returned r
```

`lead (replying) m o` stands for the point between `merged++` and `db.writeMergedC <- true`: the counter
shown is the one *before* the increment, the increment is applied by `reply`.

Ghost state (never read by a guard): `St.cur` (index of the thread that holds the token), `Thread.acc`
(leader that merged this writer), and the group record kept in the leader's own thread record
(`gseq gn gsync jout pub gres`: first sequence number, number of records, sync flag, journal outcome,
published sequence number, the error value passed to `unlockWrite`).  A writer leads at most once, so the
leader's index identifies the group.
-/
namespace GoLevel.WP

/-- what a call returned: `nil`, a storage error, `ErrClosed`, the persistent compaction error -/
inductive Res | ok | err | closed | perErr
deriving DecidableEq, Repr

/-- phases of `writeLocked` -/
inductive Ph
  | flush | merging | replying | journal | apply | publish | rotate
  | acking (k : Nat) (r : Res)
deriving DecidableEq, Repr

inductive Pc
  | idle | selecting | waitMerged | waitAck
  | lead (ph : Ph) (m : Nat) (o : Bool)
  | hold
  | returned (r : Res)
deriving DecidableEq, Repr

inductive Kind | writer | transient | closer | perErrH
deriving DecidableEq, Repr

structure Thread where
  kind : Kind := .writer
  /-- `!wo.NoWriteMerge && !o.NoWriteMerge` -/
  merge : Bool := true
  /-- `batch.internalLen` -/
  size : Nat := 1
  /-- `batch.Len()` -/
  nrec : Nat := 1
  sync : Bool := false
  pc : Pc := .idle
  acc : Option Nat := none
  glimit : Nat := 0
  gn : Nat := 0
  gsync : Bool := false
  gseq : Nat := 0
  jout : Option Bool := none
  pub : Option Nat := none
  gres : Option Res := none
deriving DecidableEq, Repr

structure St where
  ws : List Thread
  token : Bool := false
  closed : Bool := false
  perErr : Bool := false
  /-- `db.seq` -/
  seq : Nat := 0
  cur : Option Nat := none
deriving DecidableEq, Repr

/-! ## counting functions -/

def holds : Pc → Nat | .lead .. => 1 | .hold => 1 | _ => 0
def isWA : Pc → Nat | .waitAck => 1 | _ => 0
def isWM : Pc → Nat | .waitMerged => 1 | _ => 0
/-- acks the leader still has to send (`merged`, then the loop counter of `unlockWrite`) -/
def owed : Pc → Nat
  | .lead .flush _ _ => 0
  | .lead (.acking k _) _ _ => k
  | .lead _ m _ => m
  | _ => 0
/-- sends on `writeMergedC` the leader still has to make -/
def pendReply : Pc → Nat
  | .lead .flush _ _ => 0
  | .lead .replying _ _ => 1
  | .lead _ _ true => 1
  | _ => 0
/-- termination weight -/
def wt : Pc → Nat
  | .idle => 14 | .selecting => 13 | .waitMerged => 10 | .waitAck => 1 | .hold => 1 | .returned _ => 0
  | .lead .flush _ _ => 9
  | .lead .replying m _ => 9 + m
  | .lead .merging m _ => 7 + m
  | .lead .journal m _ => 6 + m
  | .lead .apply m _ => 5 + m
  | .lead .publish m _ => 4 + m
  | .lead .rotate m _ => 3 + m
  | .lead (.acking k _) _ _ => 1 + k

def tot (f : Pc → Nat) (ws : List Thread) : Nat := (ws.map (fun t => f t.pc)).sum

/-- the termination measure -/
def measure (s : St) : Nat := tot wt s.ws

/-! ## thread updates -/

/-- the thread starts `writeLocked` (after `w.lock` or after a hand-off) -/
def Thread.asLeader (w : Thread) : Thread :=
  { w with pc := .lead .flush 0 false, gn := w.nrec, gsync := w.sync }

def Thread.setPc (w : Thread) (p : Pc) : Thread := { w with pc := p }

/-- `unlockWrite(o, m, r)` is entered -/
def Thread.unlock (l : Thread) (m : Nat) (o : Bool) (r : Res) : Thread :=
  { l with pc := .lead (.acking m r) m o, gres := some r }

def set2 (ws : List Thread) (j : Nat) (l : Thread) (i : Nat) (w : Thread) : List Thread :=
  (ws.set j l).set i w

/-! ## the step relation

`i` is always the index of a non-leader thread, `j` the index of the leader. -/

inductive Step : St → St → Prop
  /-- the call starts; `Close` sets `closed`/closes `closeC`, the error handler enters `hasperr` -/
  | call (s : St) (i : Nat) (w : Thread) (hi : s.ws[i]? = some w) (hp : w.pc = .idle) :
      Step s { s with ws := s.ws.set i (w.setPc .selecting),
                      closed := s.closed || (w.kind == .closer),
                      perErr := s.perErr || (w.kind == .perErrH) }
  /-- `case <-db.closeC: return ErrClosed` -/
  | retClosed (s : St) (i : Nat) (w : Thread) (hi : s.ws[i]? = some w) (hp : w.pc = .selecting)
      (hk : w.kind ≠ .closer) (hc : s.closed = true) :
      Step s { s with ws := s.ws.set i (w.setPc (.returned .closed)) }
  /-- `case err := <-db.compPerErrC: return err` -/
  | retPerErr (s : St) (i : Nat) (w : Thread) (hi : s.ws[i]? = some w) (hp : w.pc = .selecting)
      (hk : w.kind = .writer ∨ w.kind = .transient) (hc : s.perErr = true) :
      Step s { s with ws := s.ws.set i (w.setPc (.returned .perErr)) }
  /-- `case db.writeLockC <- struct{}{}` in `Write`/`putRec` -/
  | lock (s : St) (i : Nat) (w : Thread) (hi : s.ws[i]? = some w) (hp : w.pc = .selecting)
      (hk : w.kind = .writer) (ht : s.token = false) :
      Step s { s with ws := s.ws.set i w.asLeader, token := true, cur := some i }
  /-- a competitor takes the token -/
  | hAcquire (s : St) (i : Nat) (w : Thread) (hi : s.ws[i]? = some w) (hp : w.pc = .selecting)
      (hk : w.kind ≠ .writer) (ht : s.token = false) :
      Step s { s with ws := s.ws.set i (w.setPc .hold), token := true, cur := some i }
  /-- `<-db.writeLockC` by a competitor; the error handler does it only on `closeC`, `Close` never -/
  | hRelease (s : St) (i : Nat) (w : Thread) (hi : s.ws[i]? = some w) (hp : w.pc = .hold)
      (hk : w.kind = .transient ∨ (w.kind = .perErrH ∧ s.closed = true)) :
      Step s { s with ws := s.ws.set i (w.setPc (.returned .ok)), token := false, cur := none }
  /-- `db.flush` succeeded; `lim` is the merge limit computed from `mdbFree` -/
  | flushOk (s : St) (j : Nat) (l : Thread) (m : Nat) (o : Bool) (lim : Nat) (hj : s.ws[j]? = some l)
      (hp : l.pc = .lead .flush m o) :
      Step s { s with ws := s.ws.set j { l with pc := .lead .merging 0 false, glimit := lim } }
  /-- `db.flush` failed: `db.unlockWrite(false, 0, err)` -/
  | flushFail (s : St) (j : Nat) (l : Thread) (m : Nat) (o : Bool) (hj : s.ws[j]? = some l)
      (hp : l.pc = .lead .flush m o) :
      Step s { s with ws := s.ws.set j (l.unlock 0 false .err) }
  /-- `incoming := <-db.writeMergeC`, it fits: `merged++` -/
  | recvAccept (s : St) (i j : Nat) (w l : Thread) (m : Nat) (hj : s.ws[j]? = some l) (hi : s.ws[i]? = some w)
      (hp : l.pc = .lead .merging m false) (hm : l.merge = true) (hl : 0 < l.glimit)
      (hq : w.pc = .selecting) (hk : w.kind = .writer) (hwm : w.merge = true) (hsz : w.size ≤ l.glimit) :
      Step s { s with ws := set2 s.ws j { l with pc := .lead .replying m false, glimit := l.glimit - w.size,
                                                   gn := l.gn + w.nrec, gsync := l.gsync || w.sync }
                                     i (w.setPc .waitMerged) }
  /-- `db.writeMergedC <- true` -/
  | reply (s : St) (i j : Nat) (w l : Thread) (m : Nat) (o : Bool) (hj : s.ws[j]? = some l) (hi : s.ws[i]? = some w)
      (hp : l.pc = .lead .replying m o) (hq : w.pc = .waitMerged) :
      Step s { s with ws := set2 s.ws j (l.setPc (.lead .merging (m + 1) false))
                                     i { w with pc := .waitAck, acc := some j } }
  /-- `incoming := <-db.writeMergeC`, too large: `overflow = true; break merge` -/
  | recvOverflow (s : St) (i j : Nat) (w l : Thread) (m : Nat) (hj : s.ws[j]? = some l) (hi : s.ws[i]? = some w)
      (hp : l.pc = .lead .merging m false) (hm : l.merge = true) (hl : 0 < l.glimit)
      (hq : w.pc = .selecting) (hk : w.kind = .writer) (hwm : w.merge = true) (hsz : l.glimit < w.size) :
      Step s { s with ws := set2 s.ws j { l with pc := .lead .journal m true, gseq := s.seq + 1 }
                                     i (w.setPc .waitMerged) }
  /-- `default: break merge`, the limit is used up, or `merge = false` -/
  | mergeDone (s : St) (j : Nat) (l : Thread) (m : Nat) (o : Bool) (hj : s.ws[j]? = some l)
      (hp : l.pc = .lead .merging m o) :
      Step s { s with ws := s.ws.set j { l with pc := .lead .journal m o, gseq := s.seq + 1 } }
  /-- `db.writeJournal` succeeded -/
  | journalOk (s : St) (j : Nat) (l : Thread) (m : Nat) (o : Bool) (hj : s.ws[j]? = some l)
      (hp : l.pc = .lead .journal m o) :
      Step s { s with ws := s.ws.set j { l with pc := .lead .apply m o, jout := some true } }
  /-- `db.writeJournal` failed: `db.unlockWrite(overflow, merged, err)` -/
  | journalFail (s : St) (j : Nat) (l : Thread) (m : Nat) (o : Bool) (hj : s.ws[j]? = some l)
      (hp : l.pc = .lead .journal m o) :
      Step s { s with ws := s.ws.set j { l.unlock m o .err with jout := some false } }
  /-- `batch.putMem` for all batches of the group -/
  | apply (s : St) (j : Nat) (l : Thread) (m : Nat) (o : Bool) (hj : s.ws[j]? = some l)
      (hp : l.pc = .lead .apply m o) :
      Step s { s with ws := s.ws.set j (l.setPc (.lead .publish m o)) }
  /-- `db.addSeq(n)`; `rot` = `batch.internalLen >= mdbFree` -/
  | publish (s : St) (j : Nat) (l : Thread) (m : Nat) (o : Bool) (rot : Bool) (hj : s.ws[j]? = some l)
      (hp : l.pc = .lead .publish m o) :
      Step s { s with seq := s.seq + l.gn,
                      ws := s.ws.set j (if rot then { l with pc := .lead .rotate m o, pub := some (s.seq + l.gn) }
                                        else { l.unlock m o .ok with pub := some (s.seq + l.gn) }) }
  | rotateOk (s : St) (j : Nat) (l : Thread) (m : Nat) (o : Bool) (hj : s.ws[j]? = some l)
      (hp : l.pc = .lead .rotate m o) :
      Step s { s with ws := s.ws.set j (l.unlock m o .ok) }
  | rotateFail (s : St) (j : Nat) (l : Thread) (m : Nat) (o : Bool) (hj : s.ws[j]? = some l)
      (hp : l.pc = .lead .rotate m o) :
      Step s { s with ws := s.ws.set j (l.unlock m o .err) }
  /-- `db.writeAckC <- err` meets `return <-db.writeAckC` -/
  | ack (s : St) (i j : Nat) (w l : Thread) (k m : Nat) (o : Bool) (r : Res) (hj : s.ws[j]? = some l)
      (hi : s.ws[i]? = some w) (hp : l.pc = .lead (.acking (k + 1) r) m o) (hq : w.pc = .waitAck) :
      Step s { s with ws := set2 s.ws j (l.setPc (.lead (.acking k r) m o)) i (w.setPc (.returned r)) }
  /-- `db.writeMergedC <- false`: the lock goes to the writer that did not fit -/
  | handoff (s : St) (i j : Nat) (w l : Thread) (m : Nat) (r : Res) (hj : s.ws[j]? = some l)
      (hi : s.ws[i]? = some w) (hp : l.pc = .lead (.acking 0 r) m true) (hq : w.pc = .waitMerged) :
      Step s { s with ws := set2 s.ws j (l.setPc (.returned r)) i w.asLeader, cur := some i }
  /-- `<-db.writeLockC` -/
  | release (s : St) (j : Nat) (l : Thread) (m : Nat) (r : Res) (hj : s.ws[j]? = some l)
      (hp : l.pc = .lead (.acking 0 r) m false) :
      Step s { s with ws := s.ws.set j (l.setPc (.returned r)), token := false, cur := none }

inductive Steps : St → St → Prop
  | refl (s : St) : Steps s s
  | tail {s t u : St} : Steps s t → Step t u → Steps s u

theorem Steps.trans {s t u : St} (h1 : Steps s t) (h2 : Steps t u) : Steps s u := by
  induction h2 with
  | refl => exact h1
  | tail _ h ih => exact .tail ih h

theorem Steps.single {s t : St} (h : Step s t) : Steps s t := .tail (.refl s) h

/-- fresh thread record: nothing has happened yet -/
def Thread.fresh (w : Thread) : Prop :=
  w.pc = .idle ∧ w.acc = none ∧ w.jout = none ∧ w.pub = none ∧ w.gres = none

/-- initial states: every thread idle, the lock free; `closed`/`perErr`/`seq` arbitrary -/
def Init (s : St) : Prop :=
  s.token = false ∧ s.cur = none ∧ ∀ w ∈ s.ws, w.fresh

def Reachable (s : St) : Prop := ∃ s0, Init s0 ∧ Steps s0 s

/-! ## executable form -/

inductive Label
  | call (i : Nat) | retClosed (i : Nat) | retPerErr (i : Nat) | lock (i : Nat) | hAcquire (i : Nat)
  | hRelease (i : Nat)
  | flushOk (j lim : Nat) | flushFail (j : Nat)
  | recvAccept (i j : Nat) | reply (i j : Nat) | recvOverflow (i j : Nat) | mergeDone (j : Nat)
  | journalOk (j : Nat) | journalFail (j : Nat) | apply (j : Nat) | publish (j : Nat) (rot : Bool)
  | rotateOk (j : Nat) | rotateFail (j : Nat)
  | ack (i j : Nat) | handoff (i j : Nat) | release (j : Nat)
deriving DecidableEq, Repr

/-- one step, executable; `step?_sound` (in `Proofs/WriteProtoExec`) shows `step? s a = some t → Step s t` -/
def step? (s : St) : Label → Option St
  | .call i =>
    match s.ws[i]? with
    | some w =>
      if w.pc = .idle then
        some { s with ws := s.ws.set i (w.setPc .selecting),
                      closed := s.closed || (w.kind == .closer),
                      perErr := s.perErr || (w.kind == .perErrH) }
      else none
    | none => none
  | .retClosed i =>
    match s.ws[i]? with
    | some w =>
      if w.pc = .selecting ∧ w.kind ≠ .closer ∧ s.closed = true then
        some { s with ws := s.ws.set i (w.setPc (.returned .closed)) }
      else none
    | none => none
  | .retPerErr i =>
    match s.ws[i]? with
    | some w =>
      if w.pc = .selecting ∧ (w.kind = .writer ∨ w.kind = .transient) ∧ s.perErr = true then
        some { s with ws := s.ws.set i (w.setPc (.returned .perErr)) }
      else none
    | none => none
  | .lock i =>
    match s.ws[i]? with
    | some w =>
      if w.pc = .selecting ∧ w.kind = .writer ∧ s.token = false then
        some { s with ws := s.ws.set i w.asLeader, token := true, cur := some i }
      else none
    | none => none
  | .hAcquire i =>
    match s.ws[i]? with
    | some w =>
      if w.pc = .selecting ∧ w.kind ≠ .writer ∧ s.token = false then
        some { s with ws := s.ws.set i (w.setPc .hold), token := true, cur := some i }
      else none
    | none => none
  | .hRelease i =>
    match s.ws[i]? with
    | some w =>
      if w.pc = .hold ∧ (w.kind = .transient ∨ (w.kind = .perErrH ∧ s.closed = true)) then
        some { s with ws := s.ws.set i (w.setPc (.returned .ok)), token := false, cur := none }
      else none
    | none => none
  | .flushOk j lim =>
    match s.ws[j]? with
    | some l =>
      match l.pc with
      | .lead .flush _ _ => some { s with ws := s.ws.set j { l with pc := .lead .merging 0 false, glimit := lim } }
      | _ => none
    | none => none
  | .flushFail j =>
    match s.ws[j]? with
    | some l =>
      match l.pc with
      | .lead .flush _ _ => some { s with ws := s.ws.set j (l.unlock 0 false .err) }
      | _ => none
    | none => none
  | .recvAccept i j =>
    match s.ws[j]?, s.ws[i]? with
    | some l, some w =>
      match l.pc with
      | .lead .merging m false =>
        if l.merge = true ∧ 0 < l.glimit ∧ w.pc = .selecting ∧ w.kind = .writer ∧ w.merge = true
            ∧ w.size ≤ l.glimit then
          some { s with ws := set2 s.ws j { l with pc := .lead .replying m false, glimit := l.glimit - w.size,
                                                   gn := l.gn + w.nrec, gsync := l.gsync || w.sync }
                                     i (w.setPc .waitMerged) }
        else none
      | _ => none
    | _, _ => none
  | .reply i j =>
    match s.ws[j]?, s.ws[i]? with
    | some l, some w =>
      match l.pc with
      | .lead .replying m _ =>
        if w.pc = .waitMerged then
          some { s with ws := set2 s.ws j (l.setPc (.lead .merging (m + 1) false))
                                     i { w with pc := .waitAck, acc := some j } }
        else none
      | _ => none
    | _, _ => none
  | .recvOverflow i j =>
    match s.ws[j]?, s.ws[i]? with
    | some l, some w =>
      match l.pc with
      | .lead .merging m false =>
        if l.merge = true ∧ 0 < l.glimit ∧ w.pc = .selecting ∧ w.kind = .writer ∧ w.merge = true
            ∧ l.glimit < w.size then
          some { s with ws := set2 s.ws j { l with pc := .lead .journal m true, gseq := s.seq + 1 }
                                     i (w.setPc .waitMerged) }
        else none
      | _ => none
    | _, _ => none
  | .mergeDone j =>
    match s.ws[j]? with
    | some l =>
      match l.pc with
      | .lead .merging m o => some { s with ws := s.ws.set j { l with pc := .lead .journal m o, gseq := s.seq + 1 } }
      | _ => none
    | none => none
  | .journalOk j =>
    match s.ws[j]? with
    | some l =>
      match l.pc with
      | .lead .journal m o => some { s with ws := s.ws.set j { l with pc := .lead .apply m o, jout := some true } }
      | _ => none
    | none => none
  | .journalFail j =>
    match s.ws[j]? with
    | some l =>
      match l.pc with
      | .lead .journal m o => some { s with ws := s.ws.set j { l.unlock m o .err with jout := some false } }
      | _ => none
    | none => none
  | .apply j =>
    match s.ws[j]? with
    | some l =>
      match l.pc with
      | .lead .apply m o => some { s with ws := s.ws.set j (l.setPc (.lead .publish m o)) }
      | _ => none
    | none => none
  | .publish j rot =>
    match s.ws[j]? with
    | some l =>
      match l.pc with
      | .lead .publish m o =>
        some { s with seq := s.seq + l.gn,
                      ws := s.ws.set j (if rot then { l with pc := .lead .rotate m o, pub := some (s.seq + l.gn) }
                                        else { l.unlock m o .ok with pub := some (s.seq + l.gn) }) }
      | _ => none
    | none => none
  | .rotateOk j =>
    match s.ws[j]? with
    | some l =>
      match l.pc with
      | .lead .rotate m o => some { s with ws := s.ws.set j (l.unlock m o .ok) }
      | _ => none
    | none => none
  | .rotateFail j =>
    match s.ws[j]? with
    | some l =>
      match l.pc with
      | .lead .rotate m o => some { s with ws := s.ws.set j (l.unlock m o .err) }
      | _ => none
    | none => none
  | .ack i j =>
    match s.ws[j]?, s.ws[i]? with
    | some l, some w =>
      match l.pc with
      | .lead (.acking (k + 1) r) m o =>
        if w.pc = .waitAck then
          some { s with ws := set2 s.ws j (l.setPc (.lead (.acking k r) m o)) i (w.setPc (.returned r)) }
        else none
      | _ => none
    | _, _ => none
  | .handoff i j =>
    match s.ws[j]?, s.ws[i]? with
    | some l, some w =>
      match l.pc with
      | .lead (.acking 0 r) _ true =>
        if w.pc = .waitMerged then
          some { s with ws := set2 s.ws j (l.setPc (.returned r)) i w.asLeader, cur := some i }
        else none
      | _ => none
    | _, _ => none
  | .release j =>
    match s.ws[j]? with
    | some l =>
      match l.pc with
      | .lead (.acking 0 r) _ false =>
        some { s with ws := s.ws.set j (l.setPc (.returned r)), token := false, cur := none }
      | _ => none
    | none => none

/-- run a list of labels -/
def run (s : St) : List Label → Option St
  | [] => some s
  | a :: as => match step? s a with
    | some t => run t as
    | none => none

end GoLevel.WP
