import GoLevel.Gen.Consts
/-!
# The write-merge protocol of `db_write.go` as an interleaving transition system (property C10)

Any number of threads share the four channels of `leveldb.DB`:

* `writeLockC` (capacity 1) — the *token*; `token = true` iff the channel holds its element;
* `writeMergeC`, `writeMergedC`, `writeAckC` (unbuffered) — every send is paired with one receive, so a
  rendezvous is one step that moves the sender and the receiver together.

A thread is a `writer` (one call of `DB.Write` / `DB.Put` / `DB.Delete` on the small-batch path) or a
lock competitor: `transient` (`OpenTransaction … Commit/Discard`, `CompactRange`, `SetReadOnly` before it
passes the lock on), `closer` (`DB.Close`: sets `closed`, takes the token with a plain send and keeps it),
`perErrH` (the `hasperr` loop of `compactionError`: makes `compPerErrC` ready, takes the token, gives it
back only on `closeC`).

Program counters of a writer (`DB.Write`/`putRec` then `writeLocked`, `unlockWrite`):

```
idle → selecting → waitMerged → waitAck → returned r          (merged into another writer's group)
                 ↘ waitMerged → lead …                        (too large: the lock is handed over)
                 ↘ lead flush → merging ⇄ replying → journal → apply → publish → rotate? → acking k r
                 ↘ returned closed | returned perErr                              → returned r
```

`lead (replying) m o` stands for the point between `merged++` and `db.writeMergedC <- true`: the counter
shown is the one *before* the increment, the increment is applied by `reply`.

Ghost state (never read by a guard): `St.cur` (index of the thread that holds the token), `Thread.acc`
(leader that merged this writer), and the group record kept in the leader's own thread record
(`gseq gn jout jsync jrecs arecs pub gres members`: first sequence number, number of records, journal outcome,
the `sync` argument and the records of the journal write, the records put into the memdb, published
sequence number, the error value passed to `unlockWrite`, the `writeMerge` messages accepted).  A writer
leads at most once, so the leader's index identifies the group.

## What a group carries (wp34)

Every writer call has data: `put` (`DB.Put`/`DB.Delete` via `putRec`, as opposed to `DB.Write(batch)`),
`recs` (the identities of its records, in order), `size` (`batch.internalLen`, resp.
`len(key)+len(value)+8`), `sync` (`wo.GetSync() && !o.GetNoSync()`).  Batch *objects* have contents that
steps can change: `Thread.cb` is the caller's `*Batch` of a `Write` call, `Thread.pb` the pooled batch the
thread took from `db.batchPool` (`putRec`, or the merge loop of `writeLocked`), `St.pool` the contents of
the batches lying in `db.batchPool` (`sync.Pool` hands out any of them, or a new empty one).  The locals
of `writeLocked` live in the leader's thread record: `batches` (`[]*Batch` as a list of object
references `Obj`), `our` (`ourBatch != nil`), `gsync` (`sync`), `glimit` (`mergeLimit`), `gfree`
(`mdbFree`), `bsize` (`batch.internalLen`, which grows when `batch == ourBatch`), `merged`/`overflow` (in
the program counter).  `Cfg` has one flag per place where the handling of this data has been seen to go
wrong (seeded changes); `Cfg.code` reads the flags off the source (`Gen.wp…`), `{}` is the configuration
the theorems of `Props/C10` are about, and `C10.code_cfg : Cfg.code = {}`.
-/
namespace GoLevel.WP

/-- where the treatment of a group's contents can differ (all `true`: the code as read by `tools/extract`) -/
structure Cfg where
  /-- `sync = sync || incoming.sync` is a statement of the merge-loop body outside both branches (it is
  executed for a merged batch *and* for a merged Put) -/
  syncAll : Bool := true
  /-- `ourBatch.Reset()` follows `ourBatch = db.batchPool.Get().(*Batch)` in the merge loop -/
  poolReset : Bool := true
  /-- the record of a merged Put is appended with `ourBatch.appendRec` (not `batch.appendRec`) -/
  appendOur : Bool := true
  /-- `unlockWrite` tests `if overflow {` and nothing else: the overflowed writer is answered whatever `err` -/
  handoffOnErr : Bool := true
deriving DecidableEq, Repr

/-- the configuration read off the source -/
def Cfg.code : Cfg :=
  { syncAll := Gen.wpSyncOutsideBranches, poolReset := Gen.wpPoolBatchReset,
    appendOur := Gen.wpMergedPutToOurBatch, handoffOnErr := Gen.wpUnlockHandsOffOnError }

/-- identity of a record (one key/value or key/tombstone) -/
abbrev Rec := Nat

/-- ghost copy of an accepted `writeMerge` message (`incoming`): sender, `sync`, `batch == nil`, the
records, `internalLen` -/
structure Mem where
  idx : Nat
  sync : Bool
  put : Bool
  recs : List Rec
  size : Nat
deriving DecidableEq, Repr

/-- an element of `batches []*Batch`: the leader's `batch`, the pooled `ourBatch`, or `incoming.batch` of
writer `i` (contents `c` as read when it was appended: nothing can change the batch of a writer blocked in
`<-db.writeMergedC` / `<-db.writeAckC`, see `Thread.accept`) -/
inductive Obj
  | own | our | other (i : Nat) (c : List Rec)
deriving DecidableEq, Repr

/-- what a call returned: `nil`, a storage error, `ErrClosed`, the persistent compaction error -/
inductive Res | ok | err | closed | perErr
deriving DecidableEq, Repr

/-- phases of `writeLocked` -/
inductive Ph
  | flush | merging | replying | journal | apply | publish | rotate
  | acking (k : Nat) (r : Res)
deriving DecidableEq, Repr

inductive Pc
  | idle | selecting | waitMerged | waitAck
  | lead (ph : Ph) (m : Nat) (o : Bool)
  | hold
  | returned (r : Res)
deriving DecidableEq, Repr

inductive Kind | writer | transient | closer | perErrH
deriving DecidableEq, Repr

structure Thread where
  kind : Kind := .writer
  /-- `!wo.NoWriteMerge && !o.NoWriteMerge` -/
  merge : Bool := true
  /-- the call is `DB.Put`/`DB.Delete` (`putRec`: `incoming.batch == nil`), not `DB.Write(batch)` -/
  put : Bool := false
  /-- `batch.internalLen`, resp. `len(key) + len(value) + 8` -/
  size : Nat := 1
  /-- the records of the call, in the order of the caller's batch (`batch.Len() = recs.length`) -/
  recs : List Rec := [0]
  /-- `wo.GetSync() && !db.s.o.GetNoSync()` -/
  sync : Bool := false
  /-- contents of the caller's `*Batch` (a `Write` call); initially `recs` -/
  cb : List Rec := [0]
  /-- contents of the pooled batch this thread took from `db.batchPool` (meaningful while `our`) -/
  pb : List Rec := []
  pc : Pc := .idle
  acc : Option Nat := none
  /-- `ourBatch != nil` -/
  our : Bool := false
  /-- `batch.internalLen` of the `batch` argument of `writeLocked` -/
  bsize : Nat := 0
  /-- `mdbFree` -/
  gfree : Nat := 0
  /-- `mergeLimit` -/
  glimit : Nat := 0
  /-- `batches` -/
  batches : List Obj := []
  /-- `sync` (the local of `writeLocked`) -/
  gsync : Bool := false
  /-- ghost: the accepted messages, in order -/
  members : List Mem := []
  /-- `batchesLen(batches)` when the merge loop is left -/
  gn : Nat := 0
  gseq : Nat := 0
  jout : Option Bool := none
  /-- the `sync` argument of `db.writeJournal` -/
  jsync : Option Bool := none
  /-- the records `db.writeJournal(batches, …)` wrote -/
  jrecs : List Rec := []
  /-- the records the `putMem` loop inserted -/
  arecs : List Rec := []
  pub : Option Nat := none
  gres : Option Res := none
deriving DecidableEq, Repr

/-- `batch.Len()` -/
def Thread.nrec (w : Thread) : Nat := w.recs.length

structure St where
  ws : List Thread
  token : Bool := false
  closed : Bool := false
  perErr : Bool := false
  /-- `db.seq` -/
  seq : Nat := 0
  cur : Option Nat := none
  /-- contents of the batches in `db.batchPool` -/
  pool : List (List Rec) := []
  cfg : Cfg := {}
deriving DecidableEq, Repr

/-! ## counting functions -/

def holds : Pc → Nat | .lead .. => 1 | .hold => 1 | _ => 0
def isWA : Pc → Nat | .waitAck => 1 | _ => 0
def isWM : Pc → Nat | .waitMerged => 1 | _ => 0
/-- acks the leader still has to send (`merged`, then the loop counter of `unlockWrite`) -/
def owed : Pc → Nat
  | .lead .flush _ _ => 0
  | .lead (.acking k _) _ _ => k
  | .lead _ m _ => m
  | _ => 0
/-- sends on `writeMergedC` the leader still has to make -/
def pendReply : Pc → Nat
  | .lead .flush _ _ => 0
  | .lead .replying _ _ => 1
  | .lead _ _ true => 1
  | _ => 0
/-- termination weight -/
def wt : Pc → Nat
  | .idle => 14 | .selecting => 13 | .waitMerged => 10 | .waitAck => 1 | .hold => 1 | .returned _ => 0
  | .lead .flush _ _ => 9
  | .lead .replying m _ => 9 + m
  | .lead .merging m _ => 7 + m
  | .lead .journal m _ => 6 + m
  | .lead .apply m _ => 5 + m
  | .lead .publish m _ => 4 + m
  | .lead .rotate m _ => 3 + m
  | .lead (.acking k _) _ _ => 1 + k

def tot (f : Pc → Nat) (ws : List Thread) : Nat := (ws.map (fun t => f t.pc)).sum

/-- the termination measure -/
def measure (s : St) : Nat := tot wt s.ws

/-! ## what `writeLocked` computes -/

/-- the merge limit of `writeLocked`: `n = batch.internalLen`,
```
if n > 128<<10 { mergeLimit = (1<<20) - n } else { mergeLimit = 128<<10 }
mergeCap := mdbFree - n
if mergeLimit > mergeCap { mergeLimit = mergeCap }
```
Go `int`s may be negative here; the only use is `for mergeLimit > 0` and `x > mergeLimit`, for which
truncated subtraction gives the same answers. -/
def mergeLimitOf (n mdbFree : Nat) : Nat :=
  let lim := if n > Gen.wpMergeBigBatch then Gen.wpMergeLimitBig - n else Gen.wpMergeLimitSmall
  let cap := mdbFree - n
  if lim > cap then cap else lim

/-- `db.batchPool.Get()`: `none` is a new empty batch (`newBatch`), `some k` the `k`-th pooled one -/
def poolGet (pool : List (List Rec)) : Option Nat → List Rec × List (List Rec)
  | none => ([], pool)
  | some k => (pool[k]?.getD [], pool.eraseIdx k)

/-- contents of an element of `batches` for a leader with `put`, caller's batch `cb`, pooled batch `pb`
(`batch` is the pooled batch for a `Put` leader, the caller's for a `Write` leader) -/
def contentOf (put : Bool) (cb pb : List Rec) : Obj → List Rec
  | .own => if put then pb else cb
  | .our => pb
  | .other _ c => c

def flatOf (put : Bool) (cb pb : List Rec) (batches : List Obj) : List Rec :=
  batches.flatMap (contentOf put cb pb)

/-- all records of `batches`, in the order `writeBatchesWithHeader` / the `putMem` loop go through them -/
def Thread.flat (l : Thread) : List Rec := flatOf l.put l.cb l.pb l.batches

/-! ## thread updates -/

/-- the thread starts `writeLocked` (after `w.lock` or after a hand-off).  `putRec` first does
`batch := db.batchPool.Get().(*Batch); batch.Reset(); batch.appendRec(kt, key, value)` and calls
`writeLocked(batch, batch, merge, sync)`; `Write` calls `writeLocked(batch, nil, merge, sync)`. -/
def Thread.asLeader (w : Thread) : Thread :=
  { w with pc := .lead .flush 0 false, gsync := w.sync, bsize := w.size, our := w.put,
           pb := if w.put then w.recs else [] }

def Thread.setPc (w : Thread) (p : Pc) : Thread := { w with pc := p }

/-- `unlockWrite(o, m, r)` is entered -/
def Thread.unlock (l : Thread) (m : Nat) (o : Bool) (r : Res) : Thread :=
  { l with pc := .lead (.acking m r) m o, gres := some r }

/-- contents of the pooled batch after the Put branch (`ourBatch` taken from the pool and reset if there was
none, then `appendRec`) -/
def Thread.acceptPb (c : Cfg) (l w : Thread) (stale : List Rec) : List Rec :=
  if w.put then
    let pb0 := if l.our then l.pb else if c.poolReset then [] else stale
    if c.appendOur || l.put then pb0 ++ w.recs else pb0
  else l.pb

/-- contents of the caller's batch of the leader: touched only if the record of a merged Put is appended to
`batch` (not `ourBatch`) and `batch` is the caller's -/
def Thread.acceptCb (c : Cfg) (l w : Thread) : List Rec :=
  if w.put && !(c.appendOur || l.put) then l.cb ++ w.recs else l.cb

/-- `batch.internalLen` grows when the record goes to `batch` (a `Put` leader has `batch == ourBatch`) -/
def Thread.acceptBsize (c : Cfg) (l w : Thread) : Nat :=
  if w.put && (l.put || !c.appendOur) then l.bsize + w.size else l.bsize

def Thread.acceptBatches (l : Thread) (i : Nat) (w : Thread) : List Obj :=
  if w.put then (if l.our then l.batches else l.batches ++ [.our]) else l.batches ++ [.other i w.cb]

/-- the body of `case incoming := <-db.writeMergeC` when `incoming` (from writer `i`, thread record `w`)
fits; `stale` is what the batch handed out by `db.batchPool.Get()` contains.
```
if incoming.batch != nil { batches = append(batches, incoming.batch); mergeLimit -= incoming.batch.internalLen }
else { if ourBatch == nil { ourBatch = db.batchPool.Get().(*Batch); ourBatch.Reset(); batches = append(batches, ourBatch) }
       ourBatch.appendRec(incoming.keyType, incoming.key, incoming.value); mergeLimit -= internalLen }
sync = sync || incoming.sync
```
A `Put` leader has `ourBatch == batch`.  The contents of `incoming.batch` are read here (`w.cb`) although
the code reads them in `writeJournal`/`putMem`: in between `w` is blocked, and only `w` itself could touch
its batch. -/
def Thread.accept (c : Cfg) (l : Thread) (i : Nat) (w : Thread) (stale : List Rec) : Thread :=
  { l with our := l.our || w.put,
           pb := l.acceptPb c w stale, cb := l.acceptCb c w, bsize := l.acceptBsize c w,
           batches := l.acceptBatches i w,
           glimit := l.glimit - w.size,
           gsync := if c.syncAll || !w.put then l.gsync || w.sync else l.gsync,
           members := l.members ++ [{ idx := i, sync := w.sync, put := w.put, recs := w.recs, size := w.size }] }

/-- the merge loop is left: `seq := db.seq + 1`, and `batchesLen(batches)` is what every later use computes -/
def Thread.grouped (l : Thread) (seq : Nat) (m : Nat) (o : Bool) : Thread :=
  { l with pc := .lead .journal m o, gseq := seq + 1, gn := l.flat.length }

/-- `db.writeJournal(batches, seq, sync)` has run -/
def Thread.journalled (l : Thread) (ok : Bool) : Thread :=
  { l with jout := some ok, jsync := some l.gsync, jrecs := l.flat }

/-- the pool after `db.batchPool.Get()` by a thread that needs a pooled batch (`need`) -/
def poolAfterGet (pool : List (List Rec)) (need : Bool) (g : Option Nat) : List (List Rec) :=
  if need then (poolGet pool g).2 else pool

/-- `defer db.batchPool.Put(ourBatch)` (registered after the merge loop, so not after a failed `flush`) -/
def poolAfterPut (pool : List (List Rec)) (l : Thread) : List (List Rec) :=
  if l.our && !l.batches.isEmpty then pool ++ [l.pb] else pool

def set2 (ws : List Thread) (j : Nat) (l : Thread) (i : Nat) (w : Thread) : List Thread :=
  (ws.set j l).set i w

/-! ## the step relation

`i` is always the index of a non-leader thread, `j` the index of the leader. -/

inductive Step : St → St → Prop
  /-- the call starts; `Close` sets `closed`/closes `closeC`, the error handler enters `hasperr` -/
  | call (s : St) (i : Nat) (w : Thread) (hi : s.ws[i]? = some w) (hp : w.pc = .idle) :
      Step s { s with ws := s.ws.set i (w.setPc .selecting),
                      closed := s.closed || (w.kind == .closer),
                      perErr := s.perErr || (w.kind == .perErrH) }
  /-- `case <-db.closeC: return ErrClosed` -/
  | retClosed (s : St) (i : Nat) (w : Thread) (hi : s.ws[i]? = some w) (hp : w.pc = .selecting)
      (hk : w.kind ≠ .closer) (hc : s.closed = true) :
      Step s { s with ws := s.ws.set i (w.setPc (.returned .closed)) }
  /-- `case err := <-db.compPerErrC: return err` -/
  | retPerErr (s : St) (i : Nat) (w : Thread) (hi : s.ws[i]? = some w) (hp : w.pc = .selecting)
      (hk : w.kind = .writer ∨ w.kind = .transient) (hc : s.perErr = true) :
      Step s { s with ws := s.ws.set i (w.setPc (.returned .perErr)) }
  /-- `case db.writeLockC <- struct{}{}` in `Write`/`putRec` -/
  | lock (s : St) (i : Nat) (w : Thread) (g : Option Nat) (hi : s.ws[i]? = some w) (hp : w.pc = .selecting)
      (hk : w.kind = .writer) (ht : s.token = false) :
      Step s { s with ws := s.ws.set i w.asLeader, token := true, cur := some i,
                      pool := poolAfterGet s.pool w.put g }
  /-- a competitor takes the token -/
  | hAcquire (s : St) (i : Nat) (w : Thread) (hi : s.ws[i]? = some w) (hp : w.pc = .selecting)
      (hk : w.kind ≠ .writer) (ht : s.token = false) :
      Step s { s with ws := s.ws.set i (w.setPc .hold), token := true, cur := some i }
  /-- `<-db.writeLockC` by a competitor; the error handler does it only on `closeC`, `Close` never -/
  | hRelease (s : St) (i : Nat) (w : Thread) (hi : s.ws[i]? = some w) (hp : w.pc = .hold)
      (hk : w.kind = .transient ∨ (w.kind = .perErrH ∧ s.closed = true)) :
      Step s { s with ws := s.ws.set i (w.setPc (.returned .ok)), token := false, cur := none }
  /-- `db.flush` succeeded with `mdbFree = free`; `batches = []*Batch{batch}`, the merge limit is computed -/
  | flushOk (s : St) (j : Nat) (l : Thread) (m : Nat) (o : Bool) (free : Nat) (hj : s.ws[j]? = some l)
      (hp : l.pc = .lead .flush m o) :
      Step s { s with ws := s.ws.set j { l with pc := .lead .merging 0 false, gfree := free,
                                                glimit := mergeLimitOf l.bsize free, batches := [.own] } }
  /-- `db.flush` failed: `db.unlockWrite(false, 0, err)` -/
  | flushFail (s : St) (j : Nat) (l : Thread) (m : Nat) (o : Bool) (hj : s.ws[j]? = some l)
      (hp : l.pc = .lead .flush m o) :
      Step s { s with ws := s.ws.set j (l.unlock 0 false .err) }
  /-- `incoming := <-db.writeMergeC`, it fits: `merged++` -/
  | recvAccept (s : St) (i j : Nat) (w l : Thread) (m : Nat) (g : Option Nat) (hj : s.ws[j]? = some l)
      (hi : s.ws[i]? = some w)
      (hp : l.pc = .lead .merging m false) (hm : l.merge = true) (hl : 0 < l.glimit)
      (hq : w.pc = .selecting) (hk : w.kind = .writer) (hwm : w.merge = true) (hsz : w.size ≤ l.glimit) :
      Step s { s with ws := set2 s.ws j ((l.accept s.cfg i w (poolGet s.pool g).1).setPc (.lead .replying m false))
                                     i (w.setPc .waitMerged),
                      pool := poolAfterGet s.pool (w.put && !l.our) g }
  /-- `db.writeMergedC <- true` -/
  | reply (s : St) (i j : Nat) (w l : Thread) (m : Nat) (o : Bool) (hj : s.ws[j]? = some l) (hi : s.ws[i]? = some w)
      (hp : l.pc = .lead .replying m o) (hq : w.pc = .waitMerged) :
      Step s { s with ws := set2 s.ws j (l.setPc (.lead .merging (m + 1) false))
                                     i { w with pc := .waitAck, acc := some j } }
  /-- `incoming := <-db.writeMergeC`, too large: `overflow = true; break merge` -/
  | recvOverflow (s : St) (i j : Nat) (w l : Thread) (m : Nat) (hj : s.ws[j]? = some l) (hi : s.ws[i]? = some w)
      (hp : l.pc = .lead .merging m false) (hm : l.merge = true) (hl : 0 < l.glimit)
      (hq : w.pc = .selecting) (hk : w.kind = .writer) (hwm : w.merge = true) (hsz : l.glimit < w.size) :
      Step s { s with ws := set2 s.ws j (l.grouped s.seq m true) i (w.setPc .waitMerged) }
  /-- `default: break merge`, the limit is used up, or `merge = false` -/
  | mergeDone (s : St) (j : Nat) (l : Thread) (m : Nat) (o : Bool) (hj : s.ws[j]? = some l)
      (hp : l.pc = .lead .merging m o) :
      Step s { s with ws := s.ws.set j (l.grouped s.seq m o) }
  /-- `db.writeJournal` succeeded -/
  | journalOk (s : St) (j : Nat) (l : Thread) (m : Nat) (o : Bool) (hj : s.ws[j]? = some l)
      (hp : l.pc = .lead .journal m o) :
      Step s { s with ws := s.ws.set j ((l.journalled true).setPc (.lead .apply m o)) }
  /-- `db.writeJournal` failed: `db.addSeq(batchesLen(batches))` (the record may have reached the file),
  `db.unlockWrite(overflow, merged, err)` -/
  | journalFail (s : St) (j : Nat) (l : Thread) (m : Nat) (o : Bool) (hj : s.ws[j]? = some l)
      (hp : l.pc = .lead .journal m o) :
      Step s { s with seq := s.seq + l.gn, ws := s.ws.set j ((l.journalled false).unlock m o .err) }
  /-- `batch.putMem` for all batches of the group -/
  | apply (s : St) (j : Nat) (l : Thread) (m : Nat) (o : Bool) (hj : s.ws[j]? = some l)
      (hp : l.pc = .lead .apply m o) :
      Step s { s with ws := s.ws.set j { l with pc := .lead .publish m o, arecs := l.flat } }
  /-- `db.addSeq(n)`; `rot` = `batch.internalLen >= mdbFree` -/
  | publish (s : St) (j : Nat) (l : Thread) (m : Nat) (o : Bool) (rot : Bool) (hj : s.ws[j]? = some l)
      (hp : l.pc = .lead .publish m o) (hrot : rot = decide (l.gfree ≤ l.bsize)) :
      Step s { s with seq := s.seq + l.gn,
                      ws := s.ws.set j (if rot then { l with pc := .lead .rotate m o, pub := some (s.seq + l.gn) }
                                        else { l.unlock m o .ok with pub := some (s.seq + l.gn) }) }
  | rotateOk (s : St) (j : Nat) (l : Thread) (m : Nat) (o : Bool) (hj : s.ws[j]? = some l)
      (hp : l.pc = .lead .rotate m o) :
      Step s { s with ws := s.ws.set j (l.unlock m o .ok) }
  | rotateFail (s : St) (j : Nat) (l : Thread) (m : Nat) (o : Bool) (hj : s.ws[j]? = some l)
      (hp : l.pc = .lead .rotate m o) :
      Step s { s with ws := s.ws.set j (l.unlock m o .err) }
  /-- `db.writeAckC <- err` meets `return <-db.writeAckC` -/
  | ack (s : St) (i j : Nat) (w l : Thread) (k m : Nat) (o : Bool) (r : Res) (hj : s.ws[j]? = some l)
      (hi : s.ws[i]? = some w) (hp : l.pc = .lead (.acking (k + 1) r) m o) (hq : w.pc = .waitAck) :
      Step s { s with ws := set2 s.ws j (l.setPc (.lead (.acking k r) m o)) i (w.setPc (.returned r)) }
  /-- `if overflow { db.writeMergedC <- false }`: the lock goes to the writer that did not fit (then the
  leader returns: the deferred `batchPool.Put`; the new leader, if a `Put`, takes its batch from the pool) -/
  | handoff (s : St) (i j : Nat) (w l : Thread) (m : Nat) (r : Res) (g : Option Nat) (hj : s.ws[j]? = some l)
      (hi : s.ws[i]? = some w) (hp : l.pc = .lead (.acking 0 r) m true) (hq : w.pc = .waitMerged)
      (hc : s.cfg.handoffOnErr = true ∨ r = .ok) :
      Step s { s with ws := set2 s.ws j (l.setPc (.returned r)) i w.asLeader, cur := some i,
                      pool := poolAfterGet (poolAfterPut s.pool l) w.put g }
  /-- `<-db.writeLockC` -/
  | release (s : St) (j : Nat) (l : Thread) (m : Nat) (r : Res) (hj : s.ws[j]? = some l)
      (hp : l.pc = .lead (.acking 0 r) m false) :
      Step s { s with ws := s.ws.set j (l.setPc (.returned r)), token := false, cur := none,
                      pool := poolAfterPut s.pool l }
  /-- only with `handoffOnErr = false` (`if overflow && err == nil { … } else { <-db.writeLockC }`): the
  lock is released although a writer waits on `writeMergedC` -/
  | releaseLost (s : St) (j : Nat) (l : Thread) (m : Nat) (r : Res) (hj : s.ws[j]? = some l)
      (hp : l.pc = .lead (.acking 0 r) m true) (hc : s.cfg.handoffOnErr = false) (hr : r ≠ .ok) :
      Step s { s with ws := s.ws.set j (l.setPc (.returned r)), token := false, cur := none,
                      pool := poolAfterPut s.pool l }

inductive Steps : St → St → Prop
  | refl (s : St) : Steps s s
  | tail {s t u : St} : Steps s t → Step t u → Steps s u

theorem Steps.trans {s t u : St} (h1 : Steps s t) (h2 : Steps t u) : Steps s u := by
  induction h2 with
  | refl => exact h1
  | tail _ h ih => exact .tail ih h

theorem Steps.single {s t : St} (h : Step s t) : Steps s t := .tail (.refl s) h

/-- fresh thread record: nothing has happened yet -/
def Thread.fresh (w : Thread) : Prop :=
  w.pc = .idle ∧ w.acc = none ∧ w.jout = none ∧ w.pub = none ∧ w.gres = none ∧
  w.cb = w.recs ∧ w.batches = [] ∧ w.members = [] ∧ w.jsync = none

/-- initial states whatever the configuration: every thread idle, the lock free;
`closed`/`perErr`/`seq`/`pool` arbitrary -/
def InitAny (s : St) : Prop :=
  s.token = false ∧ s.cur = none ∧ ∀ w ∈ s.ws, w.fresh

/-- initial states: as `InitAny`, and `unlockWrite` answers the overflowed writer whatever the leader's
result (the one configuration flag that changes the channel protocol; `C10.code_cfg`) -/
def Init (s : St) : Prop :=
  s.cfg.handoffOnErr = true ∧ s.token = false ∧ s.cur = none ∧ ∀ w ∈ s.ws, w.fresh

def Reachable (s : St) : Prop := ∃ s0, Init s0 ∧ Steps s0 s

/-! ## executable form -/

inductive Label
  | call (i : Nat) | retClosed (i : Nat) | retPerErr (i : Nat) | lock (i : Nat) (g : Option Nat := none)
  | hAcquire (i : Nat)
  | hRelease (i : Nat)
  | flushOk (j free : Nat) | flushFail (j : Nat)
  | recvAccept (i j : Nat) (g : Option Nat := none) | reply (i j : Nat) | recvOverflow (i j : Nat)
  | mergeDone (j : Nat)
  | journalOk (j : Nat) | journalFail (j : Nat) | apply (j : Nat) | publish (j : Nat) (rot : Bool)
  | rotateOk (j : Nat) | rotateFail (j : Nat)
  | ack (i j : Nat) | handoff (i j : Nat) (g : Option Nat := none) | release (j : Nat) | releaseLost (j : Nat)
deriving DecidableEq, Repr

/-- one step, executable; `step?_sound` (in `Proofs/WriteProtoExec`) shows `step? s a = some t → Step s t` -/
def step? (s : St) : Label → Option St
  | .call i =>
    match s.ws[i]? with
    | some w =>
      if w.pc = .idle then
        some { s with ws := s.ws.set i (w.setPc .selecting),
                      closed := s.closed || (w.kind == .closer),
                      perErr := s.perErr || (w.kind == .perErrH) }
      else none
    | none => none
  | .retClosed i =>
    match s.ws[i]? with
    | some w =>
      if w.pc = .selecting ∧ w.kind ≠ .closer ∧ s.closed = true then
        some { s with ws := s.ws.set i (w.setPc (.returned .closed)) }
      else none
    | none => none
  | .retPerErr i =>
    match s.ws[i]? with
    | some w =>
      if w.pc = .selecting ∧ (w.kind = .writer ∨ w.kind = .transient) ∧ s.perErr = true then
        some { s with ws := s.ws.set i (w.setPc (.returned .perErr)) }
      else none
    | none => none
  | .lock i g =>
    match s.ws[i]? with
    | some w =>
      if w.pc = .selecting ∧ w.kind = .writer ∧ s.token = false then
        some { s with ws := s.ws.set i w.asLeader, token := true, cur := some i,
                      pool := poolAfterGet s.pool w.put g }
      else none
    | none => none
  | .hAcquire i =>
    match s.ws[i]? with
    | some w =>
      if w.pc = .selecting ∧ w.kind ≠ .writer ∧ s.token = false then
        some { s with ws := s.ws.set i (w.setPc .hold), token := true, cur := some i }
      else none
    | none => none
  | .hRelease i =>
    match s.ws[i]? with
    | some w =>
      if w.pc = .hold ∧ (w.kind = .transient ∨ (w.kind = .perErrH ∧ s.closed = true)) then
        some { s with ws := s.ws.set i (w.setPc (.returned .ok)), token := false, cur := none }
      else none
    | none => none
  | .flushOk j free =>
    match s.ws[j]? with
    | some l =>
      match l.pc with
      | .lead .flush _ _ =>
        some { s with ws := s.ws.set j { l with pc := .lead .merging 0 false, gfree := free,
                                                glimit := mergeLimitOf l.bsize free, batches := [.own] } }
      | _ => none
    | none => none
  | .flushFail j =>
    match s.ws[j]? with
    | some l =>
      match l.pc with
      | .lead .flush _ _ => some { s with ws := s.ws.set j (l.unlock 0 false .err) }
      | _ => none
    | none => none
  | .recvAccept i j g =>
    match s.ws[j]?, s.ws[i]? with
    | some l, some w =>
      match l.pc with
      | .lead .merging m false =>
        if l.merge = true ∧ 0 < l.glimit ∧ w.pc = .selecting ∧ w.kind = .writer ∧ w.merge = true
            ∧ w.size ≤ l.glimit then
          some { s with ws := set2 s.ws j ((l.accept s.cfg i w (poolGet s.pool g).1).setPc (.lead .replying m false))
                                     i (w.setPc .waitMerged),
                        pool := poolAfterGet s.pool (w.put && !l.our) g }
        else none
      | _ => none
    | _, _ => none
  | .reply i j =>
    match s.ws[j]?, s.ws[i]? with
    | some l, some w =>
      match l.pc with
      | .lead .replying m _ =>
        if w.pc = .waitMerged then
          some { s with ws := set2 s.ws j (l.setPc (.lead .merging (m + 1) false))
                                     i { w with pc := .waitAck, acc := some j } }
        else none
      | _ => none
    | _, _ => none
  | .recvOverflow i j =>
    match s.ws[j]?, s.ws[i]? with
    | some l, some w =>
      match l.pc with
      | .lead .merging m false =>
        if l.merge = true ∧ 0 < l.glimit ∧ w.pc = .selecting ∧ w.kind = .writer ∧ w.merge = true
            ∧ l.glimit < w.size then
          some { s with ws := set2 s.ws j (l.grouped s.seq m true) i (w.setPc .waitMerged) }
        else none
      | _ => none
    | _, _ => none
  | .mergeDone j =>
    match s.ws[j]? with
    | some l =>
      match l.pc with
      | .lead .merging m o => some { s with ws := s.ws.set j (l.grouped s.seq m o) }
      | _ => none
    | none => none
  | .journalOk j =>
    match s.ws[j]? with
    | some l =>
      match l.pc with
      | .lead .journal m o => some { s with ws := s.ws.set j ((l.journalled true).setPc (.lead .apply m o)) }
      | _ => none
    | none => none
  | .journalFail j =>
    match s.ws[j]? with
    | some l =>
      match l.pc with
      | .lead .journal m o =>
        some { s with seq := s.seq + l.gn, ws := s.ws.set j ((l.journalled false).unlock m o .err) }
      | _ => none
    | none => none
  | .apply j =>
    match s.ws[j]? with
    | some l =>
      match l.pc with
      | .lead .apply m o => some { s with ws := s.ws.set j { l with pc := .lead .publish m o, arecs := l.flat } }
      | _ => none
    | none => none
  | .publish j rot =>
    match s.ws[j]? with
    | some l =>
      match l.pc with
      | .lead .publish m o =>
        if rot = decide (l.gfree ≤ l.bsize) then
          some { s with seq := s.seq + l.gn,
                        ws := s.ws.set j (if rot then { l with pc := .lead .rotate m o, pub := some (s.seq + l.gn) }
                                          else { l.unlock m o .ok with pub := some (s.seq + l.gn) }) }
        else none
      | _ => none
    | none => none
  | .rotateOk j =>
    match s.ws[j]? with
    | some l =>
      match l.pc with
      | .lead .rotate m o => some { s with ws := s.ws.set j (l.unlock m o .ok) }
      | _ => none
    | none => none
  | .rotateFail j =>
    match s.ws[j]? with
    | some l =>
      match l.pc with
      | .lead .rotate m o => some { s with ws := s.ws.set j (l.unlock m o .err) }
      | _ => none
    | none => none
  | .ack i j =>
    match s.ws[j]?, s.ws[i]? with
    | some l, some w =>
      match l.pc with
      | .lead (.acking (k + 1) r) m o =>
        if w.pc = .waitAck then
          some { s with ws := set2 s.ws j (l.setPc (.lead (.acking k r) m o)) i (w.setPc (.returned r)) }
        else none
      | _ => none
    | _, _ => none
  | .handoff i j g =>
    match s.ws[j]?, s.ws[i]? with
    | some l, some w =>
      match l.pc with
      | .lead (.acking 0 r) _ true =>
        if w.pc = .waitMerged ∧ (s.cfg.handoffOnErr = true ∨ r = .ok) then
          some { s with ws := set2 s.ws j (l.setPc (.returned r)) i w.asLeader, cur := some i,
                        pool := poolAfterGet (poolAfterPut s.pool l) w.put g }
        else none
      | _ => none
    | _, _ => none
  | .release j =>
    match s.ws[j]? with
    | some l =>
      match l.pc with
      | .lead (.acking 0 r) _ false =>
        some { s with ws := s.ws.set j (l.setPc (.returned r)), token := false, cur := none,
                      pool := poolAfterPut s.pool l }
      | _ => none
    | none => none
  | .releaseLost j =>
    match s.ws[j]? with
    | some l =>
      match l.pc with
      | .lead (.acking 0 r) _ true =>
        if s.cfg.handoffOnErr = false ∧ r ≠ .ok then
          some { s with ws := s.ws.set j (l.setPc (.returned r)), token := false, cur := none,
                        pool := poolAfterPut s.pool l }
        else none
      | _ => none
    | none => none

/-- run a list of labels -/
def run (s : St) : List Label → Option St
  | [] => some s
  | a :: as => match step? s a with
    | some t => run t as
    | none => none

end GoLevel.WP
