import GoLevel.Model.Conc
import GoLevel.Model.Snaps
/-!
# What the steps of the interleaving model do to the real snapshot list

`Conc.State.snaps` is a list of *registrations* (one per client snapshot, one per running reader); the Go code
keeps `db.snapsList` (`Model/Snaps.lean`: equal sequence numbers share one element with a reference count).
A `DB.Get`/`DB.Has`/`DB.NewIterator` (`rSeq`) and a `DB.GetSnapshot` (`snapAcquire`) call `acquireSnapshot`
with the current `db.seq`; their `rRelease` / `snapRelease` call `releaseSnapshot` on that element.  A
`Snapshot.Get` (`rSeqSnap`) does not touch the list: it holds `snap.mu.RLock`, which keeps `Snapshot.Release`
— hence the release of the client snapshot's element — waiting (`Reader.live = false`: its registration in
the model stands for that lock).
-/
namespace GoLevel.Conc
open GoLevel.Snaps

/-- the effect of step `a`, taken in state `σ`, on `db.snapsList` (`none` = the Go code panics) -/
def snapsStep (σ : State) (l : SList) : Action → Option SList
  | .snapAcquire => acquire l σ.pub
  | .rSeq _ => acquire l σ.pub
  | .snapRelease id =>
    match σ.snaps.lookup (.user id) with
    | some s => release l s
    | none => some l
  | .rRelease i =>
    match σ.readers[i]? with
    | some r =>
      if r.live = true then
        match r.seq? with
        | some s => release l s
        | none => some l
      else some l
    | none => some l
  | _ => some l

/-- run a list of actions on the state and on the snapshot list (decidable guards only, as `Conc.run`) -/
def runJ (cfg : Cfg) (c : UCmp) : State → SList → List Action → Option (State × SList)
  | σ, l, [] => some (σ, l)
  | σ, l, a :: as =>
    match step cfg c σ a, snapsStep σ l a with
    | some σ', some l' => runJ cfg c σ' l' as
    | _, _ => none

/-- `snap.mu`: while a `Snapshot.Get` is running (a registered reader whose sequence number came from a client
snapshot), a client snapshot with that sequence number is still registered (`Snapshot.Release` takes
`snap.mu.Lock` and so waits for the `RLock` of the running `Get`). -/
def SnapHeld (σ : State) : Prop :=
  ∀ i s, (Owner.reader i, s) ∈ σ.snaps → (∀ r, σ.readers[i]? = some r → r.live = false) →
    ∃ id, (Owner.user id, s) ∈ σ.snaps

end GoLevel.Conc
