/-!
# Bytes: fixed-width little-endian integers, uvarints, hex

Layer A of the model (DESIGN.md §2.1).  Everything is a total function over `List UInt8` and `Nat`.
Mirrors `encoding/binary` as used by goleveldb (`LittleEndian.PutUint16/32/64`, `PutUvarint`, `Uvarint`).
-/
namespace GoLevel

abbrev Bytes := List UInt8

/-- `n` little-endian bytes of `x` (low byte first) -/
def leN : Nat → Nat → Bytes
  | 0, _ => []
  | n+1, x => (x % 256).toUInt8 :: leN n (x / 256)

def le16 (x : Nat) : Bytes := leN 2 x
def le32 (x : Nat) : Bytes := leN 4 x
def le64 (x : Nat) : Bytes := leN 8 x

/-- little-endian value of a byte string -/
def rdLE : Bytes → Nat
  | [] => 0
  | b :: bs => b.toNat + 256 * rdLE bs

def rd16 (bs : Bytes) : Nat := rdLE (bs.take 2)
def rd32 (bs : Bytes) : Nat := rdLE (bs.take 4)
def rd64 (bs : Bytes) : Nat := rdLE (bs.take 8)

/-- `binary.PutUvarint`; fuel-free: structural on the value by `x / 128 < x` -/
def uvarint (x : Nat) : Bytes :=
  if h : x < 128 then [x.toUInt8] else ((x % 128) + 128).toUInt8 :: uvarint (x / 128)
termination_by x
decreasing_by omega

/-- `binary.Uvarint`: value and number of bytes read; `none` on a short buffer or on overflow
    (more than 10 bytes, or a 10th byte > 1) — the two cases Go reports as `n ≤ 0`. -/
def readUvarintAux : (i : Nat) → (shift : Nat) → (acc : Nat) → Bytes → Option (Nat × Nat)
  | _, _, _, [] => none
  | i, shift, acc, b :: bs =>
    if i = 10 then none
    else if b.toNat < 128 then
      if i = 9 ∧ b.toNat > 1 then none
      else some (acc + b.toNat * 2 ^ shift, i + 1)
    else readUvarintAux (i + 1) (shift + 7) (acc + (b.toNat - 128) * 2 ^ shift) bs

def readUvarint (bs : Bytes) : Option (Nat × Nat) := readUvarintAux 0 0 0 bs

/-! ## hex (used by the line protocol of the driver) -/

def hexDigit (n : Nat) : Char :=
  if n < 10 then Char.ofNat (48 + n) else Char.ofNat (87 + n)

def toHex (bs : Bytes) : String :=
  String.ofList (bs.flatMap fun b => [hexDigit (b.toNat / 16), hexDigit (b.toNat % 16)])

def hexVal (c : Char) : Option Nat :=
  if '0' ≤ c ∧ c ≤ '9' then some (c.toNat - 48)
  else if 'a' ≤ c ∧ c ≤ 'f' then some (c.toNat - 87)
  else if 'A' ≤ c ∧ c ≤ 'F' then some (c.toNat - 55)
  else none

def fromHexAux : List Char → Option Bytes
  | [] => some []
  | [_] => none
  | a :: b :: rest =>
    match hexVal a, hexVal b, fromHexAux rest with
    | some x, some y, some r => some ((x * 16 + y).toUInt8 :: r)
    | _, _, _ => none

/-- `-` stands for the empty string so that every field of a line is non-empty -/
def fromHex (s : String) : Option Bytes :=
  if s = "-" then some [] else fromHexAux s.toList

def toHexField (bs : Bytes) : String := if bs.isEmpty then "-" else toHex bs

end GoLevel
