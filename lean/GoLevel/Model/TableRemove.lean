import GoLevel.Gen.Consts
/-! The last step of a table's removal (C07): `tOps.remove` → `fileCache.Delete(0, num, delFunc)`
(`leveldb/table.go`, `leveldb/cache/cache.go`) defers `delFunc` until the last cache handle of the table is
released; `delFunc` = `stor.Remove(fd)` then `s.reuseFileNum(fd.Num)` (`session_util.go`: the number is handed
out again when it was the newest one).  After `tOps.close()` (`fileCache.Close(true)`) a `Delete` does nothing.

Ghost: every created file carries a stamp, a removal request remembers the stamp of the file it was made for,
and `log` records for every physical `stor.Remove` the stamp requested and the stamp of the file removed.

`inCallback` = where `reuseFileNum` is called: inside the delete callback (the code: `Gen.removeReusesInsideDelete`)
or right in `tOps.remove` (the seeded change `C07-early-filenum-reuse`). -/
namespace GoLevel.TableRemove

structure St where
  /-- `s.stNextFileNum` -/
  next : Nat
  /-- table files on storage: (number, stamp) -/
  files : List (Nat × Nat)
  stamp : Nat
  /-- open cache handles (iterators, in-flight reads), one entry per handle -/
  handles : List Nat
  /-- banned cache nodes with a pending `delFunc`: (number, stamp of the file to remove) -/
  pending : List (Nat × Nat)
  /-- `fileCache` closed (`tOps.close`) -/
  closed : Bool
  /-- physical removals: (number, stamp requested, stamp removed) -/
  log : List (Nat × Nat × Nat)
  deriving Repr, DecidableEq

def St.init (next : Nat) : St :=
  { next := next, files := [], stamp := 0, handles := [], pending := [], closed := false, log := [] }

inductive Op
  /-- `allocFileNum` + `stor.Create` of a table (a file system lets a name be created again) -/
  | create
  /-- a reader opens the table: `fileCache.Get` -/
  | acquire (n : Nat)
  /-- `Handle.Release` -/
  | release (n : Nat)
  /-- `tOps.remove(fd)`, requested by the reference loop -/
  | remove (n : Nat)
  /-- `tOps.close()` -/
  | close
  deriving Repr, DecidableEq

/-- `reuseFileNum(num)`: `if old == num+1 then num else old` -/
def reuse (next n : Nat) : Nat := if next = n + 1 then n else next

/-- the delete callback of `tOps.remove`: `stor.Remove(fd)` removes whatever file has that name now -/
def delFunc (inCallback : Bool) (s : St) (n want : Nat) : St :=
  let s1 : St := match s.files.lookup n with
    | some got => { s with files := s.files.filter (·.1 != n), log := s.log ++ [(n, want, got)] }
    | none => s
  if inCallback then { s1 with next := reuse s1.next n } else s1

def step (inCallback : Bool) (s : St) : Op → St
  | .create =>
    { s with next := s.next + 1, files := (s.next, s.stamp) :: s.files.filter (·.1 != s.next), stamp := s.stamp + 1 }
  | .acquire n =>
    if s.closed ∨ (s.files.lookup n).isNone then s else { s with handles := n :: s.handles }
  | .release n =>
    if n ∉ s.handles then s else
    let s1 : St := { s with handles := s.handles.erase n }
    if n ∈ s1.handles ∨ s.closed then s1 else
    -- the last handle: the node's delFuncs run
    match s1.pending.lookup n with
    | some want => delFunc inCallback { s1 with pending := s1.pending.filter (·.1 != n) } n want
    | none => s1
  | .remove n =>
    if s.closed then s else   -- `Cache.Delete`: `if r.closed { return false }`
    match s.files.lookup n with
    | none => s
    | some want =>
      let s1 : St := if inCallback then s else { s with next := reuse s.next n }
      if n ∈ s.handles then
        (if (s1.pending.lookup n).isSome then s1 else { s1 with pending := (n, want) :: s1.pending })
      else delFunc inCallback s1 n want
  | .close =>
    -- `Cache.Close(true)`: every node is finalised, pending delFuncs run
    let s1 := s.pending.foldl (fun a p => delFunc inCallback a p.1 p.2) { s with pending := [], handles := [] }
    { s1 with closed := true }

def run (inCallback : Bool) (s : St) (ops : List Op) : St := ops.foldl (step inCallback) s

/-- every physical removal removed the file it was requested for -/
def LogOK (s : St) : Prop := ∀ e ∈ s.log, e.2.1 = e.2.2

end GoLevel.TableRemove
