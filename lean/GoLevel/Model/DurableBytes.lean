import GoLevel.Model.Durable
/-!
# The durable state machine at BYTE granularity (C04, end to end)

`Model/Disk.lean` + `Model/Durable.lean` describe the storage at *record* granularity (`Dur.Disk`, `Dur.recoverR`).
This file is the byte level under it:

* `ByteDisk` — what `storage.Storage` really holds: `CURRENT`, journal and manifest files as **byte strings** with
  a synced prefix (`ByteFile`), table files kept abstract (`TableFile`: C13 ties a table file to its entry
  list; a table file that was not synced when the crash came is unreadable, exactly as in `Model/Disk.lean`);
* `encodeDisk` — the bytes the writers put there: a journal file is `Journal.encode` (`journal.Writer`) of the
  `Batch.encode`d write groups (`writeBatchesWithHeader`), a manifest file is `Journal.encode` of the
  `SessionRecord.encode`d session records (`session.flushManifest` / `newManifest`);
* `crashWithB` — byte-level crash images: per file the synced prefix is kept, the unsynced tail is lost, kept or
  cut at ANY byte offset, optionally followed by junk (zeros of a preallocated file, garbage);
* `decodeDisk` — every file decoded with the real readers in the modes `Open` uses: journals with
  `Journal.decode false true` (`journal.NewReader(…, strict = false, checksum = true)` read as
  `DB.recoverJournal` does: a torn or rejected tail is dropped) and `Batch.decode` (`decodeBatch`); manifests
  with `Manifest.readRecords false` (the reader as `session.recover` drives it) and `sessionRecord.decode`, a
  delivery that is incomplete or fails to decode leaving **no trace** (the repair of D22);
* `recoverBytes` — `leveldb.Open` on a byte disk: `decodeDisk`, the two error paths of `session.recover` the
  record abstraction cannot express (`manifestCheck`), then the record-level `Dur.recoverR`.

The theorems (`Props/C04.lean`): `recoverBytes (encodeDisk d) = recoverR d`, every byte-level crash image of
`encodeDisk d` decodes to a record-level crash image of `d`, and hence crash consistency for byte-level crash
images.  The driver's `dur recover` answers through `recoverBytes` (differential test against the real `Open`
on real crash images).
-/
namespace GoLevel.Dur
open GoLevel GoLevel.Manifest

/-! ## the byte-level storage -/

/-- a journal or manifest file: the bytes that a `Sync` has made durable, and the bytes written since -/
structure ByteFile where
  synced : Bytes := []
  unsynced : Bytes := []
deriving DecidableEq, Repr

/-- what a reader of the file sees -/
def ByteFile.all (f : ByteFile) : Bytes := f.synced ++ f.unsynced

structure ByteDisk where
  /-- `CURRENT` (`SetMeta`/`GetMeta`) -/
  current : Option Nat := none
  manifests : Files ByteFile := []
  journals : Files ByteFile := []
  tables : Files TableFile := []
deriving DecidableEq, Repr

/-! ## what is physically on the disk of a record-level `Disk` -/

/-- the `sync` flag of a write group is ghost state (it is a property of the `Write` call, not of the journal
    record) -/
def Grp.onDisk (g : Grp) : Grp := { g with sync := false }

/-- The part of a record-level disk that is physically there, as a reader finds it: the ghost `sync` flags are
    gone, a torn manifest record (`MRec.torn`: the leading chunks of a record whose tail was lost) is not a
    record, and there is no synced/unsynced distinction. -/
def Disk.onDisk (d : Disk) : Disk :=
  { current := d.current
    manifests := d.manifests.map fun p => (p.1, ⟨p.2.all.filter (fun r => !r.torn), []⟩)
    journals := d.journals.map fun p => (p.1, ⟨p.2.all.map Grp.onDisk, []⟩)
    tables := d.tables }

def RState.onDisk (r : RState) : RState := { r with journalGrps := r.journalGrps.map Grp.onDisk }

/-! ## the writers -/

/-- What the writers know beyond the record abstraction of `Model/Disk.lean`: the comparer's name (written
    into every snapshot record by `newManifest`) and, per table file number, the level / size / smallest and
    largest key that `addTable` records (only `level` matters to the replay, and only through
    `delTable(level, num)` naming the same table). -/
structure EncCtx where
  cmpName : Bytes
  tmeta : Nat → AddedTable

/-- the `sessionRecord` a record-level manifest record stands for (`session.fillRecord` sets `recNextFileNum` in
    every record; a snapshot record carries the comparer name) -/
def encMRec (x : EncCtx) (r : MRec) : SessionRecord :=
  { comparer := if r.snapshot then some x.cmpName else none
    journalNum := r.jn
    nextFileNum := some r.nf
    seqNum := r.sq
    deleted := r.deleted.map fun n => ((x.tmeta n).level, n)
    added := r.added.map fun n => { x.tmeta n with num := n } }

/-- the journal payload of a manifest record (`sessionRecord.encode`) -/
def encMRecBytes (x : EncCtx) (r : MRec) : Bytes := (encMRec x r).encode

/-- the journal payload of a write group (`writeBatchesWithHeader`) -/
def encGrpBytes (g : Grp) : Bytes := Batch.encode g.seq g.recs

/-- a log file written record by record through a `journal.Writer`, with a `Sync` after the `synced` records:
    the bytes of the whole file are `Journal.encode` of all payloads, the synced ones a prefix of them -/
def encLog (synced unsynced : List Bytes) : ByteFile :=
  ⟨Journal.encode synced, Journal.encodeFrom (Journal.endPos 0 synced) unsynced⟩

def encJournal (f : LogFile Grp) : ByteFile := encLog (f.synced.map encGrpBytes) (f.unsynced.map encGrpBytes)

/-- a torn record is a crash artefact, not something a writer wrote: it is represented by no bytes (with the
    repair of D22 the bytes of a torn tail are invisible to `session.recover`, see
    `C04.torn_manifest_record_no_trace` and `C04.crash_image_decodes`) -/
def encManifest (x : EncCtx) (f : LogFile MRec) : ByteFile :=
  encLog ((f.synced.filter fun r => !r.torn).map (encMRecBytes x))
    ((f.unsynced.filter fun r => !r.torn).map (encMRecBytes x))

/-- the bytes on the storage for a record-level disk -/
def encodeDisk (x : EncCtx) (d : Disk) : ByteDisk :=
  { current := d.current
    manifests := d.manifests.map fun p => (p.1, encManifest x p.2)
    journals := d.journals.map fun p => (p.1, encJournal p.2)
    tables := d.tables }

/-! ## byte-level crashes -/

/-- the adversary's choices at a crash, byte level -/
structure ByteCrashChoice where
  /-- how many unsynced BYTES of manifest `n` survive -/
  cutM : Nat → Nat := fun _ => 0
  /-- how many unsynced BYTES of journal `n` survive -/
  cutJ : Nat → Nat := fun _ => 0
  /-- what follows the surviving bytes of manifest `n` (zeros of a preallocated extent, garbage) -/
  junkM : Nat → Bytes := fun _ => []
  junkJ : Nat → Bytes := fun _ => []
  /-- the unsynced table `n` survives intact (otherwise it is unreadable) -/
  keepT : Nat → Bool := fun _ => false

/-- the surviving bytes of a file, before the junk -/
def ByteFile.kept (k : Nat) (f : ByteFile) : Bytes := f.synced ++ f.unsynced.take k

def crashFile (k : Nat) (junk : Bytes) (f : ByteFile) : ByteFile := ⟨f.kept k ++ junk, []⟩

/-- the storage after a crash: every surviving byte is now durable -/
def crashWithB (ch : ByteCrashChoice) (bd : ByteDisk) : ByteDisk :=
  { current := bd.current
    manifests := bd.manifests.map fun p => (p.1, crashFile (ch.cutM p.1) (ch.junkM p.1) p.2)
    journals := bd.journals.map fun p => (p.1, crashFile (ch.cutJ p.1) (ch.junkJ p.1) p.2)
    tables := bd.tables.map fun p => (p.1, crashTable (ch.keepT p.1) p.2) }

/-- **The side condition on junk.**  The junk that follows the surviving bytes `base` is *silent*: the tolerant
    reader with checksums on (`journal.NewReader(…, false, true)`, the one `Open` uses for journals and for the
    manifest) delivers the same complete records from `base ++ junk` as from `base`.  This holds unconditionally
    for `junk = []` (every cut, `C04.silent_nil`) and for zeros after a cut at a record boundary
    (`C04.silent_zeros`); for garbage it is the CRC hypothesis of `C12.decode_damage_partial` (the chunk found
    where the junk starts fails the reader's header/CRC test, `C04.silent_rejected`).  It is false only for an
    adversary who forges CRC32C — or when the junk *completes* the record that was cut (zeros behind a cut whose
    lost bytes were zeros): then the same bytes are the image of a later cut, and that decomposition
    (`IsByteCrashImage` quantifies over the choices) is covered.  `harness/cmd/silentprobe` tries this on the real
    `journal.Reader`: over 24000 cut+zeros / cut+garbage streams the only violations are of that kind. -/
def Silent (base junk : Bytes) : Prop :=
  (Journal.decode false true (base ++ junk)).records = (Journal.decode false true base).records

instance (base junk : Bytes) : Decidable (Silent base junk) := by unfold Silent; infer_instance

/-- all junk of a crash choice is silent -/
def ByteCrashChoice.Admissible (ch : ByteCrashChoice) (bd : ByteDisk) : Prop :=
  (∀ p ∈ bd.manifests, Silent (p.2.kept (ch.cutM p.1)) (ch.junkM p.1)) ∧
  (∀ p ∈ bd.journals, Silent (p.2.kept (ch.cutJ p.1)) (ch.junkJ p.1))

/-- `bd'` is a possible content of the byte-level storage after a crash in state `bd` -/
def IsByteCrashImage (bd bd' : ByteDisk) : Prop := ∃ ch, ch.Admissible bd ∧ bd' = crashWithB ch bd

/-! ## the readers -/

/-- the record-level view of a decoded `sessionRecord`: table numbers only (`Model/Disk.lean`).  Compaction
    pointers and the levels are not needed to find the live tables: a table number names one file. -/
def toMRec (r : SessionRecord) : MRec :=
  { snapshot := r.comparer.isSome
    jn := r.journalNum
    sq := r.seqNum
    nf := r.nextFileNum.getD 0
    added := r.added.map (·.num)
    deleted := r.deleted.map (·.2) }

/-- one delivery of the manifest reader: a complete record that `sessionRecord.decode` accepts is a record;
    an incomplete delivery (torn record) or one that fails to decode leaves no trace (D22 as repaired) -/
def decMRec (payload : Bytes) : Option MRec := (SessionRecord.decode payload).map toMRec

/-- a manifest file as `session.recover` reads it (tolerant, checksums on) -/
def decManifest (bytes : Bytes) : List MRec :=
  (readRecords false bytes).1.filterMap fun p => if p.2 then decMRec p.1 else none

/-- one journal record as `decodeBatch` reads it; a payload it rejects is skipped by the tolerant replay -/
def decGrp (payload : Bytes) : Option Grp := (Batch.decode payload).map fun p => ⟨p.1, p.2, false⟩

/-- a journal file as `DB.recoverJournal` reads it (tolerant, checksums on: a torn or rejected tail is dropped) -/
def decJournal (bytes : Bytes) : List Grp := (Journal.decode false true bytes).records.filterMap decGrp

/-- every file decoded; what was read is what is there (no unsynced part) -/
def decodeDisk (bd : ByteDisk) : Disk :=
  { current := bd.current
    manifests := bd.manifests.map fun p => (p.1, ⟨decManifest p.2.all, []⟩)
    journals := bd.journals.map fun p => (p.1, ⟨decJournal p.2.all, []⟩)
    tables := bd.tables }

/-- The two ways `session.recover` fails that table-number records cannot express: a complete record on which
    `sessionRecord.decode` returns the bare `io.EOF` (`DecErr.eof`: not `IsCorrupted`, so even the tolerant
    replay returns it), and a comparer name (the last one seen) that is not the DB's. -/
def manifestCheck (cmpName : Bytes) (bytes : Bytes) : Option ErrClass :=
  let ps := (readRecords false bytes).1.filterMap fun p => if p.2 then some p.1 else none
  if ps.any (fun p => (decodeInto {} p true).2 == some DecErr.eof) then some .other
  else
    match (ps.filterMap fun p => (SessionRecord.decode p).bind (·.comparer)).getLast? with
    | some name => if name = cmpName then none else some .corrupted
    | none => none

/-- **`leveldb.Open` on a byte-level disk** (default strictness): decode every file with the real readers, then
    the record-level recovery. -/
def recoverBytes (cfg : Cfg) (cmpName : Bytes) (bd : ByteDisk) : Except ErrClass RState :=
  match (bd.current.bind (lookup bd.manifests)).bind (fun f => manifestCheck cmpName f.all) with
  | some e => .error e
  | none => recoverR cfg (decodeDisk bd)

/-! ## from a storage image (`Dur.Image`, what the driver is handed) -/

/-- a table entry as a one-record group: a table file given by its entry list (C13) as a `TableFile` -/
def grpOfEntry (e : Entry) : Grp := ⟨e.seq, [⟨e.kind, e.ukey, e.val⟩], false⟩

/-- A storage image as a byte-level disk: everything that is there is durable; a table is its entry list, an
    unreadable one is `bad`. -/
def ByteDisk.ofImage (img : Image) : ByteDisk :=
  { current := img.current
    manifests := img.manifests.map fun p => (p.1, ⟨p.2, []⟩)
    journals := img.journals.map fun p => (p.1, ⟨p.2, []⟩)
    tables := img.tables.map fun p =>
      (p.1, match p.2 with
            | some es => ⟨es.map grpOfEntry, true, false⟩
            | none => ⟨[], true, true⟩) }

/-- `leveldb.Open` (default strictness) on a storage image, through `recoverBytes` -/
def recoverImage (cfg : Cfg) (cmpName : Bytes) (img : Image) : Except ErrClass RState :=
  recoverBytes cfg cmpName (ByteDisk.ofImage img)

/-! ## side conditions of the codecs -/

/-- a write group `writeBatchesWithHeader` can encode and `decodeBatch` reads back: 64-bit sequence number,
    32-bit record count, records as `Batch.appendRec` makes them (a deletion has no value) -/
def Grp.Encodable (g : Grp) : Prop := g.seq < 2 ^ 64 ∧ g.recs.length < 2 ^ 32 ∧ ∀ r ∈ g.recs, r.valid

/-- a manifest record `sessionRecord.encode` can write and `decode` reads back: file numbers are `int64`, the
    sequence number is `uint64` -/
def MRec.Encodable (r : MRec) : Prop :=
  (∀ j, r.jn = some j → j < 2 ^ 63) ∧ (∀ s, r.sq = some s → s < 2 ^ 64) ∧ r.nf < 2 ^ 63 ∧
  (∀ n ∈ r.added, n < 2 ^ 63) ∧ (∀ n ∈ r.deleted, n < 2 ^ 63)

def EncCtx.Valid (x : EncCtx) : Prop :=
  x.cmpName.length < 2 ^ 64 ∧
  ∀ n, (x.tmeta n).level < 2 ^ 64 ∧ (x.tmeta n).size < 2 ^ 63 ∧ (x.tmeta n).imin.length < 2 ^ 64 ∧
    (x.tmeta n).imax.length < 2 ^ 64

/-- every record on the disk is within the limits of the wire formats -/
def Disk.Encodable (d : Disk) : Prop :=
  (∀ p ∈ d.manifests, ∀ r ∈ p.2.all, r.torn = false → r.Encodable) ∧
  (∀ p ∈ d.journals, ∀ g ∈ p.2.all, g.Encodable)

end GoLevel.Dur
