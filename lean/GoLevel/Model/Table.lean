import GoLevel.Gen.Consts
import GoLevel.Model.Bytes
import GoLevel.Model.Filter
import GoLevel.Model.Block
import GoLevel.Model.Snappy
/-!
# Sorted tables (`table/table.go`, `table/writer.go`, `table/reader.go`), NoCompression

`Table.write` mirrors `NewWriter` + `Writer.Append`* + `Writer.Close` into a byte buffer; the reader side
mirrors `NewReader` (the `cache == nil` path, which reads index and filter block eagerly) and
`Reader.find / Find / FindKey / Get / OffsetOf`, plus the *content* of `NewIterator` (`entries`,
`entriesInRange`); the cursor arithmetic of `blockIter` / `indexedIterator` is modelled elsewhere.

The checksum is a parameter: `cksum bs` is `util.NewCRC(bs).Value()`, applied to payload ‖ type byte.
Preconditions of the writer that are not modelled as errors: keys strictly increasing (the code returns an
error otherwise), `restartInterval ≥ 1`, `filterBaseLg < 64`.  The writer is modelled for NoCompression only; the reader also decodes snappy blocks (`Model/Snappy.lean`).
-/
namespace GoLevel

structure TableCfg where
  blockSize : Nat
  restartInterval : Nat
  filter : Option FilterPolicy
  filterBaseLg : Nat
  cmp  : Bytes → Bytes → Ordering
  sep  : Bytes → Bytes → Option Bytes
  succ : Bytes → Option Bytes
  cksum : Bytes → Nat

/-- `blockHandle` -/
structure BH where
  offset : Nat
  length : Nat
deriving DecidableEq, Repr

/-- `encodeBlockHandle` -/
def BH.encode (h : BH) : Bytes := uvarint h.offset ++ uvarint h.length

/-- `decodeBlockHandle`: handle and bytes consumed (`none` = the `n == 0` result; a varint overflow is `none` too:
the code as repaired (wp64) treats it like a short buffer — `BH.decodeGo` below spells out what it did before) -/
def BH.decode (src : Bytes) : Option (BH × Nat) :=
  match readUvarint src with
  | none => none
  | some (off, n) =>
    match readUvarint (src.drop n) with
    | none => none
    | some (len, m) => some (⟨off, len⟩, n + m)

/-- compression-type byte of an uncompressed block -/
def blockTypeByte : UInt8 := Gen.blockTypeNoCompression.toUInt8

/-- compression-type byte of a snappy block -/
def snappyTypeByte : UInt8 := Gen.blockTypeSnappyCompression.toUInt8

/-- payload ‖ type ‖ LE32 checksum, as `Writer.writeBlock` emits it for `opt.NoCompression` -/
def withTrailer (cksum : Bytes → Nat) (payload : Bytes) : Bytes :=
  payload ++ [blockTypeByte] ++ le32 (cksum (payload ++ [blockTypeByte]))

/-! ## filter block writer -/

/-- `filterWriter` with a non-nil generator; `pending` are the keys the generator has buffered (`nKeys` is its length) -/
structure FilterWriter where
  pending : List Bytes := []
  buf     : Bytes := []
  offsets : List Nat := []

namespace FilterWriter

/-- `filterWriter.add` -/
def add (w : FilterWriter) (key : Bytes) : FilterWriter := { w with pending := w.pending ++ [key] }

/-- `filterWriter.generate` -/
def generate (pol : FilterPolicy) (w : FilterWriter) : FilterWriter :=
  { offsets := w.offsets ++ [w.buf.length]
    buf := if w.pending.isEmpty then w.buf else w.buf ++ pol.generate w.pending
    pending := [] }

def generateN (pol : FilterPolicy) : Nat → FilterWriter → FilterWriter
  | 0, w => w
  | n + 1, w => generateN pol n (generate pol w)

/-- `filterWriter.flush`: `for x := offset >> baseLg; x > len(offsets); { generate() }` — every `generate`
appends exactly one offset, so the loop runs `x - len(offsets)` times -/
def flush (pol : FilterPolicy) (baseLg : Nat) (w : FilterWriter) (offset : Nat) : FilterWriter :=
  generateN pol ((offset >>> baseLg) - w.offsets.length) w

/-- `filterWriter.finish`: the filter block contents -/
def finish (pol : FilterPolicy) (baseLg : Nat) (w : FilterWriter) : Bytes :=
  let w := if w.pending.isEmpty then w else generate pol w
  w.buf ++ (w.offsets ++ [w.buf.length]).flatMap le32 ++ [baseLg.toUInt8]

end FilterWriter

/-! ## table writer -/

/-- `Writer`; `offset` is `out.length` (everything goes to one in-memory file) -/
structure TableWriter where
  out      : Bytes := []
  data     : BlockWriter
  index    : BlockWriter := { restartInterval := 1 }
  filt     : FilterWriter := {}
  pending  : BH := ⟨0, 0⟩
  nEntries : Nat := 0

namespace TableWriter

/-- `NewWriter` (`filterBlock.flush(0)` generates nothing) -/
def new (cfg : TableCfg) : TableWriter := { data := { restartInterval := cfg.restartInterval } }

/-- `Writer.writeBlock` with `opt.NoCompression`: the writer afterwards … -/
def writeBlock (cfg : TableCfg) (w : TableWriter) (payload : Bytes) : TableWriter :=
  { w with out := w.out ++ withTrailer cfg.cksum payload }

/-- … and the handle it returns -/
def blockBH (w : TableWriter) (payload : Bytes) : BH := ⟨w.out.length, payload.length⟩

/-- `Writer.flushPendingBH(key)`; `key = []` covers both `nil` (from `Close`) and an empty key -/
def flushPendingBH (cfg : TableCfg) (w : TableWriter) (key : Bytes) : TableWriter :=
  if w.pending.length = 0 then w
  else
    let s := if key.isEmpty then cfg.succ w.data.prevKey else cfg.sep w.data.prevKey key
    let separator := s.getD w.data.prevKey
    { w with
      index := w.index.append separator w.pending.encode
      data := { w.data with prevKey := [] }
      pending := ⟨0, 0⟩ }

/-- `Writer.finishBlock` -/
def finishBlock (cfg : TableCfg) (w : TableWriter) : TableWriter :=
  let w1 := writeBlock cfg w w.data.finish
  { w1 with
    pending := blockBH w w.data.finish
    data := w1.data.reset
    filt := match cfg.filter with
      | none => w1.filt
      | some pol => w1.filt.flush pol cfg.filterBaseLg w1.out.length }

/-- `Writer.Append` (without the ordering check) -/
def append (cfg : TableCfg) (w : TableWriter) (key value : Bytes) : TableWriter :=
  let w1 := flushPendingBH cfg w key
  let w2 := { w1 with
    data := w1.data.append key value
    filt := match cfg.filter with
      | none => w1.filt
      | some _ => w1.filt.add key }
  let w3 := if w2.data.bytesLen ≥ cfg.blockSize then finishBlock cfg w2 else w2
  { w3 with nEntries := w3.nEntries + 1 }

/-- `"filter."` -/
def filterPrefix : Bytes := [102, 105, 108, 116, 101, 114, 46]

#guard filterPrefix = "filter.".toUTF8.toList

/-- the 48-byte footer -/
def footer (metaBH indexBH : BH) : Bytes :=
  let hs := metaBH.encode ++ indexBH.encode
  hs ++ List.replicate (Gen.footerLen - Gen.tableMagic.length - hs.length) 0 ++ Gen.tableMagic

/-- key of the metaindex entry: `"filter." + name` -/
def filterMetaKey (pol : FilterPolicy) : Bytes := filterPrefix ++ pol.name

/-- first part of `Writer.Close`: "Write the last data block. Or empty data block if there aren't any data
blocks at all", then `flushPendingBH(nil)` -/
def closeData (cfg : TableCfg) (w : TableWriter) : TableWriter :=
  flushPendingBH cfg (if w.data.nEntries > 0 ∨ w.nEntries = 0 then finishBlock cfg w else w) []

/-- `Writer.Close`: the finished file -/
def close (cfg : TableCfg) (w : TableWriter) : Bytes :=
  let w2 := closeData cfg w
  -- filter block
  let fb : Bytes := match cfg.filter with
    | none => []
    | some pol => w2.filt.finish pol cfg.filterBaseLg
  let w3 := if fb.length > 0 then writeBlock cfg w2 fb else w2
  let filterBH : BH := if fb.length > 0 then blockBH w2 fb else ⟨0, 0⟩
  -- metaindex block (built in the data block writer)
  let mblk : BlockWriter := match cfg.filter with
    | none => w3.data
    | some pol => if filterBH.length > 0 then w3.data.append (filterMetaKey pol) filterBH.encode else w3.data
  let w4 := writeBlock cfg w3 mblk.finish
  -- index block
  let w5 := writeBlock cfg w4 w4.index.finish
  w5.out ++ footer (blockBH w3 mblk.finish) (blockBH w4 w4.index.finish)

end TableWriter

/-- `NewWriter`, `Append` for every pair, `Close` -/
def Table.write (cfg : TableCfg) (kvs : List KV) : Bytes :=
  (kvs.foldl (fun w kv => w.append cfg kv.1 kv.2) (TableWriter.new cfg)).close cfg

/-! ## table reader -/

inductive Result (α : Type) where
  | ok : α → Result α
  | notFound : Result α
  | corrupt : Result α
deriving DecidableEq, Repr

/-- `Reader.readRawBlock`.  `none` = corrupted (checksum mismatch, unknown compression type, or a snappy block
that does not decode).  A short read — the handle reaches beyond the end of the file — is `none` as well: a
corrupted block since repair 5 of wp64 (`readBlockX` / `poolRead` below model what the code did before: it went on
with whatever the recycled buffer held). -/
def readRawBlock (cksum : Bytes → Nat) (file : Bytes) (bh : BH) (verify : Bool) : Option Bytes :=
  let data := (file.drop bh.offset).take (bh.length + Gen.blockTrailerLen)
  if data.length < bh.length + Gen.blockTrailerLen then none
  else if verify && rd32 (data.drop (bh.length + 1)) != cksum (data.take (bh.length + 1)) then none
  else if (data.drop bh.length).head? = some blockTypeByte then some (data.take bh.length)
  else if (data.drop bh.length).head? = some snappyTypeByte then Snappy.decode (data.take bh.length)
  else none

/-- `Reader.readBlock` -/
def readBlock (cksum : Bytes → Nat) (file : Bytes) (bh : BH) (verify : Bool) : Option BlockR :=
  match readRawBlock cksum file bh verify with
  | none => none
  | some data => Block.read data

/-- `filterBlock` -/
structure FilterBlockR where
  data : Bytes
  oOffset : Nat
  baseLg : Nat
  filtersNum : Nat

/-- `Reader.readFilterBlock` -/
def readFilterBlock (cksum : Bytes → Nat) (file : Bytes) (bh : BH) : Option FilterBlockR :=
  match readRawBlock cksum file bh true with
  | none => none
  | some data =>
    let n := data.length
    if n < 5 then none
    else
      let m := n - 5
      let oOffset := rd32 (data.drop m)
      if oOffset > m then none
      else some ⟨data, oOffset, ((data.drop (n - 1)).headD 0).toNat, (m - oOffset) / 4⟩

/-- `filterBlock.contains` -/
def FilterBlockR.contains (b : FilterBlockR) (pol : FilterPolicy) (offset : Nat) (key : Bytes) : Bool :=
  let i := offset >>> b.baseLg
  if i < b.filtersNum then
    let o := b.data.drop (b.oOffset + i * 4)
    let n := rd32 o
    let m := rd32 (o.drop 4)
    if n < m ∧ m ≤ b.oOffset then pol.contains ((b.data.drop n).take (m - n)) key
    else if n = m then false
    else true
  else true

/-- an open `Reader` without error -/
structure TableR where
  cmp : Bytes → Bytes → Ordering
  cksum : Bytes → Nat
  verify : Bool                        -- `opt.StrictBlockChecksum`
  file : Bytes
  metaBH : BH
  indexBH : BH
  filterBH : BH
  dataEnd : Nat
  index : BlockR                       -- `r.indexBlock`
  filter : Option (FilterPolicy × FilterBlockR)   -- `r.filter` with `r.filterBlock`

def isPrefixOf' : Bytes → Bytes → Bool
  | [], _ => true
  | _ :: _, [] => false
  | x :: xs, y :: ys => x == y && isPrefixOf' xs ys

/-- the metaindex loop of `NewReader`: `(r.filter, handle found)`.  An iteration error just ends the loop
(the code never looks at `metaIter.Error()`).  Only `o.GetFilter()` is modelled, not `AltFilters`. -/
def metaLoop (policy : Option FilterPolicy) :
    Nat → Bytes → Nat → Bytes → Option FilterPolicy → Option FilterPolicy × Option BH
  | 0, _, _, _, flt => (flt, none)
  | fuel + 1, rest, lim, prev, flt =>
    match Block.step rest lim prev with
    | none => (flt, none)
    | some none => (flt, none)
    | some (some c) =>
      if isPrefixOf' TableWriter.filterPrefix c.key then
        let flt1 := match policy with
          | some p => if p.name = c.key.drop TableWriter.filterPrefix.length then some p else flt
          | none => flt
        match flt1 with
        | none => metaLoop policy fuel c.rest c.lim c.key flt1
        | some _ =>
          match BH.decode c.value with
          | none => metaLoop policy fuel c.rest c.lim c.key flt1
          | some (bh, _) => (flt1, some bh)
      else metaLoop policy fuel c.rest c.lim c.key flt

/-! ## the table-reader repairs of wp64 as switches

`table.NewReader` / `Reader.readRawBlock` / `decodeBlockHandle` were repaired in three commits (findings 1, 2 and 5 of
the Recover hunt wp60).  Each repaired place is a switch of `ReaderFix`; `ReaderFix.repaired` is the code the
theorems of C13 are about, `ReaderFix.code` takes the four values from the facts that `tools/extract` reads off the
working tree (`C13.code_reader_repaired` ties the two), `ReaderFix.asFound` is the code before the repairs (used by
the decided pre-repair traces in `Props/C13.lean`). -/

structure ReaderFix where
  /-- finding 1: a corrupted metaindex block costs the filter, not the table -/
  metaCostsFilterOnly : Bool
  /-- finding 2: `NewReader` rejects footer handles that do not lie within the file -/
  footerHandlesChecked : Bool
  /-- finding 5: `readRawBlock` treats a short read as a corrupted block -/
  shortReadIsCorruption : Bool
  /-- finding 2: `decodeBlockHandle` treats an overflowing varint like a short one -/
  decodeRejectsOverflow : Bool
deriving DecidableEq, Repr

def ReaderFix.repaired : ReaderFix := ⟨true, true, true, true⟩

def ReaderFix.asFound : ReaderFix := ⟨false, false, false, false⟩

/-- the reader as the working tree has it (regenerated facts) -/
def ReaderFix.code : ReaderFix :=
  ⟨Gen.tblMetaindexCorruptionCostsFilterOnly, Gen.tblFooterHandlesChecked, Gen.tblShortReadIsCorruption,
   Gen.tblDecodeHandleRejectsOverflow⟩

/-- `binary.Uvarint` reports an overflow (`n < 0`) rather than a short buffer (`n == 0`): an 11th byte is reached,
or the 10th byte ends the number with a value above 1 -/
def uvarintOverflow (bs : Bytes) : Bool :=
  (readUvarint bs).isNone && (decide (bs.length > 10) || (bs.take 10).any fun b => decide (b.toNat < 128))

/-- `-n` for the `n < 0` that `binary.Uvarint` returns on an overflow: `i + 1` for the byte index `i` it stopped at -/
def uvarintOverflowCount (bs : Bytes) : Nat :=
  if (bs.take 10).all fun b => decide (b.toNat ≥ 128) then 11 else 10

/-- what the caller of `decodeBlockHandle` sees: the handle and the count `n` -/
inductive DecRes where
  /-- `n > 0` -/
  | ok (bh : BH) (n : Nat)
  /-- `n == 0` -/
  | bad
  /-- `n < 0` (before the repair only: the second varint overflows, `n + m < 0`); the handle has length 0 -/
  | neg (bh : BH)
  /-- `src[n:]` with a negative `n` (before the repair only: the first varint overflows) -/
  | panics
deriving DecidableEq, Repr

/-- `decodeBlockHandle` with the overflow cases spelled out; `rej` = the repair is in -/
def BH.decodeGo (rej : Bool) (src : Bytes) : DecRes :=
  match readUvarint src with
  | none => if !rej && uvarintOverflow src then .panics else .bad
  | some (off, n) =>
    match readUvarint (src.drop n) with
    | some (len, m) => .ok ⟨off, len⟩ (n + m)
    | none =>
      if !rej && uvarintOverflow (src.drop n) then
        -- `n + m` with `m = -(i + 1)`: zero is "bad handle" for the caller, below zero is not
        if n = uvarintOverflowCount (src.drop n) then .bad else .neg ⟨off, 0⟩
      else .bad

/-- the handle lies within the part of the file in front of the footer (the check of repair 2; the trailer of a
block that passes still lies within the file, the footer being longer than a trailer) -/
def BH.inFile (bh : BH) (footerPos : Nat) : Bool :=
  decide (bh.offset ≤ footerPos) && decide (bh.length ≤ footerPos - bh.offset)

/-- the buffer `readRawBlock` looks at when the short read goes unnoticed (before repair 5): `bpool.Get(n)` hands out
a recycled buffer holding `stale` (zeroes beyond it), `ReadAt` overwrites as many bytes as the file has from
`bh.offset` on -/
def poolRead (stale file : Bytes) (bh : BH) : Bytes :=
  let need := bh.length + Gen.blockTrailerLen
  let got := (file.drop bh.offset).take need
  got ++ ((stale ++ List.replicate need 0).drop got.length).take (need - got.length)

/-- `Reader.readBlock` under the switches: with repair 5 the model's `readBlock` (a short read is corruption),
without it the block is taken from the pool buffer -/
def readBlockX (fx : ReaderFix) (stale : Bytes) (cksum : Bytes → Nat) (file : Bytes) (bh : BH) (verify : Bool) :
    Option BlockR :=
  if fx.shortReadIsCorruption then readBlock cksum file bh verify
  else readBlock cksum (poolRead stale file bh) ⟨0, bh.length⟩ verify

/-- why `NewReader` left the reader with a permanent error (`panics`: it did not return at all) -/
inductive OpenErr where
  | footer | metaBlock | indexBlock | panics
deriving DecidableEq, Repr

/-- the footer part of `NewReader`: size, magic, the two handles -/
def Table.footerHandlesX (fx : ReaderFix) (file : Bytes) : Except OpenErr (BH × BH) :=
  if file.length < Gen.footerLen then .error .footer
  else
    let footer := file.drop (file.length - Gen.footerLen)
    if footer.drop (Gen.footerLen - Gen.tableMagic.length) ≠ Gen.tableMagic then .error .footer
    else
      match BH.decodeGo fx.decodeRejectsOverflow footer with
      | .bad => .error .footer
      | .panics => .error .panics
      | .neg _ => .error .panics          -- `footer[n:]` with `n < 0`
      | .ok metaBH n =>
        match BH.decodeGo fx.decodeRejectsOverflow (footer.drop n) with
        | .bad => .error .footer
        | .panics => .error .panics
        | .neg indexBH => .ok (metaBH, indexBH)   -- `n != 0`: the half-decoded handle is used
        | .ok indexBH _ => .ok (metaBH, indexBH)

/-- the handles a repaired reader takes from the footer (`none`: the footer error) -/
def Table.footerHandles (file : Bytes) : Option (BH × BH) :=
  match Table.footerHandlesX .repaired file with
  | .ok p => some p
  | .error _ => none

/-- outcome of `NewReader`: the reader or its permanent error, and the lengths of the buffers requested from the pool
for the two blocks the footer names (`r.bpool.Get(int(bh.length + blockTrailerLen))`), in order -/
structure OpenOut where
  res : Except OpenErr TableR
  bufs : List Nat

/-- the permanent error, if any -/
def OpenOut.err (o : OpenOut) : Option OpenErr :=
  match o.res with
  | .ok _ => none
  | .error e => some e

/-- `NewReader` after the footer has been decoded (`cache == nil`).  `stale` is what the recycled pool buffers hold
(only looked at without repair 5; the filter block is always read as repaired). -/
def Table.openBody (fx : ReaderFix) (stale : Bytes) (cfg : TableCfg) (verify : Bool) (file : Bytes)
    (metaBH indexBH : BH) : OpenOut :=
  let footerPos := file.length - Gen.footerLen
  if fx.footerHandlesChecked && !(metaBH.inFile footerPos && indexBH.inFile footerPos) then ⟨.error .footer, []⟩
  else
    let mbuf := metaBH.length + Gen.blockTrailerLen
    let ibuf := indexBH.length + Gen.blockTrailerLen
    let metaRes : Option (Option FilterPolicy × Option BH) :=
      match readBlockX fx stale cfg.cksum file metaBH true with
      | some mb => some (metaLoop cfg.filter (mb.restartsOffset + 1) mb.data mb.restartsOffset [] none)
      | none => if fx.metaCostsFilterOnly then some (none, none) else none
    match metaRes with
    | none => ⟨.error .metaBlock, [mbuf]⟩
    | some (flt, fbh) =>
      let filterBH := fbh.getD ⟨0, 0⟩
      let dataEnd := match fbh with
        | some h => h.offset
        | none => metaBH.offset
      match readBlockX fx stale cfg.cksum file indexBH true with
      | none => ⟨.error .indexBlock, [mbuf, ibuf]⟩
      | some ib =>
        let filter := match flt with
          | none => none
          | some p =>
            match readFilterBlock cfg.cksum file filterBH with
            | none => none       -- "Don't use filter then."
            | some fb => some (p, fb)
        ⟨.ok ⟨cfg.cmp, cfg.cksum, verify, file, metaBH, indexBH, filterBH, dataEnd, ib, filter⟩, [mbuf, ibuf]⟩

/-- `NewReader` with `cache == nil` under the switches -/
def Table.openX (fx : ReaderFix) (stale : Bytes) (cfg : TableCfg) (verify : Bool) (file : Bytes) : OpenOut :=
  match Table.footerHandlesX fx file with
  | .error e => ⟨.error e, []⟩
  | .ok (metaBH, indexBH) => Table.openBody fx stale cfg verify file metaBH indexBH

/-- `NewReader` as repaired, with the class of the permanent error -/
def Table.openE (cfg : TableCfg) (verify : Bool) (file : Bytes) : Except OpenErr TableR :=
  (Table.openX .repaired [] cfg verify file).res

/-- `NewReader` with `cache == nil`; `none` = the reader carries a corruption error (`r.err`), which every
later call returns -/
def Table.open (cfg : TableCfg) (verify : Bool) (file : Bytes) : Option TableR :=
  match Table.openE cfg verify file with
  | .ok t => some t
  | .error _ => none

namespace TableR

/-- `r.getDataIter(dataBH, nil, r.verifyChecksum, _)` up to the block -/
def dataBlock (t : TableR) (bh : BH) : Option BlockR := readBlock t.cksum t.file bh t.verify

/-- `Reader.find` -/
def find (t : TableR) (key : Bytes) (filtered : Bool) : Result KV :=
  match t.index.seekCursor t.cmp key with
  | none => .corrupt
  | some none => .notFound
  | some (some ic) =>
    match BH.decode ic.value with
    | none => .corrupt
    | some (bh, _) =>
      let absent := match filtered, t.filter with
        | true, some (pol, fb) => !fb.contains pol bh.offset key
        | _, _ => false
      if absent then .notFound
      else
        match t.dataBlock bh with
        | none => .corrupt
        | some db =>
          match db.seekCursor t.cmp key with
          | none => .corrupt
          | some (some c) => .ok (c.key, c.value)
          | some none =>
            -- "The nearest greater-than key is the first key of the next block."
            match Block.step ic.rest ic.lim ic.key with
            | none => .corrupt
            | some none => .notFound
            | some (some ic2) =>
              match BH.decode ic2.value with
              | none => .corrupt
              | some (bh2, _) =>
                match t.dataBlock bh2 with
                | none => .corrupt
                | some db2 =>
                  match Block.step db2.data db2.restartsOffset [] with
                  | none => .corrupt
                  | some none => .notFound
                  | some (some c) => .ok (c.key, c.value)

/-- `Reader.FindKey` -/
def findKey (t : TableR) (key : Bytes) (filtered : Bool) : Result Bytes :=
  match t.find key filtered with
  | .ok kv => .ok kv.1
  | .notFound => .notFound
  | .corrupt => .corrupt

/-- `Reader.Get` -/
def get (t : TableR) (key : Bytes) : Result Bytes :=
  match t.find key false with
  | .ok kv => if t.cmp kv.1 key = .eq then .ok kv.2 else .notFound
  | .notFound => .notFound
  | .corrupt => .corrupt

/-- `Reader.OffsetOf`.  On an undecodable handle the code sets `r.err` but returns `(0, nil)` for this call. -/
def offsetOf (t : TableR) (key : Bytes) : Result Nat :=
  match t.index.seekCursor t.cmp key with
  | none => .corrupt
  | some none => .ok t.dataEnd
  | some (some ic) =>
    match BH.decode ic.value with
    | none => .ok 0
    | some (bh, _) => .ok bh.offset

/-- concatenation of the data blocks named by a list of index entries -/
def blocksOf (t : TableR) : List KV → Option (List (List KV))
  | [] => some []
  | (_, h) :: rest =>
    match BH.decode h with
    | none => none
    | some (bh, _) =>
      match t.dataBlock bh with
      | none => none
      | some db =>
        match db.entries, blocksOf t rest with
        | some es, some tl => some (es :: tl)
        | _, _ => none

/-- what a full forward pass of `NewIterator(nil, _)` yields (`none`: the pass ends with a corruption error) -/
def entries (t : TableR) : Option (List KV) :=
  match t.index.entries with
  | none => none
  | some ix => (t.blocksOf ix).map List.flatten

/-- a data block restricted as `newBlockIter` does for `slice`: from the first key `≥ start` up to (not
including) the first key `≥ limit` -/
def sliceBlock (cmp : Bytes → Bytes → Ordering) (start limit : Option Bytes) (es : List KV) : List KV :=
  let es1 := match start with
    | none => es
    | some s => es.dropWhile fun e => cmp e.1 s == .lt
  match limit with
  | none => es1
  | some l => es1.takeWhile fun e => cmp e.1 l == .lt

/-- the index entries an index iterator sliced with `inclLimit = true` keeps: from the first index key
`≥ start` up to and including the first index key `≥ limit` -/
def sliceIndex (cmp : Bytes → Bytes → Ordering) (start limit : Option Bytes) (ix : List KV) : List KV :=
  let ix1 := match start with
    | none => ix
    | some s => ix.dropWhile fun e => cmp e.1 s == .lt
  match limit with
  | none => ix1
  | some l => ix1.takeWhile (fun e => cmp e.1 l == .lt) ++ (ix1.dropWhile fun e => cmp e.1 l == .lt).take 1

/-- apply `f` to the last element -/
def mapLast {α : Type} (f : α → α) : List α → List α
  | [] => []
  | [c] => [f c]
  | c :: r => c :: mapLast f r

/-- apply `f` to the first and to the last element (`indexIter.Get`: the slice is handed to the data iterator
iff `isFirst() || isLast()`) -/
def mapEnds {α : Type} (f : α → α) : List α → List α
  | [] => []
  | [c] => [f c]
  | c :: r => f c :: mapLast f r

/-- what a full forward pass of `NewIterator(&util.Range{start, limit}, _)` yields: the sliced index, the
slice applied to the first and the last of its data blocks.  (`newBlockIter` after the D21 fix: when the seek
for `Start` finds nothing the range is empty and `Limit` is not looked at — `sliceBlock` / `sliceIndex` on an
empty remainder.) -/
def entriesInRange (t : TableR) (start limit : Option Bytes) : Option (List KV) :=
  match t.index.entries with
  | none => none
  | some ix =>
    match t.blocksOf (sliceIndex t.cmp start limit ix) with
    | none => none
    | some bs => some (mapEnds (sliceBlock t.cmp start limit) bs).flatten

end TableR

end GoLevel
