import GoLevel.Model.RefLoop
import GoLevel.Model.LSM
/-! The PRODUCERS of the reference loop's messages (C07): `session.setVersion`, `version.incref/releaseNB`,
`session.commit` (success and failure → `s.abandon <- nv.id`), `session.recover`, `session.close`
(`leveldb/session.go`, `session_util.go`, `version.go`), over the versions of the LSM model.

All sends are on unbuffered channels to the single `refLoop` goroutine and all but the abandon happen under
`s.vmu`, so the loop sees the messages of one operation in program order; the model runs the loop
(`RefLoop.step`) on each message at once.  The id of a failed commit is allocated and abandoned in one step:
between `v.spawn` and `s.abandon <- nv.id` only reader releases can be sent (commits are serialised by the
caller), and those do not depend on `ntVersionID`. -/
namespace GoLevel.Session
open GoLevel GoLevel.RefLoop

/-- the `seen` map of `setVersion` (the D13 repair): first occurrences only -/
def dedup : List Nat → List Nat
  | [] => []
  | a :: l => a :: (dedup l).filter (· != a)

/-- `setVersion`: `&vDelta{vid: s.stVersion.id, added: …, deleted: …}` from the record -/
def mkDelta (r : Edit) : Delta :=
  { added := dedup (r.added.map (·.2.num)), deleted := r.deleted.map (·.2) }

/-- every table of a version with its level (`version.fillRecord`) -/
def levelTables (v : Version) : List (Nat × Table) :=
  (v.levels.zipIdx).flatMap fun (l, i) => l.map fun t => (i, t)

/-- `version.fillRecord(rec)` as called by `newManifest(rec, nv)`: every table of `nv` is added to the record -/
def fillRecord (r : Edit) (nv : Version) : Edit := { r with added := r.added ++ levelTables nv }

/-- a `*version` object that somebody still holds -/
structure VObj where
  id : Nat
  files : List Nat
  /-- references held by readers (`s.version()` … `v.release()`) -/
  pins : Nat
  deriving Repr, DecidableEq

structure Sess where
  /-- the version objects with `ref > 0` -/
  objs : List VObj
  /-- `s.stVersion` -/
  cur : Nat
  lsm : Version
  /-- `s.ntVersionID` -/
  nt : Nat
  /-- `s.manifest != nil` -/
  manifest : Bool
  /-- `session.close` ran: `closeC` is closed, the session's own reference is gone -/
  closed : Bool
  deriving Repr

/-- What the session does.  (Readers: `pin` = `s.version()`, `unpin` = `v.release()`.) -/
inductive Op
  /-- `session.recover`: the version read from the manifest -/
  | recover (v : Version)
  /-- `session.create`: `newManifest(nil, nil)` -/
  | create
  /-- `session.commit(r)` succeeded -/
  | commit (c : UCmp) (r : Edit)
  /-- `session.commit(r)` failed (manifest write error): `s.abandon <- nv.id` -/
  | commitFail (c : UCmp) (r : Edit)
  | pin
  /-- `v.release()`; `delivered = false`: the sender took the `<-closeC` arm (only after `close`) -/
  | unpin (id : Nat) (delivered : Bool)
  | close
  /-- the 5-minute timer found the task of version `vid` old -/
  | expire (vid : Nat)

/-- `newSession`: `go s.refLoop(); s.setVersion(nil, newVersion(s))` -/
def Sess.init : Sess × List Msg :=
  ({ objs := [⟨0, [], 0⟩], cur := 0, lsm := ⟨[]⟩, nt := 1, manifest := false, closed := false },
   [.ref 0 []])

def Sess.obj (s : Sess) (id : Nat) : Option VObj := s.objs.find? (·.id = id)

/-- `releaseNB` on version `id` by a reader or by the session (`bySession`): the object stays while someone
holds it, otherwise the release task is sent. -/
def Sess.drop (s : Sess) (id : Nat) : Sess × List Msg :=
  match s.obj id with
  | none => (s, [])
  | some o =>
    let held := o.pins + (if id = s.cur ∧ ¬ s.closed then 1 else 0)
    if held > 0 then (s, [])
    else ({ s with objs := s.objs.filter (·.id != id) }, [.rel id o.files])

/-- `setVersion(r, nv)` on a session whose current version exists: `nv.incref()`, the delta (when `r != nil`),
`s.stVersion.releaseNB()`, `s.stVersion = nv`. -/
def Sess.setVersion (s : Sess) (r : Option Edit) (nvId : Nat) (nv : Version) : Sess × List Msg :=
  let old := s.cur
  let s1 : Sess := { s with objs := s.objs ++ [⟨nvId, nv.nums, 0⟩], cur := nvId, lsm := nv }
  let (s2, rel) := s1.drop old
  (s2, [.ref nvId nv.nums] ++ (match r with | some r => [.delta old (mkDelta r)] | none => []) ++ rel)

/-- One operation: the new session state and the messages sent, in order (`none` = the operation is not
possible in this state). -/
def Sess.op (s : Sess) : Op → Option (Sess × List Msg)
  | .recover v =>
    if s.closed then none else
    -- `s.setVersion(rec, staging.finish(false))`: `rec`'s table lists were reset after each manifest record
    some (({ s with nt := s.nt + 1 }).setVersion (some ⟨[], []⟩) s.nt v)
  | .create => if s.closed then none else some ({ s with manifest := true }, [])
  | .commit c r =>
    if s.closed then none else
    let nv := s.lsm.apply c r
    -- the first commit after `recover` goes through `newManifest(r, nv)`, which fills `r` with `nv`'s tables
    let r' := if s.manifest then r else fillRecord r nv
    some (({ s with nt := s.nt + 1, manifest := true }).setVersion (some r') s.nt nv)
  | .commitFail _ _ =>
    if s.closed then none else some ({ s with nt := s.nt + 1 }, [.abandon s.nt])
  | .pin =>
    if s.closed then none else
    some ({ s with objs := s.objs.map fun o => if o.id = s.cur then { o with pins := o.pins + 1 } else o }, [])
  | .unpin id delivered =>
    match s.obj id with
    | none => none
    | some o =>
      if o.pins = 0 ∨ (!delivered ∧ !s.closed) then none else
      let s1 : Sess := { s with objs := s.objs.map fun o => if o.id = id then { o with pins := o.pins - 1 } else o }
      let (s2, rel) := s1.drop id
      some (s2, if delivered then rel else [])
  | .close =>
    if s.closed then none else
    -- `s.setVersion(nil, &version{s: s, closing: true, id: s.ntVersionID})`, then `close(s.closeC)`
    let (s1, ms) := s.setVersion none s.nt ⟨[]⟩
    some ({ s1 with closed := true }, ms)
  | .expire vid => some (s, [.expire vid])

/-- The session together with its reference loop.  `alive = false`: the loop has taken its `<-s.closeC` arm;
`requests` = every table number handed to `tOps.remove`, in order. -/
structure Sys where
  sess : Sess
  loop : State
  requests : List Nat
  deriving Repr

/-- deliver the messages of one operation to the loop, in order (`none` = the loop panics) -/
def deliver (l : State) : List Msg → Option (State × List Nat) := RefLoop.run l

def Sys.init : Option Sys :=
  match deliver State.init Sess.init.2 with
  | some (l, rm) => some ⟨Sess.init.1, l, rm⟩
  | none => none

/-- one operation; the removals it caused are appended to `requests` -/
def Sys.step (y : Sys) (o : Op) : Option (Sys × List Nat) :=
  match y.sess.op o with
  | none => none
  | some (s', ms) =>
    match deliver y.loop ms with
    | none => none
    | some (l', rm) => some (⟨s', l', y.requests ++ rm⟩, rm)

def Sys.run (y : Sys) : List Op → Option Sys
  | [] => some y
  | o :: os =>
    match y.step o with
    | none => none
    | some (y', _) => y'.run os

end GoLevel.Session
