import GoLevel.Gen.Consts
/-!
# File numbers as block-cache namespaces (`tOps.remove`, `session.reuseFileNum`, `Cache.EvictNS`)

The block cache is keyed by (file number, block offset).  `tOps.remove`, run when the last handle of a table is
gone, removes the file, evicts the namespace of its number and gives the number back when it is the last one
allocated (`reuseFileNum`, useful for discarded transactions).  The two steps are not atomic with respect to the
other goroutines: a compaction may allocate a number (`allocFileNum`) and have its new table read in between.

`evictFirst = true` is the code since the repair of D50 (`Gen.removeEvictsBeforeReuse`), `false` the code as found
(the number was given back first).  Table *identities* are ghost values: what a reader is entitled to see under a
number is the identity of the table that number names now.
-/
namespace GoLevel.BlockNS

structure St where
  /-- `stNextFileNum` -/
  next : Nat := 0
  /-- live tables: number ↦ identity -/
  named : List (Nat × Nat) := []
  /-- cached blocks: (number, identity of the table they were read from) -/
  cache : List (Nat × Nat) := []
  /-- `tOps.remove` in progress: the number, and whether its first step is done -/
  pend : Option (Nat × Bool) := none
  /-- next unused identity (ghost) -/
  fresh : Nat := 0
deriving Repr, DecidableEq

def lookup (l : List (Nat × Nat)) (n : Nat) : Option Nat := (l.find? (·.1 = n)).map (·.2)

inductive Act
  /-- `allocFileNum` + the table is written and installed -/
  | create
  /-- a read of table `n`: served from the cache when a block of that namespace is there, else from the file
      (and cached) -/
  | read (n : Nat)
  /-- the last handle of table `n` is released: the delete callback starts, `stor.Remove(fd)` -/
  | beginRemove (n : Nat)
  /-- the next of the two remaining steps of the callback -/
  | removeStep
deriving Repr, DecidableEq

def evict (s : St) (n : Nat) : St := { s with cache := s.cache.filter (·.1 ≠ n) }
def reuse (s : St) (n : Nat) : St := if s.next = n + 1 then { s with next := n } else s

/-- one step; the second component is what a `read` returned (the identity whose data the reader got) -/
def step (evictFirst : Bool) (s : St) : Act → Option (St × Option Nat)
  | .create =>
    some ({ s with next := s.next + 1, fresh := s.fresh + 1, named := (s.next, s.fresh) :: s.named }, none)
  | .read n =>
    match lookup s.named n with
    | none => none                                 -- no such table: nobody holds a handle
    | some id =>
      match lookup s.cache n with
      | some cid => some (s, some cid)             -- cache hit
      | none => some ({ s with cache := (n, id) :: s.cache }, some id)
  | .beginRemove n =>
    match s.pend, lookup s.named n with
    | none, some _ => some ({ s with named := s.named.filter (·.1 ≠ n), pend := some (n, false) }, none)
    | _, _ => none
  | .removeStep =>
    match s.pend with
    | none => none
    | some (n, false) =>
      some ({ (if evictFirst then evict s n else reuse s n) with pend := some (n, true) }, none)
    | some (n, true) =>
      some ({ (if evictFirst then reuse s n else evict s n) with pend := none }, none)

/-- run a schedule; collects (number read, identity named at that moment, identity served) -/
def run (evictFirst : Bool) : St → List Act → Option (St × List (Nat × Option Nat × Nat))
  | s, [] => some (s, [])
  | s, a :: as =>
    match step evictFirst s a with
    | none => none
    | some (s', out) =>
      match run evictFirst s' as with
      | none => none
      | some (s'', log) =>
        match a, out with
        | .read n, some got => some (s'', (n, lookup s.named n, got) :: log)
        | _, _ => some (s'', log)

end GoLevel.BlockNS
