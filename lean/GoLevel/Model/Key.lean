import GoLevel.Gen.Consts
import GoLevel.Model.Bytes
/-!
# Internal keys and comparers (`key.go`, `comparer.go`, `comparer/bytes_comparer.go`)

`UCmp` is the user comparer as the DB sees it: a three-way comparison and the two optional
key-shortening functions (`none` = Go's `nil` result).  `IKey` is a parsed internal key; `num` is the
packed 64-bit number `(seq << 8) | kind`.
-/
namespace GoLevel

structure UCmp where
  cmp  : Bytes → Bytes → Ordering
  sep  : Bytes → Bytes → Option Bytes     -- Separator(nil, a, b)
  succ : Bytes → Option Bytes             -- Successor(nil, b)

structure IKey where
  ukey : Bytes
  num  : Nat
deriving DecidableEq, Repr

def IKey.seq (k : IKey) : Nat := k.num / 256
def IKey.kind (k : IKey) : Nat := k.num % 256

/-- `makeInternalKey` (the panics on `seq > keyMaxSeq`, `kt > keyTypeVal` are the guard `validParts`) -/
def mkIKey (ukey : Bytes) (seq kt : Nat) : IKey := ⟨ukey, seq * 256 + kt⟩

def validParts (seq kt : Nat) : Bool := seq ≤ Gen.keyMaxSeq && kt ≤ Gen.keyTypeVal

def IKey.encode (k : IKey) : Bytes := k.ukey ++ le64 k.num

/-- `parseInternalKey` -/
def parseIKey (bs : Bytes) : Option IKey :=
  if bs.length < 8 then none
  else
    let num := rd64 (bs.drop (bs.length - 8))
    if num % 256 > Gen.keyTypeVal then none
    else some ⟨bs.take (bs.length - 8), num⟩

/-- `iComparer.Compare` on parsed keys: user key ascending, packed number descending -/
def icmp (c : UCmp) (a b : IKey) : Ordering :=
  match c.cmp a.ukey b.ukey with
  | .eq => compare b.num a.num
  | o => o

/-- `iComparer.Compare` on raw bytes (what the tables and the memdb are handed) -/
def icmpBytes (c : UCmp) (a b : Bytes) : Ordering :=
  icmp c ⟨a.take (a.length - 8), rd64 (a.drop (a.length - 8))⟩ ⟨b.take (b.length - 8), rd64 (b.drop (b.length - 8))⟩

/-- the seek key "user key `k` as of sequence `s`" -/
def probe (k : Bytes) (s : Nat) : IKey := mkIKey k s Gen.keyTypeSeek

/-- `iComparer.Separator`: `none` = nil (caller keeps `a`) -/
def iSep (c : UCmp) (a b : IKey) : Option IKey :=
  match c.sep a.ukey b.ukey with
  | some d => if d.length < a.ukey.length ∧ c.cmp a.ukey d = .lt then some ⟨d, Gen.keyMaxNum⟩ else none
  | none => none

/-- `iComparer.Successor` -/
def iSucc (c : UCmp) (b : IKey) : Option IKey :=
  match c.succ b.ukey with
  | some d => if d.length < b.ukey.length ∧ c.cmp b.ukey d = .lt then some ⟨d, Gen.keyMaxNum⟩ else none
  | none => none

/-- what the table writer stores in the index: the separator if there is one, else `a` itself -/
def indexSep (c : UCmp) (a b : IKey) : IKey := (iSep c a b).getD a
def indexSucc (c : UCmp) (b : IKey) : IKey := (iSucc c b).getD b

/-! ## the built-in bytewise comparer -/

/-- `bytes.Compare` -/
def bytesCompare : Bytes → Bytes → Ordering
  | [], [] => .eq
  | [], _ :: _ => .lt
  | _ :: _, [] => .gt
  | x :: xs, y :: ys => if x < y then .lt else if y < x then .gt else bytesCompare xs ys

/-- `bytesComparer.Separator(nil, a, b)` -/
def bytesSep : Bytes → Bytes → Option Bytes
  | x :: xs, y :: ys =>
    if x = y then (bytesSep xs ys).map (x :: ·)
    else if x.toNat < 255 ∧ x.toNat + 1 < y.toNat then some [x + 1] else none
  | _, _ => none

/-- `bytesComparer.Successor(nil, b)` -/
def bytesSucc : Bytes → Option Bytes
  | [] => none
  | x :: xs => if x ≠ 255 then some [x + 1] else (bytesSucc xs).map (x :: ·)

def bytewise : UCmp := ⟨bytesCompare, bytesSep, bytesSucc⟩

/-! ## comparer contract -/

/-- The `comparer.Comparer` contract: a strict total order on byte strings that identifies only
equal strings, and shortening functions whose results (when not nil) lie where documented. -/
structure LawfulUCmp (c : UCmp) : Prop where
  refl   : ∀ a, c.cmp a a = .eq
  eq_of  : ∀ a b, c.cmp a b = .eq → a = b
  gt_iff : ∀ a b, c.cmp a b = .gt ↔ c.cmp b a = .lt
  trans  : ∀ a b d, c.cmp a b = .lt → c.cmp b d = .lt → c.cmp a d = .lt
  /-- the contract "a ≤ x < b whenever a non-nil x is returned" is read for every call the DB makes,
  i.e. for a ≤ b; for a = b it forces nil -/
  sep_ok : ∀ a b d, c.cmp a b ≠ .gt → c.sep a b = some d → c.cmp a d ≠ .gt ∧ c.cmp d b = .lt
  succ_ok : ∀ b d, c.succ b = some d → c.cmp b d ≠ .gt

end GoLevel
