import GoLevel.Gen.Consts
import GoLevel.Model.Bytes
import GoLevel.Spec.Cursor
/-!
# The in-memory table (`leveldb/memdb/memdb.go`) — property C14

An *ideal skip list*: the Go arrays `kvData`/`nodeData` are abstracted to

* `levels : List (List Bytes)` — `levels[h]` is the chain of keys reached by following the `nNext+h`
  pointers from the head node (`levels[0]` = every key, in list order); `levels.length` is the Go
  `maxHeight` (it only grows, `Reset` brings it back to 1);
* `kv` — key ↦ value (the part of `kvData` that live nodes point to);
* `n`, `kvSize`, `used` — the Go counters `n`, `kvSize` and `len(kvData)`, updated incrementally exactly
  as `Put`/`Delete`/`Reset` update them.

A *node* is identified with the key it carries (`none` = node 0 = the head, which is also the Go
iterator's "invalid" node).  Following a `next` pointer of node `k` on level `h` is `after levels[h] (some k)`:
the elements of the chain that come after the occurrence of `k` (found by *identity*, not by comparison —
that the two agree is part of what the invariant `C14.inv_preserved` provides).  The search loops
`findGE` (with the `prev` path), `findLT`, `findLast` descend the towers level by level as the Go loops
do; `put` takes the tower height that `randHeight` drew as an argument (heights are data: the fixed-seed
PRNG makes them a function of the history; the harness reproduces them and `C14.memdb_refines_map`
shows that no answer depends on them).

Assumption recorded here and in the theorems: the comparer identifies only identical byte strings
(`cmp a b = .eq → a = b`).  `Put` on an existing node keeps `nodeData[node+nKey]` (the *old* key length)
and stores the new key bytes: with a comparer that equates strings of different length the node's key would
be cut from `key ++ value`; the model keeps the stored key.

Generic in the comparison `cmp : Bytes → Bytes → Ordering`.  Core Lean only.
-/
namespace GoLevel.MemDB

abbrev Cmp := Bytes → Bytes → Ordering

/-- a node reference: `none` = node 0 (head / invalid), `some k` = the node carrying key `k` -/
abbrev Node := Option Bytes

structure DB where
  levels : List (List Bytes) := [[]]
  kv : List (Bytes × Bytes) := []
  n : Nat := 0
  kvSize : Nat := 0
  used : Nat := 0

/-- `memdb.New` (and the state after `Reset`) -/
def DB.empty : DB := {}

def DB.level0 (db : DB) : List Bytes := db.levels.headD []

/-- `kvData[m : m+nodeData[node+nVal]]` of the node carrying `k` -/
def DB.value (db : DB) (k : Bytes) : Bytes := (db.kv.lookup k).getD []

/-- the chain of `next` pointers leaving `node` on one level -/
def after (lvl : List Bytes) : Node → List Bytes
  | none => lvl
  | some k => (lvl.dropWhile (· != k)).drop 1

/-- inner loop of `findGE` on one level: `for next != 0 && cmp(next.key, key) < 0 { node = next }`;
returns `(node, next)` -/
def walkGE (cmp : Cmp) (key : Bytes) : List Bytes → Node → Node × Node
  | [], node => (node, none)
  | x :: xs, node => if cmp x key = .lt then walkGE cmp key xs (some x) else (node, some x)

structure Found where
  node : Node                 -- `next` at the level where the search stopped (0 = none)
  exact : Bool
  prev : List Node            -- `prevNode[0 .. maxHeight)`, level 0 first (filled only when `prev`)

/-- `cmp == 0` for the node the inner loop stopped at (`cmp = 1` when `next == 0`) -/
def isEq (cmp : Cmp) (key : Bytes) : Node → Bool
  | some x => cmp x key == .eq
  | none => false

/-- `findGE(key, prev)`: `lvls` are the levels from `maxHeight-1` down to 0 -/
def findGEFrom (cmp : Cmp) (key : Bytes) (prev : Bool) : List (List Bytes) → Node → List Node → Found
  | [], _, acc => ⟨none, false, acc⟩
  | lvl :: lower, node, acc =>
    let w := walkGE cmp key (after lvl node) node
    let eq := isEq cmp key w.2
    let acc' := if prev then w.1 :: acc else acc
    if !prev && eq then ⟨w.2, true, acc'⟩
    else if lower.isEmpty then ⟨w.2, eq, acc'⟩
    else findGEFrom cmp key prev lower w.1 acc'

def findGE (cmp : Cmp) (db : DB) (key : Bytes) (prev : Bool) : Found :=
  findGEFrom cmp key prev db.levels.reverse none []

/-- inner loop of `findLT`: advance while `next != 0 && cmp(next.key, key) < 0` -/
def walkLT (cmp : Cmp) (key : Bytes) : List Bytes → Node → Node
  | [], node => node
  | x :: xs, node => if cmp x key = .lt then walkLT cmp key xs (some x) else node

def findLTFrom (cmp : Cmp) (key : Bytes) : List (List Bytes) → Node → Node
  | [], node => node
  | lvl :: lower, node => findLTFrom cmp key lower (walkLT cmp key (after lvl node) node)

/-- `findLT(key)` -/
def findLT (cmp : Cmp) (db : DB) (key : Bytes) : Node := findLTFrom cmp key db.levels.reverse none

def walkLast : List Bytes → Node → Node
  | [], node => node
  | x :: xs, _ => walkLast xs (some x)

def findLastFrom : List (List Bytes) → Node → Node
  | [], node => node
  | lvl :: lower, node => findLastFrom lower (walkLast (after lvl node) node)

/-- `findLast()` -/
def findLast (db : DB) : Node := findLastFrom db.levels.reverse none

/-- `new.next[i] = prev.next[i]; prev.next[i] = new` on one level -/
def insertAfter (key : Bytes) : List Bytes → Node → List Bytes
  | lvl, none => key :: lvl
  | [], some _ => []
  | x :: xs, some p => if x == p then x :: key :: xs else x :: insertAfter key xs (some p)

/-- the loop `for i, n := range p.prevNode[:h]` of `Put`; levels at and above the old `maxHeight` are
empty and have `prevNode[i] = 0` -/
def linkLevels (key : Bytes) : Nat → List (List Bytes) → List Node → List (List Bytes)
  | 0, ls, _ => ls
  | h + 1, ls, ps => insertAfter key (ls.headD []) (ps.headD none) :: linkLevels key h ls.tail ps.tail

/-- `Put(key, value)` where `randHeight` returns `h` (drawn only when the key is new) -/
def put (cmp : Cmp) (db : DB) (key value : Bytes) (h : Nat) : DB :=
  let f := findGE cmp db key true
  match f.exact, f.node with
  | true, some k =>
    { db with
      kv := (k, value) :: db.kv.filter (·.1 != k)
      kvSize := db.kvSize + value.length - (db.value k).length
      used := db.used + key.length + value.length }
  | _, _ =>
    { levels := linkLevels key h db.levels f.prev
      kv := (key, value) :: db.kv.filter (·.1 != key)
      n := db.n + 1
      kvSize := db.kvSize + key.length + value.length
      used := db.used + key.length + value.length }

/-- `prev.next[i] = prev.next[i].next[i]` on one level -/
def removeAfter : List Bytes → Node → List Bytes
  | [], _ => []
  | _ :: xs, none => xs
  | x :: xs, some p => if x == p then x :: xs.drop 1 else x :: removeAfter xs (some p)

def unlinkLevels : Nat → List (List Bytes) → List Node → List (List Bytes)
  | 0, ls, _ => ls
  | _ + 1, [], _ => []
  | h + 1, l :: ls, ps => removeAfter l (ps.headD none) :: unlinkLevels h ls ps.tail

/-- `nodeData[node+nHeight]`: the number of levels the node is linked on -/
def DB.height (db : DB) (k : Bytes) : Nat := (db.levels.takeWhile (·.contains k)).length

/-- `Delete(key)`; `false` = `ErrNotFound` -/
def delete (cmp : Cmp) (db : DB) (key : Bytes) : DB × Bool :=
  let f := findGE cmp db key true
  match f.exact, f.node with
  | true, some k =>
    ({ db with
       levels := unlinkLevels (db.height k) db.levels f.prev
       kv := db.kv.filter (·.1 != k)
       n := db.n - 1
       kvSize := db.kvSize - (k.length + (db.value k).length) }, true)
  | _, _ => (db, false)

/-- `Reset()` -/
def reset (_ : DB) : DB := DB.empty

/-- `Contains(key)` -/
def contains (cmp : Cmp) (db : DB) (key : Bytes) : Bool := (findGE cmp db key false).exact

/-- `Get(key)`; `none` = `ErrNotFound` -/
def get (cmp : Cmp) (db : DB) (key : Bytes) : Option Bytes :=
  let f := findGE cmp db key false
  match f.exact, f.node with
  | true, some k => some (db.value k)
  | _, _ => none

/-- `Find(key)`; `none` = `ErrNotFound` -/
def find (cmp : Cmp) (db : DB) (key : Bytes) : Option (Bytes × Bytes) :=
  match (findGE cmp db key false).node with
  | some k => some (k, db.value k)
  | none => none

/-! ## `dbIter` -/

structure Iter where
  start : Option Bytes := none     -- `slice.Start` (`slice == nil` behaves as both nil)
  limit : Option Bytes := none
  node : Node := none
  forward : Bool := false

/-- `fill(checkStart, checkLimit)`: drop the node if it lies outside the slice -/
def Iter.fill (cmp : Cmp) (it : Iter) (checkStart checkLimit : Bool) : Iter :=
  match it.node with
  | none => it
  | some k =>
    let beyond := match it.limit with
      | some l => checkLimit && cmp k l != .lt
      | none => false
    let before := match it.start with
      | some s => checkStart && cmp k s == .lt
      | none => false
    if beyond || before then { it with node := none } else it

/-- `Key()`, `Value()` after the move (`none` = invalid, both nil) -/
def Iter.out (db : DB) (it : Iter) : Option (Bytes × Bytes) := it.node.map fun k => (k, db.value k)

def Iter.first (cmp : Cmp) (db : DB) (it : Iter) : Iter :=
  let node := match it.start with
    | some s => (findGE cmp db s false).node
    | none => (after db.level0 none).head?
  ({ it with forward := true, node := node }).fill cmp false true

def Iter.last (cmp : Cmp) (db : DB) (it : Iter) : Iter :=
  let node := match it.limit with
    | some l => findLT cmp db l
    | none => findLast db
  ({ it with forward := false, node := node }).fill cmp true false

def Iter.seek (cmp : Cmp) (db : DB) (key : Bytes) (it : Iter) : Iter :=
  let key := match it.start with
    | some s => if cmp key s == .lt then s else key
    | none => key
  ({ it with forward := true, node := (findGE cmp db key false).node }).fill cmp false true

def Iter.next (cmp : Cmp) (db : DB) (it : Iter) : Iter :=
  match it.node with
  | none => if !it.forward then it.first cmp db else it
  | some k => ({ it with forward := true, node := (after db.level0 (some k)).head? }).fill cmp false true

def Iter.prev (cmp : Cmp) (db : DB) (it : Iter) : Iter :=
  match it.node with
  | none => if it.forward then it.last cmp db else it
  | some k => ({ it with forward := false, node := findLT cmp db k }).fill cmp true false

def Iter.step (cmp : Cmp) (db : DB) : Call Bytes → Iter → Iter
  | .first, it => it.first cmp db
  | .last, it => it.last cmp db
  | .seek k, it => it.seek cmp db k
  | .next, it => it.next cmp db
  | .prev, it => it.prev cmp db

/-- what the caller observes after each call of a sequence on an unchanging table -/
def Iter.run (cmp : Cmp) (db : DB) : Iter → List (Call Bytes) → List (Option (Bytes × Bytes))
  | _, [] => []
  | it, c :: cs => let it' := Iter.step cmp db c it; it'.out db :: Iter.run cmp db it' cs

/-! ## the generation counter (`DB.gen`, `dbIter.gen`: repair of D31)

`Reset` increments the generation of the table, every `fill` copies it into the iterator, and `Next`/`Prev` on a valid
iterator of an older generation drop its node instead of following a pointer (`Next`, D31) or searching with the stale
key (`Prev`, D32): the iterator is exhausted in the direction of the move.  The ideal list keeps the counter beside the
table (`g`) and beside the iterator (`GIter.gen`); everything else is the iterator above. -/

structure GIter where
  it : Iter := {}
  gen : Nat := 0

/-- one movement of `dbIter` on a table of generation `g` -/
def GIter.step (cmp : Cmp) (db : DB) (g : Nat) : Call Bytes → GIter → GIter
  | .first, x => ⟨x.it.first cmp db, g⟩
  | .last, x => ⟨x.it.last cmp db, g⟩
  | .seek k, x => ⟨x.it.seek cmp db k, g⟩
  | .next, x =>
    match x.it.node with
    | none => if !x.it.forward then ⟨x.it.first cmp db, g⟩ else x
    | some _ =>
      if x.gen != g then ⟨{ x.it with forward := true, node := none }, g⟩ else ⟨x.it.next cmp db, g⟩
  | .prev, x =>
    match x.it.node with
    | none => if x.it.forward then ⟨x.it.last cmp db, g⟩ else x
    | some _ =>
      if x.gen != g then ⟨{ x.it with forward := false, node := none }, g⟩ else ⟨x.it.prev cmp db, g⟩

def GIter.run (cmp : Cmp) (db : DB) (g : Nat) : GIter → List (Call Bytes) → List (Option (Bytes × Bytes))
  | _, [] => []
  | x, c :: cs => let x' := GIter.step cmp db g c x; x'.it.out db :: GIter.run cmp db g x' cs

/-! ## operations and answers (the state machine the harness drives) -/

inductive Op
  | put (k v : Bytes) (h : Nat)
  | delete (k : Bytes)
  | reset
  | get (k : Bytes)
  | find (k : Bytes)
  | contains (k : Bytes)
  | len
  | size

/-- the heights `randHeight` can return -/
def Op.valid : Op → Prop
  | .put _ _ h => 1 ≤ h ∧ h ≤ Gen.tMaxHeight
  | _ => True

inductive Ans
  | ok
  | notFound
  | val (v : Bytes)
  | pair (k v : Bytes)
  | bool (b : Bool)
  | num (n : Nat)
deriving DecidableEq, Repr

def step (cmp : Cmp) (db : DB) : Op → DB × Ans
  | .put k v h => (put cmp db k v h, .ok)
  | .delete k => let r := delete cmp db k; (r.1, if r.2 then .ok else .notFound)
  | .reset => (reset db, .ok)
  | .get k => (db, match get cmp db k with | some v => .val v | none => .notFound)
  | .find k => (db, match find cmp db k with | some (k', v) => .pair k' v | none => .notFound)
  | .contains k => (db, .bool (contains cmp db k))
  | .len => (db, .num db.n)
  | .size => (db, .num db.kvSize)

def run (cmp : Cmp) : DB → List Op → List Ans
  | _, [] => []
  | db, o :: os => let r := step cmp db o; r.2 :: run cmp r.1 os

def exec (cmp : Cmp) : DB → List Op → DB
  | db, [] => db
  | db, o :: os => exec cmp (step cmp db o).1 os

/-! ## interleaving model: one writer and readers, every step atomic

`mu` makes every public method and every iterator step atomic with respect to the writer's methods
(`Put`/`Delete`/`Reset` take the write lock, everything else the read lock; `findGE(…, false)`, `findLT`,
`findLast` and `fill` touch no shared scratch state).  A concurrent execution observed from one iterator is
therefore an interleaving of writer operations, of steps that do not change the table (`Get`/`Find`/
`Contains`/`Len`/`Size`, steps of other iterators) and of the moves of that iterator. -/

inductive Ev
  | put (k v : Bytes) (h : Nat)
  | delete (k : Bytes)
  | reset
  | read
  | move (c : Call Bytes)

/-- the operations `C14.concurrent_readers_partial` admits while an iterator is in use: `Put` of new keys
and overwrites (any tower height `randHeight` can return), reads and iterator moves — no `Delete`, no `Reset` -/
def Ev.putOnly : Ev → Prop
  | .put _ _ h => 1 ≤ h ∧ h ≤ Gen.tMaxHeight
  | .delete _ => False
  | .reset => False
  | .read => True
  | .move _ => True

/-- a writer/reader step that is not a move of the observed iterator -/
def Ev.isMove : Ev → Bool
  | .move _ => true
  | _ => false

structure CState where
  db : DB := {}
  it : Iter := {}

def cstep (cmp : Cmp) (s : CState) : Ev → CState
  | .put k v h => { s with db := put cmp s.db k v h }
  | .delete k => { s with db := (delete cmp s.db k).1 }
  | .reset => { s with db := reset s.db }
  | .read => s
  | .move c => { s with it := Iter.step cmp s.db c s.it }

def cexec (cmp : Cmp) : CState → List Ev → CState
  | s, [] => s
  | s, e :: es => cexec cmp (cstep cmp s e) es

/-- what the move `c` yields in state `s` -/
def cyield (cmp : Cmp) (s : CState) (c : Call Bytes) : Option (Bytes × Bytes) :=
  (Iter.step cmp s.db c s.it).out s.db

/-! ## the specification: a sorted association list -/

abbrev SMap := List (Bytes × Bytes)

namespace SMap

/-- the pairs below `k`, then `(k, v)`, then the pairs above `k` -/
def insert (cmp : Cmp) (k v : Bytes) (m : SMap) : SMap :=
  m.filter (fun p => cmp p.1 k == .lt) ++ (k, v) :: m.filter (fun p => cmp p.1 k == .gt)

def erase (cmp : Cmp) (k : Bytes) (m : SMap) : SMap := m.filter (fun p => cmp p.1 k != .eq)

def get (cmp : Cmp) (k : Bytes) (m : SMap) : Option Bytes :=
  (m.find? (fun p => cmp p.1 k == .eq)).map (·.2)

/-- first pair whose key is not below `k` -/
def findGE (cmp : Cmp) (k : Bytes) (m : SMap) : Option (Bytes × Bytes) :=
  m.find? (fun p => cmp p.1 k != .lt)

def size (m : SMap) : Nat := (m.map fun p => p.1.length + p.2.length).sum

def step (cmp : Cmp) (m : SMap) : Op → SMap × Ans
  | .put k v _ => (insert cmp k v m, .ok)
  | .delete k => (erase cmp k m, if (get cmp k m).isSome then .ok else .notFound)
  | .reset => ([], .ok)
  | .get k => (m, match get cmp k m with | some v => .val v | none => .notFound)
  | .find k => (m, match findGE cmp k m with | some (k', v) => .pair k' v | none => .notFound)
  | .contains k => (m, .bool (get cmp k m).isSome)
  | .len => (m, .num m.length)
  | .size => (m, .num (size m))

def run (cmp : Cmp) : SMap → List Op → List Ans
  | _, [] => []
  | m, o :: os => let r := step cmp m o; r.2 :: run cmp r.1 os

def exec (cmp : Cmp) : SMap → List Op → SMap
  | m, [] => m
  | m, o :: os => exec cmp (step cmp m o).1 os

/-- the pairs an iterator over `[start, limit)` ranges over -/
def slice (cmp : Cmp) (start limit : Option Bytes) (m : SMap) : SMap :=
  m.filter fun p =>
    (match start with | some s => cmp p.1 s != .lt | none => true) &&
    (match limit with | some l => cmp p.1 l == .lt | none => true)

/-- the `ge` test handed to `Cursor.seek` -/
def ge (cmp : Cmp) (k : Bytes) (p : Bytes × Bytes) : Bool := cmp p.1 k != .lt

end SMap

/-- the sorted association list a table stands for -/
def DB.abs (db : DB) : SMap := db.level0.map fun k => (k, db.value k)

/-! ## contract of the comparer, invariant of the representation -/

/-- `comparer.BasicComparer` as the table needs it: a strict total order that identifies only identical
byte strings -/
structure LawfulCmp (cmp : Cmp) : Prop where
  refl   : ∀ a, cmp a a = .eq
  eq_of  : ∀ a b, cmp a b = .eq → a = b
  gt_iff : ∀ a b, cmp a b = .gt ↔ cmp b a = .lt
  trans  : ∀ a b c, cmp a b = .lt → cmp b c = .lt → cmp a c = .lt

abbrev Sorted (cmp : Cmp) (l : List Bytes) : Prop := l.Pairwise fun a b => cmp a b = .lt

/-- every level is strictly sorted, every higher level is a sublist of every lower one (adjacent levels in
particular), level 0 is the domain of the map, and the counters say what the contents are -/
structure Inv (cmp : Cmp) (db : DB) : Prop where
  ne : db.levels ≠ []
  height : db.levels.length ≤ Gen.tMaxHeight
  sorted : ∀ l ∈ db.levels, Sorted cmp l
  towers : db.levels.Pairwise fun lo hi => hi.Sublist lo
  dom : ∀ k, k ∈ db.level0 ↔ (db.kv.lookup k).isSome
  len : db.n = db.level0.length
  size : db.kvSize = SMap.size db.abs

end GoLevel.MemDB
