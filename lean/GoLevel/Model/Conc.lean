import GoLevel.Model.LSM
/-!
# The concurrent DB as an interleaving transition system (C05, C03, C11)

One atomic step per critical section of the Go code; the LSM internals are abstracted to *entry
collections* (that a version's lookup equals `view` of its entries is layer C; here it enters only through
the definition "a read of sources S at sequence s returns `view c S k s`").

| step | Go code (critical section) |
|---|---|
| `writeInsert es` | `writeLocked`: `batch.putMem(seq, mdb)` for (part of) the merged group, `seq = db.seq+1…`, under the write lock |
| `publish` | `writeLocked`: `db.addSeq(n)` (after every `putMem` of the group) |
| `seqSkip n` | `writeLocked`, journal-error path: `db.addSeq(n)` without any insertion — the numbers of a failed group are consumed, never handed out again (fix of D4) |
| `rotate` | `rotateMem`→`newMem` under `memMu`: needs `frozenMem == nil`; `frozenMem = mem; mem = new` (write lock held) |
| `flushInstall` | `memCompaction`: `compactionCommit("memdb")` → `session.commit` → `setVersion` (under `vmu`) |
| `flushDrop` | `memCompaction`: `dropFrozenMem` (under `memMu`), after the commit |
| `compStart` | `tableCompaction`: `minSeq := db.minSeq()` (under `snapsMu`) |
| `compCommit nt` | `tableCompaction`: `compactionCommit("table")` → `setVersion` |
| `snapAcquire`, `snapRelease` | `DB.GetSnapshot` / `Snapshot.Release` (`acquireSnapshot`/`releaseSnapshot` under `snapsMu`) |
| `rNew` | a `Get`/`NewIterator` call begins |
| `rSeq i` | `DB.Get`/`DB.NewIterator`: `acquireSnapshot` — reads `db.seq` and registers it, under `snapsMu` |
| `rSeqSnap i id` | `Snapshot.Get`/`Snapshot.NewIterator`: takes `snap.elem.seq` under `snap.mu.RLock` (which keeps the element registered: modelled as one more registration owned by the reader) |
| `rMems i` | `db.get`/`newRawIterator`: `getMems()` — both buffers under one `memMu.RLock` |
| `rVer i` | `db.get`/`newRawIterator`: `s.version()` (under `vmu`), after `getMems` |
| `rLookup i k` | `memGet` on mem, frozen, then `version.get` (for an iterator: any number of them, any time later) |
| `rRelease i` | `releaseSnapshot` (deferred in `DB.Get`; `dbIter.Release`; end of `snap.mu.RLock`) |
| `trOpen` … `trDiscard` | `OpenTransaction`, `Transaction.put`, `Transaction.Get`, `Commit` (`s.commit` then `setSeq`), `Discard` (`discard`: `if tr.seq > db.getSeq() { db.setSeq(tr.seq) }` — the numbers the transaction used are skipped, fix of D16 — then the private tables are removed) |

Buffers are referred to by id and read *at lookup time* (a memdb is shared and keeps growing after a
reader has pinned it); table collections are copied (versions are immutable).
`hist` is ghost: every entry that was inserted by a writer or published by a transaction commit; it only grows.
A transaction's private entries enter `hist` at `trPublish`; a discarded transaction never touches it
(but `pub` jumps over the numbers it used: sequence numbers may have *gaps*, an entry never exists twice).
`floor`, `groups`, `Reader.live` are ghost too.

## what each guard assumes about the code (to be checked on recorded runs)

* `writeInsert`/`publish`/`rotate`/`trOpen`…: mutually exclusive through the write lock (`pending = []`,
  `tr = none`); a group's entries carry the consecutive sequence numbers `db.seq+1…` (`consec`) and are all
  inserted before `db.addSeq`.
* `rotate`: `frozenMem == nil`, the new buffer is empty and unknown to everybody.
* `flushInstall` puts exactly the frozen buffer's entries into the version; `flushDrop` comes after it
  (`flushed`).  (`Cfg.dropEarly` lifts this: `C05.dropEarly_breaks`.)
* `compStart`: `minSeq` = min(registered snapshots, `db.seq`) read atomically (`snapsMu`).
  `compCommit nt`: `nt ⊆` current tables, and for all `s ≥ minSeq` the new collection answers like the
  current one (`guardP`).  For goleveldb this is the correctness of `tableCompactionBuilder.run` (layer C)
  *plus* the fact that whatever was added to the version since the compaction pinned its own is newer
  than everything it pinned — true for flushes, true for transactions only under the next assumption.
* `trOpen`: write buffer empty **and no frozen buffer pending** (`frozen = none`).  The code ensures the
  first (`rotateMem(0, true)` when `mem.Len() != 0`) but not the second: when the write buffer is empty
  while a flush is still running (e.g. `CompactRange` has just rotated and released the write lock),
  `OpenTransaction` proceeds.  `Cfg.trOverFrozen` lifts the guard: `C05.trOverFrozen_stale_read` (a `Get`
  right after `Commit` returns the deleted value, because the pending frozen buffer is consulted before
  the tables) and `C05.trOverFrozen_breaks` (a table compaction then drops the tombstone and the late flush
  resurrects the value for good) are the resulting traces; both were reproduced against the Go code.
* `rSeq`/`rSeqSnap`: the reader's position stays registered (snapshot list element, or `snap.mu.RLock`)
  until it has pinned the version (`rRelease` needs `ver? ≠ none`); `rMems` before `rVer`
  (`Cfg.verFirst` lifts this: `C05.verFirst_breaks`); both buffers under one `memMu.RLock`.
* `seqSkip n`: under the write lock with nothing inserted (`pending = []`, `tr = none`).
* `trPut`: sequence numbers `tr.seq+1…`, only before the commit; `trInstall` before `trPublish`;
  `trDiscard` only before `trInstall`, and it moves `db.seq` over the transaction's numbers
  (`Cfg.discardReusesSeq` = the old code: `C11.discardReuse_breaks`); `trGet` reads private entries, buffers, version atomically w.r.t.
  the other transaction methods (`tr.lk`), not w.r.t. flushes and compactions.
-/
namespace GoLevel.Conc

/-- who owns an element of the snapshot list `db.snapsList` -/
inductive Owner
  | user (id : Nat)       -- a `*Snapshot` handed to the client
  | reader (i : Nat)      -- the registration held by a running `Get` / iterator
deriving DecidableEq, Repr

/-- one `Get` call or one iterator (`dbIter` on a fixed (seq, mems, version) triple) -/
structure Reader where
  seq?  : Option Nat := none
  /-- ghost: the sequence number was read from `db.seq` (`DB.Get`), not from a `Snapshot` -/
  live  : Bool := true
  /-- holds an element of the snapshot list -/
  reg   : Bool := false
  mems? : Option (Nat × Option Nat) := none
  ver?  : Option (List Entry) := none
  results : List (Bytes × Option Bytes) := []
deriving DecidableEq, Repr

structure TrState where
  base : Nat
  /-- private memdb and private tables, together -/
  priv : List Entry
  installed : Bool
  /-- `Transaction.Get` results: key, sequence number used, value -/
  results : List (Bytes × Nat × Option Bytes)
deriving DecidableEq, Repr

/-- ghost record of one publication: the entries that became visible when `pub` went from `lo` to `hi` -/
structure Group where
  lo : Nat
  hi : Nat
  es : List Entry
deriving DecidableEq, Repr

structure State where
  hist    : List Entry := []
  pub     : Nat := 0
  bufs    : List (Nat × List Entry) := []
  mem     : Nat := 0
  frozen  : Option Nat := none
  /-- the frozen buffer's table is already part of the current version -/
  flushed : Bool := false
  tabs    : List Entry := []
  snaps   : List (Owner × Nat) := []
  nextId  : Nat := 1
  pending : List Entry := []
  tr      : Option TrState := none
  comp    : Option Nat := none
  floor   : Nat := 0
  groups  : List Group := []
  readers : List Reader := []
deriving DecidableEq, Repr

def init : State := {}

/-- the variants used for the negative results; `Cfg.real` is goleveldb -/
structure Cfg where
  /-- `dropFrozenMem` may run before the flush commit -/
  dropEarly : Bool := false
  /-- a reader may take the version before the buffers -/
  verFirst : Bool := false
  /-- `OpenTransaction` does not wait for a frozen buffer to be flushed -/
  trOverFrozen : Bool := false
  /-- `Discard` leaves `db.seq` alone (the code before the fix of D16): the next write reuses the numbers -/
  discardReusesSeq : Bool := false
deriving DecidableEq, Repr

def Cfg.real : Cfg := {}

inductive Action
  | writeInsert (es : List Entry)
  | publish
  | seqSkip (n : Nat)
  | rotate
  | flushInstall
  | flushDrop
  | compStart
  | compCommit (newTabs : List Entry)
  | snapAcquire
  | snapRelease (id : Nat)
  | rNew
  | rSeq (i : Nat)
  | rSeqSnap (i : Nat) (id : Nat)
  | rMems (i : Nat)
  | rVer (i : Nat)
  | rLookup (i : Nat) (k : Bytes)
  | rRelease (i : Nat)
  | trOpen
  | trPut (e : Entry)
  | trGet (k : Bytes)
  | trInstall
  | trPublish
  | trDiscard
deriving DecidableEq, Repr

/-! ## helpers -/

def getBuf (σ : State) (id : Nat) : List Entry := (σ.bufs.lookup id).getD []
def memBuf (σ : State) : List Entry := getBuf σ σ.mem
def optBuf (σ : State) : Option Nat → List Entry
  | some f => getBuf σ f
  | none => []
def frozenBuf (σ : State) : List Entry := optBuf σ σ.frozen

def privOf : Option TrState → List Entry
  | some t => t.priv
  | none => []

/-- private entries that are not part of the version yet -/
def privOut : Option TrState → List Entry
  | some t => if t.installed then [] else t.priv
  | none => []

/-- everything that is or may become visible: history plus the open transaction's entries -/
def univ (σ : State) : List Entry := σ.hist ++ privOf σ.tr

/-- what a reader that pinned buffers `mf` and table collection `ver` consults -/
def readSrc (σ : State) (mf : Nat × Option Nat) (ver : List Entry) : List Entry :=
  getBuf σ mf.1 ++ optBuf σ mf.2 ++ ver

/-- `DB.get` as the code does it, at the level of entry collections: the sources are consulted in order
(write buffer, frozen buffer, version) and the first one that holds an entry of `k` at or below `s` decides
(`memGet` returning `ok`), even if it is a deletion.  The reader steps use `view` of the union instead;
`C05.lookup_order_irrelevant` shows that for every reachable reader this is the same. -/
def scView (c : UCmp) : List (List Entry) → Bytes → Nat → Option Bytes
  | [], _, _ => none
  | S :: rest, k, s =>
    match newest c S k s with
    | some e => e.hit.toOption
    | none => scView c rest k s

/-- `es` carry the consecutive sequence numbers `b+1, b+2, …` -/
def consec : Nat → List Entry → Bool
  | _, [] => true
  | b, e :: r => e.seq == b + 1 && consec (b + 1) r

/-- `db.minSeq()`: the oldest registered snapshot, or `db.seq` -/
def minSeq (σ : State) : Nat := (σ.snaps.map (·.2)).foldl min σ.pub

def setReader (σ : State) (i : Nat) (r : Reader) : State := { σ with readers := σ.readers.set i r }

/-! ## the steps -/

def doWriteInsert (σ : State) (es : List Entry) : Option State :=
  if σ.tr = none ∧ consec (σ.pub + σ.pending.length) es = true then
    some { σ with hist := σ.hist ++ es, bufs := (σ.mem, memBuf σ ++ es) :: σ.bufs, pending := σ.pending ++ es }
  else none

def doPublish (σ : State) : Option State :=
  if σ.tr = none then
    some { σ with pub := σ.pub + σ.pending.length, pending := [],
                  groups := ⟨σ.pub, σ.pub + σ.pending.length, σ.pending⟩ :: σ.groups }
  else none

/-- `db.addSeq(n)` with nothing inserted: a gap in the sequence numbers (ghost: a group without entries) -/
def doSeqSkip (σ : State) (n : Nat) : Option State :=
  if σ.tr = none ∧ σ.pending = [] then
    some { σ with pub := σ.pub + n, groups := ⟨σ.pub, σ.pub + n, []⟩ :: σ.groups }
  else none

def doRotate (σ : State) : Option State :=
  if σ.tr = none ∧ σ.pending = [] ∧ σ.frozen = none then
    some { σ with frozen := some σ.mem, mem := σ.nextId, nextId := σ.nextId + 1, flushed := false }
  else none

def doFlushInstall (σ : State) : Option State :=
  match σ.frozen with
  | some f => if σ.flushed = false then some { σ with tabs := σ.tabs ++ getBuf σ f, flushed := true } else none
  | none => none

def doFlushDrop (cfg : Cfg) (σ : State) : Option State :=
  if σ.frozen ≠ none ∧ (σ.flushed = true ∨ cfg.dropEarly = true) then
    some { σ with frozen := none, flushed := false }
  else none

def doCompStart (σ : State) : Option State :=
  if σ.comp = none then some { σ with comp := some (minSeq σ), floor := minSeq σ } else none

def doCompCommit (σ : State) (nt : List Entry) : Option State :=
  match σ.comp with
  | some _ => if nt.all (fun e => decide (e ∈ σ.tabs)) = true then some { σ with tabs := nt, comp := none } else none
  | none => none

def doSnapAcquire (σ : State) : Option State :=
  some { σ with snaps := σ.snaps ++ [(.user σ.nextId, σ.pub)], nextId := σ.nextId + 1 }

def doSnapRelease (σ : State) (id : Nat) : Option State :=
  some { σ with snaps := σ.snaps.filter (fun p => decide (p.1 ≠ .user id)) }

def doRNew (σ : State) : Option State := some { σ with readers := σ.readers ++ [{}] }

def doRSeq (σ : State) (i : Nat) : Option State :=
  match σ.readers[i]? with
  | some r =>
    if r.seq? = none then
      some { σ with readers := σ.readers.set i { r with seq? := some σ.pub, live := true, reg := true },
                    snaps := σ.snaps ++ [(.reader i, σ.pub)] }
    else none
  | none => none

def doRSeqSnap (σ : State) (i id : Nat) : Option State :=
  match σ.readers[i]?, σ.snaps.lookup (.user id) with
  | some r, some s =>
    if r.seq? = none then
      some { σ with readers := σ.readers.set i { r with seq? := some s, live := false, reg := true },
                    snaps := σ.snaps ++ [(.reader i, s)] }
    else none
  | _, _ => none

def doRMems (cfg : Cfg) (σ : State) (i : Nat) : Option State :=
  match σ.readers[i]? with
  | some r =>
    if r.seq? ≠ none ∧ r.mems? = none ∧ (r.ver? = none ∨ cfg.verFirst = true) then
      some (setReader σ i { r with mems? := some (σ.mem, σ.frozen) })
    else none
  | none => none

def doRVer (cfg : Cfg) (σ : State) (i : Nat) : Option State :=
  match σ.readers[i]? with
  | some r =>
    if r.seq? ≠ none ∧ r.ver? = none ∧ (r.mems? ≠ none ∨ cfg.verFirst = true) then
      some (setReader σ i { r with ver? := some σ.tabs })
    else none
  | none => none

def doRLookup (c : UCmp) (σ : State) (i : Nat) (k : Bytes) : Option State :=
  match σ.readers[i]? with
  | some r =>
    match r.seq?, r.mems?, r.ver? with
    | some s, some mf, some v =>
      some (setReader σ i { r with results := r.results ++ [(k, view c (readSrc σ mf v) k s)] })
    | _, _, _ => none
  | none => none

def doRRelease (σ : State) (i : Nat) : Option State :=
  match σ.readers[i]? with
  | some r =>
    if r.reg = true ∧ r.mems? ≠ none ∧ r.ver? ≠ none then
      some { σ with readers := σ.readers.set i { r with reg := false },
                    snaps := σ.snaps.filter (fun p => decide (p.1 ≠ .reader i)) }
    else none
  | none => none

def doTrOpen (cfg : Cfg) (σ : State) : Option State :=
  if σ.tr = none ∧ σ.pending = [] ∧ memBuf σ = [] ∧ (σ.frozen = none ∨ cfg.trOverFrozen = true) then
    some { σ with tr := some ⟨σ.pub, [], false, []⟩ }
  else none

def doTrPut (σ : State) (e : Entry) : Option State :=
  match σ.tr with
  | some t =>
    if t.installed = false ∧ e.seq = t.base + t.priv.length + 1 then
      some { σ with tr := some { t with priv := t.priv ++ [e] } }
    else none
  | none => none

def doTrGet (c : UCmp) (σ : State) (k : Bytes) : Option State :=
  match σ.tr with
  | some t =>
    if t.installed = false then
      let s := t.base + t.priv.length
      some { σ with tr := some { t with
        results := t.results ++ [(k, s, view c (t.priv ++ (memBuf σ ++ frozenBuf σ ++ σ.tabs)) k s)] } }
    else none
  | none => none

def doTrInstall (σ : State) : Option State :=
  match σ.tr with
  | some t =>
    if t.installed = false then
      some { σ with tabs := σ.tabs ++ t.priv, tr := some { t with installed := true } }
    else none
  | none => none

def doTrPublish (σ : State) : Option State :=
  match σ.tr with
  | some t =>
    if t.installed = true then
      some { σ with hist := σ.hist ++ t.priv, pub := t.base + t.priv.length, tr := none,
                    groups := ⟨t.base, t.base + t.priv.length, t.priv⟩ :: σ.groups }
    else none
  | none => none

def doTrDiscard (cfg : Cfg) (σ : State) : Option State :=
  match σ.tr with
  | some t =>
    if t.installed = false then
      some (if cfg.discardReusesSeq = true then { σ with tr := none }
            else { σ with tr := none, pub := max σ.pub (t.base + t.priv.length),
                          groups := ⟨σ.pub, max σ.pub (t.base + t.priv.length), []⟩ :: σ.groups })
    else none
  | none => none

/-- the executable part of a step: decidable guard and successor state -/
def step (cfg : Cfg) (c : UCmp) (σ : State) : Action → Option State
  | .writeInsert es => doWriteInsert σ es
  | .publish => doPublish σ
  | .seqSkip n => doSeqSkip σ n
  | .rotate => doRotate σ
  | .flushInstall => doFlushInstall σ
  | .flushDrop => doFlushDrop cfg σ
  | .compStart => doCompStart σ
  | .compCommit nt => doCompCommit σ nt
  | .snapAcquire => doSnapAcquire σ
  | .snapRelease id => doSnapRelease σ id
  | .rNew => doRNew σ
  | .rSeq i => doRSeq σ i
  | .rSeqSnap i id => doRSeqSnap σ i id
  | .rMems i => doRMems cfg σ i
  | .rVer i => doRVer cfg σ i
  | .rLookup i k => doRLookup c σ i k
  | .rRelease i => doRRelease σ i
  | .trOpen => doTrOpen cfg σ
  | .trPut e => doTrPut σ e
  | .trGet k => doTrGet c σ k
  | .trInstall => doTrInstall σ
  | .trPublish => doTrPublish σ
  | .trDiscard => doTrDiscard cfg σ

/-- the semantic (not decidable) part of a guard: what a table compaction may do to the table
collection — for every reader position at or above the `minSeq` it read at its start, the new collection
answers like the old one (rules (A)/(B) of `tableCompactionBuilder.run`, layer C). -/
def guardP (c : UCmp) (σ : State) : Action → Prop
  | .compCommit nt => ∀ m, σ.comp = some m → ∀ k s, m ≤ s → view c nt k s = view c σ.tabs k s
  | _ => True

def Step (cfg : Cfg) (c : UCmp) (σ : State) (a : Action) (σ' : State) : Prop :=
  step cfg c σ a = some σ' ∧ guardP c σ a

/-- finite executions, last step last -/
inductive Steps (cfg : Cfg) (c : UCmp) : State → State → Prop
  | refl (σ : State) : Steps cfg c σ σ
  | tail {σ σ₁ σ₂ : State} (a : Action) : Steps cfg c σ σ₁ → Step cfg c σ₁ a σ₂ → Steps cfg c σ σ₂

def Reachable (cfg : Cfg) (c : UCmp) (σ : State) : Prop := Steps cfg c init σ

/-- run a list of actions, checking the decidable guards (the semantic guard is discharged separately) -/
def run (cfg : Cfg) (c : UCmp) (σ : State) : List Action → Option State
  | [] => some σ
  | a :: as =>
    match step cfg c σ a with
    | some σ' => run cfg c σ' as
    | none => none

/-- actions whose guard is entirely decidable -/
def Action.plain : Action → Bool
  | .compCommit _ => false
  | _ => true

end GoLevel.Conc
