import GoLevel.Model.Batch
import GoLevel.Model.Manifest
import GoLevel.Model.Disk
/-!
# The durable state machine, part 1: what `leveldb.Open` makes of a storage image

`Dur.recover` mirrors `session.recover` (manifest replay), `openDB`/`DB.recoverJournal` (journal replay)
and the "missing table files" test of `DB.checkAndCleanFiles`, as a pure function of a byte-level
`Image`.  A table's content is given as its entry list (what C13 proves the file yields).
The second part (`Dur.Step`, the protocol) is in the lower half of this file.
-/
namespace GoLevel.Dur
open GoLevel GoLevel.Manifest

/-- a storage image at the level of `storage.Storage`: `CURRENT` (`GetMeta`), manifest and journal files as
    bytes, table files as entry lists (`none` = present but unreadable) -/
structure Image where
  current   : Option Nat := none
  manifests : List (Nat × Bytes) := []
  journals  : List (Nat × Bytes) := []
  tables    : List (Nat × Option (List Entry)) := []
deriving Repr

/-- how `Open` failed -/
inductive ErrClass
  /-- `errors.ErrMissingFiles` wrapped in `ErrCorrupted` (`checkAndCleanFiles`) -/
  | missingFiles
  /-- any other `errors.ErrCorrupted` -/
  | corrupted
  /-- anything else (e.g. the bare `io.EOF` of `Manifest.DecErr.eof`) -/
  | other
deriving DecidableEq, Repr

/-- `opt.Strict` bits consulted on the way; the defaults are those of `opt.DefaultStrict` -/
structure StrictFlags where
  manifest : Bool := false            -- StrictManifest
  journal : Bool := false             -- StrictJournal
  journalChecksum : Bool := true      -- StrictJournalChecksum
deriving DecidableEq, Repr

/-- Where the model can follow either the code as it was found or its repair.  The default instance is
    the repaired code. -/
structure Cfg where
  /-- D22.  `session.recover` decodes every manifest record into one re-used `sessionRecord`.  `true`: a
      record that fails to decode (and is skipped by the tolerant replay) leaves no trace — the receiver is
      restored.  `false` (the code as found): the scalar fields decoded before the failure (journal number,
      sequence number, next file number, comparer) stay in the receiver although the record's table changes
      are discarded — a torn record that straddles a 32 KiB block boundary moves the journal number
      forward without adding the flushed table. -/
  failedRecordLeavesNoTrace : Bool := true
  /-- D2 (repaired in the tree): the commit that rotates the manifest hands its journal and sequence
      numbers to `newManifest`.  `false`: the snapshot record is filled from the session's old values. -/
  rotationCarriesNums : Bool := true
  /-- D4.  `true`: the sequence numbers of a write group whose journal `Write`/`Flush`/`Sync` failed are
      consumed.  `false` (the code as found): `writeLocked` returns before `addSeq`, the next group re-uses
      them, and `decodeBatchToMem` drops that group at the next `Open`. -/
  consumeSeqOnJournalError : Bool := true
  /-- protocol variant for a negative result: `false` = the flushed journal is removed as soon as the edit
      has been appended, before the manifest `Sync` -/
  editSyncedBeforeJournalRemoval : Bool := true
  /-- protocol variant for a negative result: `false` = `newManifest` calls `SetMeta` before `Sync` -/
  manifestSyncedBeforeSetMeta : Bool := true
  /-- D10.  `true` (repaired, commit 5cf4e90): `Transaction.discard` returns before its removal loop while
      `session.manifestUncertain()` — the last append to the manifest failed, its record may be in the file.
      `false` (the code as found): the transaction's tables are removed whatever the manifest holds. -/
  discardKeepsTablesWhenUncertain : Bool := true
  /-- D26.  `true` (repaired, commit 8a67fea): the error cleanup of `newManifest` asks `GetMeta` and keeps the new
      manifest when the storage names it as current (`SetMeta` reported an error after it took effect); the
      commit still fails, `manifestFailed` is set.  `false` (the code as found): the new manifest is removed. -/
  cleanupChecksCurrent : Bool := true
  /-- D26, second part.  `true` (commit 98bd5c2): once `SetMeta` has been attempted (`metaTried`) the cleanup keeps the
      new manifest also when that `GetMeta` fails (`gerr != nil || cur == fd`).  `false` (commit 8a67fea alone): a
      failing `GetMeta` lets the cleanup fall through to `Remove` — also of the manifest `CURRENT` names. -/
  cleanupKeepsWhenGetMetaFails : Bool := true
  /-- D12.  `true` (repaired, commit 1dcbac1): when `GetMeta` says "not exist", `session.recover` refuses the
      storage as corrupted only if it holds a journal or a table; manifests alone (what a crash inside the creation
      of the DB leaves) count as "no DB": `Open` creates it.  `false` (the code as found): any file at all makes
      `Open` fail with "database entry point either missing or corrupted". -/
  manifestsAloneAreNoDB : Bool := true
deriving DecidableEq, Repr

/-! ## `session.recover` -/

/-- `versionStaging` over an empty base version: per level the added tables by number.  One list of
    `(level, num)`-keyed records; `commit` first handles the deletions, then the additions. -/
abbrev Staging := List AddedTable

def Staging.del (st : Staging) (level num : Nat) : Staging :=
  st.filter fun t => !(t.level = level && t.num = num)

def Staging.add (st : Staging) (t : AddedTable) : Staging := st.del t.level t.num ++ [t]

/-- `versionStaging.commit` -/
def Staging.commit (st : Staging) (r : SessionRecord) : Staging :=
  let st := r.deleted.foldl (fun s d => Staging.del s d.1 d.2) st
  r.added.foldl Staging.add st

/-- state of the replay loop of `session.recover` -/
structure ReplayState where
  cur : SessionRecord := {}
  staging : Staging := []
deriving Repr

/-- one round of the `for` loop: `rec.decode(r)`, then commit-or-skip, then the three resets.
    `none` = the function returns the error class. -/
def replayStep (cfg : Cfg) (strict : Bool) (s : ReplayState) (payload : Bytes) (complete : Bool) :
    Except ErrClass ReplayState :=
  match decodeInto s.cur payload complete with
  | (p, none) => .ok ⟨p.resetLists, s.staging.commit p⟩
  | (p, some .corrupted) =>
    if strict then .error .corrupted
    else .ok ⟨(if cfg.failedRecordLeavesNoTrace then s.cur else p).resetLists, s.staging⟩
  | (_, some .eof) => .error .other

def replayAll (cfg : Cfg) (strict : Bool) : ReplayState → List (Bytes × Bool) → Except ErrClass ReplayState
  | s, [] => .ok s
  | s, (p, c) :: rest =>
    match replayStep cfg strict s p c with
    | .ok s' => replayAll cfg strict s' rest
    | .error e => .error e

/-- what `session.recover` establishes -/
structure Session where
  live        : List AddedTable       -- the tables of `staging.finish`
  journalNum  : Nat                   -- stJournalNum
  prevJournalNum : Nat                -- stPrevJournalNum (0 when never set)
  nextFileNum : Nat
  seqNum      : Nat                   -- stSeqNum
deriving Repr

/-- `session.recover` on the manifest bytes (comparer name `cmpName` = `icmp.uName()`) -/
def recoverSession (cfg : Cfg) (cmpName : Bytes) (strict : Bool) (manifest : Bytes) :
    Except ErrClass Session :=
  let rd := readRecords strict manifest
  match replayAll cfg strict {} rd.1 with
  | .error e => .error e
  | .ok s =>
    if rd.2 = .corrupt then .error .corrupted       -- strict reader: `jr.Next` returned `ErrCorrupted`
    else
      match s.cur.comparer, s.cur.nextFileNum, s.cur.journalNum, s.cur.seqNum with
      | some name, some nf, some jn, some sq =>
        if name ≠ cmpName then .error .corrupted
        else .ok ⟨s.staging, jn, s.cur.prevJournalNum.getD 0, nf, sq⟩
      | _, _, _, _ => .error .corrupted

/-! ## `DB.recoverJournal` -/

/-- sort file numbers ascending (`sortFds`) -/
def insertNum (n : Nat) : List Nat → List Nat
  | [] => [n]
  | x :: xs => if n ≤ x then n :: x :: xs else x :: insertNum n xs

def sortNums (ns : List Nat) : List Nat := ns.foldr insertNum []

/-- state of the journal replay: `db.seq` and everything put into the recovery memdb(s) so far -/
structure JState where
  seq : Nat
  puts : List Entry := []
deriving Repr

/-- the body of the inner `for` loop for one delivered record -/
def journalRecord (strict : Bool) (s : JState) (payload : Bytes) : Except ErrClass JState :=
  let r := Batch.decodeToMem payload s.seq
  match r.res with
  | .ok (bseq, blen) => .ok ⟨bseq + blen, s.puts ++ r.puts⟩
  | .error _ => if strict then .error .corrupted else .ok ⟨s.seq, s.puts ++ r.puts⟩

def journalRecords (strict : Bool) : JState → List Bytes → Except ErrClass JState
  | s, [] => .ok s
  | s, p :: rest =>
    match journalRecord strict s p with
    | .ok s' => journalRecords strict s' rest
    | .error e => .error e

/-- one journal file -/
def journalFile (f : StrictFlags) (s : JState) (bytes : Bytes) : Except ErrClass JState :=
  let d := Journal.decode f.journal f.journalChecksum bytes
  match journalRecords f.journal s d.records with
  | .error e => .error e
  | .ok s' => if d.final = .corrupt then .error .corrupted else .ok s'

def journalFiles (f : StrictFlags) : JState → List Bytes → Except ErrClass JState
  | s, [] => .ok s
  | s, b :: rest =>
    match journalFile f s b with
    | .ok s' => journalFiles f s' rest
    | .error e => .error e

/-- the journal numbers `recoverJournal` replays, ascending -/
def replayNums (journalNum prevJournalNum : Nat) (journals : List Nat) : List Nat :=
  sortNums (journals.filter fun n => n ≥ journalNum || n = prevJournalNum)

/-! ## the result -/

structure RecoveredState where
  session  : Session
  /-- numbers of the journal files replayed, in order -/
  replayed : List Nat
  /-- entries of the live tables of the recovered version -/
  tableEntries : List Entry
  /-- entries replayed from the journals (they end up in level-0 tables written by the recovery) -/
  journalEntries : List Entry
  /-- `db.seq` when `Open` returns -/
  seq : Nat
deriving Repr

def RecoveredState.entries (st : RecoveredState) : List Entry := st.tableEntries ++ st.journalEntries

/-- the entries of the live tables; `none` if one is absent, `some none`-content counts as unreadable -/
def gatherTables (tables : List (Nat × Option (List Entry))) : List Nat → Except ErrClass (List Entry)
  | [] => .ok []
  | n :: ns =>
    match lookup tables n with
    | none => .error .missingFiles
    | some none =>
      -- `Open` itself succeeds (tables are opened lazily); every read that touches the table fails
      match gatherTables tables ns with
      | .error .missingFiles => .error .missingFiles
      | _ => .error .corrupted
    | some (some es) =>
      match gatherTables tables ns with
      | .ok rest => .ok (es ++ rest)
      | .error e => .error e

/-- `leveldb.Open` on an image -/
def recover (cfg : Cfg) (cmpName : Bytes) (f : StrictFlags) (img : Image) :
    Except ErrClass RecoveredState :=
  let fresh : RecoveredState := ⟨⟨[], 0, 0, 0, 0⟩, [], [], [], 0⟩
  let anyFile := !(img.manifests.isEmpty && img.journals.isEmpty && img.tables.isEmpty)
  let anyData := !(img.journals.isEmpty && img.tables.isEmpty)
  match img.current with
  | none =>                                                        -- `os.ErrNotExist` ⇒ `s.create()`
    if (if cfg.manifestsAloneAreNoDB then anyData else anyFile) then .error .corrupted else .ok fresh
  | some m =>
    match lookup img.manifests m with
    | none => if anyFile then .error .corrupted else .ok fresh
    | some mbytes =>
      match recoverSession cfg cmpName f.manifest mbytes with
      | .error e => .error e
      | .ok s =>
        let nums := replayNums s.journalNum s.prevJournalNum (img.journals.map (·.1))
        let files := nums.filterMap (lookup img.journals)
        match journalFiles f ⟨s.seqNum, []⟩ files with
        | .error e => .error e
        | .ok js =>
          match gatherTables img.tables (s.live.map (·.num)) with
          | .error e => .error e
          | .ok tes => .ok ⟨s, nums, tes, js.puts, js.seq⟩

/-- `leveldb.Recover` on an image (`recoverTable` + `openDB`): the manifest and `CURRENT` are ignored; every
    table file, in file-number order, goes to level 0 with the entries that can still be read (an unreadable
    table or one without a readable entry is dropped); `seqNum` is the largest sequence number seen in them;
    the fresh manifest has journal number 0, so every journal file is replayed, in file-number order, by the
    same `recoverJournal` as in `recover`.  The image-level counterpart of `Dur.rebuild` (C19). -/
def rebuildImage (f : StrictFlags) (img : Image) : Except ErrClass RecoveredState :=
  let tnums := sortNums (img.tables.map (·.1))
  let tabs : List (Nat × List Entry) := tnums.filterMap fun n =>
    match lookup img.tables n with
    | some (some es) => if es.isEmpty then none else some (n, es)
    | _ => none
  let tes := tabs.flatMap (·.2)
  let mseq := tes.foldl (fun m e => max m e.seq) 0
  let nums := sortNums (img.journals.map (·.1))
  let files := nums.filterMap (lookup img.journals)
  match journalFiles f ⟨mseq, []⟩ files with
  | .error e => .error e
  | .ok js =>
    .ok ⟨⟨tabs.map fun t => ⟨0, t.1, 0, [], []⟩, 0, 0, 0, mseq⟩, nums, tes, js.puts, js.seq⟩

/-! ## logical contents -/

/-- insert a user key into a `c`-sorted duplicate-free list -/
def insertKey (c : UCmp) (k : Bytes) : List Bytes → List Bytes
  | [] => [k]
  | x :: xs =>
    match c.cmp k x with
    | .lt => k :: x :: xs
    | .eq => x :: xs
    | .gt => x :: insertKey c k xs

def sortedKeys (c : UCmp) (es : List Entry) : List Bytes := es.foldr (fun e acc => insertKey c e.ukey acc) []

/-- the live `(key, value)` pairs a reader at sequence `seq` sees in `es`, in comparer order -/
def contentsOf (c : UCmp) (es : List Entry) (seq : Nat) : List (Bytes × Bytes) :=
  (sortedKeys c es).filterMap fun k => (view c es k seq).map fun v => (k, v)

/-- what the reopened DB contains -/
def contents (c : UCmp) (st : RecoveredState) : List (Bytes × Bytes) := contentsOf c st.entries st.seq


/-!
# The durable state machine, part 2: the protocol at record granularity

`Dur.step` is a small-step machine over `(St, Disk)`.  Its steps are the storage actions of the code, in
the code's order, for

* a write group (`DB.writeLocked`/`writeJournal`): journal append, `Sync` if requested, `putMem`, `addSeq`,
  acknowledgement — `Act.wAppend … wAck`;
* `DB.newMem` (`rotate`): create the next journal, freeze the buffer;
* every `session.commit` with what surrounds it, as a `Job`: output tables created / written / synced one by
  one, [`newMem` for the final commit of a recovery], the edit appended to the manifest and synced
  (`flushManifest`) **or** the manifest rotated (`newManifest`: create, snapshot record, `Sync`, `SetMeta`,
  remove the old one), the in-memory installation (`setVersion`, `recordCommited`), the deferred removals.
  A memdb flush (`memCompaction`), the commits of `recoverJournal`, a table compaction and a transaction
  commit are instances;
* a crash at any point (`Act.crash`), and recovery itself as steps (`recOpen`, `recStep` + jobs), so that a
  crash during recovery is a crash at an ordinary point.

Every storage action carries an `Outcome`; the error paths are those of the code (`compactionTransact`
retries; `Open` gives up).  Ghost state: `St.issued`, the write groups in issue order with their
acknowledgement status.
-/

/-! ## reading at record granularity -/

/-- accumulated `sessionRecord` of the replay loop of `session.recover` -/
structure MAcc where
  live : List Nat := []
  jn : Option Nat := none
  sq : Option Nat := none
  nf : Option Nat := none
  cmp : Bool := false
deriving DecidableEq, Repr

/-- `versionStaging.commit` on table numbers: deletions, then additions (an added number replaces an
    earlier one) -/
def applyEdit (live : List Nat) (r : MRec) : List Nat :=
  (live.filter fun t => !(r.deleted.contains t) && !(r.added.contains t)) ++ r.added

def MAcc.step (cfg : Cfg) (a : MAcc) (r : MRec) : MAcc :=
  let scal : MAcc := { a with jn := r.jn <|> a.jn, sq := r.sq <|> a.sq, nf := some r.nf, cmp := a.cmp || r.snapshot }
  if r.torn then (if cfg.failedRecordLeavesNoTrace then a else scal)
  else { scal with live := applyEdit a.live r }

def replayM (cfg : Cfg) (rs : List MRec) : MAcc := rs.foldl (MAcc.step cfg) {}

/-- what `session.recover` establishes -/
structure MView where
  live : List Nat
  jn : Nat
  sq : Nat
  nf : Nat
deriving DecidableEq, Repr

/-- the required-fields test at the end of `session.recover` -/
def MAcc.view? (a : MAcc) : Option MView :=
  if a.cmp then
    match a.jn, a.sq, a.nf with
    | some j, some s, some f => some ⟨a.live, j, s, f⟩
    | _, _, _ => none
  else none

/-- the record loop of `recoverJournal` over the records of the replayed journals, in order: a group is
    applied iff its sequence number is not below `db.seq` (`decodeBatchToMem`) -/
def replayJ : Nat → List Grp → List Grp × Nat
  | seq, [] => ([], seq)
  | seq, g :: gs =>
    if g.seq < seq then replayJ seq gs
    else let r := replayJ g.fin gs; (g :: r.1, r.2)

/-- journals `recoverJournal` replays (there is no previous-journal number in manifests written by this
    implementation), ascending -/
def journalsFrom (d : Disk) (jn : Nat) : List Nat := sortNums (d.journals.nums.filter (· ≥ jn))

def journalRecs (d : Disk) (nums : List Nat) : List Grp :=
  nums.flatMap fun n => ((lookup d.journals n).map (·.all)).getD []

/-- the groups held by the given tables; `missingFiles` / `corrupted` as `Dur.gatherTables` -/
def tableGroups (d : Disk) : List Nat → Except ErrClass (List Grp)
  | [] => .ok []
  | n :: ns =>
    match lookup d.tables n with
    | none => .error .missingFiles
    | some t =>
      if t.bad then
        match tableGroups d ns with
        | .error .missingFiles => .error .missingFiles
        | _ => .error .corrupted
      else
        match tableGroups d ns with
        | .ok rest => .ok (t.grps ++ rest)
        | .error e => .error e

/-- result of `Open` at record granularity -/
structure RState where
  mv : MView
  replayed : List Nat
  tableGrps : List Grp
  journalGrps : List Grp
  seq : Nat
deriving DecidableEq, Repr

def RState.grps (r : RState) : List Grp := r.tableGrps ++ r.journalGrps
def RState.entries (r : RState) : List Entry := r.grps.flatMap Grp.ents

/-- `leveldb.Open` on a record-level disk (what the process sees: synced and unsynced parts alike) -/
def recoverR (cfg : Cfg) (d : Disk) : Except ErrClass RState :=
  let fresh : RState := ⟨⟨[], 0, 0, 0⟩, [], [], [], 0⟩
  let anyFile := !(d.manifests.isEmpty && d.journals.isEmpty && d.tables.isEmpty)
  let anyData := !(d.journals.isEmpty && d.tables.isEmpty)
  match d.current with
  | none => if (if cfg.manifestsAloneAreNoDB then anyData else anyFile) then .error .corrupted else .ok fresh
  | some m =>
    match lookup d.manifests m with
    | none => if anyFile then .error .corrupted else .ok fresh
    | some mf =>
      match (replayM cfg mf.all).view? with
      | none => .error .corrupted
      | some v =>
        let nums := journalsFrom d v.jn
        let r := replayJ v.sq (journalRecs d nums)
        match tableGroups d v.live with
        | .error e => .error e
        | .ok tg => .ok ⟨v, nums, tg, r.1, r.2⟩

/-- the reopened DB's answer for key `k` -/
def RState.get (c : UCmp) (r : RState) (k : Bytes) : Option Bytes := GoLevel.view c r.entries k r.seq

def RState.contents (c : UCmp) (r : RState) : List (Bytes × Bytes) := contentsOf c r.entries r.seq

/-! ## machine state -/

inductive Status
  /-- the call has not returned -/
  | pending
  /-- the call returned `nil` -/
  | acked
  /-- the call returned an error -/
  | failed
  /-- acknowledged without `Sync`, and the machine has crashed since: nothing is promised any more -/
  | unsure
deriving DecidableEq, Repr

structure Issue where
  grp : Grp
  status : Status
deriving DecidableEq, Repr

/-- where the writer is inside `writeLocked` -/
inductive WPc
  | idle
  | appended (g : Grp)      -- `journal.Next/Write/Flush` done
  | synced (g : Grp)        -- `journalWriter.Sync` done
  | applied (g : Grp)       -- `putMem` done
  | published (g : Grp)     -- `addSeq` done
deriving DecidableEq, Repr

/-- no group is in flight (the places where `writeLocked` may call `rotateMem`) -/
def WPc.quiet : WPc → Bool
  | .idle => true
  | .published _ => true
  | _ => false

inductive JobKind
  | flush | recovMid | recovFinal | compaction | tr
deriving DecidableEq, Repr

inductive JPc
  | tCreate (i : Nat) | tWrite (i : Nat) | tSync (i : Nat)
  | mkJournal
  | append
  | earlyRm                                   -- only with `editSyncedBeforeJournalRemoval = false`
  | rotWrite (m : Nat) | rotSync (m : Nat) | rotSetMeta (m : Nat) | rotRemove (m : Nat)
  | sync
  | install
  | rmJ (rest : List Nat) | rmT (rest : List Nat) | rmM (rest : List Nat)
  | done
deriving DecidableEq, Repr

/-- one `session.commit` with the storage actions around it -/
structure Job where
  kind : JobKind
  /-- output tables: number and content -/
  outs : List (Nat × List Grp) := []
  /-- the journal `newMem` creates before the commit (final commit of a recovery) -/
  mkJournal : Option Nat := none
  /-- the record to commit; `none`: nothing to commit (an empty frozen memdb is just dropped) -/
  edit : Option MRec := none
  rmJournals : List Nat := []
  rmTables : List Nat := []
  pc : JPc
deriving DecidableEq, Repr

/-- `recoverJournal`'s loop state -/
structure Recov where
  todo : List Nat
  ofd : Option Nat := none
  mdb : List Grp := []
deriving DecidableEq, Repr

inductive Phase
  | crashed | recovering | running
deriving DecidableEq, Repr

structure St where
  phase : Phase := .crashed
  -- `DB`
  seq : Nat := 0
  mem : List Grp := []
  frozen : Option (List Grp) := none
  frozenSeq : Nat := 0
  jcur : Nat := 0
  jfrozen : Option Nat := none
  -- `session`
  live : List Nat := []
  stJn : Nat := 0
  stSq : Nat := 0
  manifestFd : Option Nat := none
  manifestOpen : Bool := false
  nextFile : Nat := 0
  -- threads
  w : WPc := .idle
  job : Option Job := none
  recov : Option Recov := none
  /-- the open transaction: its entries so far, as the group they will be committed as -/
  tr : Option Grp := none
  /-- `session.manifestFailed`: an append to the manifest failed (its journal writer keeps the error, the record
      may be in the file): the next commit writes a fresh manifest (the repair of D8) -/
  manifestFailed : Bool := false
  -- ghost
  issued : List Issue := []
  /-- first sequence number no group has been given -/
  hi : Nat := 1
  /-- ghost: a journal `Write`/`Sync` of the write path has failed at some time (its record may sit in a journal) -/
  everFailed : Bool := false
  /-- ghost: the edit of a commit that was reported as failed although the manifest `CURRENT` names may show it (an
      append that failed with effect, a failed `Sync`, a `SetMeta` that failed with effect): the storage is one edit
      ahead of the session until the next successful `newManifest` -/
  limbo : Option MRec := none
deriving DecidableEq, Repr

inductive Act
  | wAppend (recs : List Batch.Rec) (sync : Bool) (o : Outcome)
  | wSync (o : Outcome)
  | wApply
  | wPublish
  | wAck
  | rotate (o : Outcome)
  | flushStart
  /-- the next action of the running job; `rot`: the manifest has reached `MaxManifestFileSize` -/
  | job (rot : Bool) (o : Outcome)
  | crash (ch : CrashChoice)
  /-- the process ends without a machine crash (`Close`, or a kill): the OS keeps everything written -/
  | exit
  | recOpen
  | recStep
  /-- a table compaction of the given live tables into one output table (not part of the proved core) -/
  | compactStart (inputs : List Nat)
  /-- `OpenTransaction` / `Transaction.Put…` / `Commit` / `Discard` (not part of the proved core) -/
  | trBegin
  | trPut (recs : List Batch.Rec)
  | trCommit
  | trDiscard

def setStatus (g : Grp) (st : Status) (l : List Issue) : List Issue :=
  l.map fun i => if i.grp = g then { i with status := st } else i

/-! ## the writer (`DB.writeLocked`) -/

def stepWriter (cfg : Cfg) (s : St) (d : Disk) : Act → Option (St × Disk)
  | .wAppend recs sync o =>
    if s.phase = .running ∧ s.w = .idle ∧ recs ≠ [] ∧ s.tr = none then
      let g : Grp := ⟨s.seq + 1, recs, sync⟩
      let d' := d.exec (.writeJ s.jcur g) o
      if o.failed then
        -- `writeJournal` returned an error: the call returns it; nothing is applied
        some ({ s with issued := s.issued ++ [⟨g, .failed⟩],
                       hi := if cfg.consumeSeqOnJournalError then g.fin else s.hi,
                       seq := if cfg.consumeSeqOnJournalError then g.fin - 1 else s.seq, everFailed := true }, d')
      else some ({ s with w := .appended g, issued := s.issued ++ [⟨g, .pending⟩], hi := g.fin }, d')
    else none
  | .wSync o =>
    match s.w with
    | .appended g =>
      if g.sync then
        let d' := d.exec (.sync .journal s.jcur) o
        if o.failed then
          some ({ s with w := .idle, issued := setStatus g .failed s.issued,
                         hi := if cfg.consumeSeqOnJournalError then s.hi else g.seq,
                         seq := if cfg.consumeSeqOnJournalError then g.fin - 1 else s.seq, everFailed := true }, d')
        else some ({ s with w := .synced g }, d')
      else none
    | _ => none
  | .wApply =>
    match s.w with
    | .appended g => if g.sync then none else some ({ s with w := .applied g, mem := s.mem ++ [g] }, d)
    | .synced g => some ({ s with w := .applied g, mem := s.mem ++ [g] }, d)
    | _ => none
  | .wPublish =>
    match s.w with
    | .applied g => some ({ s with w := .published g, seq := g.fin - 1 }, d)
    | _ => none
  | .wAck =>
    match s.w with
    | .published g => some ({ s with w := .idle, issued := setStatus g .acked s.issued }, d)
    | _ => none
  | .rotate o =>
    -- `newMem`, called from the write path while no group is in flight
    if s.phase = .running ∧ s.w.quiet ∧ s.frozen = none ∧ s.tr = none then
      let n := s.nextFile
      let d' := d.exec (.create .journal n) o
      if o.failed then
        -- `reuseFileNum`: the number is handed out again (file numbers are per type: to a table, a manifest or
        -- the next journal, whose `Create` truncates); a file that was created nevertheless stays behind, empty
        some (s, d')
      else
        some ({ s with nextFile := n + 1, frozen := some s.mem, mem := [], jfrozen := some s.jcur, jcur := n,
                       frozenSeq := s.seq }, d')
    else none
  | _ => none

/-! ## jobs (`session.commit` and what surrounds it) -/

/-- the snapshot record `newManifest` writes for the commit of `edit` (`fillRecord(rec, true)` +
    `v.fillRecord(rec)` on the new version).  The first commit after `Open` passes the committing record
    itself; a rotation at `MaxManifestFileSize` passes only its journal/sequence numbers (as repaired), or
    nothing at all (`rotationCarriesNums = false`, D2). -/
def snapshotRec (cfg : Cfg) (s : St) (e : MRec) : MRec :=
  let carry := cfg.rotationCarriesNums || !s.manifestOpen
  { snapshot := true
    jn := some (if carry then e.jn.getD s.stJn else s.stJn)
    sq := some (if carry then e.sq.getD s.stSq else s.stSq)
    nf := s.nextFile
    added := applyEdit s.live e
    deleted := [] }

/-- `setVersion` + `recordCommited` -/
def install (s : St) (e : MRec) : St :=
  { s with live := applyEdit s.live e, stJn := e.jn.getD s.stJn, stSq := e.sq.getD s.stSq }

/-- the pc after the last output table -/
def Job.afterTables (j : Job) : JPc :=
  if j.mkJournal.isSome then .mkJournal
  else if j.edit.isSome then .append
  else .rmJ j.rmJournals

/-- a failure inside `Open` (recovery) makes `Open` return the error: the process is gone, the storage
    stays as it is -/
def giveUp (s : St) : St :=
  { s with phase := .crashed, w := .idle, job := none, recov := none, mem := [], frozen := none,
           manifestFailed := false, limbo := none }

/-- what `Job.pc = .done` leads to -/
def finishJob (s : St) (j : Job) : St :=
  match j.kind with
  | .flush => { s with job := none, frozen := none, jfrozen := none }
  | .recovMid => { s with job := none, recov := s.recov.map fun r => { r with ofd := none, mdb := [] } }
  | .recovFinal => { s with job := none, recov := none, phase := .running, mem := [], frozen := none,
                            jfrozen := none, w := .idle }
  | .compaction => { s with job := none }
  | .tr =>
    -- `db.setSeq(tr.seq)`, the commit returns
    match s.tr with
    | some g => { s with job := none, tr := none, seq := g.fin - 1, hi := g.fin, issued := setStatus g .acked s.issued }
    | none => { s with job := none }

/-- error path of a failed step: recovery gives up, everything else is retried from `retry` -/
def failTo (s : St) (j : Job) (retry : JPc) : St :=
  match j.kind with
  | .recovMid | .recovFinal => giveUp s
  | _ => { s with job := some { j with pc := retry } }

def stepJob (cfg : Cfg) (s : St) (d : Disk) (j : Job) (rot : Bool) (o : Outcome) : Option (St × Disk) :=
  let goto (pc : JPc) (s : St) : St := { s with job := some { j with pc := pc } }
  match j.pc with
  | .tCreate i =>
    match j.outs[i]? with
    | none => none
    | some (n, _) =>
      let d' := d.exec (.create .table n) o
      if o.failed then some (failTo s j (.tCreate i), d'.apply (.remove .table n))     -- `tWriter.drop`
      else some (goto (.tWrite i) s, d')
  | .tWrite i =>
    match j.outs[i]? with
    | none => none
    | some (n, gs) =>
      let d' := d.exec (.writeT n gs) o
      if o.failed then some (failTo s j (.tCreate i), d'.apply (.remove .table n))
      else some (goto (.tSync i) s, d')
  | .tSync i =>
    match j.outs[i]? with
    | none => none
    | some (n, _) =>
      let d' := d.exec (.sync .table n) o
      if o.failed then some (failTo s j (.tCreate i), d'.apply (.remove .table n))
      else some (goto (if i + 1 < j.outs.length then .tCreate (i + 1) else j.afterTables) s, d')
  | .mkJournal =>
    match j.mkJournal with
    | none => none
    | some n =>
      let d' := d.exec (.create .journal n) o
      if o.failed then some (giveUp s, d')
      else some (goto (if j.edit.isSome then .append else .rmJ j.rmJournals) { s with jcur := n }, d')
  | .append =>
    match j.edit with
    | none => none
    | some e =>
      if rot ∨ ¬ s.manifestOpen ∨ s.manifestFailed then
        -- `newManifest`: create the file
        let m := s.nextFile
        let d' := d.exec (.create .manifest m) o
        if o.failed then some (failTo s j .append, d'.apply (.remove .manifest m))
        else some (goto (.rotWrite m) { s with nextFile := m + 1 }, d')
      else
        match s.manifestFd with
        | none => none
        | some m =>
          -- `flushManifest`: `fillRecord(rec, false)`, write the record
          let d' := d.exec (.writeM m { e with nf := s.nextFile }) o
          if o.failed then
            some (failTo { s with manifestFailed := true, limbo := if o = .failEffect then some e else s.limbo } j .append, d')
          else some (goto (if cfg.editSyncedBeforeJournalRemoval then .sync else .earlyRm) s, d')
  | .earlyRm =>
    some (goto .sync s, j.rmJournals.foldl (fun d n => d.apply (.remove .journal n)) d)
  | .rotWrite m =>
    match j.edit with
    | none => none
    | some e =>
      let d' := d.exec (.writeM m (snapshotRec cfg s e)) o
      if o.failed then some (failTo s j .append, d'.apply (.remove .manifest m))
      else some (goto (if cfg.manifestSyncedBeforeSetMeta then .rotSync m else .rotSetMeta m) s, d')
  | .rotSync m =>
    let d' := d.exec (.sync .manifest m) o
    if o.failed then some (failTo s j .append, d'.apply (.remove .manifest m))
    else some (goto (if cfg.manifestSyncedBeforeSetMeta then .rotSetMeta m else .rotRemove m) s, d')
  | .rotSetMeta m =>
    let d' := d.exec (.setMeta m) o
    if o.failed then
      -- `SetMeta` reports an error, with (`failEffect`: `CURRENT` names the new manifest now) or without effect.  The
      -- cleanup of `newManifest` asks `GetMeta` (here `rot` = that `GetMeta` fails as well) and keeps the file if it
      -- names the new manifest, or fails: `manifestFailed` is set, the commit fails all the same (the repair of D26);
      -- otherwise (or in the code as found) the file is removed
      let keep := cfg.cleanupChecksCurrent && (if rot then cfg.cleanupKeepsWhenGetMetaFails else decide (o = .failEffect))
      if keep then
        some (failTo { s with manifestFailed := true, limbo := if o = .failEffect then j.edit else s.limbo } j .append, d')
      else some (failTo s j .append, d'.apply (.remove .manifest m))
    else some (goto (if cfg.manifestSyncedBeforeSetMeta then .rotRemove m else .rotSync m) { s with limbo := none }, d')
  | .rotRemove m =>
    -- `recordCommited`; close and remove the old manifest (an error is only logged: the new manifest is in
    -- effect, the repair of D27); adopt the new one
    let d' := match s.manifestFd with
      | some old => d.exec (.remove .manifest old) o
      | none => d
    some (goto .install { s with manifestFd := some m, manifestOpen := true, manifestFailed := false, limbo := none }, d')
  | .sync =>
    match s.manifestFd with
    | none => none
    | some m =>
      let d' := d.exec (.sync .manifest m) o
      if o.failed then some (failTo { s with manifestFailed := true, limbo := j.edit } j .append, d')
      else some (goto .install s, d')
  | .install =>
    match j.edit with
    | none => none
    | some e =>
      let s' := install s e
      match j.kind with
      | .recovFinal =>
        -- `checkAndCleanFiles`: everything the new version does not need
        let rj := d.journals.nums.filter (· < s'.jcur)
        let rt := d.tables.nums.filter fun t => !(s'.live.contains t)
        some ({ s' with job := some { j with pc := .rmJ (j.rmJournals ++ rj), rmTables := rt } }, d)
      | _ => some (goto (.rmJ j.rmJournals) s', d)
  | .rmJ (n :: rest) => some (goto (.rmJ rest) s, d.exec (.remove .journal n) o)      -- errors are logged only
  | .rmJ [] => some (goto (.rmT j.rmTables) s, d)
  | .rmT (n :: rest) => some (goto (.rmT rest) s, d.exec (.remove .table n) o)
  | .rmT [] =>
    match j.kind with
    | .recovFinal =>
      -- `keep = fd.Num >= db.s.manifestFd.Num`
      some (goto (.rmM (d.manifests.nums.filter fun m => m < s.manifestFd.getD 0)) s, d)
    | _ => some (goto .done s, d)
  | .rmM (n :: rest) => some (goto (.rmM rest) s, d.exec (.remove .manifest n) o)
  | .rmM [] => some (goto .done s, d)
  | .done => some (finishJob s j, d)

/-! ## spawning jobs -/

/-- `memCompaction` for the frozen buffer -/
def flushStart (s : St) : Option St :=
  if s.phase = .running ∧ s.job = none then
    match s.frozen, s.jfrozen with
    | some fz, some jf =>
      if fz.isEmpty then
        -- "Don't compact empty memdb": only `dropFrozenMem`
        some { s with job := some { kind := .flush, rmJournals := [jf], pc := .rmJ [jf] } }
      else
        let t := s.nextFile
        some { s with nextFile := t + 1,
                      job := some { kind := .flush, outs := [(t, fz)],
                                    edit := some { jn := some s.jcur, sq := some s.frozenSeq, added := [t] },
                                    rmJournals := [jf], pc := .tCreate 0 } }
    | _, _ => none
  else none

/-- `tableCompaction`: the entries of the input tables are merged into one output table (ghost content: the
    union of their groups; the physical entries are `view`-equivalent by C03/C06), one edit deletes the inputs
    and adds the output, the inputs are removed afterwards -/
def compactStart (s : St) (d : Disk) (inputs : List Nat) : Option St :=
  if s.phase = .running ∧ s.job = none ∧ inputs ≠ [] ∧ inputs.Nodup ∧ inputs.all (s.live.contains ·) then
    let t := s.nextFile
    let gs := inputs.flatMap fun i => ((lookup d.tables i).map (·.grps)).getD []
    some { s with nextFile := t + 1,
                  job := some { kind := .compaction, outs := [(t, gs)],
                                edit := some { added := [t], deleted := inputs },
                                rmTables := inputs, pc := .tCreate 0 } }
  else none

/-- the transaction protocol (`db_transaction.go`), with the pre-flush of `OpenTransaction` as a precondition:
    nothing buffered, nothing frozen, no job -/
def stepTr (s : St) : Act → Option St
  | .trBegin =>
    if s.phase = .running ∧ s.w = .idle ∧ s.mem = [] ∧ s.frozen = none ∧ s.job = none ∧ s.tr = none then
      some { s with tr := some ⟨s.seq + 1, [], true⟩ }
    else none
  | .trPut recs =>
    match s.tr with
    | some g => if s.job = none then some { s with tr := some { g with recs := g.recs ++ recs } } else none
    | none => none
  | .trCommit =>
    match s.tr with
    | some g =>
      if s.job = none then
        if g.recs.isEmpty then some { s with tr := none }
        else
          let t := s.nextFile
          some { s with nextFile := t + 1, issued := s.issued ++ [⟨g, .pending⟩],
                        job := some { kind := .tr, outs := [(t, [g])],
                                      edit := some { sq := some (g.fin - 1), added := [t] }, pc := .tCreate 0 } }
      else none
    | none => none
  | .trDiscard =>
    -- `Transaction.discard`: the sequence numbers the transaction used are not handed out again
    match s.tr with
    | some g =>
      if s.job = none then some { s with tr := none, seq := max s.seq (g.fin - 1), hi := max s.hi g.fin } else none
    | none => none
  | _ => none

/-- `Transaction.Discard` after `Commit` returned an error (or instead of it): the commit job is at its retry
    point.  The call fails for the client; the sequence numbers stay consumed; the transaction's tables are removed
    — unless the manifest state is uncertain (`session.manifestUncertain()`, the repair of D10): the record of the
    failed commit may be in the manifest, the tables are left to the obsolete-file cleanup of the next `Open`. -/
def trDiscardJob (cfg : Cfg) (s : St) (d : Disk) : Option (St × Disk) :=
  match s.tr, s.job with
  | some g, some j =>
    if j.kind = .tr ∧ j.pc = .append then
      let keep := cfg.discardKeepsTablesWhenUncertain && s.manifestFailed
      let d' := if keep then d else j.outs.foldl (fun d o => d.apply (.remove .table o.1)) d
      some ({ s with tr := none, job := none, seq := max s.seq (g.fin - 1), hi := max s.hi g.fin,
                     issued := setStatus g .failed s.issued }, d')
    else none
  | _, _ => none

/-! ## crash and recovery -/

/-- the process ends: the in-memory state is gone, the ghost history stays -/
def exitSt (s : St) : St := { phase := .crashed, issued := s.issued, hi := s.hi, everFailed := s.everFailed }

/-- an acknowledgement without `Sync` promises nothing across a machine crash -/
def downgrade (l : List Issue) : List Issue :=
  l.map fun i => if i.status = .acked ∧ i.grp.sync = false then { i with status := .unsure } else i

/-- the machine dies -/
def crashSt (s : St) : St :=
  { phase := .crashed, issued := downgrade s.issued, hi := s.hi, everFailed := s.everFailed }

def maxNum (l : List Nat) : Nat := l.foldl max 0

/-- `session.recover` + the start of `recoverJournal` -/
def recOpen (cfg : Cfg) (s : St) (d : Disk) : Option St :=
  if s.phase = .crashed then
    match recoverR cfg d with
    | .error _ => none
    | .ok r =>
      let js := journalsFrom d r.mv.jn
      some { s with phase := .recovering, seq := r.mv.sq, live := r.mv.live, stJn := r.mv.jn, stSq := r.mv.sq,
                    manifestFd := d.current, manifestOpen := false,
                    nextFile := max r.mv.nf (if js.isEmpty then 0 else maxNum js + 1),    -- `markFileNum`
                    recov := some { todo := js } }
  else none

/-- one round of the journal loop of `recoverJournal`, or its tail -/
def recStep (s : St) (d : Disk) : Option St :=
  if s.phase = .recovering ∧ s.job = none then
    match s.recov with
    | none => none
    | some r =>
      let outs (t : Nat) : List (Nat × List Grp) := if r.mdb.isEmpty then [] else [(t, r.mdb)]
      let nAfter (t : Nat) : Nat := if r.mdb.isEmpty then t else t + 1
      match r.todo, r.ofd with
      | j :: rest, none =>
        -- "Replay journal to memdb"
        let rp := replayJ s.seq (journalRecs d [j])
        some { s with seq := rp.2, recov := some { todo := rest, ofd := some j, mdb := rp.1 } }
      | j :: _, some o =>
        -- "Flush memdb and remove obsolete journal file"
        let t := s.nextFile
        let os := outs t
        some { s with nextFile := nAfter t,
                      job := some { kind := .recovMid, outs := os,
                                    edit := some { jn := some j, sq := some s.seq, added := os.map (·.1) },
                                    rmJournals := [o],
                                    pc := if os.isEmpty then .append else .tCreate 0 } }
      | [], ofd =>
        -- flush the last memdb, `newMem`, commit, remove the last journal, `checkAndCleanFiles`
        let t := s.nextFile
        let os := outs t
        let jn := nAfter t
        some { s with nextFile := jn + 1,
                      job := some { kind := .recovFinal, outs := os, mkJournal := some jn,
                                    edit := some { jn := some jn, sq := some s.seq, added := os.map (·.1) },
                                    rmJournals := ofd.toList,
                                    pc := if os.isEmpty then .mkJournal else .tCreate 0 } }
  else none

/-- A freshly created DB (`session.create` + `openDB` on an empty storage): manifest 1 holds the snapshot
    record of `newManifest(nil, nil)` and the record of the first commit of `recoverJournal`, journal 2 is
    empty.  The creation itself is `Dur.bigStep` below (`created`, `init0`); `C04.init_is_created`: this state is
    what `openDB` reaches from `created`. -/
def init : St × Disk :=
  ({ phase := .running, jcur := 2, stJn := 2, manifestFd := some 1, manifestOpen := true, nextFile := 3 },
   { current := some 1
     manifests := [(1, ⟨[{ snapshot := true, jn := some 0, sq := some 0, nf := 2 },
                         { jn := some 2, sq := some 0, nf := 3 }], []⟩)]
     journals := [(2, {})] })

/-! ## the step function -/

def step (cfg : Cfg) (s : St) (d : Disk) : Act → Option (St × Disk)
  | .flushStart => (flushStart s).map (·, d)
  | .job rot o =>
    match s.job with
    | some j => stepJob cfg s d j rot o
    | none => none
  | .crash ch => some (crashSt s, crashWith ch d)
  | .exit => some (exitSt s, d)
  | .recOpen => (recOpen cfg s d).map (·, d)
  | .recStep => (recStep s d).map (·, d)
  | .compactStart inputs => (compactStart s d inputs).map (·, d)
  | .trBegin => (stepTr s .trBegin).map (·, d)
  | .trPut recs => (stepTr s (.trPut recs)).map (·, d)
  | .trCommit => (stepTr s .trCommit).map (·, d)
  | .trDiscard => if s.job = none then (stepTr s .trDiscard).map (·, d) else trDiscardJob cfg s d
  | a => stepWriter cfg s d a

/-- run a list of actions; `none` if one of them is not enabled -/
def run (cfg : Cfg) : St × Disk → List Act → Option (St × Disk)
  | sd, [] => some sd
  | (s, d), a :: as =>
    match step cfg s d a with
    | some sd' => run cfg sd' as
    | none => none

def Reachable (cfg : Cfg) (sd : St × Disk) : Prop := ∃ as, run cfg init as = some sd

/-- an action without an injected storage fault -/
def Act.faultFree : Act → Bool
  | .wAppend _ _ o => o = .ok
  | .wSync o => o = .ok
  | .rotate o => o = .ok
  | .job _ o => o = .ok
  | _ => true

/-- any action without an injected storage fault (the same predicate; kept under the name the statement
    `C04.crash_consistent_full` was first made with) -/
def Act.noFault (a : Act) : Bool := a.faultFree

/-- **D10 excluded**: the append of a commit's record to the manifest does not fail after the record has
    reached the file, and the manifest `Sync` does not fail ("a manifest record may reach the file although
    `session.commit` reported failure") -/
def Act.noD10 (s : St) : Act → Bool
  | .job rot o =>
    match s.job with
    | some j =>
      match j.pc with
      | .append => rot || !s.manifestOpen || s.manifestFailed || o != .failEffect
      | .sync => o == .ok
      | _ => true
    | none => true
  | _ => true

/-- **D26 excluded**: `SetMeta` does not fail after it took effect -/
def Act.noD26 (s : St) : Act → Bool
  | .job _ o =>
    match s.job with
    | some j =>
      match j.pc with
      | .rotSetMeta _ => o != .failEffect
      | _ => true
    | none => true
  | _ => true

/-- no fault in the journal operations of the write path (those are the subject of `C08.fault_safe_partial`) -/
def Act.writerFaultFree : Act → Bool
  | .wAppend _ _ o => o = .ok
  | .wSync o => o = .ok
  | .rotate o => o = .ok
  | _ => true

/-- the storage faults `C08.fault_safe_jobs` covers: every failure inside a flush, a table compaction, a
    transaction commit or a recovery, except the two known findings -/
def Act.jobFaultsOnly (s : St) (a : Act) : Bool := a.writerFaultFree && a.noD10 s && a.noD26 s

/-- the storage faults `C08.fault_safe_writer` covers: every failure of every storage operation of the machine —
    journal `Write`/`Flush`/`Sync` of the write path, `Create` in `newMem`, everything inside a flush, a table
    compaction, a transaction commit, a recovery — except the two known findings D10 and D26 -/
def Act.faultsOK (sd : St × Disk) (a : Act) : Bool := a.noD10 sd.1 && a.noD26 sd.1

/-- `SetMeta` does not report an error after it took effect *while* the `GetMeta` of `newManifest`'s cleanup fails too
    (with `cleanupKeepsWhenGetMetaFails = false`, commit 8a67fea alone, the cleanup then removes the manifest
    `CURRENT` names: `C08.setmeta_and_getmeta_fail_lose_current`) -/
def Act.noGetMetaFault (s : St) : Act → Bool
  | .job rot o =>
    match s.job with
    | some j =>
      match j.pc with
      | .rotSetMeta _ => !(o == .failEffect && rot)
      | _ => true
    | none => true
  | _ => true

/-- every action of the run satisfies `P` in the state it is taken in -/
def allowed (cfg : Cfg) (P : St × Disk → Act → Bool) : St × Disk → List Act → Bool
  | _, [] => true
  | sd, a :: as =>
    P sd a &&
    match step cfg sd.1 sd.2 a with
    | some sd' => allowed cfg P sd' as
    | none => true

def Allowed (cfg : Cfg) (P : St × Disk → Act → Bool) (sd : St × Disk) (as : List Act) : Prop :=
  allowed cfg P sd as = true

def ReachableFF (cfg : Cfg) (sd : St × Disk) : Prop :=
  ∃ as, (∀ a ∈ as, a.faultFree) ∧ run cfg init as = some sd

/-!
# part 2b: the creation of the DB in front of the machine

`Open` on a storage without a DB (`session.recover` says "not exist") runs `session.create` = `newManifest(nil, nil)`:
`Create` of manifest 1, the snapshot record of an empty version, `Sync`, `SetMeta`; then `openDB` goes on with
`recoverJournal` as on any other storage — that is `Dur.step` from `created` (phase `recovering`, nothing to replay).
Every one of the four operations can fail (`newManifest`'s cleanup removes the file — unless `SetMeta` took effect,
`Cfg.cleanupChecksCurrent`), and the machine can crash in between: the next `Open` finds manifest files without
`CURRENT` and creates the DB again (`Cfg.manifestsAloneAreNoDB`, the repair of D12), truncating manifest 1.
-/

/-- the snapshot record of `newManifest(nil, nil)` in a new session -/
def snap0 : MRec := { snapshot := true, jn := some 0, sq := some 0, nf := 2 }

/-- `session.create` has returned inside `openDB`: the session holds manifest 1, nothing to replay -/
def created : St × Disk :=
  ({ phase := .recovering, manifestFd := some 1, manifestOpen := true, nextFile := 2, recov := some { todo := [] } },
   { current := some 1, manifests := [(1, ⟨[snap0], []⟩)] })

/-- where `session.create` is: no process / manifest 1 created / its record written / synced -/
inductive CPc
  | idle | made | written | synced
deriving DecidableEq, Repr

/-- the machine with the creation of the DB in front -/
inductive Big
  | creating (pc : CPc) (d : Disk)
  | db (s : St) (d : Disk)

inductive BAct
  /-- the next storage operation of `session.create` (at `idle`: `Open` finds no DB and starts with `Create`);
      `getMetaFails`: the `GetMeta` of `newManifest`'s cleanup fails as well -/
  | c (o : Outcome) (getMetaFails : Bool)
  /-- the machine dies during the creation -/
  | ccrash (ch : CrashChoice)
  /-- an action of the DB -/
  | a (a : Act)

def bigStep (cfg : Cfg) : Big → BAct → Option Big
  | .creating pc d, .c o gm =>
    let undo (d' : Disk) : Option Big := some (.creating .idle (d'.apply (.remove .manifest 1)))
    match pc with
    | .idle =>
      -- `Open`: `session.recover` must say "not exist" (and not "corrupted")
      match d.current, recoverR cfg d with
      | none, .ok _ =>
        let d' := d.exec (.create .manifest 1) o
        if o.failed then undo d' else some (.creating .made d')
      | _, _ => none
    | .made =>
      let d' := d.exec (.writeM 1 snap0) o
      if o.failed then undo d' else some (.creating .written d')
    | .written =>
      let d' := d.exec (.sync .manifest 1) o
      if o.failed then undo d' else some (.creating .synced d')
    | .synced =>
      let d' := d.exec (.setMeta 1) o
      if o.failed then
        -- `Open` returns the error; the manifest is kept if `GetMeta` names it or fails (the repair of D26)
        let keep := cfg.cleanupChecksCurrent && (if gm then cfg.cleanupKeepsWhenGetMetaFails else decide (o = .failEffect))
        if keep then
          -- with `CURRENT` set the DB exists; without, the file waits for the next `Open` to truncate it
          if o = .failEffect then some (.db { phase := .crashed } d') else some (.creating .idle d')
        else undo d'
      else some (.db created.1 d')
  | .creating _ d, .ccrash ch => some (.creating .idle (crashWith ch d))
  | .db s d, .a a => (step cfg s d a).map fun sd => .db sd.1 sd.2
  | _, _ => none

/-- an empty storage, no process -/
def init0 : Big := .creating .idle {}

def bigRun (cfg : Cfg) : Big → List BAct → Option Big
  | b, [] => some b
  | b, x :: xs =>
    match bigStep cfg b x with
    | some b' => bigRun cfg b' xs
    | none => none

def Big.disk : Big → Disk
  | .creating _ d => d
  | .db _ d => d

/-- the history of client calls: empty while the DB is being created -/
def Big.st : Big → St
  | .creating _ _ => { phase := .crashed }
  | .db s _ => s

/-- every action of the run satisfies `P` (on DB actions, in the state they are taken in) and `Q` (on the storage
    operations of the creation) -/
def bigAllowed (cfg : Cfg) (P : St × Disk → Act → Bool) (Q : CPc → Outcome → Bool → Bool) : Big → List BAct → Bool
  | _, [] => true
  | b, x :: xs =>
    (match b, x with
     | .db s d, .a a => P (s, d) a
     | .creating pc _, .c o gm => Q pc o gm
     | _, _ => true) &&
    match bigStep cfg b x with
    | some b' => bigAllowed cfg P Q b' xs
    | none => true

/-- no fault in the creation -/
def CPc.noFault (_ : CPc) (o : Outcome) (_ : Bool) : Bool := o == .ok

/-- every fault in the creation except the `SetMeta`-with-effect + `GetMeta` double fault -/
def CPc.noGetMetaFault (pc : CPc) (o : Outcome) (gm : Bool) : Bool := !(pc == .synced && o == .failEffect && gm)

/-- … and, for the theorems that exclude D26, no `SetMeta` failing after it took effect -/
def CPc.noD26 (pc : CPc) (o : Outcome) (_ : Bool) : Bool := !(pc == .synced && o == .failEffect)

/-!
# part 3: `leveldb.Recover` (`recoverTable` + `openDB`)

`Recover` ignores `CURRENT` and every manifest.  It scans every table file (`recoverTable`: the good keys of
the readable blocks; a table with damaged blocks is rewritten from them), puts all tables into level 0, writes
a new manifest with `seqNum := max sequence number seen` and journal number 0, and then opens the DB: every
journal is replayed, a record is applied iff its sequence number is not below `db.seq`.
-/

/-- what `Recover` finds: per table file the entries an iterator over the (possibly damaged) file yields, per
    journal file its records -/
structure RebuildIn where
  tables : List (Nat × List Entry) := []
  journals : List (Nat × List Grp) := []
deriving Repr

def maxSeqOf (es : List Entry) : Nat := es.foldl (fun m e => max m e.seq) 0

structure Rebuilt where
  tableEntries : List Entry
  journalGrps : List Grp
  seq : Nat
deriving Repr

/-- `recoverTable` followed by `openDB` (`recoverJournal` with `stJournalNum = 0`) -/
def rebuild (inp : RebuildIn) : Rebuilt :=
  let tes := inp.tables.flatMap (·.2)
  let r := replayJ (maxSeqOf tes) (inp.journals.flatMap (·.2))
  ⟨tes, r.1, r.2⟩

def Rebuilt.entries (r : Rebuilt) : List Entry := r.tableEntries ++ r.journalGrps.flatMap Grp.ents

def Rebuilt.get (c : UCmp) (r : Rebuilt) (k : Bytes) : Option Bytes := GoLevel.view c r.entries k r.seq

/-- what `Recover` finds on a record-level disk: every table file (an unreadable one yields nothing), every
    journal file -/
def rebuildInOf (d : Disk) : RebuildIn :=
  { tables := d.tables.map fun p => (p.1, if p.2.bad then [] else p.2.grps.flatMap Grp.ents)
    journals := d.journals.map fun p => (p.1, p.2.all) }

end GoLevel.Dur
