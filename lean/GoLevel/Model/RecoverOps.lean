import GoLevel.Model.Durable
import GoLevel.Gen.Consts
/-!
# `leveldb.Recover` as a sequence of storage operations (C19)

`Model/Durable.lean`, part 3 (`Dur.rebuild`) says *what* `Recover` makes of the files.  This file says *how*:
the mutating storage operations of `recoverTable` (db.go) and of the `openDB` that follows, in the code's
order, over the `Disk` of `Model/Disk.lean`, so that a crash can be placed after any of them.

`Disk` is extended by what only `recoverTable` uses (`RDisk`): temporary files (`storage.TypeTemp`, written by
`buildTable` and renamed over the table) and a mark on tables with corrupted blocks or keys.

The three phases of `Recover`:

1. **tables** (`recoverTable`, the per-table closure, tables in file-number order): scan (read only); a table
   with corrupted blocks/keys that still has a good key is rebuilt: `Create(tmp)`, `Write`, `Sync`,
   `Rename(tmp, table)`; a table without a good key — or, with `StrictRecovery`, any damaged table — is left
   alone and not recorded;
2. **manifest** (`s.commit(rec, false)` with `s.manifest == nil` ⇒ `session.newManifest`): `Create(MANIFEST-m)`,
   one record (snapshot fields + the recovered tables), `Sync`, `SetMeta`.  `s.manifestFd` is zero, so no old
   manifest is removed here.  `RCfg.createsEmptyManifestFirst` is the code before commit 170f82e (D33):
   `s.create()` wrote an *empty* snapshot and made it current, `s.commit` then appended the tables;
3. **open** (`openDB`: `recoverJournal`, `checkAndCleanFiles`): the new manifest says journal 0, so every
   journal is replayed in file-number order from `db.seq = maxSeq`; each replayed journal's memdb is flushed
   to a fresh level-0 table, committed (one manifest record) and the journal removed; finally a new journal,
   the last commit, and the janitor (tables the record does not name, manifests older than the new one).

A crash stops the sequence after any operation (`RDisk.applyAll (ops.take k)`) and hands the next process a
crash image (`rcrash`: `Dur.crashWith` on the disk, the same table rule for temp files).

What the next process does with the image: `Recover` again (`scanIn` + `Dur.rebuild`), or `Open` (`Dur.recoverR`).
-/
namespace GoLevel.Dur
open GoLevel

/-! ## the storage -/

/-- `Disk` plus temp files and damage marks -/
structure RDisk where
  disk : Disk := {}
  /-- `storage.TypeTemp` files, keyed by `stTempFileNum` -/
  temps : Files TableFile := []
  /-- numbers of the tables that have a corrupted block or key: an iterator over such a table yields its
      `grps` (what is still readable) and reports corruption -/
  dmg : List Nat := []
deriving DecidableEq, Repr

/-- the mutating storage calls of `Recover` -/
inductive ROp
  /-- a call on a manifest, journal or table file, or `SetMeta` -/
  | base (op : Op)
  /-- `s.stor.Create(tmpFd)` (`buildTable`) -/
  | createTemp (k : Nat)
  /-- `tw.Append…`, `tw.Close()` -/
  | writeTemp (k : Nat) (gs : List Grp)
  /-- `writer.Sync()` -/
  | syncTemp (k : Nat)
  /-- `s.stor.Rename(tmpFd, fd)`: the temp file replaces table `n` -/
  | renameTemp (k n : Nat)
deriving DecidableEq, Repr

def RDisk.apply (r : RDisk) : ROp → RDisk
  | .base op => { r with disk := r.disk.apply op }
  | .createTemp k => { r with temps := r.temps.set k {} }
  | .writeTemp k gs => { r with temps := r.temps.modify k fun t => { t with grps := gs } }
  | .syncTemp k => { r with temps := r.temps.modify k fun t => { t with synced := true } }
  | .renameTemp k n =>
    match lookup r.temps k with
    | some t => { disk := { r.disk with tables := r.disk.tables.set n t }
                  temps := r.temps.erase k
                  dmg := r.dmg.filter (· ≠ n) }
    | none => r

def RDisk.applyAll (r : RDisk) (ops : List ROp) : RDisk := ops.foldl RDisk.apply r

/-- the adversary's choices at a crash -/
structure RCrash where
  base : CrashChoice := {}
  /-- the unsynced temp file `k` survives intact -/
  keepTemp : Nat → Bool := fun _ => false

/-- the storage after a crash -/
def rcrash (ch : RCrash) (r : RDisk) : RDisk :=
  { disk := crashWith ch.base r.disk
    temps := r.temps.map fun p => (p.1, crashTable (ch.keepTemp p.1) p.2)
    dmg := r.dmg }

/-- a process exit: nothing is lost -/
def rkeepAll (r : RDisk) : RCrash := { base := keepAll r.disk, keepTemp := fun _ => true }

/-! ## configuration -/

structure RCfg where
  /-- D33.  `false` (the code since 170f82e): `recoverTable` ends with `s.commit(rec, false)` only.
      `true` (the code as found): it called `s.create()` first — an empty manifest became current before the
      record with the recovered tables was appended to it. -/
  createsEmptyManifestFirst : Bool := false
  /-- `opt.StrictRecovery`: a table with any corruption is dropped instead of rebuilt -/
  strict : Bool := false
deriving DecidableEq, Repr

/-- the configuration of the code in the tree: `Gen.recoverTableCommitsOnly` is read off `recoverTable` by
    `tools/extract` ("no call of `s.create()`, `newManifest` or `SetMeta`; the last statement is
    `return s.commit(rec, false)`") -/
def codeRCfg (strict : Bool := false) : RCfg :=
  { createsEmptyManifestFirst := !Gen.recoverTableCommitsOnly, strict := strict }

/-! ## phase 1: the tables -/

/-- the groups the scan loop's iterator yields (`tgoodKey` counts their entries) -/
def scanGood (t : TableFile) : List Grp := if t.bad then [] else t.grps

/-- `tcorruptedKey > 0 || tcorruptedBlock > 0` -/
def scanDamaged (r : RDisk) (n : Nat) (t : TableFile) : Bool := t.bad || r.dmg.contains n

/-- the entries table `n` contributes to the recovered DB: none if it is dropped -/
def slotEnts (cfg : RCfg) (r : RDisk) (n : Nat) : List Entry :=
  match lookup r.disk.tables n with
  | none => []
  | some t => if cfg.strict && scanDamaged r n t then [] else (scanGood t).flatMap Grp.ents

/-- `rec`, `maxSeq` and `s.stTempFileNum` of `recoverTable` -/
structure TAcc where
  added : List Nat := []
  maxSeq : Nat := 0
  tmp : Nat := 0
deriving DecidableEq, Repr

/-- the per-table closure `recoverTable := func(fd)`: the storage operations it makes and the new accumulator -/
def tableOne (cfg : RCfg) (r : RDisk) (a : TAcc) (n : Nat) : List ROp × TAcc :=
  match lookup r.disk.tables n with
  | none => ([], a)
  | some t =>
    let good := scanGood t
    let es := good.flatMap Grp.ents
    let dm := scanDamaged r n t
    if (cfg.strict && dm) || es.isEmpty then ([], a)        -- "dropped" / "unrecoverable"
    else
      let a' : TAcc := { added := a.added ++ [n], maxSeq := max a.maxSeq (maxSeqOf es),
                         tmp := if dm then a.tmp + 1 else a.tmp }
      if dm then
        -- "Rebuild the table": `buildTable` + `Rename`
        ([.createTemp a.tmp, .writeTemp a.tmp good, .syncTemp a.tmp, .renameTemp a.tmp n], a')
      else ([], a')

/-- the loop `for _, fd := range fds`.  Every table is read from the storage `r` the loop started with: the
    operations made for one table touch only that table and temp files, and come after its scan. -/
def tableLoop (cfg : RCfg) (r : RDisk) : TAcc → List Nat → List ROp × TAcc
  | a, [] => ([], a)
  | a, n :: ns =>
    let one := tableOne cfg r a n
    let rest := tableLoop cfg r one.2 ns
    (one.1 ++ rest.1, rest.2)

/-- the table numbers in the order of `sortFds` -/
def tableNums (r : RDisk) : List Nat := sortNums r.disk.tables.nums

def tablePhase (cfg : RCfg) (r : RDisk) : List ROp × TAcc := tableLoop cfg r {} (tableNums r)

/-! ## phase 2: the manifest -/

/-- every file number `s.stor.List(storage.TypeAll)` shows: tables, journals, manifests and temporary files -/
def allNums (r : RDisk) : List Nat :=
  r.disk.tables.nums ++ r.disk.journals.nums ++ r.disk.manifests.nums ++ r.temps.nums

/-- `s.stNextFileNum` after `recoverTable` has marked EVERY file number found in the storage
    (`for _, fd := range all { s.markFileNum(fd.Num) }`, the repair of D47; the code as found marked the last table
    only, so that the new manifest could get a number below a manifest still on disk): the number `newManifest`
    allocates.  `Gen.recoverMarksAllFileNums` is the extracted fact. -/
def manifestNum (r : RDisk) : Nat := if (allNums r).isEmpty then 0 else maxNum (allNums r) + 1

/-- the record `newManifest` writes for `s.commit(rec, false)`: `fillRecord(rec, true)` adds the comparer, journal
    number `s.stJournalNum = 0` and the next file number; `rec` carries `maxSeq` and the tables -/
def recoverRec (m : Nat) (a : TAcc) : MRec :=
  { snapshot := true, jn := some 0, sq := some a.maxSeq, nf := m + 1, added := a.added }

def manifestOps (cfg : RCfg) (m : Nat) (a : TAcc) : List ROp :=
  if cfg.createsEmptyManifestFirst then
    -- `s.create()` = `newManifest(nil, nil)`, then `s.commit` → `flushManifest`
    [.base (.create .manifest m), .base (.writeM m { snapshot := true, jn := some 0, sq := some 0, nf := m + 1 }),
     .base (.sync .manifest m), .base (.setMeta m),
     .base (.writeM m { sq := some a.maxSeq, nf := m + 1, added := a.added }), .base (.sync .manifest m)]
  else
    [.base (.create .manifest m), .base (.writeM m (recoverRec m a)), .base (.sync .manifest m),
     .base (.setMeta m)]

/-- the operations of `recoverTable` -/
def recoverTableOps (cfg : RCfg) (r : RDisk) : List ROp :=
  let tp := tablePhase cfg r
  tp.1 ++ manifestOps cfg (manifestNum r) tp.2

/-! ## phase 3: `openDB` -/

/-- `recoverJournal`'s loop variables -/
structure JLoop where
  /-- `db.seq` -/
  seq : Nat
  /-- `s.stNextFileNum` -/
  nf : Nat
  ofd : Option Nat := none
  mdb : List Grp := []
deriving DecidableEq, Repr

/-- `flushMemdb` of a non-empty memdb into table `t` -/
def flushOps (t : Nat) (mdb : List Grp) : List ROp :=
  if mdb.isEmpty then [] else [.base (.create .table t), .base (.writeT t mdb), .base (.sync .table t)]

def nfAfterFlush (t : Nat) (mdb : List Grp) : Nat := if mdb.isEmpty then t else t + 1

def flushAdded (t : Nat) (mdb : List Grp) : List Nat := if mdb.isEmpty then [] else [t]

/-- "Flush memdb and remove obsolete journal file" — the block run when the next journal `j` is opened -/
def midOps (m : Nat) (st : JLoop) (j : Nat) : List ROp :=
  match st.ofd with
  | none => []
  | some o =>
    flushOps st.nf st.mdb ++
    [.base (.writeM m { jn := some j, sq := some st.seq, nf := nfAfterFlush st.nf st.mdb,
                        added := flushAdded st.nf st.mdb }),
     .base (.sync .manifest m), .base (.remove .journal o)]

/-- the loop `for _, fd := range fds` of `recoverJournal`; journal contents are read from `d` (each journal is
    read before it is removed, and `Recover` never writes to one) -/
def journalLoop (m : Nat) (d : Disk) : JLoop → List Nat → List ROp × JLoop
  | st, [] => ([], st)
  | st, j :: js =>
    let pre := midOps m st j
    let nf' := match st.ofd with
      | none => st.nf
      | some _ => nfAfterFlush st.nf st.mdb
    let rp := replayJ st.seq (journalRecs d [j])
    let rest := journalLoop m d { seq := rp.2, nf := nf', ofd := some j, mdb := rp.1 } js
    (pre ++ rest.1, rest.2)

/-- "Flush the last memdb", `newMem`, the final commit, "Remove the last obsolete journal file" -/
def tailOps (m : Nat) (st : JLoop) : List ROp :=
  let jnew := nfAfterFlush st.nf st.mdb
  flushOps st.nf st.mdb ++
  [.base (.create .journal jnew),
   .base (.writeM m { jn := some jnew, sq := some st.seq, nf := jnew + 1, added := flushAdded st.nf st.mdb }),
   .base (.sync .manifest m)] ++
  st.ofd.toList.map fun o => .base (.remove .journal o)

/-- `checkAndCleanFiles` after a fault-free `recoverJournal`: the tables the version does not hold (those
    `recoverTable` dropped) and the manifests with a smaller number than the new one; every old journal has been
    removed already, temp files are kept (`keep := true` for `TypeTemp`) -/
def janitorOps (m : Nat) (r : RDisk) (a : TAcc) : List ROp :=
  ((tableNums r).filter fun t => !a.added.contains t).map (fun t => .base (.remove .table t)) ++
  ((sortNums r.disk.manifests.nums).filter (· < m)).map (fun x => .base (.remove .manifest x))

def journalNums (d : Disk) : List Nat := sortNums d.journals.nums

/-- `s.stNextFileNum` when the journal loop starts: `newManifest` took `m`; `markFileNum(last journal)` -/
def openNf (m : Nat) (d : Disk) : Nat :=
  let js := journalNums d
  max (m + 1) (if js.isEmpty then 0 else maxNum js + 1)

/-- the operations of `openDB` after `recoverTable` on `r` -/
def openOps (r : RDisk) (m : Nat) (a : TAcc) : List ROp :=
  let jl := journalLoop m r.disk { seq := a.maxSeq, nf := openNf m r.disk } (journalNums r.disk)
  jl.1 ++ tailOps m jl.2 ++ janitorOps m r a

/-- all mutating storage operations of `leveldb.Recover` on `r`, in order -/
def recoverOps (cfg : RCfg) (r : RDisk) : List ROp :=
  let tp := tablePhase cfg r
  recoverTableOps cfg r ++ openOps r (manifestNum r) tp.2

/-! ## what the next process finds -/

/-- what a `Recover` started on `r` reads: the input of `Dur.rebuild` -/
def scanIn (cfg : RCfg) (r : RDisk) : RebuildIn :=
  { tables := (tableNums r).map fun n => (n, slotEnts cfg r n)
    journals := (journalNums r.disk).map fun n => (n, ((lookup r.disk.journals n).map (·.all)).getD []) }

/-- the storage when `Recover` has made its first `k` operations and the machine dies -/
def crashAt (cfg : RCfg) (r : RDisk) (k : Nat) (ch : RCrash) : RDisk :=
  rcrash ch (r.applyAll ((recoverOps cfg r).take k))

/-- everything on `r` is durable (it is the image a previous crash or exit left) -/
def RDisk.durable (r : RDisk) : Prop :=
  (∀ p ∈ r.disk.manifests, p.2.unsynced = []) ∧ (∀ p ∈ r.disk.journals, p.2.unsynced = []) ∧
  (∀ p ∈ r.disk.tables, p.2.synced = true)

instance (r : RDisk) : Decidable r.durable := by unfold RDisk.durable; infer_instance

end GoLevel.Dur
