/-!
# `db.snapsList`: the list of acquired sequence numbers with reference counts (`leveldb/db_snapshot.go`)

`acquireSnapshot`, `releaseSnapshot` and `minSeq` run under `db.snapsMu`; the list (`container/list`) holds
`snapshotElement{seq, ref}` values, front = oldest.  An element is identified by its sequence number (the
list is strictly increasing, `Snaps.Wf`), which is how `release` finds the element the Go code holds a
pointer to.  `none` = the Go code panics.
-/
namespace GoLevel.Snaps

/-- `snapshotElement` (without the back pointer into the list) -/
structure Elem where
  seq : Nat
  ref : Nat
deriving DecidableEq, Repr

/-- `db.snapsList`, front first -/
abbrev SList := List Elem

/-- `DB.acquireSnapshot` with `seq := db.getSeq()`: only the *back* element is looked at — equal sequence
number: one more reference; smaller: `panic("leveldb: sequence number is not increasing")`; otherwise a new
element is pushed at the back. -/
def acquire : SList → Nat → Option SList
  | [], seq => some [⟨seq, 1⟩]
  | [e], seq =>
    if e.seq = seq then some [⟨e.seq, e.ref + 1⟩]
    else if seq < e.seq then none
    else some [e, ⟨seq, 1⟩]
  | e :: e' :: r, seq => (acquire (e' :: r) seq).map (e :: ·)

/-- `DB.releaseSnapshot(se)` for the element with sequence number `seq`: `se.ref--`, the element is
removed when the count reaches zero.  An element that is not in the list was removed by an earlier
release: its count goes negative, `panic("leveldb: Snapshot: negative element reference")`. -/
def release : SList → Nat → Option SList
  | [], _ => none
  | e :: r, seq =>
    if e.seq = seq then (if e.ref ≤ 1 then some r else some (⟨e.seq, e.ref - 1⟩ :: r))
    else (release r seq).map (e :: ·)

/-- `DB.minSeq()`: the front element's sequence number, `db.getSeq()` for an empty list -/
def minSeq (l : SList) (dbSeq : Nat) : Nat :=
  match l with
  | e :: _ => e.seq
  | [] => dbSeq

/-- the reference count of sequence number `s` (0 = no element) -/
def refOf : SList → Nat → Nat
  | [], _ => 0
  | e :: r, s => if e.seq = s then e.ref else refOf r s

/-- what the Go code maintains: strictly increasing sequence numbers, no element without a reference -/
def Wf (l : SList) : Prop := l.Pairwise (fun a b => a.seq < b.seq) ∧ ∀ e ∈ l, 0 < e.ref

/-- `l` represents the multiset `live` of acquired-and-not-yet-released sequence numbers -/
def Rep (l : SList) (live : List Nat) : Prop := Wf l ∧ ∀ s, refOf l s = live.count s

/-- the operations of a history of the list -/
inductive Op
  | acquire (seq : Nat)
  | release (seq : Nat)
deriving DecidableEq, Repr

def apply (l : SList) : Op → Option SList
  | .acquire s => acquire l s
  | .release s => release l s

/-- ghost: the acquisitions that were not released -/
def liveAfter (live : List Nat) : Op → List Nat
  | .acquire s => live ++ [s]
  | .release s => live.erase s

def run : SList → List Op → Option SList
  | l, [] => some l
  | l, o :: os => (apply l o).bind (run · os)

def liveRun : List Nat → List Op → List Nat
  | live, [] => live
  | live, o :: os => liveRun (liveAfter live o) os

/-- a history as the DB produces it: every acquisition carries the value of `db.seq` of its moment, which is at
least every value read before (`hi` = the largest so far); a release gives back an acquisition that is live -/
def Legal : Nat → List Nat → List Op → Prop
  | _, _, [] => True
  | hi, live, .acquire s :: os => hi ≤ s ∧ Legal s (live ++ [s]) os
  | hi, live, .release s :: os => s ∈ live ∧ Legal hi (live.erase s) os

end GoLevel.Snaps
