import GoLevel.Model.Batch
/-!
# `Disk`: the storage contract at record granularity (C04, C08, C19)

What the durable state machine (`Model/Durable.lean`) assumes about `storage.Storage`:

* a journal or manifest file is a list of *records*, split into a `synced` prefix (survives every crash)
  and an `unsynced` tail; after a crash the tail is lost, kept, or cut anywhere — at record granularity: a
  prefix of the tail survives.  This is what the byte level gives: by `C12.decode_truncate_tolerant` /
  `C12.decode_zero_tail` a torn or zero-extended image of `Journal.encode rs` reads back as a prefix of `rs`
  (`C04.image_reads_prefix`).  The record that is cut is lost; for a *manifest* the reader of
  `session.recover` is a streaming one and may have seen the leading fields of the cut record
  (`MRec.torn`, see `Cfg.failedRecordLeavesNoTrace`);
* a table file is either complete or (if it was not synced when the crash came) unreadable;
* namespace operations (`create`, `remove`, `rename`, `setMeta`) are atomic, durable when they return, and
  ordered;
* every operation can fail, with or without having had its effect (`Outcome`).

A journal record is a write group `Grp`; a table's content is the list of groups whose entries it holds
(flushes write whole memdbs, i.e. whole groups; for compaction outputs this is ghost information — the
physical entries are `view`-equivalent by C03/C06).
-/
namespace GoLevel.Dur
open GoLevel

/-! ## files keyed by number -/

abbrev Files (α : Type) := List (Nat × α)

def lookup {α : Type} (m : Files α) (n : Nat) : Option α := (m.find? (·.1 = n)).map (·.2)

/-- replace the file in place, or add it at the end (new files get fresh, larger numbers) -/
def Files.set {α : Type} : Files α → Nat → α → Files α
  | [], n, a => [(n, a)]
  | (m, b) :: rest, n, a => if m = n then (n, a) :: rest else (m, b) :: Files.set rest n a

def Files.erase {α : Type} (m : Files α) (n : Nat) : Files α := m.filter (·.1 ≠ n)

def Files.nums {α : Type} (m : Files α) : List Nat := m.map (·.1)

/-- update the file if it exists -/
def Files.modify {α : Type} (m : Files α) (n : Nat) (f : α → α) : Files α :=
  m.map fun p => if p.1 = n then (p.1, f p.2) else p

/-! ## records -/

/-- a write group as journalled by `writeJournal`: first sequence number, the merged batches' records, and
    whether one of the merged writes asked for `Sync`.  A committed transaction is also a `Grp` (its
    entries go to tables directly). -/
structure Grp where
  seq  : Nat
  recs : List Batch.Rec
  sync : Bool
deriving DecidableEq, Repr

def Grp.n (g : Grp) : Nat := g.recs.length
def Grp.ents (g : Grp) : List Entry := Batch.entries g.seq g.recs
/-- first sequence number not used by the group -/
def Grp.fin (g : Grp) : Nat := g.seq + g.n

/-- a manifest record (`sessionRecord`) at the level the protocol needs: table numbers only -/
structure MRec where
  /-- written by `newManifest`: carries the comparer name (and all other required fields) -/
  snapshot : Bool := false
  jn : Option Nat := none
  sq : Option Nat := none
  /-- `recNextFileNum` (set by `fillRecord` in every record) -/
  nf : Nat := 0
  added : List Nat := []
  deleted : List Nat := []
  /-- crash artefact: only the leading chunk(s) of the record survived; the streaming decoder saw its
      scalar fields and then a short read -/
  torn : Bool := false
deriving DecidableEq, Repr

structure LogFile (ρ : Type) where
  synced : List ρ := []
  unsynced : List ρ := []
deriving DecidableEq, Repr

def LogFile.all {ρ : Type} (f : LogFile ρ) : List ρ := f.synced ++ f.unsynced

structure TableFile where
  grps : List Grp := []
  synced : Bool := false
  /-- unreadable (it was not synced when a crash came) -/
  bad : Bool := false
deriving DecidableEq, Repr

structure Disk where
  /-- `CURRENT` (`SetMeta`/`GetMeta`) -/
  current : Option Nat := none
  manifests : Files (LogFile MRec) := []
  journals : Files (LogFile Grp) := []
  tables : Files TableFile := []
deriving DecidableEq, Repr

/-! ## operations -/

inductive FKind
  | manifest | journal | table
deriving DecidableEq, Repr

/-- the mutating calls of `storage.Storage` / `storage.Writer` -/
inductive Op
  | create (k : FKind) (n : Nat)
  | writeM (n : Nat) (r : MRec)            -- one manifest record (`Next`/`encode`/`Flush`)
  | writeJ (n : Nat) (g : Grp)             -- one journal record
  | writeT (n : Nat) (gs : List Grp)       -- the whole table (`tWriter.append*`, `finish`)
  | sync (k : FKind) (n : Nat)
  | close (k : FKind) (n : Nat)
  | remove (k : FKind) (n : Nat)
  | renameT (a b : Nat)                    -- `Rename` (only `recoverTable` renames, tables)
  | setMeta (n : Nat)
deriving DecidableEq, Repr

def LogFile.append {ρ : Type} (f : LogFile ρ) (r : ρ) : LogFile ρ := { f with unsynced := f.unsynced ++ [r] }
def LogFile.sync {ρ : Type} (f : LogFile ρ) : LogFile ρ := ⟨f.all, []⟩

/-- the effect of an operation that takes effect -/
def Disk.apply (d : Disk) : Op → Disk
  | .create .manifest n => { d with manifests := d.manifests.set n {} }
  | .create .journal n => { d with journals := d.journals.set n {} }
  | .create .table n => { d with tables := d.tables.set n {} }
  | .writeM n r => { d with manifests := d.manifests.modify n (·.append r) }
  | .writeJ n g => { d with journals := d.journals.modify n (·.append g) }
  | .writeT n gs => { d with tables := d.tables.modify n fun t => { t with grps := gs } }
  | .sync .manifest n => { d with manifests := d.manifests.modify n (·.sync) }
  | .sync .journal n => { d with journals := d.journals.modify n (·.sync) }
  | .sync .table n => { d with tables := d.tables.modify n fun t => { t with synced := true } }
  | .close _ _ => d
  | .remove .manifest n => { d with manifests := d.manifests.erase n }
  | .remove .journal n => { d with journals := d.journals.erase n }
  | .remove .table n => { d with tables := d.tables.erase n }
  | .renameT a b =>
    match lookup d.tables a with
    | some t => { d with tables := (d.tables.erase a).set b t }
    | none => d
  | .setMeta n => { d with current := some n }

inductive Outcome
  | ok | failNoEffect | failEffect
deriving DecidableEq, Repr

def Outcome.failed : Outcome → Bool
  | .ok => false
  | _ => true

/-- an operation with its outcome -/
def Disk.exec (d : Disk) (op : Op) : Outcome → Disk
  | .failNoEffect => d
  | _ => d.apply op

/-! ## crashes -/

/-- the adversary's choices at a crash -/
structure CrashChoice where
  /-- how many unsynced records of manifest `n` survive -/
  cutM : Nat → Nat := fun _ => 0
  /-- how many unsynced records of journal `n` survive -/
  cutJ : Nat → Nat := fun _ => 0
  /-- the first lost record of manifest `n` survives as a torn record -/
  tornM : Nat → Bool := fun _ => false
  /-- the unsynced table `n` survives intact (otherwise it is unreadable) -/
  keepT : Nat → Bool := fun _ => false

def crashLog {ρ : Type} (k : Nat) (f : LogFile ρ) : LogFile ρ := ⟨f.synced ++ f.unsynced.take k, []⟩

def crashManifest (k : Nat) (torn : Bool) (f : LogFile MRec) : LogFile MRec :=
  match torn, f.unsynced.drop k with
  | true, r :: _ => ⟨f.synced ++ f.unsynced.take k ++ [{ r with torn := true }], []⟩
  | _, _ => crashLog k f

def crashTable (keep : Bool) (t : TableFile) : TableFile :=
  if t.synced then t else if keep then { t with synced := true } else { t with grps := [], synced := true, bad := true }

/-- the storage after a crash: every surviving byte is now durable -/
def crashWith (ch : CrashChoice) (d : Disk) : Disk :=
  { current := d.current
    manifests := d.manifests.map fun (n, f) => (n, crashManifest (ch.cutM n) (ch.tornM n) f)
    journals := d.journals.map fun (n, f) => (n, crashLog (ch.cutJ n) f)
    tables := d.tables.map fun (n, t) => (n, crashTable (ch.keepT n) t) }

/-- `d'` is a possible content of the storage after a crash in state `d` -/
def IsCrashImage (d d' : Disk) : Prop := ∃ ch, d' = crashWith ch d

/-- nothing is lost: a clean process exit (the OS keeps what was written) -/
def keepAll (d : Disk) : CrashChoice :=
  { cutM := fun n => ((lookup d.manifests n).map (·.unsynced.length)).getD 0
    cutJ := fun n => ((lookup d.journals n).map (·.unsynced.length)).getD 0
    tornM := fun _ => false
    keepT := fun _ => true }

end GoLevel.Dur
