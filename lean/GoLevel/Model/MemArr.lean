import GoLevel.Gen.Consts
import GoLevel.Model.Bytes
import GoLevel.Model.MemDB
/-!
# The in-memory table as the Go code stores it (`leveldb/memdb/memdb.go`) — property C14

`GoLevel/Model/MemDB.lean` is an *ideal* skip list.  This file transcribes `memdb.go` over the two flat arrays the
code really uses:

* `kvData : Array UInt8` — the append-only key/value bytes (`[]byte`);
* `nodeData : Array Nat` — the nodes (`[]int`): a node at index `n` has `[n+nKV]` = offset of its key in `kvData`,
  `[n+nKey]` = key length, `[n+nVal]` = value length, `[n+nHeight]` = tower height, `[n+nNext+i]` = index of the
  next node on level `i` (0 = none).  Node 0 is the head (height `tMaxHeight`);
* `prevNode : List Nat` — the scratch array `[tMaxHeight]int` filled by `findGE(key, true)`;
* `maxHeight`, `n`, `kvSize`.

Conventions of the transcription:

* every function returns an `Option`; `none` stands for a Go run-time panic (index out of range, slice bounds out
  of range) or for an exhausted fuel.  The simulation theorems (`GoLevel/Proofs/MemArr*.lean`) show that on states
  that represent an ideal table (`Rep`) the result is always `some …` — no panic, fuel sufficient.
* Go `for` loops without a bound (`findGE`, `findLT`, `findLast`) take a fuel argument; the public wrappers pass
  `nodeData.size`, shown sufficient by `findGE_sim`/`findLT_sim`/`findLast_sim` (`Proofs/MemArrFind.lean`; the bound
  is `Rep.fuel_ok : lvlFuel d.levels ≤ a.nodeData.size` — one iteration per live pointer plus one per level).  Loops over `prevNode[:h]` and the
  counting loops of `Put`/`Reset` are structural recursions.
* A slice expression `kvData[lo:hi]` is `slice`: it needs `lo ≤ hi ≤ len(kvData)`.  (Go only needs `hi ≤ cap`;
  the model is stricter, i.e. it "panics" more often than the code, so the no-panic result transfers.)
* `int` is modelled by `Nat`: no overflow (all quantities are bounded by the sizes of the two arrays), and the
  two subtractions (`kvSize += len(value) - m`, `kvSize -= …`, `n--`) are truncated — on represented states they never
  truncate (`Rep` gives `kvSize` = the sum of the live lengths and `n ≥ 1` when a key is found).
* `maxHeight - 1` with `maxHeight = 0` would be `-1` in Go; `New`/`Reset`/`Put` keep `maxHeight ≥ 1` (`Rep.mh_pos`).
* `Put` takes the tower height drawn by `randHeight` as an argument, like the ideal model.
* The iterator's `key`/`value` are Go slices aliasing `kvData`; the model holds copies.  `kvData` is append-only except
  for `Reset` (`kvData[:0]`), so the copy is faithful as long as no `Reset` intervenes between the `fill` and the use
  (`Prev` passes `i.key` to `findLT`).  After a `Reset` the bytes under the slice may be overwritten by later `Put`s,
  but then the key is not used any more:
* `gen` (repairs of D31 and D32): `Reset` increments `DB.gen`, every `fill` copies it into the iterator, `Next` and
  `Prev` on a valid iterator of an older generation drop the node instead of following a pointer of the truncated
  `nodeData` (`Next`) or searching with the stale key slice (`Prev`): the iterator is exhausted in the direction of
  the move.

Offsets and `tMaxHeight` come from `GoLevel.Gen`.  Core Lean only.
-/
namespace GoLevel.MemArr
open GoLevel.Gen (nKV nKey nVal nHeight nNext tMaxHeight)

abbrev Cmp := MemDB.Cmp

structure DB where
  kvData : Array UInt8
  nodeData : Array Nat
  prevNode : List Nat
  maxHeight : Nat
  n : Nat
  kvSize : Nat
  /-- `gen`: incremented by `Reset`; node indices do not survive a `Reset` (repair of D31) -/
  gen : Nat := 0

/-- `a[i] = v`; `none` = index out of range -/
def wr (a : Array Nat) (i v : Nat) : Option (Array Nat) :=
  if h : i < a.size then some (a.set i v h) else none

/-- `pn[i] = v` on the fixed-size array `prevNode`; `none` = index out of range -/
def setAt (pn : List Nat) (i v : Nat) : Option (List Nat) :=
  if i < pn.length then some (pn.set i v) else none

/-- `kvData[lo:hi]`; `none` = slice bounds out of range -/
def slice (kv : Array UInt8) (lo hi : Nat) : Option Bytes :=
  if lo ≤ hi ∧ hi ≤ kv.size then some (kv.extract lo hi).toList else none

/-- `memdb.New` (the capacity is not modelled: it only sizes the first allocation of `kvData`) -/
def DB.new : DB where
  kvData := #[]
  nodeData := (Array.replicate (4 + tMaxHeight) 0).setIfInBounds nHeight tMaxHeight
  prevNode := List.replicate tMaxHeight 0
  maxHeight := 1
  n := 0
  kvSize := 0

/-- `p.kvData[o : o+p.nodeData[node+nKey]]` with `o := p.nodeData[node]` -/
def DB.nodeKey (p : DB) (node : Nat) : Option Bytes := do
  let o ← p.nodeData[node]?
  let kl ← p.nodeData[node + nKey]?
  slice p.kvData o (o + kl)

/-- the value slice of a node as `Get`, `Find` and `fill` cut it: `kvData[m : m+nodeData[node+nVal]]` with
`m = nodeData[node] + nodeData[node+nKey]` -/
def DB.nodeVal (p : DB) (node : Nat) : Option Bytes := do
  let o ← p.nodeData[node]?
  let kl ← p.nodeData[node + nKey]?
  let vl ← p.nodeData[node + nVal]?
  slice p.kvData (o + kl) (o + kl + vl)

/-- the loop of `findGE(key, prev)`: `(node, h)` are the loop variables, `pn` is `p.prevNode`; returns
`(next, exact, prevNode)` -/
def findGELoop (cmp : Cmp) (p : DB) (key : Bytes) (prev : Bool) :
    Nat → Nat → Nat → List Nat → Option (Nat × Bool × List Nat)
  | 0, _, _, _ => none
  | fuel + 1, node, h, pn => do
    let next ← p.nodeData[node + nNext + h]?
    let c ← if next != 0 then (p.nodeKey next).map (cmp · key) else some Ordering.gt
    if c = .lt then findGELoop cmp p key prev fuel next h pn
    else
      let pn' ← if prev then setAt pn h node else some pn
      if !prev && c == .eq then some (next, true, pn')
      else if h = 0 then some (next, c == .eq, pn')
      else findGELoop cmp p key prev fuel node (h - 1) pn'

/-- `findGE(key, prev)` -/
def findGE (cmp : Cmp) (p : DB) (key : Bytes) (prev : Bool) : Option (Nat × Bool × List Nat) :=
  findGELoop cmp p key prev p.nodeData.size 0 (p.maxHeight - 1) p.prevNode

/-- the loop of `findLT(key)`; note that `o := p.nodeData[next]` is read before `next == 0` is tested (it then
reads the head's `nKV` field) and `p.nodeData[next+nKey]` only after it -/
def findLTLoop (cmp : Cmp) (p : DB) (key : Bytes) : Nat → Nat → Nat → Option Nat
  | 0, _, _ => none
  | fuel + 1, node, h => do
    let next ← p.nodeData[node + nNext + h]?
    let o ← p.nodeData[next]?
    let stop ← if next = 0 then some true else do
      let kl ← p.nodeData[next + nKey]?
      let k ← slice p.kvData o (o + kl)
      some (cmp k key != .lt)
    if stop then
      if h = 0 then some node else findLTLoop cmp p key fuel node (h - 1)
    else findLTLoop cmp p key fuel next h

/-- `findLT(key)` -/
def findLT (cmp : Cmp) (p : DB) (key : Bytes) : Option Nat :=
  findLTLoop cmp p key p.nodeData.size 0 (p.maxHeight - 1)

/-- the loop of `findLast()` -/
def findLastLoop (p : DB) : Nat → Nat → Nat → Option Nat
  | 0, _, _ => none
  | fuel + 1, node, h => do
    let next ← p.nodeData[node + nNext + h]?
    if next = 0 then
      if h = 0 then some node else findLastLoop p fuel node (h - 1)
    else findLastLoop p fuel next h

/-- `findLast()` -/
def findLast (p : DB) : Option Nat := findLastLoop p p.nodeData.size 0 (p.maxHeight - 1)

/-- `for i := p.maxHeight; i < h; i++ { p.prevNode[i] = 0 }`, `c` = number of iterations left -/
def clearLoop (pn : List Nat) (i : Nat) : Nat → Option (List Nat)
  | 0 => some pn
  | c + 1 => do
    let pn ← setAt pn i 0
    clearLoop pn (i + 1) c

/-- `for i, n := range p.prevNode[:h] { m := n+nNext+i; nodeData = append(nodeData, nodeData[m]); nodeData[m] = node }` -/
def linkLoop (node : Nat) : List Nat → Nat → Array Nat → Option (Array Nat)
  | [], _, nd => some nd
  | n :: rest, i, nd => do
    let m := n + nNext + i
    let v ← nd[m]?
    let nd ← wr (nd.push v) m node
    linkLoop node rest (i + 1) nd

/-- the overwrite branch of `Put`: the new key and value bytes are appended (the old ones stay in `kvData`), the node
gets the new offset and the new value length — `nodeData[node+nKey]` is *not* updated -/
def putOverwrite (p : DB) (node : Nat) (key value : Bytes) : Option DB := do
  let kvOffset := p.kvData.size
  let kv := p.kvData ++ key.toArray ++ value.toArray
  let nd ← wr p.nodeData node kvOffset
  let m ← nd[node + nVal]?
  let nd ← wr nd (node + nVal) value.length
  some { p with kvData := kv, nodeData := nd, kvSize := p.kvSize + value.length - m }

/-- the insert branch of `Put` with `h := p.randHeight()` -/
def putInsert (p : DB) (key value : Bytes) (h : Nat) : Option DB := do
  let (pn, mh) ← if h > p.maxHeight then (clearLoop p.prevNode p.maxHeight (h - p.maxHeight)).map (·, h)
                 else some (p.prevNode, p.maxHeight)
  let kvOffset := p.kvData.size
  let kv := p.kvData ++ key.toArray ++ value.toArray
  let node := p.nodeData.size
  let nd := (((p.nodeData.push kvOffset).push key.length).push value.length).push h
  -- `p.prevNode[:h]`
  if h > pn.length then none else
  let nd ← linkLoop node (pn.take h) 0 nd
  some { kvData := kv, nodeData := nd, prevNode := pn, maxHeight := mh, n := p.n + 1,
         kvSize := p.kvSize + (key.length + value.length), gen := p.gen }

/-- `Put(key, value)` where `randHeight` returns `h` (drawn only when the key is new) -/
def put (cmp : Cmp) (p : DB) (key value : Bytes) (h : Nat) : Option DB := do
  let (node, exact, pn) ← findGE cmp p key true
  let p := { p with prevNode := pn }
  if exact then putOverwrite p node key value else putInsert p key value h

/-- `for i, n := range p.prevNode[:h] { m := n+nNext+i; nodeData[m] = nodeData[nodeData[m]+nNext+i] }` -/
def unlinkLoop : List Nat → Nat → Array Nat → Option (Array Nat)
  | [], _, nd => some nd
  | n :: rest, i, nd => do
    let m := n + nNext + i
    let t ← nd[m]?
    let v ← nd[t + nNext + i]?
    let nd ← wr nd m v
    unlinkLoop rest (i + 1) nd

/-- `Delete(key)`; `false` = `ErrNotFound`.  The node and its bytes stay in the arrays. -/
def delete (cmp : Cmp) (p : DB) (key : Bytes) : Option (DB × Bool) := do
  let (node, exact, pn) ← findGE cmp p key true
  let p := { p with prevNode := pn }
  if !exact then some (p, false) else
  let h ← p.nodeData[node + nHeight]?
  if h > pn.length then none else
  let nd ← unlinkLoop (pn.take h) 0 p.nodeData
  let kl ← nd[node + nKey]?
  let vl ← nd[node + nVal]?
  some ({ p with nodeData := nd, kvSize := p.kvSize - (kl + vl), n := p.n - 1 }, true)

/-- `Contains(key)` -/
def contains (cmp : Cmp) (p : DB) (key : Bytes) : Option Bool := do
  let (_, exact, _) ← findGE cmp p key false
  some exact

/-- `Get(key)`; inner `none` = `ErrNotFound` -/
def get (cmp : Cmp) (p : DB) (key : Bytes) : Option (Option Bytes) := do
  let (node, exact, _) ← findGE cmp p key false
  if exact then (p.nodeVal node).map some else some none

/-- `Find(key)`; inner `none` = `ErrNotFound` -/
def find (cmp : Cmp) (p : DB) (key : Bytes) : Option (Option (Bytes × Bytes)) := do
  let (node, _, _) ← findGE cmp p key false
  if node != 0 then do
    let k ← p.nodeKey node
    let v ← p.nodeVal node
    some (some (k, v))
  else some none

/-- the loop of `Reset`: `for n := 0; n < tMaxHeight; n++ { nodeData[nNext+n] = 0; prevNode[n] = 0 }` -/
def resetLoop (nd : Array Nat) (pn : List Nat) (n : Nat) : Nat → Option (Array Nat × List Nat)
  | 0 => some (nd, pn)
  | c + 1 => do
    let nd ← wr nd (nNext + n) 0
    let pn ← setAt pn n 0
    resetLoop nd pn (n + 1) c

/-- `Reset()`: `gen++`, `kvData[:0]`, `nodeData[:nNext+tMaxHeight]` (both keep their capacity, which the model does
not see), the head's fields and pointers are rewritten -/
def reset (p : DB) : Option DB := do
  if p.nodeData.size < nNext + tMaxHeight then none else
  let nd := p.nodeData.extract 0 (nNext + tMaxHeight)
  let nd ← wr nd nKV 0
  let nd ← wr nd nKey 0
  let nd ← wr nd nVal 0
  let nd ← wr nd nHeight tMaxHeight
  let (nd, pn) ← resetLoop nd p.prevNode 0 tMaxHeight
  some { kvData := #[], nodeData := nd, prevNode := pn, maxHeight := 1, n := 0, kvSize := 0, gen := p.gen + 1 }

/-! ## `dbIter` -/

structure Iter where
  start : Option Bytes := none     -- `slice.Start` (`slice == nil` behaves as both nil)
  limit : Option Bytes := none
  node : Nat := 0
  forward : Bool := false
  key : Option Bytes := none       -- `nil` = `none`
  value : Option Bytes := none
  gen : Nat := 0                   -- generation of the DB that `node` belongs to (set by every `fill`)
deriving DecidableEq

/-- `fill(checkStart, checkLimit)`; the Boolean is the return value.  `i.gen = i.p.gen` is its first statement. -/
def Iter.fill (cmp : Cmp) (p : DB) (it : Iter) (checkStart checkLimit : Bool) : Option (Iter × Bool) :=
  let it := { it with gen := p.gen }
  if it.node != 0 then do
    let n ← p.nodeData[it.node]?
    let kl ← p.nodeData[it.node + nKey]?
    let m := n + kl
    let key ← slice p.kvData n m
    let beyond := match it.limit with
      | some l => checkLimit && cmp key l != .lt
      | none => false
    let before := match it.start with
      | some s => checkStart && cmp key s == .lt
      | none => false
    if beyond || before then some ({ it with node := 0, key := none, value := none }, false)
    else do
      let vl ← p.nodeData[it.node + nVal]?
      let value ← slice p.kvData m (m + vl)
      some ({ it with key := some key, value := some value }, true)
  else some ({ it with key := none, value := none }, false)

def Iter.first (cmp : Cmp) (p : DB) (it : Iter) : Option (Iter × Bool) := do
  let node ← match it.start with
    | some s => (findGE cmp p s false).map (·.1)
    | none => p.nodeData[nNext]?
  Iter.fill cmp p { it with forward := true, node := node } false true

def Iter.last (cmp : Cmp) (p : DB) (it : Iter) : Option (Iter × Bool) := do
  let node ← match it.limit with
    | some l => findLT cmp p l
    | none => findLast p
  Iter.fill cmp p { it with forward := false, node := node } true false

def Iter.seek (cmp : Cmp) (p : DB) (key : Bytes) (it : Iter) : Option (Iter × Bool) := do
  let key := match it.start with
    | some s => if cmp key s == .lt then s else key
    | none => key
  let r ← findGE cmp p key false
  Iter.fill cmp p { it with forward := true, node := r.1 } false true

def Iter.next (cmp : Cmp) (p : DB) (it : Iter) : Option (Iter × Bool) :=
  if it.node = 0 then
    if !it.forward then it.first cmp p else some (it, false)
  else do
    -- `if i.gen != i.p.gen { i.node = 0 } else { i.node = i.p.nodeData[i.node+nNext] }`
    let node ← if it.gen != p.gen then some 0 else p.nodeData[it.node + nNext]?
    Iter.fill cmp p { it with forward := true, node := node } false true

def Iter.prev (cmp : Cmp) (p : DB) (it : Iter) : Option (Iter × Bool) :=
  if it.node = 0 then
    if it.forward then it.last cmp p else some (it, false)
  else do
    -- `if i.gen != i.p.gen { i.node = 0 } else { i.node = i.p.findLT(i.key) }`; `i.key` is never nil while
    -- `i.node != 0`
    let node ← if it.gen != p.gen then some 0 else findLT cmp p (it.key.getD [])
    Iter.fill cmp p { it with forward := false, node := node } true false

def Iter.step (cmp : Cmp) (p : DB) : Call Bytes → Iter → Option (Iter × Bool)
  | .first, it => it.first cmp p
  | .last, it => it.last cmp p
  | .seek k, it => it.seek cmp p k
  | .next, it => it.next cmp p
  | .prev, it => it.prev cmp p

/-- what the caller observes after a move: `Key()`, `Value()` when the move returned true -/
def Iter.out (it : Iter) : Option (Bytes × Bytes) :=
  if it.node = 0 then none else some (it.key.getD [], it.value.getD [])

/-- the observations of a sequence of moves on an unchanging table; `none` = a panic somewhere -/
def Iter.run (cmp : Cmp) (p : DB) : Iter → List (Call Bytes) → Option (List (Option (Bytes × Bytes)))
  | _, [] => some []
  | it, c :: cs => do
    let (it', _) ← Iter.step cmp p c it
    let rest ← Iter.run cmp p it' cs
    some (it'.out :: rest)

/-! ## operations and answers (same `Op`/`Ans` as the ideal model) -/

open MemDB (Op Ans)

def step (cmp : Cmp) (p : DB) : Op → Option (DB × Ans)
  | .put k v h => (put cmp p k v h).map (·, .ok)
  | .delete k => (delete cmp p k).map fun r => (r.1, if r.2 then .ok else .notFound)
  | .reset => (reset p).map (·, .ok)
  | .get k => (get cmp p k).map fun r => (p, match r with | some v => .val v | none => .notFound)
  | .find k => (find cmp p k).map fun r => (p, match r with | some (k', v) => .pair k' v | none => .notFound)
  | .contains k => (contains cmp p k).map fun b => (p, .bool b)
  | .len => some (p, .num p.n)
  | .size => some (p, .num p.kvSize)

def run (cmp : Cmp) : DB → List Op → Option (List Ans)
  | _, [] => some []
  | p, o :: os => do
    let (p', a) ← step cmp p o
    let rest ← run cmp p' os
    some (a :: rest)

def exec (cmp : Cmp) : DB → List Op → Option DB
  | p, [] => some p
  | p, o :: os => do
    let (p', _) ← step cmp p o
    exec cmp p' os

/-! ## interleaving model: one writer, readers and iterators; every step atomic

`mu` makes every public method and every iterator movement one critical section (`Gen.memMethodsAtomic`).  A concurrent
execution observed from one iterator is an interleaving of operations (`op`: the writer's `Put`/`Delete`/`Reset`, and the
`Get`/`Find`/`Contains`/`Len`/`Size` of any reader — steps of *other* iterators do not change the table and behave like
`Len`) and moves of the observed iterator.  The iterator's `key`/`value` slices alias `kvData`; inside one generation
`kvData` only grows (`C14.memarr_kvdata_append_only`) and in an older generation the slices are not read, so the copies
the model holds are what the code sees. -/

inductive Ev
  | op (o : Op)
  | move (c : Call Bytes)

def Ev.valid : Ev → Prop
  | .op o => o.valid
  | _ => True

def Ev.isMove : Ev → Bool
  | .move _ => true
  | _ => false

def Ev.isReset : Ev → Bool
  | .op .reset => true
  | _ => false

structure CState where
  db : DB
  it : Iter

def cstep (cmp : Cmp) (s : CState) : Ev → Option CState
  | .op o => (step cmp s.db o).map fun r => { s with db := r.1 }
  | .move c => (Iter.step cmp s.db c s.it).map fun r => { s with it := r.1 }

def cexec (cmp : Cmp) : CState → List Ev → Option CState
  | s, [] => some s
  | s, e :: es => (cstep cmp s e).bind fun s' => cexec cmp s' es

/-- what the move `c` yields in state `s`: outer `none` = panic, inner `none` = the move returned false -/
def cyield (cmp : Cmp) (s : CState) (c : Call Bytes) : Option (Option (Bytes × Bytes)) :=
  (Iter.step cmp s.db c s.it).map fun r => r.1.out

/-- the pairs put since the last `Reset`, newest first -/
def putsStep (acc : List (Bytes × Bytes)) : Ev → List (Bytes × Bytes)
  | .op (.put k v _) => (k, v) :: acc
  | .op .reset => []
  | _ => acc

def putsOf (evs : List Ev) : List (Bytes × Bytes) := evs.foldl putsStep []

end GoLevel.MemArr
