import GoLevel.Model.Filter
/-!
# Which filter policy a table is read with (`table.NewReader`, the `filter.<name>` metaindex entry)

```go
fn := key[7:]
if f0 := o.GetFilter(); f0 != nil && f0.Name() == fn {
    r.filter = f0
} else {
    for _, f0 := range o.GetAltFilters() {
        if f0.Name() == fn { r.filter = f0; break }
    }
}
```

`Model/Table.metaLoop` models the `o.GetFilter()` half only; this is the whole choice for one metaindex entry
(`r.filter` was nil before: a table has one filter entry).  Core Lean only.
-/
namespace GoLevel.FilterSelect
open GoLevel

/-- the policy `NewReader` adopts for a table whose metaindex names policy `fn` -/
def select (main : Option FilterPolicy) (alts : List FilterPolicy) (fn : Bytes) : Option FilterPolicy :=
  match main with
  | some f0 => if f0.name = fn then some f0 else alts.find? (fun f => f.name == fn)
  | none => alts.find? (fun f => f.name == fn)

/-- the name-only view used by the driver (`none` = read without a filter) -/
def selectName (main : Option Bytes) (alts : List Bytes) (fn : Bytes) : Option Bytes :=
  match main with
  | some n => if n = fn then some n else alts.find? (· == fn)
  | none => alts.find? (· == fn)

end GoLevel.FilterSelect
