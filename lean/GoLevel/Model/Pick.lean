import GoLevel.Model.LSM
/-!
# How a table compaction is built (`session_compaction.go`, `table.go`)

Transcription of the code that *chooses* what a table compaction works on and of the two pieces of mutable
state the compaction carries while `tableCompactionBuilder.run` consumes the merged input:

* `table.go`: `tFile.after/before/overlaps` (bounds may be `nil`), `tFiles.size`, `tFiles.getOverlaps`
  (both branches: the index arithmetic over `searchMinUkey`/`searchMaxUkey` of a sorted level, and the
  restarting scan of level 0), `tFiles.getRange` (= `GoLevel.getRange`);
* `session_compaction.go`: `pickCompaction` (score based: first table after `stCompPtrs[level]`; seek based: the
  recorded table), `getCompactionRange` (with the source-size limit), `newCompaction`, `compaction.expand`
  (level-0 closure, level+1 overlaps, the "grow the source level while the level+1 set stays the same and the
  total stays under the limit" step, grandparents), `compaction.trivial`, `compaction.baseLevelForKey`
  with its cursor `tPtrs`, `compaction.shouldStopBefore` (`gpi`, `seenKey`, `gpOverlappedBytes`),
  `compaction.save/restore`;
* `db_compaction.go`: the drop rules of `tableCompactionBuilder.run` with the *stateful* `baseLevelForKey`
  evaluated exactly when Go's `switch` evaluates it (`bstepC`/`buildC`), and the table rotation of `run`
  (`cutStep`/`cutRun`/`runTables`: a table is finished only at the first occurrence of a user key, when
  `shouldStopBefore` or `needFlush` ask for it).

Limits come from `opt.Options` getters (floating-point arithmetic over user options): they are parameters
(`Limits`).  `int64` overflow of size sums is not modelled.  Go panics (index out of range, `ukey()` of a
nil key) are `none`; `Proofs/PickExpand.lean` shows they are unreachable from the callers.
Core Lean only.
-/
namespace GoLevel.Pick

/-- level `i` of a version, `[]` beyond the last level (`vt1 := tFiles{}` in `expand`) -/
def lvlOf (v : Version) (i : Nat) : Level := v.levels[i]?.getD []

/-- `Options.GetCompactionExpandLimit / GetCompactionGPOverlaps / GetCompactionSourceLimit`, by source level -/
structure Limits where
  expandLimit : Nat → Nat
  gpOverlaps  : Nat → Nat
  sourceLimit : Nat → Nat

/-! ## `table.go` -/

/-- `tFile.after(icmp, ukey)`: `ukey != nil && uCompare(ukey, t.imax.ukey()) > 0` -/
def tAfter (c : UCmp) (t : Table) : Option Bytes → Bool
  | some k => c.cmp k t.imax.ukey == .gt
  | none => false

/-- `tFile.before(icmp, ukey)`: `ukey != nil && uCompare(ukey, t.imin.ukey()) < 0` -/
def tBefore (c : UCmp) (t : Table) : Option Bytes → Bool
  | some k => c.cmp k t.imin.ukey == .lt
  | none => false

/-- `tFile.overlaps(icmp, umin, umax)` -/
def tOverlaps (c : UCmp) (t : Table) (umin umax : Option Bytes) : Bool :=
  !tAfter c t umin && !tBefore c t umax

/-- `tFiles.size` -/
def tSize (ts : List Table) : Nat := ts.foldl (fun s t => s + t.size) 0

/-- `begin` of `tFiles.getOverlaps`, branch `!overlapped`.  `sort.Search` over a predicate that is monotone on
a sorted level is the first index satisfying it (`List.findIdx`). -/
def goBeginO (c : UCmp) (tf : Level) : Option Bytes → Nat
  | none => 0
  | some umin =>
    let index := tf.findIdx (fun t => c.cmp t.imin.ukey umin == .gt)           -- searchMinUkey
    if index = 0 then 0 else
      match tf[index - 1]? with
      | some t => if c.cmp t.imax.ukey umin != .lt then index - 1 else index
      | none => index

/-- `end` of `tFiles.getOverlaps`, branch `!overlapped` -/
def goEndO (c : UCmp) (tf : Level) : Option Bytes → Nat
  | none => tf.length
  | some umax =>
    let index := tf.findIdx (fun t => c.cmp t.imax.ukey umax == .gt)           -- searchMaxUkey
    if index = tf.length then tf.length else
      match tf[index]? with
      | some t => if c.cmp t.imin.ukey umax != .gt then index + 1 else index
      | none => index

/-- `tFiles.getOverlaps(…, overlapped = false)`: `copy(dst, tf[begin:end])` -/
def overlapsSortedGo (c : UCmp) (tf : Level) (umin umax : Option Bytes) : List Table :=
  if goBeginO c tf umin ≥ goEndO c tf umax then []
  else (tf.drop (goBeginO c tf umin)).take (goEndO c tf umax - goBeginO c tf umin)

/-- `umin != nil && icmp.uCompare(t.imin.ukey(), umin) < 0` -/
def widensMin (c : UCmp) (t : Table) : Option Bytes → Bool
  | some m => c.cmp t.imin.ukey m == .lt
  | none => false

/-- `umax != nil && icmp.uCompare(t.imax.ukey(), umax) > 0` -/
def widensMax (c : UCmp) (t : Table) : Option Bytes → Bool
  | some m => c.cmp t.imax.ukey m == .gt
  | none => false

/-- one pass of the `for i := 0; i < len(tf);` loop of the `overlapped` branch: either it runs to the end
(`inr dst`) or a table widens the range and the loop restarts with `i = 0`, `dst = dst[:0]` (`inl` new range) -/
def scanL0 (c : UCmp) (umin umax : Option Bytes) :
    List Table → List Table → Sum (Option Bytes × Option Bytes) (List Table)
  | [], acc => .inr acc.reverse
  | t :: ts, acc =>
    if tOverlaps c t umin umax then
      if widensMin c t umin then .inl (some t.imin.ukey, umax)
      else if widensMax c t umax then .inl (umin, some t.imax.ukey)
      else scanL0 c umin umax ts (t :: acc)
    else scanL0 c umin umax ts acc

/-- `tFiles.getOverlaps(…, overlapped = true)`; fuel bounds the number of restarts (each strictly widens the
range to a bound of a table, so `2·len + 1` passes suffice: `Proofs/PickOverlap.lean`) -/
def overlapsL0Go (c : UCmp) (tf : Level) : Nat → Option Bytes → Option Bytes → List Table
  | 0, umin, umax => tf.filter (tOverlaps c · umin umax)
  | fuel + 1, umin, umax =>
    match scanL0 c umin umax tf [] with
    | .inl (a, b) => overlapsL0Go c tf fuel a b
    | .inr r => r

/-- `tFiles.getOverlaps(dst, icmp, umin, umax, overlapped)`.  `dst` is only a buffer (its content is
overwritten and never read), so it is not a parameter. -/
def getOverlapsGo (c : UCmp) (tf : Level) (umin umax : Option Bytes) (overlapped : Bool) : List Table :=
  if tf.isEmpty then []
  else if !overlapped then overlapsSortedGo c tf umin umax
  else overlapsL0Go c tf (2 * tf.length + 1) umin umax

/-! ## the compaction state -/

/-- `type compaction struct` (without `s`, `typ`, `released`) -/
structure Compaction where
  v : Version
  sourceLevel : Nat
  s0 : List Table                 -- levels[0]
  s1 : List Table                 -- levels[1]
  maxGPOverlaps : Nat
  gp : List Table
  gpi : Nat
  seenKey : Bool
  gpOverlappedBytes : Nat
  imin : IKey
  imax : IKey
  tPtrs : List Nat
  snapGPI : Nat
  snapSeenKey : Bool
  snapGPOverlappedBytes : Nat
  snapTPtrs : List Nat
deriving DecidableEq, Repr

/-- `compaction.save` -/
def Compaction.save (cm : Compaction) : Compaction :=
  { cm with snapGPI := cm.gpi, snapSeenKey := cm.seenKey, snapGPOverlappedBytes := cm.gpOverlappedBytes,
            snapTPtrs := cm.tPtrs }

/-- `compaction.restore` -/
def Compaction.restore (cm : Compaction) : Compaction :=
  { cm with gpi := cm.snapGPI, seenKey := cm.snapSeenKey, gpOverlappedBytes := cm.snapGPOverlappedBytes,
            tPtrs := cm.snapTPtrs }

/-- what `compaction.expand` settles on -/
structure Expanded where
  s0 : List Table
  s1 : List Table
  imin : IKey
  imax : IKey
  gp : List Table
deriving DecidableEq, Repr

/-- the first half of `expand`: close level-0 inputs under overlap, recompute the range if they grew.
`none` = Go panics in `imin.ukey()` on the nil key `getRange` returns for an empty list. -/
def expandSrc (c : UCmp) (v : Version) (src : Nat) (t0in : List Table) : Option (List Table × IKey × IKey) :=
  match getRange c t0in with
  | none => none
  | some (imin, imax) =>
    if src = 0 then
      -- "We expand t0 here just incase ukey hop across tables."
      let t0 := getOverlapsGo c (lvlOf v src) (some imin.ukey) (some imax.ukey) true
      if t0.length ≠ t0in.length then
        match getRange c t0 with
        | some (a, b) => some (t0, a, b)
        | none => none
      else some (t0, imin, imax)
    else some (t0in, imin, imax)

/-- the "see if we can grow the number of inputs in sourceLevel without changing the number of sourceLevel+1
files we pick up" step of `expand`: `some` = the expansion is taken -/
def expandGrow (c : UCmp) (limit : Nat) (v : Version) (src : Nat) (t0 t1 : List Table) (amin amax : IKey) :
    Option (List Table × List Table × IKey × IKey) :=
  if t1.length > 0 then
    let exp0 := getOverlapsGo c (lvlOf v src) (some amin.ukey) (some amax.ukey) (src == 0)
    if exp0.length > t0.length ∧ tSize t1 + tSize exp0 < limit then
      match getRange c exp0 with
      | some (xmin, xmax) =>
        let exp1 := getOverlapsGo c (lvlOf v (src + 1)) (some xmin.ukey) (some xmax.ukey) false
        if exp1.length = t1.length then some (exp0, exp1, xmin, xmax) else none
      | none => none
    else none
  else none

/-- `compaction.expand` on the initial `levels[0] = t0in`, `levels[1] = nil` -/
def expand (c : UCmp) (limit : Nat) (v : Version) (src : Nat) (t0in : List Table) : Option Expanded :=
  match expandSrc c v src t0in with
  | none => none
  | some (t0, imin, imax) =>
    let t1 := getOverlapsGo c (lvlOf v (src + 1)) (some imin.ukey) (some imax.ukey) false
    -- "Get entire range covered by compaction."
    match getRange c (t0 ++ t1) with
    | none => none
    | some (amin, amax) =>
      let r : Option (List Table × List Table × IKey × IKey × IKey × IKey) :=
        match expandGrow c limit v src t0 t1 amin amax with
        | some (e0, e1, xmin, xmax) =>
          match getRange c (e0 ++ e1) with
          | some (a, b) => some (e0, e1, xmin, xmax, a, b)
          | none => none
        | none => some (t0, t1, imin, imax, amin, amax)
      match r with
      | none => none
      | some (t0, t1, imin, imax, amin, amax) =>
        -- grandparents: parent = sourceLevel+1, grandparent = sourceLevel+2
        let gp := if src + 2 < v.levels.length then
            getOverlapsGo c (lvlOf v (src + 2)) (some amin.ukey) (some amax.ukey) false else []
        some ⟨t0, t1, imin, imax, gp⟩

/-- `newCompaction(s, v, sourceLevel, t0, typ)`: `expand` then `save` -/
def newCompaction (c : UCmp) (o : Limits) (v : Version) (src : Nat) (t0 : List Table) : Option Compaction :=
  match expand c (o.expandLimit src) v src t0 with
  | none => none
  | some e =>
    some (Compaction.save
      { v := v, sourceLevel := src, s0 := e.s0, s1 := e.s1, maxGPOverlaps := o.gpOverlaps src, gp := e.gp,
        gpi := 0, seenKey := false, gpOverlappedBytes := 0, imin := e.imin, imax := e.imax,
        tPtrs := List.replicate v.levels.length 0,
        snapGPI := 0, snapSeenKey := false, snapGPOverlappedBytes := 0, snapTPtrs := [] })

/-- the part of a compaction `expand` computed -/
def Compaction.chosen (cm : Compaction) : Expanded := ⟨cm.s0, cm.s1, cm.imin, cm.imax, cm.gp⟩

/-- `compaction.trivial` -/
def Compaction.trivial (cm : Compaction) : Bool :=
  cm.s0.length == 1 && cm.s1.length == 0 && decide (tSize cm.gp ≤ cm.maxGPOverlaps)

/-! ## which tables a compaction starts from -/

/-- what `pickCompaction` reads besides the table lists: `v.cScore >= 1`, `v.cLevel`, `s.stCompPtrs`
(`none` = nil entry), `v.cSeek` -/
structure PickState where
  scoreGE1 : Bool
  cLevel : Nat
  compPtrs : List (Option IKey)
  cSeek : Option (Nat × Table)

/-- `session.getCompPtr` -/
def getCompPtr (p : PickState) (level : Nat) : Option IKey := (p.compPtrs[level]?).join

/-- score-based branch, first `append`: with a compaction pointer and `sourceLevel > 0`, the first table whose
`imax` is after the pointer (`sort.Search`, kept when `i < n`) -/
def afterCompPtr (c : UCmp) (tables : Level) (src : Nat) : Option IKey → List Table
  | some cptr =>
    if src > 0 then
      match tables[tables.findIdx (fun t => icmp c t.imax cptr == .gt)]? with
      | some t => [t]
      | none => []
    else []
  | none => []

/-- score-based branch: `t0`; `none` = Go's index panic on `tables[0]` for an empty level (`computeCompaction`
gives an empty level score 0, so that level is not chosen with `cScore >= 1`) -/
def scoreInputs (c : UCmp) (tables : Level) (src : Nat) (cptr : Option IKey) : Option (List Table) :=
  if (afterCompPtr c tables src cptr).isEmpty then
    match tables with
    | t :: _ => some [t]
    | [] => none
  else some (afterCompPtr c tables src cptr)

/-- the `(sourceLevel, t0)` `pickCompaction` hands to `newCompaction`; `none` = no compaction -/
def pickInputs (c : UCmp) (v : Version) (p : PickState) : Option (Nat × List Table) :=
  if p.scoreGE1 then
    match scoreInputs c (lvlOf v p.cLevel) p.cLevel (getCompPtr p p.cLevel) with
    | some t0 => some (p.cLevel, t0)
    | none => none
  else
    match p.cSeek with
    | some (lvl, t) => some (lvl, [t])
    | none => none

/-- `session.pickCompaction` -/
def pickCompaction (c : UCmp) (o : Limits) (v : Version) (p : PickState) : Option Compaction :=
  match pickInputs c v p with
  | some (src, t0) => newCompaction c o v src t0
  | none => none

/-- the size-limiting loop of `getCompactionRange`: keep tables up to and including the first one with
which the running total reaches the limit -/
def limitPrefix (limit : Nat) : List Table → Nat → List Table
  | [], _ => []
  | t :: ts, total => if total + t.size ≥ limit then [t] else t :: limitPrefix limit ts (total + t.size)

/-- the `t0` `getCompactionRange` hands to `newCompaction` (`none` = it returns nil) -/
def rangeInputs (c : UCmp) (o : Limits) (v : Version) (src : Nat) (umin umax : Option Bytes) (noLimit : Bool) :
    Option (List Table) :=
  if src ≥ v.levels.length then none
  else
    let t0 := getOverlapsGo c (lvlOf v src) umin umax (src == 0)
    if t0.isEmpty then none
    else if !noLimit && decide (src > 0) then some (limitPrefix (o.sourceLimit src) t0 0)
    else some t0

/-- `session.getCompactionRange` -/
def getCompactionRange (c : UCmp) (o : Limits) (v : Version) (src : Nat) (umin umax : Option Bytes)
    (noLimit : Bool) : Option Compaction :=
  match rangeInputs c o v src umin umax noLimit with
  | some t0 => newCompaction c o v src t0
  | none => none

/-! ## `compaction.baseLevelForKey` and its cursor -/

/-- the inner loop `for c.tPtrs[level] < len(tables)` on the tables from the cursor on: the new cursor and
whether the key falls into a table's range (`return false`) -/
def scanLevel (c : UCmp) (ukey : Bytes) : List Table → Nat → Nat × Bool
  | [], p => (p, false)
  | t :: ts, p =>
    if c.cmp ukey t.imax.ukey != .gt then
      -- "We've advanced far enough."
      if c.cmp ukey t.imin.ukey != .lt then (p, true)      -- "Key falls in this file's range"
      else (p, false)                                       -- break
    else scanLevel c ukey ts (p + 1)                        -- c.tPtrs[level]++

/-- the outer loop `for level := c.sourceLevel + 2; level < len(c.v.levels); level++` over the remaining
levels: the answer and the cursors -/
def baseLoop (c : UCmp) (ukey : Bytes) : List Level → Nat → List Nat → Bool × List Nat
  | [], _, ptrs => (true, ptrs)
  | tables :: rest, level, ptrs =>
    let r := scanLevel c ukey (tables.drop (ptrs.getD level 0)) (ptrs.getD level 0)
    if r.2 then (false, ptrs.set level r.1)
    else baseLoop c ukey rest (level + 1) (ptrs.set level r.1)

/-- `compaction.baseLevelForKey(ukey)`: the answer and the compaction with the advanced `tPtrs` -/
def Compaction.baseLevelForKey (c : UCmp) (cm : Compaction) (ukey : Bytes) : Bool × Compaction :=
  let r := baseLoop c ukey (cm.v.levels.drop (cm.sourceLevel + 2)) (cm.sourceLevel + 2) cm.tPtrs
  (r.1, { cm with tPtrs := r.2 })

/-- a sequence of calls, answers in order -/
def baseRun (c : UCmp) (cm : Compaction) : List Bytes → List Bool × Compaction
  | [] => ([], cm)
  | k :: ks =>
    let r := cm.baseLevelForKey c k
    let rs := baseRun c r.2 ks
    (r.1 :: rs.1, rs.2)

/-! ## `compaction.shouldStopBefore` -/

/-- the loop `for ; c.gpi < len(c.gp); c.gpi++` on the grandparents from `gpi` on: new `gpi` and
`gpOverlappedBytes` -/
def gpScan (c : UCmp) (ikey : IKey) (seen : Bool) : List Table → Nat → Nat → Nat × Nat
  | [], gpi, ob => (gpi, ob)
  | g :: gs, gpi, ob =>
    if icmp c ikey g.imax != .gt then (gpi, ob)
    else gpScan c ikey seen gs (gpi + 1) (if seen then ob + g.size else ob)

/-- the loop of `shouldStopBefore` on the compaction's state -/
def Compaction.gpAdvance (c : UCmp) (cm : Compaction) (ikey : IKey) : Nat × Nat :=
  gpScan c ikey cm.seenKey (cm.gp.drop cm.gpi) cm.gpi cm.gpOverlappedBytes

/-- `compaction.shouldStopBefore(ikey)` -/
def Compaction.shouldStopBefore (c : UCmp) (cm : Compaction) (ikey : IKey) : Bool × Compaction :=
  if (cm.gpAdvance c ikey).2 > cm.maxGPOverlaps then
    -- "Too much overlap for current output; start new output."
    (true, { cm with gpi := (cm.gpAdvance c ikey).1, seenKey := true, gpOverlappedBytes := 0 })
  else (false, { cm with gpi := (cm.gpAdvance c ikey).1, seenKey := true,
                         gpOverlappedBytes := (cm.gpAdvance c ikey).2 })

/-! ## the drop rules of `tableCompactionBuilder.run` with the stateful `baseLevelForKey` -/

/-- rule (A) of the builder loop: `lastSeq <= b.minSeq` (the part of `GoLevel.bstep` that needs no `base`) -/
def shadowedB (c : UCmp) (minSeq : Nat) (st : BState) (e : Entry) : Bool :=
  let same : Bool := match st.lastKey with | some lk => c.cmp lk e.ukey = .eq | none => false
  let ls : Option Nat := if same then st.lastSeq else none
  match ls with | some l => decide (l ≤ minSeq) | none => false

/-- one iteration for a well-formed key, as `GoLevel.bstep`, but `baseLevelForKey` is the stateful one and is
evaluated exactly when Go's `switch` reaches it: `lastSeq <= minSeq` false, `kt == keyTypeDel`, `seq <= minSeq`.
(Go passes `lastUkey`, which at that point compares equal to the entry's user key.) -/
def bstepC (c : UCmp) (minSeq : Nat) (cm : Compaction) (st : BState) (e : Entry) : BState × Bool × Compaction :=
  if shadowedB c minSeq st e then ({ lastKey := some e.ukey, lastSeq := some e.seq }, false, cm)     -- rule (A)
  else if decide (e.kind = Gen.keyTypeDel) && decide (e.seq ≤ minSeq) then
    (({ lastKey := some e.ukey, lastSeq := some e.seq } : BState),
      !(cm.baseLevelForKey c e.ukey).1, (cm.baseLevelForKey c e.ukey).2)                            -- rule (B)
  else ({ lastKey := some e.ukey, lastSeq := some e.seq }, true, cm)

/-- the entries the builder keeps, and the compaction state at the end -/
def buildC (c : UCmp) (minSeq : Nat) : Compaction → BState → List Entry → List Entry × Compaction
  | cm, _, [] => ([], cm)
  | cm, st, e :: es =>
    let r := bstepC c minSeq cm st e
    let rest := buildC c minSeq r.2.2 r.1 es
    if r.2.1 then (e :: rest.1, rest.2) else rest

/-! ## table rotation of `tableCompactionBuilder.run` (where the output is cut) -/

/-- the loop state of `run` as far as the cut is concerned: the compaction (cursors), `hasLastUkey/lastUkey/lastSeq`,
the entries appended to the current table writer `b.tw` (`[]` = `b.tw == nil`), the finished tables (oldest first) -/
structure CutState where
  cm : Compaction
  st : BState
  tw : List Entry
  done : List (List Entry)

/-- one iteration of the loop of `run` for a well-formed key (no retry: `resumed = false`).  `needFlush` is
`b.tw.tw.BytesLen() >= b.tableSize`.  The table is rotated only at the first occurrence of a user key
("Only rotate tables if ukey doesn't hop across"), when a table is open and `shouldStopBefore` or `needFlush` ask
for it; on rotation the compaction state is snapshot (`b.c.save()`).  Then the drop rules (`bstepC`) decide
whether the entry is appended (`appendKV` opens a new table if none is open). -/
def cutStep (c : UCmp) (minSeq : Nat) (needFlush : List Entry → Bool) (s : CutState) (e : Entry) : CutState :=
  let first : Bool := !(match s.st.lastKey with | some lk => decide (c.cmp lk e.ukey = .eq) | none => false)
  let rotate : Bool := first && !s.tw.isEmpty && ((s.cm.shouldStopBefore c e.key).1 || needFlush s.tw)
  let cm1 := if rotate then (s.cm.shouldStopBefore c e.key).2.save else (s.cm.shouldStopBefore c e.key).2
  let b := bstepC c minSeq cm1 s.st e
  { cm := b.2.2, st := b.1,
    tw := if b.2.1 then (if rotate then [] else s.tw) ++ [e] else (if rotate then [] else s.tw),
    done := if rotate then s.done ++ [s.tw] else s.done }

def cutRun (c : UCmp) (minSeq : Nat) (needFlush : List Entry → Bool) : CutState → List Entry → CutState
  | s, [] => s
  | s, e :: es => cutRun c minSeq needFlush (cutStep c minSeq needFlush s e) es

/-- "Finish last table": `if b.tw != nil && !b.tw.empty() { return b.flush() }` -/
def CutState.pieces (s : CutState) : List (List Entry) := if s.tw.isEmpty then s.done else s.done ++ [s.tw]

/-- the contents of the tables `run` writes for the merged input `es`: `b.c.restore()`, the loop, the last flush -/
def runTables (c : UCmp) (minSeq : Nat) (needFlush : List Entry → Bool) (cm : Compaction) (es : List Entry) :
    List (List Entry) :=
  (cutRun c minSeq needFlush ⟨cm.restore, {}, [], []⟩ es).pieces

end GoLevel.Pick
