import GoLevel.Gen.Consts
/-! SEQUENTIAL model of the lock-striped, resizable hash table of `leveldb/cache/cache.go` (C17):
`mNodes` / `mBucket` / `mHead`, `Cache.getBucket`, `mHead.initBucket`, `mBucket.get`, `mBucket.delete`,
`murmur32`.  (`Model/Cache.lean` abstracts this table to a list of nodes with atomic per-key steps; this file
models the table itself, one API call at a time.)

What is modelled, and how:
* `r.mHead` and the chain of `h.predecessor` pointers is the list `Table.heads`, newest first.  A resize pushes a
  head whose buckets are all `bucketUninitialized`; a bucket is initialised lazily by whoever touches it first
  (`initBucket`: split of the frozen predecessor bucket when growing, merge + sort of two frozen predecessor
  buckets when shrinking, recursively through the chain).
* The goroutine `go nh.initBuckets()` of a resize runs concurrently with the API calls in the code.  Here it is two
  extra operations that may be scheduled at any point *between* API calls: `TOp.bgInit k i` (the goroutine of the
  k-th head of the chain initialises its bucket `i`) and `TOp.bgDone k` (it stores `nil` into `h.predecessor`
  after its last bucket — enabled once every bucket of that head is initialised; the chain is cut behind it).
* `sort.Search` is its binary-search loop (`bsearch`); `sort.Sort` on a bucket is an insertion sort (keys in a
  bucket are distinct, so every correct sort returns the same list).
* Reference counts are not part of the table: `mBucket.get` does `atomic.AddInt32(&n.ref, 1)` on a hit, and
  `mBucket.delete` removes the node only when `atomic.LoadInt32(&n.ref) == 0`; the latter test is the argument
  `refZero` of `TOp.delete`.  The value `Release()` / delFuncs that `mBucket.delete` runs are in `Model/Cache`.
* `uint32`/`int32`/`int64` counters are `Nat`/`Int` (no wrap-around: fewer than 2^31 buckets).
* A panic of the code (`BUG: …`, nil or out-of-range dereference) sets `Table.bug`; `Proofs/CacheTable*.lean` show
  it never happens.  The `for` loops of `Cache.Get`/`Cache.delete` retry while the bucket is frozen; sequentially
  the first attempt succeeds (proved), the model runs them with fuel 2.

The hash function is a parameter of the model (`hashfn`); the driver instantiates it with `murmur32`. -/
namespace GoLevel.CacheT
open GoLevel.Gen

/-- `bucketUninitialized`, `bucketInitialized`, `bucketFrozen` (`iota`). -/
inductive BState
  | uninit | init | frozen
  deriving DecidableEq, Repr, Inhabited

/-- The table's view of a `cache.Node`: `ns`, `key`, `hash`; `id` identifies the allocation. -/
structure TNode where
  ns : Nat
  key : Nat
  hash : Nat
  id : Nat
  deriving DecidableEq, Repr, Inhabited

/-- `mBucket` (without its mutex). -/
structure Bucket where
  nodes : List TNode
  state : BState
  deriving DecidableEq, Repr, Inhabited

/-- `mHead` (the `predecessor` pointer is the tail of `Table.heads`). -/
structure Head where
  buckets : List Bucket
  mask : Nat
  resizeInProgress : Bool
  overflow : Int
  growThreshold : Int
  shrinkThreshold : Int
  deriving DecidableEq, Repr, Inhabited

/-- The table part of `cache.Cache`. -/
structure Table where
  heads : List Head
  statNodes : Int
  statGrow : Nat
  statShrink : Nat
  nextId : Nat
  bug : Bool
  deriving DecidableEq, Repr, Inhabited

/-! ## `mNodes` -/

/-- `mNodes.Less`. -/
def less (a b : TNode) : Bool := if a.ns == b.ns then a.key < b.key else a.ns < b.ns

/-- The closure of `mNodes.search`: `a := x[i].ns; if a == ns { return x[i].key >= key }; return a > ns`. -/
def searchPred (ns key : Nat) (x : TNode) : Bool := if x.ns == ns then x.key ≥ key else x.ns > ns

/-- The loop of `sort.Search(n, f)`: `i, j := 0, n; for i < j { h := int(uint(i+j) >> 1); if !f(h) { i = h + 1 }
else { j = h } }; return i`. -/
def bsearch (f : Nat → Bool) : Nat → Nat → Nat → Nat
  | 0, i, _ => i
  | fuel + 1, i, j =>
    if i < j then
      let h := (i + j) / 2
      if !f h then bsearch f fuel (h + 1) j else bsearch f fuel i h
    else i

/-- `mNodes.search`. -/
def search (x : List TNode) (ns key : Nat) : Nat :=
  bsearch (fun i => match x[i]? with | some n => searchPred ns key n | none => true) (x.length + 1) 0 x.length

/-- Insert `n` in front of the first node that is not `Less` than it. -/
def orderedInsert (n : TNode) : List TNode → List TNode
  | [] => [n]
  | a :: l => if less a n then a :: orderedInsert n l else n :: a :: l

/-- `mNodes.sort` (`sort.Sort` with `mNodes.Less`), as an insertion sort. -/
def sortNodes (x : List TNode) : List TNode := x.foldr orderedInsert []

/-! ## `mHead.initBucket` -/

def Head.bucket (h : Head) (i : Nat) : Bucket := h.buckets.getD i { nodes := [], state := .uninit }
def Head.setBucket (h : Head) (i : Nat) (b : Bucket) : Head := { h with buckets := h.buckets.set i b }

/-- `mBucket.freeze` on bucket `i` of the first head of the chain: returns the chain, `b.nodes`, panicked. -/
def freeze : List Head → Nat → List Head × List TNode × Bool
  | [], _ => ([], [], true)
  | p :: rest, i =>
    let b := p.bucket i
    match b.state with
    | .init => (p.setBucket i { b with state := .frozen } :: rest, b.nodes, false)
    | .uninit => (p :: rest, b.nodes, true)        -- panic("BUG: freeze uninitialized bucket")
    | .frozen => (p :: rest, b.nodes, false)

/-- `mHead.initBucket(i)` on the first head of the chain (the recursion follows `h.predecessor`; fuel = length
of the chain).  Returns the chain and whether the code panicked. -/
def initBucketF : Nat → List Head → Nat → List Head × Bool
  | 0, hs, _ => (hs, true)
  | _, [], _ => ([], true)
  | fuel + 1, h :: ps, i =>
    if i ≥ h.buckets.length then (h :: ps, true)             -- index out of range
    else if (h.bucket i).state ≠ .uninit then (h :: ps, false)     -- `b.state >= bucketInitialized`
    else
      match ps with
      | [] => (h :: ps, true)       -- panic("BUG: uninitialized bucket doesn't have predecessor")
      | p :: _ =>
        if h.mask > p.mask then
          -- Grow: `m := p.initBucket(i & p.mask).freeze()`, split
          let r1 := initBucketF fuel ps (i &&& p.mask)
          let r2 := freeze r1.1 (i &&& p.mask)
          let nodes := r2.2.1.filter fun x => x.hash &&& h.mask == i
          (h.setBucket i { nodes := nodes, state := .init } :: r2.1, r1.2 || r2.2.2)
        else
          -- Shrink: `m0 := p.initBucket(i).freeze(); m1 := p.initBucket(i + len(h.buckets)).freeze()`, merge
          let r1 := initBucketF fuel ps i
          let r2 := freeze r1.1 i
          let r3 := initBucketF fuel r2.1 (i + h.buckets.length)
          let r4 := freeze r3.1 (i + h.buckets.length)
          (h.setBucket i { nodes := sortNodes (r2.2.1 ++ r4.2.1), state := .init } :: r4.1,
            r1.2 || r2.2.2 || r3.2 || r4.2.2)

def initBucket (hs : List Head) (i : Nat) : List Head × Bool := initBucketF hs.length hs i

/-! ## `NewCache`, `Cache.getBucket`, `mBucket.get`, `mBucket.delete` -/

/-- The head a resize installs: `nhLen` uninitialised buckets. -/
def newHead (nhLen : Nat) : Head :=
  { buckets := List.replicate nhLen { nodes := [], state := .uninit }, mask := nhLen - 1,
    resizeInProgress := false, overflow := 0, growThreshold := nhLen * mOverflowThreshold,
    shrinkThreshold := nhLen / 2 }

/-- `NewCache`: `mInitialSize` initialised buckets, no predecessor. -/
def Table.new : Table :=
  { heads := [{ buckets := List.replicate mInitialSize { nodes := [], state := .init }, mask := mInitialSize - 1,
                resizeInProgress := false, overflow := 0, growThreshold := mInitialSize * mOverflowThreshold,
                shrinkThreshold := 0 }],
    statNodes := 0, statGrow := 0, statShrink := 0, nextId := 0, bug := false }

/-- `Cache.getBucket(hash)`: `h := r.mHead; i := hash & h.mask; return h, h.initBucket(i)`.  Returns the bucket
index in the current head. -/
def getBucket (t : Table) (hash : Nat) : Table × Nat :=
  match t.heads with
  | [] => ({ t with bug := true }, 0)        -- `r.mHead == nil` (after `Close`)
  | h :: _ =>
    let i := hash &&& h.mask
    let r := initBucket t.heads i
    ({ t with heads := r.1, bug := t.bug || r.2 }, i)

inductive GetRes
  /-- `done == false`: the bucket is frozen -/
  | retry
  | found (n : TNode)
  | created (n : TNode)
  /-- `done, n == nil` -/
  | absent
  deriving DecidableEq, Repr, Inhabited

/-- `if i < len(b.nodes) { n = b.nodes[i]; if n.ns == ns && n.key == key { … } }`: the node at the position
`mNodes.search` returned, if it is the one looked for. -/
def hit (x : List TNode) (j ns key : Nat) : Option TNode :=
  match x[j]? with
  | some n => if n.ns == ns && n.key == key then some n else none
  | none => none

/-- `b.nodes = append(b.nodes, n)` / `b.nodes = append(b.nodes[:i+1], b.nodes[i:]...); b.nodes[i] = n`. -/
def insertAt (x : List TNode) (i : Nat) (n : TNode) : List TNode :=
  if i = x.length then x ++ [n] else (x.take (i + 1) ++ x.drop i).set i n

/-- The resize at the end of `mBucket.get` / `mBucket.delete`:
`atomic.CompareAndSwapInt32(&h.resizeInProgress, 0, 1)`, the new head, the swap of `r.mHead`. -/
def resize (t : Table) (h : Head) (ps : List Head) (nhLen : Nat) (grow : Bool) : Table :=
  if h.resizeInProgress then { t with heads := h :: ps }
  else
    { t with heads := newHead nhLen :: { h with resizeInProgress := true } :: ps,
             statGrow := if grow then t.statGrow + 1 else t.statGrow,
             statShrink := if grow then t.statShrink else t.statShrink + 1 }

/-- `atomic.AddInt32(&h.overflow, d)` when `c` holds. -/
def bumpOverflow (h : Head) (c : Bool) (d : Int) : Head :=
  if c then { h with overflow := h.overflow + d } else h

/-- The tail of `mBucket.get` when it creates node `n` at position `j` of bucket `i` (= `b`) of the current head
`h`: insert, counters, grow. -/
def insertNode (t : Table) (h : Head) (ps : List Head) (i : Nat) (b : Bucket) (j : Nat) (n : TNode) : Table :=
  let nodes := insertAt b.nodes j n
  let bLen := nodes.length
  let h1 := h.setBucket i { b with nodes := nodes }
  let statNodes := t.statNodes + 1
  let grow0 := decide (statNodes ≥ h.growThreshold)
  -- `if bLen > mOverflowThreshold { grow = grow || atomic.AddInt32(&h.overflow, 1) >= … }` (short circuit)
  let over := decide (bLen > mOverflowThreshold) && !grow0
  let h2 := bumpOverflow h1 over 1
  let grow := if over then decide (h2.overflow ≥ mOverflowGrowThreshold) else grow0
  let t1 := { t with statNodes := statNodes, nextId := t.nextId + 1 }
  if grow then resize t1 h2 ps (h.buckets.length * 2) true
  else { t1 with heads := h2 :: ps }

/-- The tail of `mBucket.delete` when it removes the node at position `j` of bucket `i` (= `b`) of the current
head `h`: remove, counters, shrink. -/
def removeNode (t : Table) (h : Head) (ps : List Head) (i : Nat) (b : Bucket) (j : Nat) : Table :=
  let nodes := b.nodes.take j ++ b.nodes.drop (j + 1)   -- `append(b.nodes[:i], b.nodes[i+1:]...)`
  let bLen := nodes.length
  let h1 := h.setBucket i { b with nodes := nodes }
  let statNodes := t.statNodes - 1
  let shrink := decide (statNodes < h.shrinkThreshold)
  let h2 := bumpOverflow h1 (decide (bLen ≥ mOverflowThreshold)) (-1)
  let t1 := { t with statNodes := statNodes }
  if shrink ∧ h.buckets.length > mInitialSize then resize t1 h2 ps (h.buckets.length / 2) false
  else { t1 with heads := h2 :: ps }

/-- `mBucket.get(r, h, hash, ns, key, getOnly)` on bucket `i` of the current head. -/
def bucketGet (t : Table) (i hash ns key : Nat) (getOnly : Bool) : Table × GetRes :=
  match t.heads with
  | [] => ({ t with bug := true }, .retry)
  | h :: ps =>
    let b := h.bucket i
    match b.state with
    | .frozen => (t, .retry)
    | .uninit => ({ t with bug := true }, .retry)       -- panic("BUG: accessing uninitialized bucket")
    | .init =>
      let j := search b.nodes ns key
      match hit b.nodes j ns key with
      | some n => (t, .found n)
      | none =>
        if getOnly then (t, .absent)
        else
          let n : TNode := { ns := ns, key := key, hash := hash, id := t.nextId }
          (insertNode t h ps i b j n, .created n)

/-- `mBucket.delete(r, h, hash, ns, key)` on bucket `i` of the current head; `refZero` is the outcome of
`atomic.LoadInt32(&n.ref) == 0`.  Result: `none` = not done (frozen), `some deleted`. -/
def bucketDelete (t : Table) (i ns key : Nat) (refZero : Bool) : Table × Option Bool :=
  match t.heads with
  | [] => ({ t with bug := true }, none)
  | h :: ps =>
    let b := h.bucket i
    match b.state with
    | .frozen => (t, none)
    | .uninit => ({ t with bug := true }, none)
    | .init =>
      let j := search b.nodes ns key
      match hit b.nodes j ns key with
      | none => (t, some false)                          -- `i == len(b.nodes)`, or another node is there
      | some _ =>
        if refZero then (removeNode t h ps i b j, some true)
        else (t, some false)

/-! ## The operations -/

/-- The loop `for { h, b := r.getBucket(hash); done, created, n := b.get(…); if done { … } }` of
`Cache.Get` / `Cache.Delete` / `Cache.Evict`. -/
def getLoop (hashfn : Nat → Nat → Nat) (ns key : Nat) (getOnly : Bool) : Nat → Table → Table × GetRes
  | 0, t => ({ t with bug := true }, .retry)
  | fuel + 1, t =>
    let hash := hashfn ns key
    let r := getBucket t hash
    let r2 := bucketGet r.1 r.2 hash ns key getOnly
    match r2.2 with
    | .retry => getLoop hashfn ns key getOnly fuel r2.1
    | _ => r2

/-- `Cache.delete(n)`: `for { h, b := r.getBucket(n.hash); done, deleted := b.delete(…); if done { return deleted } }`. -/
def deleteLoop (hashfn : Nat → Nat → Nat) (ns key : Nat) (refZero : Bool) : Nat → Table → Table × Bool
  | 0, t => ({ t with bug := true }, false)
  | fuel + 1, t =>
    let r := getBucket t (hashfn ns key)
    let r2 := bucketDelete r.1 r.2 ns key refZero
    match r2.2 with
    | none => deleteLoop hashfn ns key refZero fuel r2.1
    | some d => (r2.1, d)

inductive TOp
  /-- the table access of `Cache.Get(ns, key, setFunc)` (`getOnly = (setFunc == nil)`), `Cache.Delete`,
  `Cache.Evict` (`getOnly = true`) -/
  | get (ns key : Nat) (getOnly : Bool)
  /-- `Cache.delete(n)` from `unRefInternal` / `unRefExternal`, for the node with this (ns,key) -/
  | delete (ns key : Nat) (refZero : Bool)
  /-- the goroutine `initBuckets` of the `k`-th head of the chain: `h.initBucket(i)` -/
  | bgInit (k i : Nat)
  /-- … and its final `atomic.StorePointer(&h.predecessor, nil)` -/
  | bgDone (k : Nat)
  deriving DecidableEq, Repr, Inhabited

inductive TRes
  | get (r : GetRes)
  | deleted (b : Bool)
  | unit
  deriving DecidableEq, Repr, Inhabited

def step (hashfn : Nat → Nat → Nat) (t : Table) : TOp → Table × TRes
  | .get ns key getOnly =>
    let r := getLoop hashfn ns key getOnly 2 t
    (r.1, .get r.2)
  | .delete ns key refZero =>
    let r := deleteLoop hashfn ns key refZero 2 t
    (r.1, .deleted r.2)
  | .bgInit k i =>
    match t.heads.drop k with
    | [] => (t, .unit)
    | h :: ps =>
      if i < h.buckets.length then
        let r := initBucket (h :: ps) i
        ({ t with heads := t.heads.take k ++ r.1, bug := t.bug || r.2 }, .unit)
      else (t, .unit)
  | .bgDone k =>
    match t.heads[k]? with
    | none => (t, .unit)
    | some h =>
      if h.buckets.all (fun b => b.state != .uninit) then ({ t with heads := t.heads.take (k + 1) }, .unit)
      else (t, .unit)

def run (hashfn : Nat → Nat → Nat) : Table → List TOp → Table × List TRes
  | t, [] => (t, [])
  | t, op :: ops =>
    let r := step hashfn t op
    let rs := run hashfn r.1 ops
    (rs.1, r.2 :: rs.2)

/-- `len((*mHead)(r.mHead).buckets)` of `Cache.GetStats`. -/
def Table.Buckets (t : Table) : Nat := match t.heads with | [] => 0 | h :: _ => h.buckets.length
/-- `Cache.Nodes()`. -/
def Table.Nodes (t : Table) : Int := t.statNodes

/-! ## `murmur32` -/

/-- The per-word mixing of `murmur32`: `k *= m; k ^= k >> r; k *= m`. -/
def murmurMix (k : UInt32) : UInt32 :=
  let m := murmurM.toUInt32
  let k := k * m
  let k := k ^^^ (k >>> murmurR.toUInt32)
  k * m

/-- `murmur32(ns, key, seed)`. -/
def murmur32 (ns key : UInt64) (seed : UInt32) : UInt32 :=
  let m := murmurM.toUInt32
  let k1 := murmurMix (ns >>> 32).toUInt32
  let k2 := murmurMix ns.toUInt32
  let k3 := murmurMix (key >>> 32).toUInt32
  let k4 := murmurMix key.toUInt32
  let h := seed
  let h := h * m
  let h := h ^^^ k1
  let h := h * m
  let h := h ^^^ k2
  let h := h * m
  let h := h ^^^ k3
  let h := h * m
  let h := h ^^^ k4
  let h := h ^^^ (h >>> 13)
  let h := h * m
  h ^^^ (h >>> 15)

/-- `murmur32(ns, key, 0xf00)` of `Cache.Get`/`Delete`/`Evict` on naturals (as the driver uses it); the seed is
`Gen.cacheMurmurSeed`, read off those call sites. -/
def cacheHash (ns key : Nat) : Nat := (murmur32 ns.toUInt64 key.toUInt64 cacheMurmurSeed.toUInt32).toNat

end GoLevel.CacheT
