import GoLevel.Gen.Consts
/-!
# `fileStorage.SetMeta` / `GetMeta` — the code behind the storage contract "SetMeta is atomic"

`Model/Disk.lean` and `Model/Durable.lean` ASSUME that `SetMeta` is atomic and that a crash leaves the old or the
new `CURRENT`.  For the file storage this contract is implemented by `leveldb/storage/file_storage.go`
(`setMeta`, `SetMeta`, `GetMeta`, `writeFileSynced`, and `rename` / `syncDir` of `file_storage_unix.go`).  This file
puts that code inside the model.

* a directory with names `CURRENT`, `CURRENT.bak`, `CURRENT.<n>` (the "pending rename" files) mapped to inodes, and the
  other files (`MANIFEST-…`, tables, journals) by descriptor; an inode has a durable and a volatile content and a
  `dirty` flag (modified since its last `fsync`); the directory has a durable version (`ddir`, as of the last
  `syncDir`) and the list of directory operations since (`log`) — the volatile directory is `ddir` with `log` applied;
* contents are abstract: a valid pointer to a file descriptor (`fsParseName` succeeds on everything before the final
  `'\n'`), canonical (byte-equal to `fsGenName(fd)+"\n"`, what `setMeta` writes and what its equality shortcut
  compares with) or not; junk (non-empty, does not parse); empty; a cut (non-empty strict prefix) of a content.
  ASSUMPTION of the abstraction: the contents are single-line (a `'\n'` occurs at most as the last byte), so that
  every strict prefix fails `GetMeta`'s test `b[len(b)-1] == '\n'`.  `setMeta` only writes such contents;
* every system call the code issues is one step (`sys`): `Stat`, `ReadFile`, `OpenFile(O_CREATE|O_TRUNC)`, `Write`,
  `Sync`, `Close`, `Rename`, `syncDir`, `Remove`, `Readdirnames`; the `k`-th call consults the oracle `W.o k`: it
  works, fails (a write possibly after a part of the data), or the process dies before / in the middle of it;
* crash semantics: *process death* — the state as it is (`W.fs` once `dead`): everything written stays; *machine
  crash* — `FS.image`: per inode the synced content stays, unsynced content is lost (`dur`), kept, truncated to
  nothing or cut; each directory operation since the last `syncDir` is kept or lost independently (`Choice.ops`;
  `rename` is one operation: atomic).  `Choice.ordered k` keeps exactly the first `k` directory operations (a
  journalling file system); the general images are a superset.

Not modelled: the `LOG` file (`fs.log`), the mutex, `FileDescOk`, `ErrClosed`, negative or non-canonical numbers in
the names of pending files (`strconv.ParseInt` accepts `CURRENT.+7` and `CURRENT.007`, which the code then looks up
as `CURRENT.7`), `syncDir`'s tolerance of `EINVAL`.
-/
namespace GoLevel.FSMeta

inductive FType | manifest | journal | table | temp
  deriving DecidableEq, Repr, Inhabited

/-- `storage.FileDesc` -/
structure FD where
  ty : FType
  num : Nat
  deriving DecidableEq, Repr, Inhabited

/-- the bytes of a `CURRENT*` file, as far as `GetMeta` / `setMeta` can tell them apart -/
inductive Content
  | ptr (fd : FD) (canon : Bool)
  | junk (tag : Nat)
  | empty
  | cut (c : Content)
  deriving DecidableEq, Repr, Inhabited

/-- `len(b) ≥ 1 ∧ b[len(b)-1] == '\n' ∧ fsParseNamePtr(b[:len(b)-1], &fd)` -/
def Content.parse : Content → Option FD
  | .ptr fd _ => some fd
  | _ => none

/-- `fsGenName(fd) + "\n"` -/
def Content.gen (fd : FD) : Content := .ptr fd true

structure Inode where
  dur : Content
  vol : Content
  dirty : Bool
  deriving DecidableEq, Repr, Inhabited

inductive Name | cur | bak | pend (n : Nat)
  deriving DecidableEq, Repr, Inhabited

/-- one version of the directory -/
structure Dir where
  ents : List (Name × Nat) := []
  files : FD → Bool := fun _ => false

def getL : List (Name × Nat) → Name → Option Nat
  | [], _ => none
  | (m, i) :: r, n => if m = n then some i else getL r n

def delL : List (Name × Nat) → Name → List (Name × Nat)
  | [], _ => []
  | (m, i) :: r, n => if m = n then delL r n else (m, i) :: delL r n

def Dir.get (d : Dir) (n : Name) : Option Nat := getL d.ents n
def Dir.del (d : Dir) (n : Name) : Dir := { d with ents := delL d.ents n }
def Dir.set (d : Dir) (n : Name) (i : Nat) : Dir := { d with ents := (n, i) :: delL d.ents n }

inductive DirOp
  | link (n : Name) (i : Nat)
  | unlink (n : Name)
  | rename (o n : Name) (i : Nat)
  | mk (fd : FD)
  | rm (fd : FD)
  deriving DecidableEq, Repr

def Dir.apply (d : Dir) : DirOp → Dir
  | .link n i => d.set n i
  | .unlink n => d.del n
  | .rename o n i => (d.del o).set n i
  | .mk fd => { d with files := fun x => if x = fd then true else d.files x }
  | .rm fd => { d with files := fun x => if x = fd then false else d.files x }

structure FS where
  inodes : List Inode := []
  ddir : Dir := {}
  log : List DirOp := []

/-- the directory the running process sees -/
def FS.vdir (fs : FS) : Dir := fs.log.foldl Dir.apply fs.ddir

def FS.ino (fs : FS) (i : Nat) : Inode := fs.inodes.getD i default

def FS.setIno (fs : FS) (i : Nat) (f : Inode → Inode) : FS :=
  { fs with inodes := fs.inodes.set i (f (fs.ino i)) }

def FS.op (fs : FS) (o : DirOp) : FS := { fs with log := fs.log ++ [o] }

/-- the content of a name as the running process reads it -/
def FS.read (fs : FS) (n : Name) : Option Content := (fs.vdir.get n).map fun i => (fs.ino i).vol

def insDesc (x : Nat) : List Nat → List Nat
  | [] => [x]
  | y :: r => if y ≤ x then x :: y :: r else y :: insDesc x r

def sortDesc (l : List Nat) : List Nat := l.foldr insDesc []

def pendNums : List (Name × Nat) → List Nat
  | [] => []
  | (.pend n, _) :: r => n :: pendNums r
  | _ :: r => pendNums r

/-- the numbers of the pending files, descending (`sort.Sort(sort.Reverse(int64Slice(nums)))`) -/
def FS.pending (fs : FS) : List Nat := sortDesc (pendNums fs.vdir.ents)

/-! ## system calls -/

inductive Err | notExist | corrupted | io
  deriving DecidableEq, Repr, Inhabited

/-- results can be compared (for the decided traces) -/
instance instDecEqExcept {α : Type} [DecidableEq α] : DecidableEq (Except Err α)
  | .ok a, .ok b => if h : a = b then isTrue (by rw [h]) else isFalse (fun h' => h (Except.ok.inj h'))
  | .error a, .error b => if h : a = b then isTrue (by rw [h]) else isFalse (fun h' => h (Except.error.inj h'))
  | .ok _, .error _ => isFalse (fun h => nomatch h)
  | .error _, .ok _ => isFalse (fun h => nomatch h)

/-- what happens to a system call: it works; it fails without effect; (a write) fails after a part of the data;
    the process dies before it; (a write) the process dies in the middle of it -/
inductive Fault | ok | fail | failPartial | crash | crashPartial
  deriving DecidableEq, Repr, Inhabited

inductive Lbl | stat | read | tryRead | open_ | write | sync | close | rename | syncDir | remove | readDir | statFile | mk | rm
  deriving DecidableEq, Repr, Inhabited

/-- the world: file system, number of system calls issued, their fates, whether the process is dead -/
structure W where
  fs : FS
  o : Nat → Fault := fun _ => .ok
  k : Nat := 0
  dead : Bool := false
  trace : List Lbl := []

/-- one system call with the fate `f`: `eff` is its effect when it works, `part` the effect of a partial execution -/
def sysF {α : Type} (f : Fault) (l : Lbl) (eff : FS → Except Err α × FS) (part : FS → FS) (w : W) :
    Except Err α × W :=
  match f with
  | .ok => ((eff w.fs).1, { w with fs := (eff w.fs).2, k := w.k + 1, trace := w.trace ++ [l] })
  | .fail => (.error .io, { w with k := w.k + 1, trace := w.trace ++ [l] })
  | .failPartial => (.error .io, { w with fs := part w.fs, k := w.k + 1, trace := w.trace ++ [l] })
  | .crash => (.error .io, { w with dead := true })
  | .crashPartial => (.error .io, { w with fs := part w.fs, dead := true })

/-- one system call: nothing happens once the process is dead; otherwise the oracle decides -/
def sys {α : Type} (l : Lbl) (eff : FS → Except Err α × FS) (part : FS → FS) (w : W) : Except Err α × W :=
  if w.dead then (.error .io, w) else sysF (w.o w.k) l eff part w

/-- `os.Stat(CURRENT*)` -/
def stat (n : Name) : W → Except Err Unit × W :=
  sys .stat (fun fs => (if (fs.vdir.get n).isSome then .ok () else .error .notExist, fs)) id

/-- `ioutil.ReadFile` (`l`: `setMeta`'s read of `CURRENT` or one of `tryCurrent`'s reads) -/
def readFile (n : Name) (l : Lbl) : W → Except Err Content × W :=
  sys l (fun fs => (match fs.read n with | some c => .ok c | none => .error .notExist, fs)) id

/-- `os.Stat(fsGenName(fd))` -/
def statFile (fd : FD) : W → Except Err Unit × W :=
  sys .statFile (fun fs => (if fs.vdir.files fd then .ok () else .error .notExist, fs)) id

/-- `os.OpenFile(name, O_WRONLY|O_CREATE|O_TRUNC)`: the inode behind the handle -/
def openTrunc (n : Name) : W → Except Err Nat × W :=
  sys .open_ (fun fs =>
    match fs.vdir.get n with
    | some i => (.ok i, fs.setIno i fun x => { x with vol := .empty, dirty := true })
    | none => (.ok fs.inodes.length,
        { fs with inodes := fs.inodes ++ [⟨.empty, .empty, true⟩], log := fs.log ++ [.link n fs.inodes.length] })) id

def cutOf : Content → Content
  | .empty => .empty
  | c => .cut c

/-- `f.Write(data)` on a freshly truncated file; a short write leaves a strict prefix -/
def write (i : Nat) (c : Content) : W → Except Err Unit × W :=
  sys .write (fun fs => (.ok (), fs.setIno i fun x => { x with vol := c, dirty := true }))
    (fun fs => fs.setIno i fun x => { x with vol := cutOf c, dirty := true })

/-- `f.Sync()` -/
def fsync (i : Nat) : W → Except Err Unit × W :=
  sys .sync (fun fs => (.ok (), fs.setIno i fun x => { x with dur := x.vol, dirty := false })) id

def close (_i : Nat) : W → Except Err Unit × W :=
  sys .close (fun fs => (.ok (), fs)) id

/-- `os.Rename(old, new)` -/
def rename (o n : Name) : W → Except Err Unit × W :=
  sys .rename (fun fs =>
    match fs.vdir.get o with
    | some i => (.ok (), fs.op (.rename o n i))
    | none => (.error .notExist, fs)) id

/-- `syncDir(fs.path)`: the directory as the process sees it becomes the durable one -/
def syncDir : W → Except Err Unit × W :=
  sys .syncDir (fun fs => (.ok (), { fs with ddir := fs.vdir, log := [] })) id

/-- `os.Remove(CURRENT.<n>)` -/
def remove (n : Name) : W → Except Err Unit × W :=
  sys .remove (fun fs =>
    match fs.vdir.get n with
    | some _ => (.ok (), fs.op (.unlink n))
    | none => (.error .notExist, fs)) id

/-- `Readdirnames`, reduced to what `GetMeta` keeps of it: the numbers of the pending files, descending -/
def readDir : W → Except Err (List Nat) × W :=
  sys .readDir (fun fs => (.ok fs.pending, fs)) id

/-- another file appears (`Storage.Create` of a manifest …) / disappears (`Storage.Remove`) -/
def mkFile (fd : FD) : W → Except Err Unit × W :=
  sys .mk (fun fs => (.ok (), fs.op (.mk fd))) id
def rmFile (fd : FD) : W → Except Err Unit × W :=
  sys .rm (fun fs => (if fs.vdir.files fd then .ok () else .error .notExist, fs.op (.rm fd))) id

/-! ## `setMeta`, `GetMeta` -/

/-- which of the code's ordering decisions are in force; `{}` is the code (`codeCfg`, tied to the source by
    `C04FS.code_is_modelled`), the other values are the variants of the negative results -/
structure Cfg where
  /-- `if string(b) == content { return nil }` -/
  shortcut : Bool := true
  /-- `CURRENT.bak` is written (and synced) before `CURRENT.<n>` is created -/
  backupFirst : Bool := true
  /-- the new file is written by `writeFileSynced` (its `Sync` comes before the `rename`) -/
  syncBeforeRename : Bool := true
  /-- `syncDir` after the `rename` -/
  syncDirLast : Bool := true
  /-- `GetMeta`: a pending file wins only with the greater number (`pendCur.fd.Num > curCur.fd.Num`) -/
  pendGuard : Bool := true
  deriving DecidableEq, Repr

def firstErr (a b : Except Err Unit) : Except Err Unit :=
  match a with
  | .ok _ => b
  | e => e

/-- `writeFileSynced(filename, data, perm)`; `sync = false` is the variant without the `f.Sync()` -/
def writeFileSynced (sync : Bool) (n : Name) (data : Content) (w : W) : Except Err Unit × W :=
  match openTrunc n w with
  | (.error e, w) => (.error e, w)
  | (.ok i, w) =>
    match write i data w with
    | (e1, w) =>
      match (if sync then fsync i w else (.ok (), w)) with
      | (e2, w) =>
        match close i w with
        | (e3, w) => (firstErr e1 (firstErr e2 e3), w)

/-- `setMeta` from the creation of `CURRENT.<n>` on -/
def setMetaTail (cfg : Cfg) (fd : FD) (w : W) : Except Err Unit × W :=
  match writeFileSynced cfg.syncBeforeRename (.pend fd.num) (.gen fd) w with
  | (.error e, w) => (.error e, w)
  | (.ok _, w) =>
    match rename (.pend fd.num) .cur w with
    | (.error e, w) => (.error e, w)
    | (.ok _, w) => if cfg.syncDirLast then syncDir w else (.ok (), w)

/-- `fileStorage.setMeta(fd)` -/
def setMeta (cfg : Cfg) (fd : FD) (w : W) : Except Err Unit × W :=
  match stat .cur w with
  | (.ok _, w) =>
    match readFile .cur .read w with
    | (.error e, w) => (.error e, w)
    | (.ok b, w) =>
      if cfg.shortcut && b = .gen fd then (.ok (), w)
      else if cfg.backupFirst then
        match writeFileSynced true .bak b w with
        | (.error e, w) => (.error e, w)
        | (.ok _, w) => setMetaTail cfg fd w
      else setMetaTail cfg fd w
  | (.error .notExist, w) => setMetaTail cfg fd w
  | (.error e, w) => (.error e, w)

/-- `tryCurrent(name)` -/
def tryCurrent (n : Name) (w : W) : Except Err FD × W :=
  match readFile n .tryRead w with
  | (.error e, w) => (.error e, w)
  | (.ok b, w) =>
    match b.parse with
    | none => (.error .corrupted, w)
    | some fd =>
      match statFile fd w with
      | (.error e, w) => (.error e, w)
      | (.ok _, w) => (.ok fd, w)

/-- `tryCurrents(names)`; `lastC`: a corrupted file has been seen -/
def tryCurrents : List Name → Bool → W → Except Err (Name × FD) × W
  | [], lastC, w => (.error (if lastC then .corrupted else .notExist), w)
  | n :: rest, lastC, w =>
    match tryCurrent n w with
    | (.ok fd, w) => (.ok (n, fd), w)
    | (.error .notExist, w) => tryCurrents rest lastC w
    | (.error .corrupted, w) => tryCurrents rest true w
    | (.error e, w) => (.error e, w)

def removeAll : List Name → W → W
  | [], w => w
  | n :: r, w => removeAll r (remove n w).2

/-- "pendCur takes precedence, but guards against obsolete pendCur" -/
def choose (cfg : Cfg) (pend cur : Except Err (Name × FD)) : Option (Name × FD) :=
  match pend, cur with
  | .ok p, .ok c => if !cfg.pendGuard || p.2.num > c.2.num then some p else some c
  | .ok p, .error _ => some p
  | .error _, .ok c => some c
  | .error _, .error _ => none

/-- the repair at the end of `GetMeta` -/
def repair (cfg : Cfg) (ro : Bool) (nums : List Nat) (c : Name × FD) (w : W) : W :=
  if !ro && (c.1 ≠ .cur || !nums.isEmpty) then
    match setMeta cfg c.2 w with
    | (.ok _, w) => removeAll (nums.map .pend) w
    | (.error _, w) => w
  else w

/-- `fileStorage.GetMeta()` -/
def getMeta (cfg : Cfg) (ro : Bool) (w : W) : Except Err FD × W :=
  match readDir w with
  | (.error e, w) => (.error e, w)
  | (.ok nums, w) =>
    match (if nums.isEmpty then (.error .notExist, w) else tryCurrents (nums.map .pend) false w) with
    | (.error .io, w) => (.error .io, w)
    | (pend, w) =>
      match tryCurrents [.cur, .bak] false w with
      | (.error .io, w) => (.error .io, w)
      | (cur, w) =>
        match choose cfg pend cur with
        | some c => (.ok c.2, repair cfg ro nums c w)
        | none =>
          match pend, cur with
          | .error .corrupted, _ => (.error .corrupted, w)
          | _, .error e => (.error e, w)
          | _, _ => (.error .io, w)

/-! ## crashes -/

/-- what becomes of an inode's unsynced content in a machine crash -/
inductive Keep | lost | kept | empty | cut
  deriving DecidableEq, Repr, Inhabited

/-- a machine crash: which of the directory operations since the last `syncDir` reached the disk (by position in
    `FS.log`), and the fate of every inode's unsynced content -/
structure Choice where
  ops : Nat → Bool
  data : Nat → Keep

def Inode.image (x : Inode) (k : Keep) : Inode :=
  if x.dirty then
    match k with
    | .lost => ⟨x.dur, x.dur, false⟩
    | .kept => ⟨x.vol, x.vol, false⟩
    | .empty => ⟨.empty, .empty, false⟩
    | .cut => ⟨cutOf x.vol, cutOf x.vol, false⟩
  else ⟨x.vol, x.vol, false⟩

def imageInodes : List Inode → (Nat → Keep) → Nat → List Inode
  | [], _, _ => []
  | x :: r, f, i => x.image (f i) :: imageInodes r f (i + 1)

def applyMasked (d : Dir) : List DirOp → (Nat → Bool) → Nat → Dir
  | [], _, _ => d
  | op :: r, m, i => applyMasked (if m i then d.apply op else d) r m (i + 1)

/-- the file system after a machine crash -/
def FS.image (fs : FS) (ch : Choice) : FS :=
  { inodes := imageInodes fs.inodes ch.data 0, ddir := applyMasked fs.ddir fs.log ch.ops 0, log := [] }

/-- a journalling file system: exactly the first `k` directory operations survive -/
def Choice.ordered (k : Nat) (data : Nat → Keep) : Choice := ⟨fun i => decide (i < k), data⟩

/-- run on a file system with the given fates, from the start -/
def W.of (fs : FS) (o : Nat → Fault := fun _ => .ok) : W := { fs := fs, o := o }

/-- `GetMeta`'s answer on a file system, no faults -/
def ask (cfg : Cfg) (ro : Bool) (fs : FS) : Except Err FD := (getMeta cfg ro (W.of fs)).1

/-- the file system `GetMeta` leaves behind, no faults -/
def after (cfg : Cfg) (ro : Bool) (fs : FS) : FS := (getMeta cfg ro (W.of fs)).2.fs

/-- the code's configuration, read off the source by `tools/extract` -/
def codeCfg : Cfg :=
  { shortcut := Gen.fsSetMetaEqualShortcut, backupFirst := Gen.fsSetMetaBackupFirst,
    syncBeforeRename := Gen.fsSetMetaSyncedBeforeRename, syncDirLast := Gen.fsSetMetaSyncDirLast,
    pendGuard := Gen.fsGetMetaPendGuard }

end GoLevel.FSMeta
