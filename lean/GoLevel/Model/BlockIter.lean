import GoLevel.Model.Block
import GoLevel.Spec.Cursor
/-!
# `table.blockIter` at the byte level (`leveldb/table/reader.go`)

The iterator over one data / index / metaindex block: `block.seek`, `block.restartIndex`, `block.restartOffset`,
`block.entry`, and `blockIter` with all the fields its movement depends on (`offset`, `prevOffset`, `prevNode`,
`prevKeys`, `restartIndex`, `dir`, `riStart/riLimit`, `offsetStart/offsetRealStart/offsetLimit`, `err`), its
methods `First/Last/Seek/Next/Prev` with the direction state machine, and `Reader.newBlockIter` (slicing with a
`util.Range`).  Go mutation is state passing: every method returns the Boolean the Go method returns and the
new iterator.  The block (`BlockR`, from `Model/Block.lean`) is immutable and passed alongside.

Loops carry fuel (`restartsOffset + 1` passes always suffice: every pass consumes at least one byte of the
entries area); the fuel-exhausted branch answers like a corrupted block.

Divergence on malformed blocks only (never on `Block.build` output; the theorems are about well-formed blocks):
wherever the Go code would slice out of range (panic), read stale capacity of its key buffer (`nShared` beyond
`len(i.key)`), index the restart array at `-1`, pop a `prevNode` shorter than a node, or spin in `Prev`'s loop
(`n == 0`), the model sets `err = corrupted`, the value it also gives where Go reports `ErrCorrupted`.
The two slices `key`/`value`: `value == nil` is observable inside `Prev` (`if i.value != nil`), hence
`value : Option Bytes`; a `nil` key is not distinguished from an empty one.
Core Lean only.
-/
namespace GoLevel

/-- `dir` of `table/reader.go` (`dirReleased = -1 < dirSOI < dirEOI < dirBackward < dirForward`) -/
inductive BDir
  | released
  | soi
  | eoi
  | backward
  | forward
deriving DecidableEq, Repr

/-- what `i.err` can hold -/
inductive BErr
  | released      -- `ErrIterReleased`
  | corrupted     -- `ErrCorrupted` ("entries corrupted", "entries offset not aligned")
  | badSlice      -- "leveldb/table: invalid slice range"
deriving DecidableEq, Repr

/-- result of `block.entry(offset)` -/
inductive EntryRes
  | err                                                  -- `err != nil`
  | stop                                                 -- `n == 0`: `offset == restartsOffset`
  | ok (nShared : Nat) (key value : Bytes) (n : Nat)
deriving Repr

/-- `block.entry(offset)` (absolute offset) -/
def BlockR.entryAt (b : BlockR) (offset : Nat) : EntryRes :=
  if offset ≥ b.restartsOffset then
    if offset ≠ b.restartsOffset then .err else .stop
  else
    match Block.entry (b.data.drop offset) (b.restartsOffset - offset) with
    | none => .err
    | some (sh, k, v, n) => .ok sh k v n

/-- `block.seek(cmp, rstart, rlimit, key)`: `(index, offset)`.  The search runs over
`restartsLen - rstart - (restartsLen - rlimit) = rlimit - rstart` restart points (a non-positive count searches
nothing); `index = Search(…) + rstart - 1`, raised to `rstart` when below.  The Go function never assigns its
`err` result; `none` only where the closure would read outside the data. -/
def BlockR.seekR (cmp : Bytes → Bytes → Ordering) (b : BlockR) (rstart rlimit : Nat) (key : Bytes) :
    Option (Nat × Nat) :=
  match sortSearch (rlimit - rstart) (fun i => (b.restartKey (rstart + i)).map fun k => cmp k key == .gt) with
  | none => none
  | some s =>
    let index := if s + rstart - 1 < rstart then rstart else s + rstart - 1
    -- `if index >= b.restartsLen { return index, b.restartsOffset, nil }` (the repair of D57; the regenerated fact is
    -- `Gen.blockSeekGuardsIndex`): an empty restart range behind the last restart point has no restart point to read —
    -- what follows the restart array is its length, not an offset
    some (index, if index ≥ b.restartsLen then b.restartsOffset else b.restartOffset index)

/-- `block.restartIndex(rstart, rlimit, offset)`; `none` = the Go result is `-1` (`Search` found the very first
restart offset above `offset` with `rstart = 0`).  The predicate is total: the first `none` is never taken. -/
def BlockR.restartIndex (b : BlockR) (rstart rlimit offset : Nat) : Option Nat :=
  match sortSearch (rlimit - rstart) (fun i => some (decide (b.restartOffset (rstart + i) > offset))) with
  | none => none
  | some s => if s + rstart = 0 then none else some (s + rstart - 1)

/-- `blockIter` (without `tr`, `block`, the releasers) -/
structure BIter where
  key : Bytes := []
  value : Option Bytes := none
  offset : Nat := 0
  /-- "Previous offset, only filled by Next." -/
  prevOffset : Nat := 0
  prevNode : List Nat := []
  prevKeys : Bytes := []
  restartIndex : Nat := 0
  dir : BDir := .soi
  riStart : Nat := 0
  riLimit : Nat
  offsetStart : Nat := 0
  offsetRealStart : Nat := 0
  offsetLimit : Nat
  err : Option BErr := none
deriving Repr

namespace BIter

/-- `sErr` -/
def sErr (i : BIter) (e : BErr) : BIter :=
  { i with err := some e, key := [], value := none, prevNode := [], prevKeys := [] }

/-- the `if i.dir == dirBackward { i.prevNode = i.prevNode[:0]; i.prevKeys = i.prevKeys[:0] }` that opens
`reset`, `First`, `Last` and (as an `else if`) `Next` -/
def dropCache (i : BIter) : BIter :=
  if i.dir = .backward then { i with prevNode := [], prevKeys := [] } else i

/-- `reset` -/
def reset (i : BIter) : BIter :=
  let i := i.dropCache
  { i with restartIndex := i.riStart, offset := i.offsetStart, dir := .soi, key := [], value := none }

/-- `isFirst` -/
def isFirst (i : BIter) : Bool :=
  match i.dir with
  | .forward => i.prevOffset == i.offsetRealStart
  | .backward => i.prevNode.length == 1 && i.restartIndex == i.riStart
  | _ => false

/-- `isLast` -/
def isLast (i : BIter) : Bool :=
  match i.dir with
  | .forward | .backward => i.offset == i.offsetLimit
  | _ => false

/-- `Valid` -/
def valid (i : BIter) : Bool := i.err.isNone && (i.dir == .backward || i.dir == .forward)

/-- `Key()`, `Value()`: `none` = both `nil` (`i.err != nil || i.dir <= dirEOI`) -/
def cur (i : BIter) : Option KV := if i.valid then some (i.key, i.value.getD []) else none

/-- the loop `for i.offset < i.offsetRealStart { … }` of `Next`; `(false, _)` = `Next` returned `false` from
inside the loop -/
def nextSkip (b : BlockR) : Nat → BIter → Bool × BIter
  | 0, i => (false, i.sErr .corrupted)
  | fuel + 1, i =>
    if i.offset < i.offsetRealStart then
      match b.entryAt i.offset with
      | .err => (false, i.sErr .corrupted)
      | .stop => (false, { i with dir := .eoi })
      | .ok sh k v n =>
        if sh > i.key.length then (false, i.sErr .corrupted)
        else nextSkip b fuel { i with key := i.key.take sh ++ k, value := some v, offset := i.offset + n }
    else (true, i)

/-- the body of `Next` from the skip loop on -/
def nextBody (b : BlockR) (i : BIter) : Bool × BIter :=
  match nextSkip b (b.restartsOffset + 1) i with
  | (false, i) => (false, i)
  | (true, i) =>
    if i.offset ≥ i.offsetLimit then
      let i := { i with dir := .eoi }
      (false, if i.offset ≠ i.offsetLimit then i.sErr .corrupted else i)
    else
      match b.entryAt i.offset with
      | .err => (false, i.sErr .corrupted)
      | .stop => (false, { i with dir := .eoi })
      | .ok sh k v n =>
        if sh > i.key.length then (false, i.sErr .corrupted)
        else (true, { i with key := i.key.take sh ++ k, value := some v, prevOffset := i.offset,
                             offset := i.offset + n, dir := .forward })

/-- `Next` -/
def next (b : BlockR) (i : BIter) : Bool × BIter :=
  if i.dir = .eoi ∨ i.err.isSome then (false, i)
  else if i.dir = .released then (false, { i with err := some .released })
  else
    nextBody b (if i.dir = .soi then { i with restartIndex := i.riStart, offset := i.offsetStart }
                else i.dropCache)

/-- the loop "Build entries cache" of `Prev`; the local `offset` is an argument.  `none` = `sErr` + `return
false`.  An `n == 0` answer of `block.entry` (only at `offset == restartsOffset`) is an error here: on the first
pass Go reports "entries offset not aligned" (`i.offset` is below), later passes cannot meet it while
`i.offset ≤ restartsOffset`, which `Next` and `newBlockIter` maintain. -/
def prevLoop (b : BlockR) : Nat → Nat → BIter → Option (Nat × BIter)
  | 0, _, _ => none
  | fuel + 1, offset, i =>
    match b.entryAt offset with
    | .err => none
    | .stop => none
    | .ok sh k v n =>
      let i :=
        if offset ≥ i.offsetRealStart then
          let i := match i.value with
            | some pv =>
              { i with prevNode := i.prevNode ++ [i.prevKeys.length, offset - pv.length, pv.length]
                       prevKeys := i.prevKeys ++ i.key }
            | none => i
          { i with value := some v }
        else i
      if sh > i.key.length then none
      else
        let i := { i with key := i.key.take sh ++ k }
        let offset := offset + n
        if offset ≥ i.offset then
          if offset ≠ i.offset then none else some (offset, i)
        else prevLoop b fuel offset i

/-- the tail of `Prev` from "Build entries cache" on, entered with the restart index `ri` -/
def prevBuild (b : BlockR) (ri : Nat) (i : BIter) : Bool × BIter :=
  let i := { i with key := [], value := none }
  let offset := b.restartOffset ri
  -- `if offset == i.offset { ri--; if ri < 0 { SOI }; offset = restartOffset(ri) }`
  if offset = i.offset ∧ ri = 0 then (false, { i with dir := .soi })
  else
    let ri := if offset = i.offset then ri - 1 else ri
    let offset := b.restartOffset ri
    let i := { i with prevNode := i.prevNode ++ [offset] }
    match prevLoop b (b.restartsOffset + 1) offset i with
    | none => (false, i.sErr .corrupted)
    | some (offset, i) => (true, { i with restartIndex := ri, offset := offset })

/-- `Prev` -/
def prev (b : BlockR) (i : BIter) : Bool × BIter :=
  if i.dir = .soi ∨ i.err.isSome then (false, i)
  else if i.dir = .released then (false, { i with err := some .released })
  else if i.dir = .forward then
    -- Change direction.
    let i := { i with offset := i.prevOffset }
    if i.offset = i.offsetRealStart then (false, { i with dir := .soi })
    else
      match b.restartIndex i.restartIndex i.riLimit i.offset with
      | none => (false, i.sErr .corrupted)
      | some ri => prevBuild b ri { i with dir := .backward }
  else if i.dir = .eoi then
    -- At the end of iterator.
    let i := { i with restartIndex := i.riLimit, offset := i.offsetLimit }
    if i.offset = i.offsetRealStart then (false, { i with dir := .soi })
    else if i.riLimit = 0 then (false, i.sErr .corrupted)
    else prevBuild b (i.riLimit - 1) { i with dir := .backward }
  else if i.prevNode.length = 1 then
    -- This is the end of a restart range.
    let i := { i with offset := i.prevNode.headD 0, prevNode := [] }
    if i.restartIndex = i.riStart then (false, { i with dir := .soi })
    else if i.restartIndex = 0 then (false, i.sErr .corrupted)
    else
      let i := { i with restartIndex := i.restartIndex - 1 }
      prevBuild b i.restartIndex i
  else if i.prevNode.length < 3 then (false, i.sErr .corrupted)
  else
    -- In the middle of restart range, get from cache.
    let n := i.prevNode.length - 3
    let node := i.prevNode.drop n
    let ko := node.getD 0 0
    let vo := node.getD 1 0
    let vl := vo + node.getD 2 0
    (true, { i with prevNode := i.prevNode.take n
                    key := i.prevKeys.drop ko
                    prevKeys := i.prevKeys.take ko
                    value := some ((b.data.drop vo).take (vl - vo))
                    offset := vl })

/-- `First` -/
def first (b : BlockR) (i : BIter) : Bool × BIter :=
  if i.err.isSome then (false, i)
  else if i.dir = .released then (false, { i with err := some .released })
  else next b { i.dropCache with dir := .soi }

/-- `Last` -/
def last (b : BlockR) (i : BIter) : Bool × BIter :=
  if i.err.isSome then (false, i)
  else if i.dir = .released then (false, { i with err := some .released })
  else prev b { i.dropCache with dir := .eoi }

/-- `for i.Next() { if i.tr.cmp.Compare(i.key, key) >= 0 { return true } }; return false` -/
def seekLoop (cmp : Bytes → Bytes → Ordering) (b : BlockR) (key : Bytes) : Nat → BIter → Bool × BIter
  | 0, i => (false, i.sErr .corrupted)
  | fuel + 1, i =>
    match next b i with
    | (false, i) => (false, i)
    | (true, i) => if cmp i.key key ≠ .lt then (true, i) else seekLoop cmp b key fuel i

/-- `Seek` -/
def seek (cmp : Bytes → Bytes → Ordering) (b : BlockR) (key : Bytes) (i : BIter) : Bool × BIter :=
  if i.err.isSome then (false, i)
  else if i.dir = .released then (false, { i with err := some .released })
  else
    match b.seekR cmp i.riStart i.riLimit key with
    | none => (false, i.sErr .corrupted)
    | some (ri, offset) =>
      let i := { i with restartIndex := ri, offset := max i.offsetStart offset }
      let i := if i.dir = .soi ∨ i.dir = .eoi then { i with dir := .forward } else i
      seekLoop cmp b key (b.restartsOffset + 1) i

/-- `Release` (the releasers are outside the model) -/
def release (i : BIter) : BIter :=
  if i.dir ≠ .released then { i with prevNode := [], prevKeys := [], key := [], value := none, dir := .released }
  else i

/-- a fresh unsliced iterator: the struct literal of `newBlockIter` -/
def new (b : BlockR) : BIter := { riLimit := b.restartsLen, offsetLimit := b.restartsOffset }

/-- one call of the `iterator.Iterator` seek methods -/
def step (cmp : Bytes → Bytes → Ordering) (b : BlockR) : Call Bytes → BIter → Bool × BIter
  | .first, i => first b i
  | .last, i => last b i
  | .seek k, i => seek cmp b k i
  | .next, i => next b i
  | .prev, i => prev b i

/-- what the caller observes after each call: the Boolean returned and `Key()`/`Value()` -/
def run (cmp : Bytes → Bytes → Ordering) (b : BlockR) : BIter → List (Call Bytes) → List (Bool × Option KV)
  | _, [] => []
  | i, cl :: cs => let r := step cmp b cl i; (r.1, r.2.cur) :: run cmp b r.2 cs

/-- the iterator after a call sequence -/
def exec (cmp : Bytes → Bytes → Ordering) (b : BlockR) : BIter → List (Call Bytes) → BIter
  | i, [] => i
  | i, cl :: cs => exec cmp b (step cmp b cl i).2 cs

end BIter

/-- `util.Range` as handed to `newBlockIter`: `nil` bounds are `none` -/
structure BRange where
  start : Option Bytes
  limit : Option Bytes
deriving Repr

/-- the `if slice.Start != nil { … }` block of `newBlockIter` -/
def BIter.applyStart (cmp : Bytes → Bytes → Ordering) (b : BlockR) (s : Bytes) (bi : BIter) : BIter :=
  match bi.seek cmp b s with
  | (true, bi) =>
    match b.restartIndex bi.restartIndex b.restartsLen bi.prevOffset with
    | none => bi.sErr .corrupted
    | some rs => { bi with riStart := rs, offsetStart := b.restartOffset rs, offsetRealStart := bi.prevOffset }
  | (false, bi) =>
    { bi with riStart := b.restartsLen, offsetStart := b.restartsOffset, offsetRealStart := b.restartsOffset }

/-- the `if slice.Limit != nil && bi.riStart < b.restartsLen { … }` block of `newBlockIter`:
`if bi.Seek(slice.Limit) && (!inclLimit || bi.Next()) { bi.offsetLimit = bi.prevOffset; bi.riLimit = bi.restartIndex + 1 }` -/
def BIter.applyLimit (cmp : Bytes → Bytes → Ordering) (b : BlockR) (l : Bytes) (inclLimit : Bool) (bi : BIter) :
    BIter :=
  if bi.riStart < b.restartsLen then
    match bi.seek cmp b l with
    | (false, bi) => bi
    | (true, bi) =>
      if !inclLimit then { bi with offsetLimit := bi.prevOffset, riLimit := bi.restartIndex + 1 }
      else
        match bi.next b with
        | (false, bi) => bi
        | (true, bi) => { bi with offsetLimit := bi.prevOffset, riLimit := bi.restartIndex + 1 }
  else bi

/-- the tail of `newBlockIter`: `bi.reset()`, then the range check -/
def BIter.finishSlice (bi : BIter) : BIter :=
  let bi := bi.reset
  if bi.offsetStart > bi.offsetLimit then bi.sErr .badSlice else bi

/-- `Reader.newBlockIter(b, _, slice, inclLimit)` -/
def newBlockIter (cmp : Bytes → Bytes → Ordering) (b : BlockR) (slice : Option BRange) (inclLimit : Bool) : BIter :=
  let bi := BIter.new b
  match slice with
  | none => bi
  | some sl =>
    let bi := match sl.start with
      | none => bi
      | some s => bi.applyStart cmp b s
    let bi := match sl.limit with
      | none => bi
      | some l => bi.applyLimit cmp b l inclLimit
    bi.finishSlice

end GoLevel
