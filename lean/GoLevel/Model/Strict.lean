import GoLevel.Gen.Consts
/-!
# The strict level `Recover` reads tables with (`opt.Options.GetStrict`, `dupOptions`, `recoverTable`)

`opt.Strict` is a `uint` of one-bit flags.  `recoverTable` works on a private copy of the session's options:

```go
o = dupOptions(s.o.Options)          // Strict == 0  ⟹  DefaultStrict
o.Strict &= ^opt.StrictReader        // a damaged block must cost only its own entries
if o.Strict == 0 { o.Strict = opt.NoStrict }     // repair of D58
```

and every reader it creates asks `o.GetStrict(flag)`, which reads a zero `Strict` as "unset: use `DefaultStrict`".
The flag values are regenerated from `opt/options.go`; `uint` is 64 bits wide.  Core Lean only.
-/
namespace GoLevel.Strict
open GoLevel

/-- all ones of a `uint` -/
def allOnes : Nat := 2 ^ 64 - 1

/-- `^x` on a `uint` -/
def compl (x : Nat) : Nat := allOnes ^^^ x

/-- `opt.NoStrict = ^StrictAll` -/
def noStrict : Nat := compl Gen.optStrictAll

/-- `Options.GetStrict(flag)` for a non-nil `Options` -/
def getStrict (strict flag : Nat) : Bool :=
  if strict = 0 then Gen.optDefaultStrict &&& flag != 0 else strict &&& flag != 0

/-- `dupOptions`: the strict level of the session's options -/
def dup (strict : Nat) : Nat := if strict = 0 then Gen.optDefaultStrict else strict

/-- the strict level of `recoverTable`'s private options, from the user's `Options.Strict`;
`zeroFix` = the statement `if o.Strict == 0 { o.Strict = opt.NoStrict }` is there -/
def recoverStrict (zeroFix : Bool) (strict : Nat) : Nat :=
  let m := dup strict &&& compl Gen.optStrictReader
  if zeroFix && m = 0 then noStrict else m

/-- the code as it is (regenerated facts) -/
def codeZeroFix : Bool :=
  Gen.recoverMaskZeroBecomesNoStrict && Gen.recoverMasksStrictReader && Gen.getStrictZeroMeansDefault &&
    Gen.dupOptionsZeroMeansDefault && Gen.noStrictIsComplementOfAll

/-! ## the strictness of a compaction's input iterators (`opt.GetStrict(o, ro, …)`, `compaction.newIterator`) -/

/-- `ReadOptions.GetStrict(flag)` for a non-nil `ReadOptions` -/
def roGetStrict (ro flag : Nat) : Bool := ro &&& flag != 0

/-- `opt.GetStrict(o, ro, flag)` -/
def getStrictRO (o ro flag : Nat) : Bool :=
  if roGetStrict ro Gen.optStrictOverride then roGetStrict ro flag else (getStrict o flag || roGetStrict ro flag)

/-- the `ReadOptions.Strict` `compaction.newIterator` builds: `StrictOverride`, plus `extra` when the session's options
have `StrictCompaction` (the code: `extra = StrictReader`) -/
def compactionRO (extra o : Nat) : Nat :=
  if getStrict o Gen.optStrictCompaction then Gen.optStrictOverride ||| extra else Gen.optStrictOverride

/-- the code as it is (regenerated facts) -/
def codeCompactionIterShape : Bool := Gen.compactionIterStrictShape && Gen.getStrictWithReadOptionsShape && Gen.getStrictZeroMeansDefault

end GoLevel.Strict
