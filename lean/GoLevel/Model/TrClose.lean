import GoLevel.Gen.Consts
/-!
# `OpenTransaction` racing `Close`: who ends the transaction (properties C09, C18; wp51, D43)

```go
func (db *DB) OpenTransaction() (*Transaction, error) {
	if err := db.ok(); err != nil { return nil, err }                       // oStart
	select {
	case db.writeLockC <- struct{}{}:                                       // oSelTok
	case err := <-db.compPerErrC: return nil, err
	case <-db.closeC: return nil, ErrClosed                                 // oSelClosed
	}
	… rotateMem / compTriggerWait / waitCompaction: on error { <-db.writeLockC; return nil, err }   // oBodyFail / oBodyOk
	tr := &Transaction{…}
	db.trMu.Lock(); db.tr = tr; closed := db.isClosed(); db.trMu.Unlock()   // oReg  (as found: `db.tr = tr`, no mutex, no look at the flag)
	if closed { tr.Discard(); return nil, ErrClosed }                       // oSelfDiscard
	return tr, nil                                                          // the transaction is the client's: `live`
}
func (tr *Transaction) setDone() { …; db.trMu.Lock(); db.tr = nil; db.trMu.Unlock(); …; <-db.writeLockC }   // end of Commit / Discard
func (db *DB) Close() error {
	if !db.setClosed() { return ErrClosed }                                 // cStart
	…
	close(db.closeC)                                                        // cCloseC
	db.trMu.Lock(); tr := db.tr; db.trMu.Unlock()                           // cRead   (as found: an unsynchronised `if db.tr != nil`)
	if tr != nil { tr.Discard() }                                           // cDiscard
	db.writeLockC <- struct{}{}   (or `<-db.compLockedC`, `Model/Locks.lean`) // cAcq
	…
}
```

Any number of client goroutines, each performing one `OpenTransaction` and then owning (or not) the transaction it
got; one `Close`.  `trMu` critical sections never block, and `db.tr` is only touched inside them, so each is one
atomic step (`oReg`: register and read the closed flag; `cRead`; the `db.tr = nil` of `setDone` together with the
release of the write lock: the end of a transaction).  `Discard` is idempotent (`tr.lk`, `tr.closed`): a transaction
is ended once, by whoever comes first.  `Transaction.Commit` on a closed DB returns `ErrClosed` *without* ending the
transaction (`db.ok()` at its top), so after `Close` has set the flag a client ends its transaction only if it calls
`Discard` — `St.coop` says whether the clients of this run do (never changed by a step): the documentation of
`OpenTransaction` and `Close` promises that closing the DB discards the open transaction, a client may take
`ErrClosed` as final.

`Cfg.otxChecks`: `OpenTransaction` registers under `trMu`, reads the closed flag in the same critical section and
discards its transaction itself when the flag is set (since bfb31ce).  `Cfg.closeLocked`: `Close` reads `db.tr` under
`trMu`, after `setClosed` and `close(closeC)` (since bfb31ce; before, the read was unsynchronised — a data race: it
may miss a registration that happened just before, which the model renders as "may see nil").  `codeCfg` takes both
from the regenerated `Gen/Consts.lean`.
-/
namespace GoLevel.TrClose

structure Cfg where
  otxChecks : Bool
  closeLocked : Bool
deriving DecidableEq, Repr

/-- the source since bfb31ce -/
def Cfg.repaired : Cfg := { otxChecks := true, closeLocked := true }
/-- the source as found (98bd5c2): a single unsynchronised look at `db.tr` in `Close`, no look at the flag in
`OpenTransaction` -/
def Cfg.asFound : Cfg := { otxChecks := false, closeLocked := false }
/-- the source as it is now (regenerated facts) -/
def codeCfg : Cfg :=
  { otxChecks := Gen.trOpenRegistersThenChecksClosed, closeLocked := Gen.trCloseReadsUnderMuAfterClosed }

/-- a client goroutine: its `OpenTransaction`, then the transaction it got -/
inductive OPc
  | idle | sel | body | reg
  /-- at `tr.Discard()` after it saw the closed flag; `ended`: `Close` has discarded the transaction meanwhile -/
  | selfDiscard (ended : Bool)
  /-- `OpenTransaction` returned the transaction: it is open, it holds the write lock, the client has it -/
  | live
  /-- returned `ErrClosed` (from `db.ok()`, from the `closeC` arm, or after discarding its own transaction) -/
  | retClosed
  /-- returned the error of `rotateMem` / `waitCompaction` (the write lock given back) -/
  | retErr
  /-- the client committed or discarded its transaction -/
  | endedClient
  /-- `Close` discarded the transaction -/
  | endedClose
deriving DecidableEq, Repr

inductive CPc
  | idle | atCloseC | atRead | atDiscard (seen : Option Nat) | atAcq | done
deriving DecidableEq, Repr

/-- owner of the write-lock token (ghost) -/
inductive Owner | thr (i : Nat) | close
deriving DecidableEq, Repr

structure St where
  os : List OPc
  cl : CPc := .idle
  /-- a token is in `writeLockC` -/
  tok : Bool := false
  /-- the closed flag (`db.closed`, atomic) -/
  closed : Bool := false
  /-- `closeC` is closed -/
  closeC : Bool := false
  /-- `db.tr`: whose transaction is registered -/
  tr : Option Nat := none
  /-- ghost: who put the token into `writeLockC` -/
  owner : Option Owner := none
  /-- the clients call `Discard` after a `Commit` that returned `ErrClosed` (never changed by a step) -/
  coop : Bool := false
deriving DecidableEq, Repr

/-- the goroutine holds the write lock at this program counter -/
def holds : OPc → Bool
  | .body | .reg | .selfDiscard false | .live => true
  | _ => false

inductive Step (cfg : Cfg) : St → St → Prop
  /-- `db.ok()` -/
  | oStart (s : St) (i : Nat) (hi : s.os[i]? = some .idle) :
      Step cfg s { s with os := s.os.set i (if s.closed then .retClosed else .sel) }
  | oSelTok (s : St) (i : Nat) (hi : s.os[i]? = some .sel) (ht : s.tok = false) :
      Step cfg s { s with os := s.os.set i .body, tok := true, owner := some (.thr i) }
  | oSelClosed (s : St) (i : Nat) (hi : s.os[i]? = some .sel) (hc : s.closeC = true) :
      Step cfg s { s with os := s.os.set i .retClosed }
  | oBodyFail (s : St) (i : Nat) (hi : s.os[i]? = some .body) :
      Step cfg s { s with os := s.os.set i .retErr, tok := false, owner := none }
  | oBodyOk (s : St) (i : Nat) (hi : s.os[i]? = some .body) :
      Step cfg s { s with os := s.os.set i .reg }
  /-- `db.trMu.Lock(); db.tr = tr; closed := db.isClosed(); db.trMu.Unlock()` -/
  | oReg (s : St) (i : Nat) (hi : s.os[i]? = some .reg) :
      Step cfg s { s with os := s.os.set i (if cfg.otxChecks && s.closed then .selfDiscard false else .live),
                          tr := some i }
  /-- `tr.Discard(); return nil, ErrClosed` (a no-op if `Close` was faster) -/
  | oSelfDiscard (s : St) (i : Nat) (e : Bool) (hi : s.os[i]? = some (.selfDiscard e)) :
      Step cfg s (if e then { s with os := s.os.set i .retClosed }
                  else { s with os := s.os.set i .retClosed, tr := none, tok := false, owner := none })
  /-- the client commits or discards: before `Close`, or (a cooperating client) `Discard` after `ErrClosed` -/
  | oEnd (s : St) (i : Nat) (hi : s.os[i]? = some .live) (hc : s.closed = false ∨ s.coop = true) :
      Step cfg s { s with os := s.os.set i .endedClient, tr := none, tok := false, owner := none }
  /-- `db.setClosed()` -/
  | cStart (s : St) (hc : s.cl = .idle) :
      Step cfg s { s with cl := .atCloseC, closed := true }
  | cCloseC (s : St) (hc : s.cl = .atCloseC) :
      Step cfg s { s with cl := .atRead, closeC := true }
  /-- `db.trMu.Lock(); tr := db.tr; db.trMu.Unlock()` -/
  | cRead (s : St) (hc : s.cl = .atRead) :
      Step cfg s { s with cl := .atDiscard s.tr }
  /-- the unsynchronised read of the code as found may miss the registration -/
  | cReadStale (s : St) (hc : s.cl = .atRead) (hl : cfg.closeLocked = false) :
      Step cfg s { s with cl := .atDiscard none }
  | cDiscardNone (s : St) (hc : s.cl = .atDiscard none) :
      Step cfg s { s with cl := .atAcq }
  /-- `tr.Discard()`: ends the transaction unless it is ended already -/
  | cDiscard (s : St) (i : Nat) (p : OPc) (hc : s.cl = .atDiscard (some i)) (hi : s.os[i]? = some p) :
      Step cfg s (match p with
        | .live => { s with cl := .atAcq, os := s.os.set i .endedClose, tr := none, tok := false, owner := none }
        | .selfDiscard false =>
          { s with cl := .atAcq, os := s.os.set i (.selfDiscard true), tr := none, tok := false, owner := none }
        | _ => { s with cl := .atAcq })
  /-- `db.writeLockC <- struct{}{}` -/
  | cAcq (s : St) (hc : s.cl = .atAcq) (ht : s.tok = false) :
      Step cfg s { s with cl := .done, tok := true, owner := some .close }

inductive Steps (cfg : Cfg) : St → St → Prop
  | refl (s : St) : Steps cfg s s
  | tail {s t u : St} : Steps cfg s t → Step cfg t u → Steps cfg s u

theorem Steps.trans {cfg : Cfg} {s t u : St} (h1 : Steps cfg s t) (h2 : Steps cfg t u) : Steps cfg s u := by
  induction h2 with
  | refl => exact h1
  | tail _ h ih => exact .tail ih h

theorem Steps.step {cfg : Cfg} {s t u : St} (h : Steps cfg s t) (h2 : Step cfg t u) : Steps cfg s u := .tail h h2

/-- `n` clients, an open DB -/
def init (n : Nat) (coop : Bool) : St := { os := List.replicate n .idle, coop := coop }

def Reachable (cfg : Cfg) (s : St) : Prop := ∃ n c, Steps cfg (init n c) s

end GoLevel.TrClose
