import GoLevel.Gen.Consts
import GoLevel.Model.Bytes
import GoLevel.Model.Key
import GoLevel.Model.LSM
/-!
# Write batches (`leveldb/batch.go`)

Byte-exact model of the journal payload of a write group:

```
LE64 seq ‖ LE32 count ‖ record*          record = kind ‖ uvarint klen ‖ key [‖ uvarint vlen ‖ value]
```

* `Batch.encode seq recs` — `writeBatchesWithHeader` (`encodeBatchHeader` followed by the concatenated
  `Batch.data` of the merged batches; `Batch.appendRec` produces `encodeRec`).
* `Batch.decodeRecs` — the loop of `decodeBatch`.
* `Batch.decode` — `decodeBatchHeader` + `decodeBatch` + the two "invalid records length" tests, success
  case only.
* `Batch.decodeToMem data expectSeq` — `decodeBatchToMem` *as it is*: the entries are put into the memdb
  while the records are decoded, so a batch that fails half-way leaves the entries decoded so far
  (`MemResult.puts`) although the caller (`recoverJournal`) treats the record as skipped.

Deviations (unreachable from anything the writer produces, stated so that nobody relies on them):
a length varint `≥ 2^63` makes `int(x)` negative in Go and the following slice expression panics — the
model reports "invalid key/value length"; `makeInternalKey` panics for `seq + i > keyMaxSeq` — the model
builds the key.
-/
namespace GoLevel.Batch
open GoLevel.Gen (keyTypeDel keyTypeVal batchHeaderLen)

/-- one `batchIndex` with its key/value bytes: `kind` is `keyTypeDel` or `keyTypeVal`; `val = []` for a
    deletion (Go: `index.v(data)` is nil when `valueLen = 0`) -/
structure Rec where
  kind : Nat
  key  : Bytes
  val  : Bytes
deriving DecidableEq, Repr

/-- `Batch.appendRec` -/
def encodeRec (r : Rec) : Bytes :=
  r.kind.toUInt8 :: (uvarint r.key.length ++ r.key ++
    (if r.kind = keyTypeVal then uvarint r.val.length ++ r.val else []))

/-- concatenation of the `data` of the merged batches -/
def encodeBody (rs : List Rec) : Bytes := rs.flatMap encodeRec

/-- `writeBatchesWithHeader` -/
def encode (seq : Nat) (rs : List Rec) : Bytes := le64 seq ++ le32 rs.length ++ encodeBody rs

/-- the `Reason`s of `ErrBatchCorrupted` -/
inductive Err
  | tooShort | badType | badKeyLen | badValLen | badSeq | badCount
deriving DecidableEq, Repr

/-- one iteration of the loop of `decodeBatch` on `data[o:]` (non-empty by the loop condition) -/
def decodeRec : Bytes → Except Err (Rec × Bytes)
  | [] => .error .badType
  | kt :: d1 =>
    if kt.toNat > keyTypeVal then .error .badType
    else
      match readUvarint d1 with
      | none => .error .badKeyLen                        -- `n <= 0`
      | some (x, n) =>
        let d2 := d1.drop n
        if x > d2.length then .error .badKeyLen          -- `o+int(x) > len(data)`
        else
          let key := d2.take x
          let d3 := d2.drop x
          if kt.toNat = keyTypeVal then
            match readUvarint d3 with
            | none => .error .badValLen
            | some (y, m) =>
              let d4 := d3.drop m
              if y > d4.length then .error .badValLen
              else .ok (⟨kt.toNat, key, d4.take y⟩, d4.drop y)
          else .ok (⟨kt.toNat, key, []⟩, d3)

/-- the `for o < len(data)` loop of `decodeBatch`: the records decoded before the first error, and that
    error.  `fuel` bounds the iterations (each consumes at least one byte: `decodeRecs_fuel`). -/
def decodeRecsAux : Nat → Bytes → List Rec × Option Err
  | 0, _ => ([], none)
  | _, [] => ([], none)
  | fuel+1, data@(_ :: _) =>
    match decodeRec data with
    | .error e => ([], some e)
    | .ok (r, rest) =>
      let t := decodeRecsAux fuel rest
      (r :: t.1, t.2)

def decodeRecs (data : Bytes) : List Rec × Option Err := decodeRecsAux data.length data

/-- `decodeBatchHeader`: sequence number, record count, and `data[batchHeaderLen:]` -/
def header (data : Bytes) : Option (Nat × Nat × Bytes) :=
  if data.length < batchHeaderLen then none
  else some (rd64 data, rd32 (data.drop 8), data.drop batchHeaderLen)

/-- a journal payload that decodes without error: sequence number and records -/
def decode (data : Bytes) : Option (Nat × List Rec) :=
  match header data with
  | none => none
  | some (seq, n, body) =>
    match decodeRecs body with
    | (rs, none) => if rs.length = n then some (seq, rs) else none
    | (_, some _) => none

/-- the entry `decodeBatchToMem` puts for record `i` of a batch with sequence number `seq` -/
def entryOf (seq i : Nat) (r : Rec) : Entry := ⟨mkIKey r.key (seq + i) r.kind, r.val⟩

def entriesFrom (seq : Nat) : Nat → List Rec → List Entry
  | _, [] => []
  | i, r :: rs => entryOf seq i r :: entriesFrom seq (i + 1) rs

/-- the entries of a whole batch -/
def entries (seq : Nat) (rs : List Rec) : List Entry := entriesFrom seq 0 rs

structure MemResult where
  /-- what was `mdb.Put` before the function returned (also when it returned an error) -/
  puts : List Entry
  /-- `(seq, batchLen)` or the corruption reason -/
  res : Except Err (Nat × Nat)
deriving Repr

/-- `decodeBatchToMem(data, expectSeq, mdb)` -/
def decodeToMem (data : Bytes) (expectSeq : Nat) : MemResult :=
  match header data with
  | none => ⟨[], .error .tooShort⟩
  | some (seq, n, body) =>
    if seq < expectSeq then ⟨[], .error .badSeq⟩
    else
      let (rs, e) := decodeRecs body
      let puts := entries seq (rs.take n)
      if rs.length > n then ⟨puts, .error .badCount⟩        -- callback: `i >= batchLen`
      else
        match e with
        | some err => ⟨puts, .error err⟩
        | none => if rs.length = n then ⟨puts, .ok (seq, n)⟩ else ⟨puts, .error .badCount⟩

/-- what the writer may produce -/
def Rec.valid (r : Rec) : Prop :=
  (r.kind = keyTypeDel ∧ r.val = [] ∨ r.kind = keyTypeVal) ∧ r.key.length < 2 ^ 64 ∧ r.val.length < 2 ^ 64

end GoLevel.Batch
