import GoLevel.Proofs.LSMCompactView
/-!
# The sequential DB: client operations interleaved with background work, and the plain-map specification

Capstone model for C01 / C03 (one client, adversarial background scheduler).  The state is what
`DB.get` searches — write buffer, frozen buffer, current version — plus the sequence counter and the
registered snapshots.  It is built from the LSM layer (`GoLevel/Model/LSM.lean`): `dbGet`, `insertSorted`,
`Version.apply`, and the edits `flushEdit` / `replaceEdit` and the bundle `CompactionOK`
(`GoLevel/Proofs/LSMEdits.lean`, `LSMCompactView.lean`; core Lean only, so this file links into the driver).

Go functions mirrored (all in `/repo/leveldb`):
* `db_write.go` `writeLocked` / `Batch.putMem`: record `i` of a batch is inserted into the write buffer
  with sequence number `db.seq + 1 + i`, then `db.addSeq(len)` — `write`; `Put`/`Delete` are one-record batches;
* `db_state.go` `newMem` (called by `rotateMem`): refuses while a frozen buffer exists, otherwise
  `frozenMem = mem`, `mem` = fresh — `Bg.rotate`;
* `db_compaction.go` `memCompaction`: an empty frozen buffer is dropped; otherwise one table with the
  buffer's entries is added at level 0 (`memdbMaxLevel` is 0 outside tests) and the frozen buffer is dropped
  — `Bg.flush`;
* `db_compaction.go` `tableCompaction` (+ `tableCompactionBuilder`, `minSeq = db.minSeq()`): `Bg.compact`,
  the committed edit being `replaceEdit`; the trivial-move branch: `Bg.move`;
* `db_snapshot.go` `acquireSnapshot` / `releaseSnapshot` / `minSeq`, `Snapshot.Get`; `db.go` `Get`, `Has`
  (`DB.get` / `DB.has` with no auxiliary memdb or tables).

What the model abstracts, and what is outside it:
* The background steps are *atomic* and chosen by an adversary between any two client operations: any
  `Bg` value may be proposed; it is applied only if its guard holds, otherwise it is **rejected and the
  state is unchanged** (`bgStep` returns `none`; `step` keeps the old state).  The guards are exactly the
  hypotheses the C03/C06 theorems need and that the trace validator checks on the real code
  (`CompactionOK`, `minSeq ≤ db.seq` and `minSeq ≤` every registered snapshot — what `db.minSeq()` yields —,
  fresh table numbers, the no-overlap conditions of a trivial move).
* Concurrency (several writers, readers racing with the version swap) is C05; close/reopen, i.e.
  crash/recovery through journal and manifest, is C04.  **Close/reopen is not an event of this model.**
* Sequence numbers are unbounded `Nat`s (Go panics above `keyMaxSeq = 2^56 - 1`).
* Go shares one list element between snapshots taken at the same sequence number (reference count); here
  every `snapAcquire` registers its own `(id, seq)` pair, which is the same thing for `minSeq` and reads.
-/
namespace GoLevel.SeqDB

/-! ## association lists (snapshot registry, and the plain map of the specification) -/

def alGet {α β : Type} [DecidableEq α] : List (α × β) → α → Option β
  | [], _ => none
  | (a, b) :: l, x => if a = x then some b else alGet l x

def alErase {α β : Type} [DecidableEq α] (l : List (α × β)) (x : α) : List (α × β) :=
  l.filter fun p => !decide (p.1 = x)

/-! ## state -/

structure State where
  /-- `db.mem`, sorted under `icmp` -/
  mem : List Entry := []
  /-- `db.frozenMem` -/
  frozen : Option (List Entry) := none
  /-- `db.s.version()` -/
  ver : Version := ⟨[]⟩
  /-- `db.seq` -/
  seq : Nat := 0
  /-- `db.snapsList`: snapshot id ↦ sequence number, oldest first -/
  snaps : List (Nat × Nat) := []
  /-- next snapshot id handed out -/
  nextSnap : Nat := 0
  /-- `session.allocFileNum` -/
  nextTable : Nat := 1
deriving DecidableEq, Repr

/-- the empty DB -/
def init : State := {}

/-- a batch record: `(true, k, v)` = put, `(false, k, _)` = delete -/
abbrev Rec := Bool × Bytes × Bytes

/-- the internal entry a batch record becomes at sequence number `seq` (`Batch.putMem`) -/
def recEntry (seq : Nat) (r : Rec) : Entry :=
  if r.1 then ⟨mkIKey r.2.1 seq Gen.keyTypeVal, r.2.2⟩ else ⟨mkIKey r.2.1 seq Gen.keyTypeDel, []⟩

/-- `Batch.putMem(seq, mdb)`: record `i` goes in at `seq + i` -/
def putMem (c : UCmp) : Nat → List Rec → List Entry → List Entry
  | _, [], mem => mem
  | seq, r :: rs, mem => putMem c (seq + 1) rs (insertSorted c (recEntry seq r) mem)

/-- `writeLocked`: insert at `db.seq + 1 …`, then `db.addSeq(len)` -/
def write (c : UCmp) (st : State) (batch : List Rec) : State :=
  { st with mem := putMem c (st.seq + 1) batch st.mem, seq := st.seq + batch.length }

/-! ## client operations -/

inductive ClientOp
  | put (k v : Bytes)
  | del (k : Bytes)
  | write (batch : List Rec)
  | get (k : Bytes)
  | has (k : Bytes)
  | snapAcquire
  | snapGet (id : Nat) (k : Bytes)
  | snapRelease (id : Nat)
deriving DecidableEq, Repr

inductive Output
  | ok
  /-- `Get`: `none` = `ErrNotFound` -/
  | value (v : Option Bytes)
  | found (b : Bool)
  | snap (id : Nat)
  /-- a read through an id that is not registered (`ErrSnapshotReleased`) -/
  | badSnap
deriving DecidableEq, Repr

/-- `DB.has`: true exactly when the search ends on a value entry -/
def Hit.isValue : Hit → Bool
  | .value _ => true
  | _ => false

/-- `DB.get(nil, nil, key, seq, ro)` -/
def getAt (c : UCmp) (st : State) (k : Bytes) (s : Nat) : Hit :=
  dbGet c none [] st.mem st.frozen st.ver k s

def clientStep (c : UCmp) (st : State) : ClientOp → State × Output
  | .put k v => (write c st [(true, k, v)], .ok)
  | .del k => (write c st [(false, k, [])], .ok)
  | .write batch => (write c st batch, .ok)
  | .get k => (st, .value (getAt c st k st.seq).toOption)
  | .has k => (st, .found (Hit.isValue (getAt c st k st.seq)))
  | .snapAcquire =>
    ({ st with snaps := st.snaps ++ [(st.nextSnap, st.seq)], nextSnap := st.nextSnap + 1 }, .snap st.nextSnap)
  | .snapGet id k =>
    match alGet st.snaps id with
    | some s => (st, .value (getAt c st k s).toOption)
    | none => (st, .badSnap)
  | .snapRelease id => ({ st with snaps := alErase st.snaps id }, .ok)

/-! ## background steps -/

inductive Bg
  | rotate
  | flush
  | compact (ℓ : Nat) (S0 S1 nts : List Table) (minSeq : Nat) (umin umax : Bytes)
  | move (ℓ : Nat) (t : Table)
deriving Repr

/-- the table `flushMemdb` writes from a (non-empty, sorted) buffer -/
def tableOf (num : Nat) (f : List Entry) : Table :=
  ⟨num, f.length, f, (f.head?.map (·.key)).getD ⟨[], 0⟩, (f.getLast?.map (·.key)).getD ⟨[], 0⟩⟩

/-- new table files get numbers never used before, all different -/
def FreshNums (next : Nat) (nts : List Table) : Prop :=
  (nts.map (·.num)).Pairwise (· ≠ ·) ∧ ∀ t ∈ nts, next ≤ t.num

instance (next : Nat) (nts : List Table) : Decidable (FreshNums next nts) := by
  unfold FreshNums; infer_instance

/-- guard of `Bg.compact` -/
def CompactGuard (c : UCmp) (st : State) (ℓ : Nat) (S0 S1 nts : List Table) (minSeq : Nat)
    (umin umax : Bytes) : Prop :=
  CompactionOK c st.ver ℓ S0 S1 nts minSeq umin umax ∧ minSeq ≤ st.seq ∧
  (∀ p ∈ st.snaps, minSeq ≤ p.2) ∧ FreshNums st.nextTable nts

instance (c : UCmp) (st : State) (ℓ : Nat) (S0 S1 nts : List Table) (minSeq : Nat) (umin umax : Bytes) :
    Decidable (CompactGuard c st ℓ S0 S1 nts minSeq umin umax) := by
  unfold CompactGuard; infer_instance

/-- guard of `Bg.move`: the hypotheses of `trivial_move_preserves_wf` -/
def MoveGuard (c : UCmp) (st : State) (ℓ : Nat) (t : Table) : Prop :=
  t ∈ st.ver.lvl ℓ ∧
  (∀ x ∈ st.ver.lvl (ℓ + 1), x.overlapsRange c t.imin.ukey t.imax.ukey = false) ∧
  (ℓ = 0 → ∀ x ∈ st.ver.lvl 0, x ≠ t → x.overlapsRange c t.imin.ukey t.imax.ukey = false)

instance (c : UCmp) (st : State) (ℓ : Nat) (t : Table) : Decidable (MoveGuard c st ℓ t) := by
  unfold MoveGuard; infer_instance

/-- one background step; `none` = the guard fails, the step is rejected -/
def bgStep (c : UCmp) (st : State) : Bg → Option State
  | .rotate =>
    match st.frozen with
    | none => some { st with frozen := some st.mem, mem := [] }
    | some _ => none
  | .flush =>
    match st.frozen with
    | none => none
    | some [] => some { st with frozen := none }
    | some (e :: es) =>
      some { st with ver := st.ver.apply c (flushEdit 0 (tableOf st.nextTable (e :: es))), frozen := none,
                     nextTable := st.nextTable + 1 }
  | .compact ℓ S0 S1 nts minSeq umin umax =>
    if CompactGuard c st ℓ S0 S1 nts minSeq umin umax then
      some { st with ver := st.ver.apply c (replaceEdit ℓ S0 S1 nts),
                     nextTable := (nts.map (·.num)).foldl max st.nextTable + 1 }
    else none
  | .move ℓ t =>
    if MoveGuard c st ℓ t then some { st with ver := st.ver.apply c (replaceEdit ℓ [t] [] [t]) } else none

/-! ## runs -/

inductive Event
  | client (op : ClientOp)
  | bg (b : Bg)
deriving Repr

/-- one event: a client operation yields one output, a background step none; a rejected background
step leaves the state unchanged -/
def step (c : UCmp) (st : State) : Event → State × Option Output
  | .client op => let r := clientStep c st op; (r.1, some r.2)
  | .bg b => ((bgStep c st b).getD st, none)

/-- the state after a list of events -/
def runState (c : UCmp) : State → List Event → State
  | st, [] => st
  | st, e :: es => runState c (step c st e).1 es

/-- the outputs of the client operations, in order -/
def run (c : UCmp) : State → List Event → List Output
  | _, [] => []
  | st, e :: es =>
    match (step c st e).2 with
    | some o => o :: run c (step c st e).1 es
    | none => run c (step c st e).1 es

/-- which background steps of a run were accepted (for inspecting concrete runs) -/
def accepted (c : UCmp) : State → List Event → List Bool
  | _, [] => []
  | st, .client op :: es => accepted c (step c st (.client op)).1 es
  | st, .bg b :: es => (bgStep c st b).isSome :: accepted c (step c st (.bg b)).1 es

/-! ## specification: a plain map with frozen copies -/

abbrev Map := List (Bytes × Bytes)

def Map.get (m : Map) (k : Bytes) : Option Bytes := alGet m k

/-- apply one record: a put replaces the binding, a delete removes it -/
def Map.apply (m : Map) (r : Rec) : Map :=
  if r.1 then (r.2.1, r.2.2) :: alErase m r.2.1 else alErase m r.2.1

structure Spec where
  map : Map := []
  /-- snapshot id ↦ copy of the map taken at acquisition -/
  snaps : List (Nat × Map) := []
  nextSnap : Nat := 0
deriving DecidableEq, Repr

def Spec.init : Spec := {}

def Spec.step (sp : Spec) : ClientOp → Spec × Output
  | .put k v => ({ sp with map := sp.map.apply (true, k, v) }, .ok)
  | .del k => ({ sp with map := sp.map.apply (false, k, []) }, .ok)
  | .write batch => ({ sp with map := batch.foldl Map.apply sp.map }, .ok)
  | .get k => (sp, .value (sp.map.get k))
  | .has k => (sp, .found (sp.map.get k).isSome)
  | .snapAcquire =>
    ({ sp with snaps := sp.snaps ++ [(sp.nextSnap, sp.map)], nextSnap := sp.nextSnap + 1 }, .snap sp.nextSnap)
  | .snapGet id k =>
    match alGet sp.snaps id with
    | some m => (sp, .value (m.get k))
    | none => (sp, .badSnap)
  | .snapRelease id => ({ sp with snaps := alErase sp.snaps id }, .ok)

def Spec.runState : Spec → List ClientOp → Spec
  | sp, [] => sp
  | sp, op :: ops => Spec.runState (sp.step op).1 ops

def Spec.run : Spec → List ClientOp → List Output
  | _, [] => []
  | sp, op :: ops => (sp.step op).2 :: Spec.run (sp.step op).1 ops

/-- the client operations of an event list (background events erased) -/
def clientOps : List Event → List ClientOp
  | [] => []
  | .client op :: es => op :: clientOps es
  | .bg _ :: es => clientOps es

end GoLevel.SeqDB
