import GoLevel.Proofs.SeqDBSim
/-!
# Properties C01 and C03, end to end over the LSM model

C01: "For any sequence of Put, Delete, batch Write, CompactRange … calls issued by one client, every Get and
Has returns exactly what a plain in-memory map driven by the same sequence would return … no matter whether
the newest entry currently sits in the write buffer, the frozen buffer, a level-0 table or a deeper table,
and no matter which flushes and compactions have run.  Has(k) is true exactly when Get(k) succeeds."

C03: "A snapshot … reflects exactly the DB contents at the instant it was created.  Every read through it
keeps returning those contents, unchanged, however many writes, deletes, buffer flushes, automatic or manual
compactions happen afterwards and however long it is held; releasing it affects neither other snapshots nor
the live DB."

Model: `GoLevel/Model/SeqDB.lean` — the state `(mem, frozen, version, seq, snapshots)`, the client operations
`put / del / write / get / has / snapAcquire / snapGet / snapRelease` (`clientStep`), the background steps
`rotate / flush / compact / move` (`bgStep`; a step whose guard fails is rejected and leaves the state
unchanged), `run : State → List Event → List Output`, and the specification `Spec` (a plain association-list
map, per-snapshot frozen copies) with `Spec.run`.  `CompactRange` is, for this property, some sequence of
`rotate`, `flush`, `compact` and `move` steps; the scheduler may pick any.
**Close/reopen is outside this model** (crash and recovery are property C04).

The theorems hold for every lawful comparer, from the empty DB, for **every** event list: any length, any
interleaving of client operations with background steps, accepted or rejected.  Proof: `Inv`
(`Proofs/SeqDBInv.lean`) is preserved by every step — flush, compaction and trivial move by
`C06.flush_preserves_wf`, `C03.compaction_preserves_lookup`, `C06.trivial_move_preserves_wf` —, and the
simulation `Sim` (`Proofs/SeqDBSim.lean`, ghost history + floor) is preserved with equal outputs — reads by
`C01.lookup_refines_view`, compaction/move/flush by `C03.compaction_preserves_lookup`,
`C03.trivial_move_preserves_view`, `view_congr`; writes by `view_append_newer` / `view_cons_of_newer`.
-/
namespace GoLevel.C01Seq
open GoLevel.SeqDB

/-! ## 1. the invariant holds in every reachable state -/

/-- **`inv_preserved`**: in every state reachable from the empty DB the sources of `DB.get` satisfy the
hypotheses of C01 (`SourcesOK`: buffers sorted, version well formed, write buffer ▸ frozen buffer ▸ version
newer per user key), no two entries share user key and sequence number, table numbers are distinct, every
entry has `seq ≤ db.seq` and kind ≤ `keyTypeVal`, every snapshot is at most `db.seq`. -/
theorem inv_preserved {c : UCmp} (hl : LawfulUCmp c) (es : List Event) : Inv c (runState c init es) :=
  inv_runState hl es (inv_init hl)

/-- the same, spelled out -/
theorem inv_spelled {c : UCmp} (hl : LawfulUCmp c) (es : List Event) :
    let st := runState c init es
    C01.SourcesOK c none [] st.mem st.frozen st.ver ∧ st.ver.wfB c = true ∧
    UniqSeq (st.mem ++ (st.frozen.getD [] ++ st.ver.entries)) ∧
    (∀ i j, ∀ x ∈ st.ver.lvl i, ∀ y ∈ st.ver.lvl j, x.num = y.num → x = y) ∧
    (∀ e ∈ st.mem ++ (st.frozen.getD [] ++ st.ver.entries), e.seq ≤ st.seq ∧ e.kind ≤ Gen.keyTypeVal) ∧
    (∀ p ∈ st.snaps, p.2 ≤ st.seq) := by
  have h := inv_preserved hl es
  exact ⟨h.sources, h.sources.wf, h.uniq, h.nums, fun e he => ⟨h.seq_le e he, h.kinds e he⟩, h.snaps_le⟩

/-! ## 4. the refinement statement -/

/-- **`run_refines_spec`**: the outputs of any run of the DB model — client operations interleaved in any
way with rotations, flushes, compactions and trivial moves — are the outputs of the plain-map
specification run on the client operations alone. -/
theorem run_refines_spec {c : UCmp} (hl : LawfulUCmp c) (es : List Event) :
    run c init es = Spec.run Spec.init (clientOps es) :=
  run_eq_spec hl es (inv_init hl) (sim_init c)

/-- the specification's map after the client operations `ops` is the plain map driven by their writes,
whatever reads and snapshot operations lie in between -/
theorem spec_map_is_plain (ops : List ClientOp) :
    (Spec.runState Spec.init ops).map = (writesOf ops).foldl Map.apply [] :=
  spec_map_eq_fold ops Spec.init

/-! ## 2. Get and Has -/

/-- **`get_refines_map`**: after any events `pre`, `Get k` returns what the plain map driven by the client
operations of `pre` holds for `k` — wherever the newest entry of `k` sits and whatever background work ran. -/
theorem get_refines_map {c : UCmp} (hl : LawfulUCmp c) (pre : List Event) (k : Bytes) :
    (clientStep c (runState c init pre) (.get k)).2 =
      .value ((Spec.runState Spec.init (clientOps pre)).map.get k) :=
  (sim_clientStep hl (inv_preserved hl pre) (sim_runState hl pre (inv_init hl) (sim_init c)) (.get k)).1

/-- the same inside a whole run: the output at the position of the `Get` -/
theorem get_refines_map_run {c : UCmp} (hl : LawfulUCmp c) (pre post : List Event) (k : Bytes) :
    run c init (pre ++ .client (.get k) :: post) =
      run c init pre ++ .value (((writesOf (clientOps pre)).foldl Map.apply []).get k)
        :: run c (runState c init pre) post := by
  rw [run_append, ← spec_map_is_plain, ← get_refines_map hl pre k]
  rfl

/-- `Has k` returns whether the plain map holds `k` -/
theorem has_refines_map {c : UCmp} (hl : LawfulUCmp c) (pre : List Event) (k : Bytes) :
    (clientStep c (runState c init pre) (.has k)).2 =
      .found ((Spec.runState Spec.init (clientOps pre)).map.get k).isSome :=
  (sim_clientStep hl (inv_preserved hl pre) (sim_runState hl pre (inv_init hl) (sim_init c)) (.has k)).1

/-- **`has_iff_get`**: in every state, `Has k` is true exactly when `Get k` succeeds -/
theorem has_iff_get (c : UCmp) (st : State) (k : Bytes) :
    ∃ v, (clientStep c st (.get k)).2 = .value v ∧ (clientStep c st (.has k)).2 = .found v.isSome :=
  ⟨_, rfl, congrArg Output.found (isValue_eq _)⟩

/-! ## 3. snapshots -/

/-- **`snapshot_frozen`**: let `snapAcquire` be issued after the events `pre`; it returns the id
`(runState c init pre).nextSnap`.  After any further events `mid` that do not release *that* id — writes,
deletes, batches, rotations, flushes, compactions (accepted only with `minSeq ≤` the snapshot), moves,
acquisitions and releases of other snapshots — `snapGet id k` returns what the plain map held for `k` at
the moment of acquisition. -/
theorem snapshot_frozen {c : UCmp} (hl : LawfulUCmp c) (pre mid : List Event) (k : Bytes)
    (hno : ClientOp.snapRelease (runState c init pre).nextSnap ∉ clientOps mid) :
    (clientStep c (runState c init pre) .snapAcquire).2 = .snap (runState c init pre).nextSnap ∧
    (clientStep c (runState c init (pre ++ .client .snapAcquire :: mid))
        (.snapGet (runState c init pre).nextSnap k)).2 =
      .value ((Spec.runState Spec.init (clientOps pre)).map.get k) := by
  refine ⟨rfl, ?_⟩
  have hi0 := inv_preserved hl pre
  have hs0 := sim_runState hl pre (inv_init hl) (sim_init c)
  have hiA := inv_preserved hl (pre ++ .client .snapAcquire :: mid)
  have hsA := sim_runState hl (pre ++ .client .snapAcquire :: mid) (inv_init hl) (sim_init c)
  rw [(sim_clientStep hl hiA hsA _).1, clientOps_append, Spec.runState_append]
  obtain ⟨hist, floor, hw⟩ := hs0
  -- the specification knows no snapshot with the id about to be handed out
  have hnone : alGet (Spec.runState Spec.init (clientOps pre)).snaps (runState c init pre).nextSnap = none := by
    have h1 : alGet (runState c init pre).snaps (runState c init pre).nextSnap = none :=
      alGet_none_of_not_mem (fun p hp => Nat.ne_of_lt (hi0.snaps_lt p hp))
    have hm := hw.snaps (runState c init pre).nextSnap
    rw [h1] at hm
    cases h2 : alGet (Spec.runState Spec.init (clientOps pre)).snaps (runState c init pre).nextSnap with
    | none => rfl
    | some m => rw [h2] at hm; exact hm.elim
  have hget : alGet (Spec.runState (Spec.runState Spec.init (clientOps pre))
      (clientOps (.client .snapAcquire :: mid))).snaps (runState c init pre).nextSnap
      = some (Spec.runState Spec.init (clientOps pre)).map := by
    apply spec_snap_persist _ _ (clientOps mid) _ _ hno
    show alGet (_ ++ [(_, _)]) _ = _
    rw [alGet_append_single, hnone, hw.next, if_pos rfl]
  simp only [Spec.step, hget]

/-- releasing a snapshot does not change what `Get` returns (the live DB is unaffected) -/
theorem release_keeps_get (c : UCmp) (st : State) (id : Nat) (k : Bytes) :
    (clientStep c (clientStep c st (.snapRelease id)).1 (.get k)).2 = (clientStep c st (.get k)).2 := rfl

/-! ## non-vacuity: a concrete run

Keys `[1] … [5]`.  `[1]` is written twice and deleted; `[2]` written, deleted, rewritten; `[3]` overwritten
after snapshot 0 (taken at sequence 5); a three-record batch.  Background: rotate + flush (table 1, level 0);
a compaction with `minSeq = 9` is **rejected** (snapshot 0 is at 5); with `minSeq = 5` it is accepted and
drops the overwritten `[1]@1`, the tombstone `[2]@4` and `[2]@3` under it, but keeps `[1]@2` and `[3]@5`, which
snapshot 0 needs; second rotate + flush (table 4); a trivial move of table 2 to level 2.  At the end the
newest entry of `[5]` sits in the write buffer, of `[4]` in a level-0 table, of `[2]`, `[3]` in level 1, of `[1]`
in level 2. -/

def e (k : UInt8) (seq kind : Nat) (v : List UInt8) : Entry := ⟨mkIKey [k] seq kind, v⟩

def exT1 : Table := tableOf 1
  [e 1 7 0 [], e 1 2 1 [0xa1], e 1 1 1 [0xa0], e 2 9 1 [0xb1], e 2 4 0 [], e 2 3 1 [0xb0],
   e 3 6 1 [0xc1], e 3 5 1 [0xc0], e 4 8 1 [0xd0]]
def exN2 : Table := tableOf 2 [e 1 7 0 [], e 1 2 1 [0xa1]]
def exN3 : Table := tableOf 3 [e 2 9 1 [0xb1], e 3 6 1 [0xc1], e 3 5 1 [0xc0], e 4 8 1 [0xd0]]
def exT4 : Table := tableOf 4 [e 4 10 1 [0xd1]]
/-- what the builder would write with `minSeq = 9` -/
def exBad : Table := tableOf 2 [e 2 9 1 [0xb1], e 3 6 1 [0xc1], e 4 8 1 [0xd0]]

def exEvents : List Event := [
  .client (.put [1] [0xa0]), .client (.put [1] [0xa1]), .client (.put [2] [0xb0]), .client (.del [2]),
  .client (.put [3] [0xc0]), .client .snapAcquire, .client (.put [3] [0xc1]),
  .client (.write [(false, [1], []), (true, [4], [0xd0]), (true, [2], [0xb1])]),
  .bg .rotate, .client (.get [1]), .bg .flush, .client (.snapGet 0 [1]),
  .bg (.compact 0 [exT1] [] [exBad] 9 [1] [4]),
  .bg (.compact 0 [exT1] [] [exN2, exN3] 5 [1] [4]),
  .client (.snapGet 0 [1]), .client (.snapGet 0 [2]), .client (.snapGet 0 [3]),
  .client (.put [4] [0xd1]), .bg .rotate, .client (.put [5] [0xe0]), .client .snapAcquire, .client (.del [5]),
  .bg .flush,
  .client (.get [1]), .client (.get [2]), .client (.get [3]), .client (.get [4]), .client (.get [5]),
  .client (.has [2]), .client (.has [5]), .client (.snapGet 1 [5]), .client (.snapRelease 0),
  .client (.snapGet 0 [1]), .client (.snapGet 1 [5]), .bg (.move 1 exN2), .client (.get [1]),
  .client (.get [2])]

/-- the outputs, computed by the model -/
example : run bytewise init exEvents =
    [.ok, .ok, .ok, .ok, .ok, .snap 0, .ok, .ok,
     .value none,                     -- get [1] (tombstone in the frozen buffer)
     .value (some [0xa1]),            -- snapGet 0 [1] (level-0 table)
     .value (some [0xa1]), .value none, .value (some [0xc0]),   -- snapshot 0 after the compaction
     .ok, .ok, .snap 1, .ok,
     .value none, .value (some [0xb1]), .value (some [0xc1]), .value (some [0xd1]), .value none,
     .found true, .found false,
     .value (some [0xe0]),            -- snapGet 1 [5]: written at 11, deleted at 12
     .ok, .badSnap, .value (some [0xe0]),
     .value none, .value (some [0xb1])] := by decide

/-- … and they are the specification's -/
example : run bytewise init exEvents = Spec.run Spec.init (clientOps exEvents) := by decide

/-- the same equation as an instance of the theorem -/
example : run bytewise init exEvents = Spec.run Spec.init (clientOps exEvents) :=
  run_refines_spec bytewise_lawful exEvents

/-- every background step but the compaction with `minSeq = 9 >` snapshot 0 was accepted -/
example : accepted bytewise init exEvents = [true, true, false, true, true, true, true] := by decide

/-- that compaction fails only the snapshot clause of its guard … -/
example :
    let st := runState bytewise init (exEvents.take 12)
    CompactionOK bytewise st.ver 0 [exT1] [] [exBad] 9 [1] [4] ∧ 9 ≤ st.seq ∧ FreshNums st.nextTable [exBad] ∧
    st.snaps = [(0, 5)] := by decide

/-- … and the clause is needed: committed anyway, it makes snapshot 0 lose `[1]` and `[3]` -/
example :
    let st := runState bytewise init (exEvents.take 12)
    let st' := { st with ver := st.ver.apply bytewise (replaceEdit 0 [exT1] [] [exBad]) }
    (getAt bytewise st [1] 5).toOption = some [0xa1] ∧ (getAt bytewise st' [1] 5).toOption = none ∧
    (getAt bytewise st [3] 5).toOption = some [0xc0] ∧ (getAt bytewise st' [3] 5).toOption = none := by
  decide

/-- the accepted compaction dropped a tombstone and overwritten values, and kept what snapshot 0 reads -/
example :
    (runState bytewise init (exEvents.take 12)).ver = ⟨[[exT1]]⟩ ∧
    (runState bytewise init (exEvents.take 14)).ver = ⟨[[], [exN2, exN3]]⟩ ∧
    e 2 4 0 [] ∈ exT1.entries ∧ e 2 4 0 [] ∉ exN2.entries ++ exN3.entries ∧
    e 1 1 1 [0xa0] ∈ exT1.entries ∧ e 1 1 1 [0xa0] ∉ exN2.entries ++ exN3.entries ∧
    e 1 2 1 [0xa1] ∈ exN2.entries ∧ e 3 5 1 [0xc0] ∈ exN3.entries := by decide

/-- the final state: write buffer, level 0, level 1, level 2 all populated -/
example :
    let st := runState bytewise init exEvents
    st.mem = [e 5 12 0 [], e 5 11 1 [0xe0]] ∧ st.frozen = none ∧ st.ver = ⟨[[exT4], [exN3], [exN2]]⟩ ∧
    st.seq = 12 ∧ st.snaps = [(1, 11)] := by decide

/-- `snapshot_frozen` on the run: snapshot 0 was acquired after the first five events -/
example : (clientStep bytewise (runState bytewise init (exEvents.take 5 ++ .client .snapAcquire ::
      ((exEvents.drop 6).take 25))) (.snapGet 0 [3])).2 = .value (some [0xc0]) :=
  (snapshot_frozen bytewise_lawful (exEvents.take 5) ((exEvents.drop 6).take 25) [3] (by decide)).2.trans
    (by decide)

end GoLevel.C01Seq

def GoLevel.C01Seq.theorems : List String :=
  ["GoLevel.C01Seq.inv_preserved", "GoLevel.C01Seq.inv_spelled", "GoLevel.C01Seq.run_refines_spec",
   "GoLevel.C01Seq.spec_map_is_plain", "GoLevel.C01Seq.get_refines_map",
   "GoLevel.C01Seq.get_refines_map_run", "GoLevel.C01Seq.has_refines_map", "GoLevel.C01Seq.has_iff_get",
   "GoLevel.C01Seq.snapshot_frozen", "GoLevel.C01Seq.release_keeps_get"]
