import GoLevel.Model.Key
import GoLevel.Proofs.TableTop
import GoLevel.Proofs.BlockIterSlice
/-!
# Property C13: sorted tables round-trip, lookups, offsets, damage detection

Model: `GoLevel/Model/Block.lean`, `GoLevel/Model/Table.lean` (byte-exact against `table.NewWriter`/`NewReader`,
see `harness/wp/c13`).  Standing size assumptions (the format stores restart points and filter offsets in 32
bits and lengths as 64-bit varints): `SmallKV` (key and value lengths `< 2^64`) and a block / file shorter than
`2^32` bytes.  The checksum is a parameter; `Cksum32` says it is a 32-bit value, `DetectsSingle` that altering
one input position changes it.
-/
namespace GoLevel.C13
open GoLevel

/-! ## (a) block round trip -/

/-- a full forward pass over a written block yields exactly the appended pairs — any restart interval, any
pairs (sortedness is not needed) -/
theorem block_decode_build (ri : Nat) (kvs : List KV) (hs : SmallKV kvs)
    (hsz : (Block.build ri kvs).length < 2 ^ 32) :
    Block.decode (Block.build ri kvs) = some kvs :=
  decode_build ri kvs hs hsz

def exKVs : List KV :=
  [([1], [10]), ([1, 2], [11]), ([1, 2, 3], []), ([2], [13, 14, 15, 16, 17, 18, 19, 20, 21, 22, 23, 24, 25]),
   ([3], [1]), ([3, 0], [2]), ([3, 0, 0], [3])]

theorem exKVs_small : SmallKV exKVs := by
  intro kv h
  simp only [exKVs, List.mem_cons, List.mem_nil_iff, or_false] at h
  rcases h with rfl | rfl | rfl | rfl | rfl | rfl | rfl <;> decide

example : Block.decode (Block.build 2 exKVs) = some exKVs :=
  block_decode_build 2 exKVs exKVs_small (by decide +kernel)

example : Block.decode (Block.build 16 []) = some [] :=
  block_decode_build 16 [] (by intro kv h; simp at h) (by decide +kernel)

/-! ## (b) block seek -/

/-- `blockIter.Seek` (binary search over the restart points, then linear scan) on a written block of strictly
increasing keys lands on the first pair whose key is not below the target -/
theorem block_seek_spec {cmp : Bytes → Bytes → Ordering} (hc : LawfulCmp cmp) (ri : Nat) (kvs : List KV)
    (hs : SmallKV kvs) (hsorted : StrictSorted cmp kvs) (hsz : (Block.build ri kvs).length < 2 ^ 32) (key : Bytes) :
    Block.seek cmp (Block.build ri kvs) key = some (kvs.find? fun e => cmp e.1 key != .lt) :=
  seek_build hc ri kvs hs hsorted hsz key

theorem exKVs_sorted : StrictSorted bytesCompare exKVs := by
  unfold StrictSorted exKVs
  decide

example : Block.seek bytesCompare (Block.build 3 exKVs) [2, 5] = some (some ([3], [1])) := by
  rw [block_seek_spec bytesCompare_lawful 3 exKVs exKVs_small exKVs_sorted (by decide +kernel)]
  decide

example : Block.seek bytesCompare (Block.build 3 exKVs) [9] = some none := by
  rw [block_seek_spec bytesCompare_lawful 3 exKVs exKVs_small exKVs_sorted (by decide +kernel)]
  decide

/-! ## (c) table round trip -/

/-- `NewReader` opens what the writer produced and a full forward iteration yields exactly the appended pairs:
every block size, restart interval, filter setting; both checksum-verification settings -/
theorem table_entries_write (cfg : TableCfg) (hck : Cksum32 cfg.cksum) (kvs : List KV) (hs : SmallKV kvs)
    (hsz : (Table.write cfg kvs).length < 2 ^ 32) (verify : Bool) :
    ∃ t, Table.open cfg verify (Table.write cfg kvs) = some t ∧ t.entries = some kvs :=
  entries_of_write cfg hck kvs hs hsz verify

/-- a configuration for the examples: 32-byte blocks, restart interval 2, no filter, bytewise order with a
comparer that never shortens keys, a toy 32-bit checksum -/
def exCfg : TableCfg := ⟨32, 2, none, 4, bytesCompare, fun _ _ => none, fun _ => none, fun bs => bs.length % 7⟩

example : ∃ t, Table.open exCfg true (Table.write exCfg exKVs) = some t ∧ t.entries = some exKVs :=
  table_entries_write exCfg (by intro bs; simp only [exCfg]; omega) exKVs exKVs_small (by decide +kernel) true

/-! ## (d) lookups -/

/-- `Reader.Find` (unfiltered) on a written table returns the first pair whose key is not below the sought key,
`ErrNotFound` if there is none -/
theorem table_find_spec (cfg : TableCfg) (hok : CfgOK cfg) (kvs : List KV) (hs : SmallKV kvs)
    (hsorted : StrictSorted cfg.cmp kvs) (hk : TailKeysNonempty kvs)
    (hsz : (Table.write cfg kvs).length < 2 ^ 32) (verify : Bool) (key : Bytes) :
    ∃ t, Table.open cfg verify (Table.write cfg kvs) = some t ∧
      t.find key false = resultOf (kvs.find? fun e => cfg.cmp e.1 key != .lt) :=
  let ⟨t, ho, _, hf⟩ := table_find_spec' cfg hok kvs hs hsorted hk hsz verify key
  ⟨t, ho, hf⟩

/-- `Reader.Get`: the value stored under exactly that key, `ErrNotFound` if the key is not in the table -/
theorem table_get_spec (cfg : TableCfg) (hok : CfgOK cfg) (kvs : List KV) (hs : SmallKV kvs)
    (hsorted : StrictSorted cfg.cmp kvs) (hk : TailKeysNonempty kvs)
    (hsz : (Table.write cfg kvs).length < 2 ^ 32) (verify : Bool) (key : Bytes) :
    ∃ t, Table.open cfg verify (Table.write cfg kvs) = some t ∧
      (∀ v, (key, v) ∈ kvs → t.get key = .ok v) ∧ ((∀ kv ∈ kvs, kv.1 ≠ key) → t.get key = .notFound) := by
  obtain ⟨t, ho, hcmp, hf⟩ := table_find_spec' cfg hok kvs hs hsorted hk hsz verify key
  refine ⟨t, ho, ?_, ?_⟩
  · intro v hm
    have := find?_ge_of_mem hok.cmp kvs hsorted (key, v) hm
    simp only at this
    simp [TableR.get, hf, this, resultOf, hcmp, hok.cmp.refl]
  · intro hnone
    unfold TableR.get
    rw [hf]
    cases hfd : kvs.find? (fun e => cfg.cmp e.1 key != .lt) with
    | none => rfl
    | some kv =>
      have hm := List.mem_of_find?_eq_some hfd
      have hne : cfg.cmp kv.1 key ≠ .eq := fun e => hnone kv hm (hok.cmp.eq_of _ _ e)
      simp [resultOf, hcmp, hne]

theorem exCfg_ok : CfgOK exCfg :=
  ⟨bytesCompare_lawful, by intro a b d _ h; simp [exCfg] at h, by intro b d h; simp [exCfg] at h,
   by intro bs; simp only [exCfg]; omega⟩

theorem exKVs_keys : TailKeysNonempty exKVs := by
  intro kv h
  simp only [exKVs, List.tail_cons, List.mem_cons, List.mem_nil_iff, or_false] at h
  rcases h with rfl | rfl | rfl | rfl | rfl | rfl <;> decide

example : ∃ t, Table.open exCfg true (Table.write exCfg exKVs) = some t ∧
    t.find [2, 5] false = .ok ([3], [1]) := by
  obtain ⟨t, ho, hf⟩ := table_find_spec exCfg exCfg_ok exKVs exKVs_small exKVs_sorted exKVs_keys
    (by decide +kernel) true [2, 5]
  exact ⟨t, ho, by rw [hf]; decide⟩

example : ∃ t, Table.open exCfg false (Table.write exCfg exKVs) = some t ∧
    (∀ v, (([1, 2] : Bytes), v) ∈ exKVs → t.get [1, 2] = .ok v) :=
  let ⟨t, ho, h1, _⟩ := table_get_spec exCfg exCfg_ok exKVs exKVs_small exKVs_sorted exKVs_keys
    (by decide +kernel) false [1, 2]
  ⟨t, ho, h1⟩

/-! ## range-restricted iteration -/

/-- `NewIterator(&util.Range{Start, Limit})` (content of a full forward pass; `nil` bounds are `none`): exactly the
pairs with `Start ≤ key < Limit` — any bounds, including inverted ones (`Limit ≤ Start`: nothing) and bounds
outside the key range.  Mirrors `newBlockIter` / `indexIter.Get` after the D21 fix: the index sliced with the
limit inclusive, the slice applied to the first and the last data block. -/
theorem table_range_spec (cfg : TableCfg) (hok : CfgOK cfg) (kvs : List KV) (hs : SmallKV kvs)
    (hsorted : StrictSorted cfg.cmp kvs) (hk : TailKeysNonempty kvs)
    (hsz : (Table.write cfg kvs).length < 2 ^ 32) (verify : Bool) (start limit : Option Bytes) :
    ∃ t, Table.open cfg verify (Table.write cfg kvs) = some t ∧
      t.entriesInRange start limit = some (kvs.filter (inRange cfg.cmp start limit)) :=
  range_of_write cfg hok kvs hs hsorted hk hsz verify start limit

example : ∃ t, Table.open exCfg true (Table.write exCfg exKVs) = some t ∧
    t.entriesInRange (some [1, 2]) (some [3]) = some [([1, 2], [11]), ([1, 2, 3], []),
      ([2], [13, 14, 15, 16, 17, 18, 19, 20, 21, 22, 23, 24, 25])] := by
  obtain ⟨t, ho, hr⟩ := table_range_spec exCfg exCfg_ok exKVs exKVs_small exKVs_sorted exKVs_keys
    (by decide +kernel) true (some [1, 2]) (some [3])
  exact ⟨t, ho, by rw [hr]; decide⟩

/-- inverted bounds yield nothing -/
example : ∃ t, Table.open exCfg true (Table.write exCfg exKVs) = some t ∧
    t.entriesInRange (some [3]) (some [1, 2]) = some [] := by
  obtain ⟨t, ho, hr⟩ := table_range_spec exCfg exCfg_ok exKVs exKVs_small exKVs_sorted exKVs_keys
    (by decide +kernel) true (some [3]) (some [1, 2])
  exact ⟨t, ho, by rw [hr]; decide⟩

/-- corollary: the unrestricted range (`Start = Limit = nil`) yields all pairs (no order assumptions needed) -/
theorem table_range_partial (cfg : TableCfg) (hck : Cksum32 cfg.cksum) (kvs : List KV) (hs : SmallKV kvs)
    (hsz : (Table.write cfg kvs).length < 2 ^ 32) (verify : Bool) :
    ∃ t, Table.open cfg verify (Table.write cfg kvs) = some t ∧ t.entriesInRange none none = some kvs := by
  obtain ⟨t, ho, he⟩ := table_entries_write cfg hck kvs hs hsz verify
  exact ⟨t, ho, by rw [entriesInRange_none, he]⟩

/-! ## (e) approximate offsets -/

/-- `Reader.OffsetOf` never fails on a written table and never decreases as the key grows -/
theorem offsetOf_monotone (cfg : TableCfg) (hok : CfgOK cfg) (kvs : List KV)
    (hsorted : StrictSorted cfg.cmp kvs) (hk : TailKeysNonempty kvs)
    (hsz : (Table.write cfg kvs).length < 2 ^ 32) (verify : Bool) :
    ∃ t, Table.open cfg verify (Table.write cfg kvs) = some t ∧
      ∀ k1 k2, cfg.cmp k1 k2 ≠ .gt → ∃ o1 o2, t.offsetOf k1 = .ok o1 ∧ t.offsetOf k2 = .ok o2 ∧ o1 ≤ o2 := by
  obtain ⟨cs, hfile, hflat, hshape⟩ := write_shape cfg kvs
  rw [hfile] at hsz ⊢
  have hfb : (closeFilter cfg (appended cfg kvs)).isSome = cfg.filter.isSome := by simp [closeFilter]
  obtain ⟨t, ho, hcmp, _, _, _, hidx, hde, _⟩ := open_shape cfg hok.ck cs _ hfb hsz (name_small cfg cs _ hfb hsz) verify
  have hixs : StrictSorted cfg.cmp (ixE cfg 0 cs []) := by
    rcases hshape with ⟨_, h⟩ | ⟨_, h⟩
    · subst h; simp [ixE, StrictSorted]
    · exact ixE_sorted hok.cmp hok.sep hok.succ [] cs 0 (chunksOK_of hflat h hsorted hk)
  refine ⟨t, ho, fun k1 k2 hle => ⟨offsetSpec cfg cs k1, offsetSpec cfg cs k2, ?_, ?_, offsetSpec_mono hok.cmp cs k1 k2 hle⟩⟩
  · exact offsetOf_core cfg hok.cmp cs _ t hcmp hidx hde hsz hixs k1
  · exact offsetOf_core cfg hok.cmp cs _ t hcmp hidx hde hsz hixs k2

example : ∃ t, Table.open exCfg true (Table.write exCfg exKVs) = some t ∧
    ∃ o1 o2, t.offsetOf [1, 2] = .ok o1 ∧ t.offsetOf [3] = .ok o2 ∧ o1 ≤ o2 :=
  let ⟨t, ho, h⟩ := offsetOf_monotone exCfg exCfg_ok exKVs exKVs_sorted exKVs_keys (by decide +kernel) true
  ⟨t, ho, h [1, 2] [3] (by decide)⟩

/-! ## (f) filter blocks -/

/-- **filter partition.**  Feed the filter writer any sequence of data blocks — `add` for each key, then
`flush(end offset)` — with non-decreasing offsets (`bs` lists the blocks as (end offset, keys); block `i` starts
where block `i-1` ended, the first at 0).  Then `finish` emits a filter block holding one filter per key list in
some `segs` such that: the keys added while the block starting at offset `s` was being filled are in list number
`s >>> baseLg`; every list holds only keys of blocks mapped to it; and once the block is read back from a file,
`filterBlock.contains` for a data block at offset `o` consults exactly the filter generated from list
`o >>> baseLg`. -/
theorem filter_partition (pol : FilterPolicy) (lg : Nat) (bs : List (Nat × List Bytes)) (hm : MonoEnds 0 bs) :
    ∃ segs, (feedAll pol lg {} bs).finish pol lg = filterBlockBytes pol lg segs ∧
      (∀ b ∈ histOf 0 bs, ∀ k ∈ b.2, b.1 >>> lg < segs.length ∧ k ∈ segs.getD (b.1 >>> lg) []) ∧
      (∀ f k, k ∈ segs.getD f [] → ∃ b ∈ histOf 0 bs, b.1 >>> lg = f ∧ k ∈ b.2) ∧
      (∀ cksum, Cksum32 cksum → lg < 256 → (flat pol segs).length < 2 ^ 32 → ∀ A C : Bytes,
        ∃ fb, readFilterBlock cksum (A ++ (withTrailer cksum (filterBlockBytes pol lg segs) ++ C))
              ⟨A.length, (filterBlockBytes pol lg segs).length⟩ = some fb ∧
          ∀ o key, o >>> lg < segs.length → segBytes pol (segs.getD (o >>> lg) []) ≠ [] →
            fb.contains pol o key = pol.contains (segBytes pol (segs.getD (o >>> lg) [])) key) := by
  obtain ⟨segs, h1, h2, h3⟩ := filter_partition_writer pol lg bs hm
  refine ⟨segs, h1, h2, h3, ?_⟩
  intro cksum hck hlg hsz A C
  exact ⟨_, readFilterBlock_at hck A C pol lg segs hlg hsz, fun o key hi hne =>
    contains_written pol lg segs hsz o key hi hne⟩

/-- a toy policy for the examples: the filter is the list of first bytes of the keys (plus a terminator) -/
def exPol : FilterPolicy where
  name := [102, 98]
  generate := fun ks => ks.map (fun k => k.headD 0) ++ [0]
  contains := fun f k => f.contains (k.headD 0)

theorem exPol_lawful : LawfulFilter exPol := by
  intro ks k hk
  simp only [exPol, List.contains_eq_mem, List.mem_append, List.mem_map, decide_eq_true_eq]
  exact Or.inl ⟨k, hk, rfl⟩

theorem exPol_gen : GenNonempty exPol := by
  intro ks _
  simp [exPol]

example : ∃ segs, (feedAll exPol 4 {} [(20, [[1], [2]]), (40, [[3]]), (41, [])]).finish exPol 4
      = filterBlockBytes exPol 4 segs ∧
    ∀ b ∈ histOf 0 [(20, [[1], [2]]), (40, [[3]]), (41, [])], ∀ k ∈ b.2,
      b.1 >>> 4 < segs.length ∧ k ∈ segs.getD (b.1 >>> 4) [] :=
  let ⟨segs, h1, h2, _⟩ := filter_partition exPol 4 [(20, [[1], [2]]), (40, [[3]]), (41, [])] (by simp [MonoEnds])
  ⟨segs, h1, h2⟩

/-- with a lawful filter policy (no false negatives, non-empty output for a non-empty key set) a *filtered*
`Find` / `FindKey` of a stored key is never answered "absent": it returns the stored pair -/
theorem table_filtered_find_stored (cfg : TableCfg) (pol : FilterPolicy) (hf : cfg.filter = some pol)
    (hok : CfgOK cfg) (hlaw : LawfulFilter pol) (hgen : GenNonempty pol) (hlg : cfg.filterBaseLg < 256)
    (kvs : List KV) (hs : SmallKV kvs) (hsorted : StrictSorted cfg.cmp kvs) (hk : TailKeysNonempty kvs)
    (hsz : (Table.write cfg kvs).length < 2 ^ 32) (verify : Bool) (kv : KV) (hm : kv ∈ kvs) :
    ∃ t, Table.open cfg verify (Table.write cfg kvs) = some t ∧
      t.find kv.1 true = .ok kv ∧ t.findKey kv.1 true = .ok kv.1 := by
  obtain ⟨cs, hfile, hflat, hshape⟩ := write_shape_f cfg pol hf kvs
  rw [hfile] at hsz ⊢
  have hne : ∀ c ∈ cs, c ≠ [] := by
    rcases hshape with ⟨h, _⟩ | ⟨_, h⟩
    · subst h; simp at hm
    · exact h
  obtain ⟨t, ho, hfind⟩ := find_filtered_stored cfg pol hf hok.cmp hok.sep hok.succ hok.ck hlaw hgen hlg cs
    (chunksOK_of hflat hne hsorted hk) (hflat ▸ hs) hsz verify kv (hflat ▸ hm)
  exact ⟨t, ho, hfind, by simp [TableR.findKey, hfind]⟩

def exCfgF : TableCfg := { exCfg with filter := some exPol }

example : ∃ t, Table.open exCfgF true (Table.write exCfgF exKVs) = some t ∧
    t.find [3, 0] true = .ok ([3, 0], [2]) ∧ t.findKey [3, 0] true = .ok [3, 0] :=
  table_filtered_find_stored exCfgF exPol rfl
    ⟨bytesCompare_lawful, by intro a b d _ h; simp [exCfgF, exCfg] at h, by intro b d h; simp [exCfgF, exCfg] at h,
     by intro bs; simp only [exCfgF, exCfg]; omega⟩
    exPol_lawful exPol_gen (by decide) exKVs exKVs_small exKVs_sorted exKVs_keys (by decide +kernel) true
    ([3, 0], [2]) (by simp [exKVs])

/-! ## (h) `blockIter`: the byte-level iterator over one block refines the cursor

Model: `GoLevel/Model/BlockIter.lean` — `block.seek` / `restartIndex` / `restartOffset` / `entry` and `blockIter`
with `offset`, `prevOffset`, `prevNode`, `prevKeys`, `restartIndex`, `dir`, the slice fields and `err`, methods
`First/Last/Seek/Next/Prev` as coded, `newBlockIter` with a `util.Range` (differential: `tbl biter` lines of
`harness/wp/c13`, answered by the real `blockIter`).  `BIter.run` lists, per call, the Boolean returned and
`Key()/Value()`; `BIter.exec` is the iterator afterwards.  The proofs are over an abstract block layout
(`Proofs/BlockIterLayout.lean`: any strictly increasing restart array whose targets store their key in full), which
`Block.build` output has for every restart interval. -/

/-- **Whole block.**  Over a block written from strictly increasing pairs — any restart interval — a fresh
unsliced `blockIter` answers EVERY finite sequence of `First/Last/Seek/Next/Prev` exactly like the specification
cursor over the pairs: same Boolean, same `Key()/Value()` after each call (restart-point binary search, the
`Prev` cache rebuilt from the previous restart point, direction changes, running off either end and coming
back); and `err` stays `nil` (so no loop of the model runs out of fuel either). -/
theorem block_iter_refines_cursor {cmp : Bytes → Bytes → Ordering} (hc : LawfulCmp cmp) (ri : Nat) (kvs : List KV)
    (hs : SmallKV kvs) (hsorted : StrictSorted cmp kvs) (hsz : (Block.build ri kvs).length < 2 ^ 32)
    (cs : List (Call Bytes)) :
    ∃ b, Block.read (Block.build ri kvs) = some b ∧
      BIter.run cmp b (newBlockIter cmp b none false) cs =
        ((Cursor.run kvs (geK cmp) .soi cs).map fun o => (o.isSome, o)) ∧
      (BIter.exec cmp b (newBlockIter cmp b none false) cs).err = none :=
  ⟨_, read_build_layout ri kvs hsz, run_whole (layout_build ri kvs hs hsz) hc hsorted cs,
    exec_whole (layout_build ri kvs hs hsz) hc hsorted cs⟩

/-- a walk with `Prev` after `Seek`, `Next` after `Last`, movement past both ends -/
def exWalk : List (Call Bytes) :=
  [.first, .next, .next, .prev, .seek [2, 5], .prev, .prev, .last, .next, .prev, .prev, .seek [9], .prev,
   .first, .prev, .prev, .next, .seek [], .prev]

-- restart interval 2 (restart points at entries 0, 2, 4, 6): the answers, spelled out
example : ∃ b, Block.read (Block.build 2 exKVs) = some b ∧
    (BIter.run bytesCompare b (newBlockIter bytesCompare b none false) exWalk).map (fun r => r.2.map (·.1)) =
      [some [1], some [1, 2], some [1, 2, 3], some [1, 2], some [3], some [2], some [1, 2, 3], some [3, 0, 0], none,
       some [3, 0, 0], some [3, 0], none, some [3, 0, 0], some [1], none, none, some [1], some [1], none] := by
  obtain ⟨b, hb, hrun, _⟩ := block_iter_refines_cursor bytesCompare_lawful 2 exKVs exKVs_small exKVs_sorted
    (by decide +kernel) exWalk
  exact ⟨b, hb, by rw [hrun]; decide⟩

-- restart interval 1 (every entry a restart point), 3 and 16 (a single restart point)
example (cs : List (Call Bytes)) : ∃ b, Block.read (Block.build 1 exKVs) = some b ∧
    BIter.run bytesCompare b (newBlockIter bytesCompare b none false) cs =
      ((Cursor.run exKVs (geK bytesCompare) .soi cs).map fun o => (o.isSome, o)) ∧
    (BIter.exec bytesCompare b (newBlockIter bytesCompare b none false) cs).err = none :=
  block_iter_refines_cursor bytesCompare_lawful 1 exKVs exKVs_small exKVs_sorted (by decide +kernel) cs

example (cs : List (Call Bytes)) : ∃ b, Block.read (Block.build 3 exKVs) = some b ∧
    BIter.run bytesCompare b (newBlockIter bytesCompare b none false) cs =
      ((Cursor.run exKVs (geK bytesCompare) .soi cs).map fun o => (o.isSome, o)) ∧
    (BIter.exec bytesCompare b (newBlockIter bytesCompare b none false) cs).err = none :=
  block_iter_refines_cursor bytesCompare_lawful 3 exKVs exKVs_small exKVs_sorted (by decide +kernel) cs

example (cs : List (Call Bytes)) : ∃ b, Block.read (Block.build 16 exKVs) = some b ∧
    BIter.run bytesCompare b (newBlockIter bytesCompare b none false) cs =
      ((Cursor.run exKVs (geK bytesCompare) .soi cs).map fun o => (o.isSome, o)) ∧
    (BIter.exec bytesCompare b (newBlockIter bytesCompare b none false) cs).err = none :=
  block_iter_refines_cursor bytesCompare_lawful 16 exKVs exKVs_small exKVs_sorted (by decide +kernel) cs

/-- **Sliced block.**  `newBlockIter(b, _, &util.Range{Start, Limit}, inclLimit)` — the bounds found with `Seek`
(and `Next` when `inclLimit`), `riStart/riLimit`, `offsetStart/offsetRealStart/offsetLimit` set from them — answers
every call sequence like the cursor over the slice: `sliceBlock` (pairs from the first key `≥ Start` up to the
first key `≥ Limit`, exclusive) for a data block, `sliceIndex` (… inclusive) for the index block; any bounds
(absent, inverted, outside the key range), any restart interval; `err` stays `nil`.  Excluded: an EMPTY block
with a non-nil `Start` (see the example below: a later `Seek` reports corruption). -/
theorem block_iter_slice_refines_cursor {cmp : Bytes → Bytes → Ordering} (hc : LawfulCmp cmp) (ri : Nat)
    (kvs : List KV) (hs : SmallKV kvs) (hsorted : StrictSorted cmp kvs) (hsz : (Block.build ri kvs).length < 2 ^ 32)
    (sl : BRange) (inclLimit : Bool) (hne : kvs ≠ [] ∨ sl.start = none) (cs : List (Call Bytes)) :
    ∃ b, Block.read (Block.build ri kvs) = some b ∧
      BIter.run cmp b (newBlockIter cmp b (some sl) inclLimit) cs =
        ((Cursor.run (sliceOf cmp sl inclLimit kvs) (geK cmp) .soi cs).map fun o => (o.isSome, o)) ∧
      (BIter.exec cmp b (newBlockIter cmp b (some sl) inclLimit) cs).err = none :=
  ⟨_, read_build_layout ri kvs hsz, run_slice (layout_build ri kvs hs hsz) hc hsorted sl inclLimit hne cs⟩

/-- … for a data block (`inclLimit = false`) the slice is the sub-list of the pairs with `Start ≤ key < Limit` -/
theorem block_iter_range_refines_cursor {cmp : Bytes → Bytes → Ordering} (hc : LawfulCmp cmp) (ri : Nat)
    (kvs : List KV) (hs : SmallKV kvs) (hsorted : StrictSorted cmp kvs) (hsz : (Block.build ri kvs).length < 2 ^ 32)
    (sl : BRange) (hne : kvs ≠ [] ∨ sl.start = none) (cs : List (Call Bytes)) :
    ∃ b, Block.read (Block.build ri kvs) = some b ∧
      BIter.run cmp b (newBlockIter cmp b (some sl) false) cs =
        ((Cursor.run (kvs.filter (inRange cmp sl.start sl.limit)) (geK cmp) .soi cs).map fun o => (o.isSome, o)) ∧
      (BIter.exec cmp b (newBlockIter cmp b (some sl) false) cs).err = none := by
  obtain ⟨b, hb, hrun, herr⟩ := block_iter_slice_refines_cursor hc ri kvs hs hsorted hsz sl false hne cs
  refine ⟨b, hb, ?_, herr⟩
  rw [hrun]
  simp only [sliceOf, Bool.false_eq_true, if_false]
  rw [sliceBlock_sorted hc sl.start sl.limit kvs hsorted]

-- a slice that starts inside a restart range and ends at a restart point (restart interval 2, range [[1,2], [3])):
-- `Last` then `Prev` down past the start, `Seek` below the start, `Seek` at the limit
example : ∃ b, Block.read (Block.build 2 exKVs) = some b ∧
    (BIter.run bytesCompare b (newBlockIter bytesCompare b (some ⟨some [1, 2], some [3]⟩) false)
        [.last, .prev, .prev, .prev, .next, .seek [], .seek [3], .prev]).map (fun r => r.2.map (·.1)) =
      [some [2], some [1, 2, 3], some [1, 2], none, some [1, 2], some [1, 2], none, some [2]] := by
  obtain ⟨b, hb, hrun, _⟩ := block_iter_range_refines_cursor bytesCompare_lawful 2 exKVs exKVs_small exKVs_sorted
    (by decide +kernel) ⟨some [1, 2], some [3]⟩ (Or.inl (by decide))
    [.last, .prev, .prev, .prev, .next, .seek [], .seek [3], .prev]
  exact ⟨b, hb, by rw [hrun]; decide⟩

-- the index-block flavour (`inclLimit = true`, restart interval 1): the first key `≥ Limit` is kept
example : ∃ b, Block.read (Block.build 1 exKVs) = some b ∧
    (BIter.run bytesCompare b (newBlockIter bytesCompare b (some ⟨some [1, 2], some [2, 5]⟩) true)
        [.last, .next, .prev, .prev, .first]).map (fun r => r.2.map (·.1)) =
      [some [3], none, some [3], some [2], some [1, 2]] := by
  obtain ⟨b, hb, hrun, _⟩ := block_iter_slice_refines_cursor bytesCompare_lawful 1 exKVs exKVs_small exKVs_sorted
    (by decide +kernel) ⟨some [1, 2], some [2, 5]⟩ true (Or.inl (by decide)) [.last, .next, .prev, .prev, .first]
  exact ⟨b, hb, by rw [hrun]; decide⟩

-- the excluded case is real (known finding of C13): on an EMPTY block sliced with a non-nil `Start`, `Seek` makes
-- `block.seek` run with `rstart = rlimit = restartsLen`, read the restart COUNT (1) as an offset, and `Next` reports
-- "entries offset not aligned" (1 ≠ offsetLimit = 0) instead of "no such key"
example : (Block.read (Block.build 16 [])).map (fun b =>
    (BIter.exec bytesCompare b (newBlockIter bytesCompare b (some ⟨some [1], none⟩) false) [.seek [2]]).err)
      = some (some .corrupted) := by decide +kernel

/-! ## (g) damage -/

/-- if the block at `bh` verifies, altering any single byte of payload ‖ type ‖ checksum makes `readRawBlock`
(verification on) report corruption — stated over the abstract checksum -/
theorem block_damage_detected {cksum : Bytes → Nat} (hd : DetectsSingle cksum) (file : Bytes) (bh : BH)
    (hin : bh.offset + bh.length + Gen.blockTrailerLen ≤ file.length)
    (hok : rd32 ((rawSlice file bh).drop (bh.length + 1)) = cksum ((rawSlice file bh).take (bh.length + 1)))
    (i : Nat) (b : UInt8) (hlo : bh.offset ≤ i) (hhi : i < bh.offset + bh.length + Gen.blockTrailerLen)
    (hne : b ≠ file[i]'(by omega)) :
    readRawBlock cksum (file.set i b) bh true = none :=
  readRawBlock_damage hd file bh hin hok i b hlo hhi hne

/-- non-vacuity: the little-endian value of the input is a checksum that detects every single altered position -/
example : readRawBlock rdLE ((withTrailer rdLE [1, 2, 3]).set 1 9) ⟨0, 3⟩ true = none :=
  block_damage_detected (cksum := rdLE) (fun bs i b h hne => rdLE_set_ne bs i b h hne)
    (withTrailer rdLE [1, 2, 3]) ⟨0, 3⟩ (by decide) (by decide) 1 9 (by decide) (by decide) (by decide)

-- a checksum without `DetectsSingle` (here: the length mod 7) lets the same damage through
example : readRawBlock (fun bs => bs.length % 7) ((withTrailer (fun bs => bs.length % 7) [1, 2, 3]).set 1 9) ⟨0, 3⟩ true
    = some [1, 9, 3] := by decide

/-! ## compressed blocks (reader side; executable model only, tied by the differential) -/

-- literal "ab", then an overlapping copy (offset 2, length 8): "ababababab"
example : Snappy.decode [10, 4, 97, 98, 17, 2] = some [97, 98, 97, 98, 97, 98, 97, 98, 97, 98] := by decide

-- a stated length that the elements do not fill is an error
example : Snappy.decode [11, 4, 97, 98, 17, 2] = none := by decide

-- `readRawBlock` decodes a block whose type byte says snappy (toy checksum as in `exCfg`)
example : readRawBlock (fun bs => bs.length % 7) ([10, 4, 97, 98, 17, 2] ++ [1] ++ le32 0) ⟨0, 6⟩ true
    = some [97, 98, 97, 98, 97, 98, 97, 98, 97, 98] := by decide

end GoLevel.C13

/-- the property theorems of C13 -/
def GoLevel.C13.theorems : List String :=
  ["GoLevel.C13.block_decode_build", "GoLevel.C13.block_seek_spec", "GoLevel.C13.table_entries_write",
   "GoLevel.C13.table_range_spec", "GoLevel.C13.table_find_spec", "GoLevel.C13.table_get_spec", "GoLevel.C13.offsetOf_monotone",
   "GoLevel.C13.filter_partition", "GoLevel.C13.table_filtered_find_stored", "GoLevel.C13.block_damage_detected",
   "GoLevel.C13.block_iter_refines_cursor", "GoLevel.C13.block_iter_slice_refines_cursor",
   "GoLevel.C13.block_iter_range_refines_cursor"]

#print axioms GoLevel.C13.block_decode_build
#print axioms GoLevel.C13.block_seek_spec
#print axioms GoLevel.C13.table_entries_write
#print axioms GoLevel.C13.table_range_spec
#print axioms GoLevel.C13.table_find_spec
#print axioms GoLevel.C13.table_get_spec
#print axioms GoLevel.C13.offsetOf_monotone
#print axioms GoLevel.C13.filter_partition
#print axioms GoLevel.C13.table_filtered_find_stored
#print axioms GoLevel.C13.block_damage_detected
#print axioms GoLevel.C13.block_iter_refines_cursor
#print axioms GoLevel.C13.block_iter_slice_refines_cursor
#print axioms GoLevel.C13.block_iter_range_refines_cursor
